#!/usr/bin/env python3
"""Regenerates MANIFEST.json from checks_config.py + manifest_text.py (kept valid at all times)."""
import json, os, sys
ROOT = os.path.dirname(os.path.abspath(__file__))
sys.path.insert(0, ROOT)
from checks_config import PROPS
from manifest_text import TEXT, NOT_APPLICABLE

BASE = ("cd /repo/$(cat /w/out/cargo_root.txt) && cargo nextest run --workspace --no-fail-fast "
        "--tool-config-file pb:/w/lib/nextest.toml --profile pb --test-threads 8 --offline")
m = dict(
    version=1,
    setup_cmd="cd /verif && ./setup.sh",
    hooks=dict(guard="ozsc_verif", enable="no hooks are needed: every observation goes through public functions, "
               "pass-through harness contracts, #[path]-included example sources and env.auths(); "
               "the guard name --cfg ozsc_verif is reserved", baseline_off_cmd=BASE, source_commits=[], add_only=True),
    engines=[dict(name="lean-proof+correspondence", path="/verif/check", serves_properties=sorted(PROPS),
                  kind_free_text="Lean 4 theorems over a hand-written model (lean/OZ/Props), tied to /repo by a "
                  "differential correspondence check (Rust harness in harness/, Lean driver in lean/OZ/Drv)")],
    checks=[], not_applicable=NOT_APPLICABLE,
    notes="See DESIGN.md. ./check <id> --tier quick|thorough; replays are written to /verif/replays/.")
for pid in sorted(PROPS):
    t = TEXT[pid]
    m["checks"].append(dict(
        property_id=pid,
        quick_cmd=f"./check {pid} --tier quick",
        thorough_cmd=f"./check {pid} --tier thorough",
        evidence_file=f"/verif/evidence/{pid}.json",
        replay_cmd_template=f"./check {pid} --replay {{path}}",
        engine="lean-proof+correspondence",
        level_claimed=dict(category="proof", text=t["text"], design_ref=t.get("design_ref", f"DESIGN.md section 7, {pid}")),
        level_note=t["note"],
        technique=("machine-checked proof in Lean 4 (kernel-checked theorems over a hand-written model) + checked model/implementation correspondence"
                   + (" + translator tie (the pure core is re-translated from the Rust source to Lean on every run and proved equal to the model)"
                      if PROPS[pid].get("gen") else ""))))
json.dump(m, open(os.path.join(ROOT, "MANIFEST.json"), "w"), indent=1)
print("MANIFEST.json:", len(m["checks"]), "checks,", len(NOT_APPLICABLE), "not_applicable")
