//! Shared by the C10 / C11 binaries (included with `#[path]`, not part of the library crate):
//! the four NFT contracts under test — the three example contracts compiled from /repo's
//! working tree and a harness contract exposing `Base::mint` with an explicit id — one
//! simulator that drives them through real invocations, and the canonical observation line.
//!
//! op line   : nft <kind> a=<addr,..> id=<u32> n=<u32> lu=<u32> auth=<addr,..> q=<lo-hi,..> qa=<id,..>
//! obs line  : ok|err ret=<id|-> own=<lo-hi:owner|x,..> oq=<id:owner|x,..> bal=<b0,..> uri=<ids> appr=<id:addr,..>
//!             (own = bulk windows, oq = `owner_of` invocations for the ids in qa) opr=<owner:operator,..> ts=<n|-> gl=<..> ol=<..> now=<ledger> dem=<addr,..>
#![allow(dead_code)]
use ozharness::*;
use soroban_sdk::{contract, contractimpl, contracttype, Address, Env, IntoVal, String as SString, Val};
use stellar_tokens::non_fungible::{burnable::NonFungibleBurnable, Base, NonFungibleToken};

#[path = "/repo/examples/nft-sequential-minting/src/contract.rs"]
pub mod ex_seq;
#[path = "/repo/examples/nft-enumerable/src/contract.rs"]
pub mod ex_enum;
#[path = "/repo/examples/nft-consecutive/src/contract.rs"]
pub mod ex_cons;
#[path = "/repo/examples/nft-access-control/src/contract.rs"]
pub mod ex_acx;

#[contracttype]
pub enum XKey {
    Admin,
}

/// harness contract: `Base` with explicit-id minting (and sequential minting beside it)
#[contract]
pub struct ExplicitNft;

#[contractimpl]
impl ExplicitNft {
    pub fn __constructor(e: &Env, uri: SString, name: SString, symbol: SString, owner: Address) {
        e.storage().instance().set(&XKey::Admin, &owner);
        Base::set_metadata(e, uri, name, symbol);
    }
    pub fn mint_id(e: &Env, to: Address, token_id: u32) {
        let owner: Address = e.storage().instance().get(&XKey::Admin).expect("owner should be set");
        owner.require_auth();
        Base::mint(e, &to, token_id);
    }
    pub fn mint(e: &Env, to: Address) -> u32 {
        let owner: Address = e.storage().instance().get(&XKey::Admin).expect("owner should be set");
        owner.require_auth();
        Base::sequential_mint(e, &to)
    }
}

#[contractimpl(contracttrait)]
impl NonFungibleToken for ExplicitNft {
    type ContractType = Base;
}

#[contractimpl(contracttrait)]
impl NonFungibleBurnable for ExplicitNft {}

/// harness contract: the consecutive flavour built from the library's pieces with every entry point LEFT TO THE
/// TRAIT DEFAULTS (`type ContractType = Consecutive`, dispatch through `ContractOverrides`) — the example contract
/// spells every method out and so never reaches that dispatch
#[contract]
pub struct ConsLib;

#[contractimpl]
impl ConsLib {
    pub fn __constructor(e: &Env, uri: SString, name: SString, symbol: SString, owner: Address) {
        e.storage().instance().set(&XKey::Admin, &owner);
        Base::set_metadata(e, uri, name, symbol);
    }
    pub fn batch_mint(e: &Env, to: Address, amount: u32) -> u32 {
        let owner: Address = e.storage().instance().get(&XKey::Admin).expect("owner should be set");
        owner.require_auth();
        stellar_tokens::non_fungible::consecutive::Consecutive::batch_mint(e, &to, amount)
    }
}

#[contractimpl(contracttrait)]
impl NonFungibleToken for ConsLib {
    type ContractType = stellar_tokens::non_fungible::consecutive::Consecutive;
}

impl stellar_tokens::non_fungible::consecutive::NonFungibleConsecutive for ConsLib {}

#[contractimpl(contracttrait)]
impl NonFungibleBurnable for ConsLib {}

pub const N: usize = 6; // actors 0..5; index 6 is the contracts' admin (signs mints only)
pub const ADMIN: usize = 6;
/// index 7 is the NFT contract's own address (pushed into the universe once the contract is deployed): nobody can
/// sign for it from outside
pub const SELF: usize = 7;
pub const MAX_TTL: u32 = 200_000;
/// long-horizon host: max_entry_ttl of about a year, so persistent / instance entries of the
/// unmodified code (min_persistent_entry_ttl = max - 1) survive idle gaps of months
pub const MAX_TTL_LONG: u32 = 6_312_000;
pub const LEDGERS_PER_DAY: u32 = 17_280;
pub const IDS_IN_BUCKET: u32 = stellar_tokens::non_fungible::consecutive::storage::IDS_IN_BUCKET as u32;
pub const MAX_BATCH: u32 = stellar_tokens::non_fungible::consecutive::storage::MAX_TOKENS_IN_BATCH as u32;

#[derive(Clone, Copy, PartialEq, Eq, Debug)]
pub enum Flavour {
    Seq,
    Exp,
    Enum,
    Cons,
    /// examples/nft-access-control: `Base` with explicit-id minting behind a "minter" role and burning
    /// behind a "burner" role. The simulator gives the admin account the minter role and EVERY actor
    /// the burner role, so the contract must behave exactly like the explicit-id flavour (the role is
    /// an additional condition, never a replacement of the owner / approved / operator rule).
    Acx,
}

impl Flavour {
    pub fn name(&self) -> &'static str {
        match self {
            Flavour::Seq => "seq",
            Flavour::Exp => "exp",
            Flavour::Enum => "enum",
            Flavour::Cons => "cons",
            // modelled by the explicit-id flavour (see above)
            Flavour::Acx => "exp",
        }
    }
}

pub struct Sim {
    pub e: Env,
    pub u: Universe,
    pub tok: Address,
    pub fl: Flavour,
    /// the consecutive flavour: the library-built contract `ConsLib` instead of the example contract
    pub lib: bool,
    pub now: u32,
    pub min_temp: u32,
    pub max_ttl: u32,
}

/// merge `[lo, hi]` ranges: sorted, disjoint, non-adjacent
pub fn merge_ranges(mut r: Vec<(u32, u32)>) -> Vec<(u32, u32)> {
    r.sort();
    let mut out: Vec<(u32, u32)> = vec![];
    for (lo, hi) in r {
        if let Some(last) = out.last_mut() {
            if lo as u64 <= last.1 as u64 + 1 {
                if hi > last.1 {
                    last.1 = hi;
                }
                continue;
            }
        }
        out.push((lo, hi));
    }
    out
}

pub fn around(x: u32, w: u32) -> (u32, u32) {
    (x.saturating_sub(w), x.saturating_add(w))
}

impl Sim {
    pub fn new(fl: Flavour, min_temp: u32, start: u32) -> Sim {
        Sim::with_ttl(fl, min_temp, start, MAX_TTL)
    }
    pub fn with_ttl(fl: Flavour, min_temp: u32, start: u32, max_ttl: u32) -> Sim {
        let e = new_env(start, min_temp, max_ttl);
        // diagnostics off (`DiagnosticLevel::None` is the type's default): otherwise every failing
        // call externalizes all debug events so far and resolves a backtrace (~5 ms each)
        let _ = e.host().set_diagnostic_level(Default::default());
        // natively executed contracts: the CPU/memory budget means nothing, and long owner
        // windows are read inside one frame
        e.cost_estimate().budget().reset_unlimited();
        let mut u = Universe::new(&e, N + 1);
        // every other collection is deployed with an EMPTY base URI (only the existence of token_uri(id)
        // is observed, never its text): the getter must refuse unknown ids whatever the metadata
        static SIMS: std::sync::atomic::AtomicU32 = std::sync::atomic::AtomicU32::new(0);
        let k = SIMS.fetch_add(1, std::sync::atomic::Ordering::Relaxed);
        let uri = SString::from_str(&e, if k % 2 == 1 { "" } else { "https://x.example/" });
        let name = SString::from_str(&e, "N");
        let sym = SString::from_str(&e, "S");
        let admin = u.a(ADMIN).clone();
        let tok = match fl {
            Flavour::Seq => e.register(ex_seq::ExampleContract, (uri, name, sym, admin)),
            Flavour::Exp => e.register(ExplicitNft, (uri, name, sym, admin)),
            Flavour::Enum => e.register(ex_enum::ExampleContract, (uri, name, sym, admin)),
            Flavour::Cons if k % 3 == 2 => e.register(ConsLib, (uri, name, sym, admin)),
            Flavour::Cons => e.register(ex_cons::ExampleContract, (uri, name, sym, admin)),
            Flavour::Acx => {
                let c = e.register(ex_acx::ExampleContract, (uri, name, sym, admin.clone()));
                e.mock_all_auths();
                let grant = |who: &Address, role: &str| {
                    let _: () = e.invoke_contract(
                        &c,
                        &soroban_sdk::Symbol::new(&e, "grant_role"),
                        args(&e, [who.into_val(&e), soroban_sdk::Symbol::new(&e, role).into_val(&e), admin.into_val(&e)]),
                    );
                };
                grant(&admin, "minter");
                for i in 0..N {
                    grant(u.a(i), "burner");
                }
                c
            }
        };
        assert_eq!(u.push(tok.clone()), SELF);
        Sim { e, u, tok, fl, lib: fl == Flavour::Cons && k % 3 == 2, now: start, min_temp, max_ttl }
    }
    pub fn label(&self, what: &str) -> String {
        format!("{} flavour={} min_temp={} start={} max_ttl={}", what, self.fl.name(), self.min_temp, self.now, self.max_ttl)
    }
    fn ad(&self, i: usize) -> Val {
        self.u.a(i).into_val(&self.e)
    }
    pub fn owner_of(&self, id: u32) -> Option<usize> {
        let a: Option<Address> = query(&self.e, &self.tok, "owner_of", args(&self.e, [v(&self.e, id)]));
        a.map(|a| self.u.index_of(&a).unwrap_or(99))
    }
    /// `owner_of` for the bulk windows `lo..=hi`: the contract's own `NonFungibleToken::owner_of`
    /// (i.e. the body behind the exported entry point) run inside a contract frame of the
    /// host, without the argument (de)serialization of a full invocation. Several ids are read
    /// in one frame; a contract panic (= the token does not exist) is caught by the host
    /// (`try_with_test_contract_frame`), that id is recorded as absent and a new frame
    /// continues with the next id.
    pub fn owner_window(&self, lo: u32, hi: u32) -> Vec<Option<usize>> {
        let e = &self.e;
        let cid = match sc_address(&self.tok) {
            soroban_sdk::xdr::ScAddress::Contract(c) => c,
            _ => unreachable!(),
        };
        let func = soroban_sdk::Symbol::new(e, "owner_of").to_symbol_val().clone();
        let fl = self.fl;
        let lib = self.lib;
        let mut res: Vec<Option<usize>> = vec![];
        let mut id = lo;
        loop {
            let start = id;
            let mut got: Vec<Address> = vec![];
            let r = catch(|| {
                e.host().try_with_test_contract_frame(cid.clone(), func, || {
                    let mut j = start;
                    loop {
                        got.push(match fl {
                            Flavour::Seq => <ex_seq::ExampleContract as NonFungibleToken>::owner_of(e, j),
                            Flavour::Exp => <ExplicitNft as NonFungibleToken>::owner_of(e, j),
                            Flavour::Enum => <ex_enum::ExampleContract as NonFungibleToken>::owner_of(e, j),
                            Flavour::Cons if lib => <ConsLib as NonFungibleToken>::owner_of(e, j),
                            Flavour::Cons => <ex_cons::ExampleContract as NonFungibleToken>::owner_of(e, j),
                            Flavour::Acx => <ex_acx::ExampleContract as NonFungibleToken>::owner_of(e, j),
                        });
                        if j == hi || j - start >= 63 {
                            break;
                        }
                        j += 1;
                    }
                    Ok(().into())
                })
            });
            let k = got.len() as u64;
            for a in got.iter() {
                res.push(Some(self.u.index_of(a).unwrap_or(99)));
            }
            let ok = matches!(r, Some(Ok(_)));
            if !ok {
                // the id after the successfully read ones failed
                res.push(None);
            }
            let next = start as u64 + k + if ok { 0 } else { 1 };
            if next > hi as u64 {
                break;
            }
            id = next as u32;
        }
        res
    }
    pub fn owner_of_fast(&self, id: u32) -> Option<usize> {
        self.owner_window(id, id)[0]
    }
    pub fn bal(&self, i: usize) -> u32 {
        query(&self.e, &self.tok, "balance", args(&self.e, [self.ad(i)])).unwrap()
    }
    pub fn get_approved(&self, id: u32) -> Option<usize> {
        let a: Option<Option<Address>> = query(&self.e, &self.tok, "get_approved", args(&self.e, [v(&self.e, id)]));
        a.unwrap().map(|a| self.u.index_of(&a).unwrap_or(99))
    }
    pub fn is_operator(&self, o: usize, p: usize) -> bool {
        query(&self.e, &self.tok, "is_approved_for_all", args(&self.e, [self.ad(o), self.ad(p)])).unwrap()
    }
    pub fn uri_exists(&self, id: u32) -> bool {
        let r: Option<SString> = query(&self.e, &self.tok, "token_uri", args(&self.e, [v(&self.e, id)]));
        r.is_some()
    }
    pub fn total_supply(&self) -> u32 {
        query(&self.e, &self.tok, "total_supply", args(&self.e, [])).unwrap()
    }
    pub fn token_at(&self, i: u32) -> Option<u32> {
        query(&self.e, &self.tok, "get_token_id", args(&self.e, [v(&self.e, i)]))
    }
    pub fn owner_token_at(&self, a: usize, i: u32) -> Option<u32> {
        query(&self.e, &self.tok, "get_owner_token_id", args(&self.e, [self.ad(a), v(&self.e, i)]))
    }

    /// run-length encoded `owner_of` over the query ranges
    fn own_rle(&self, q: &[(u32, u32)]) -> String {
        let mut runs: Vec<String> = vec![];
        for &(lo, hi) in q {
            let w = self.owner_window(lo, hi);
            assert_eq!(w.len() as u64, hi as u64 - lo as u64 + 1);
            let mut start = lo;
            let mut cur = w[0];
            for (k, &o) in w.iter().enumerate().skip(1) {
                let id = lo + k as u32;
                if o != cur {
                    runs.push(format!("{}-{}:{}", start, id - 1, show_opt(cur)));
                    start = id;
                    cur = o;
                }
            }
            runs.push(format!("{}-{}:{}", start, hi, show_opt(cur)));
        }
        if runs.is_empty() {
            "-".into()
        } else {
            runs.join(",")
        }
    }

    pub fn state(&self, q: &[(u32, u32)], qa: &[u32], probe: &[usize]) -> String {
        let own = self.own_rle(q);
        self.state_rest(own, qa, probe)
    }
    fn state_rest(&self, own: String, qa: &[u32], probe: &[usize]) -> String {
        let bals: Vec<u32> = (0..N).map(|i| self.bal(i)).collect();
        let oq: Vec<String> = qa.iter().map(|&id| format!("{}:{}", id, show_opt(self.owner_of(id)))).collect();
        let uri: Vec<u32> = qa.iter().cloned().filter(|&id| self.uri_exists(id)).collect();
        let appr: Vec<String> =
            qa.iter().filter_map(|&id| self.get_approved(id).map(|a| format!("{}:{}", id, a))).collect();
        let mut opr: Vec<String> = vec![];
        for o in 0..N {
            for p in 0..N {
                if self.is_operator(o, p) {
                    opr.push(format!("{}:{}", o, p));
                }
            }
        }
        let en = if self.fl == Flavour::Enum {
            let ts = self.total_supply();
            let gl: Vec<String> = (0..=ts).map(|i| show_opt(self.token_at(i))).collect();
            let ol: Vec<String> = (0..N)
                .map(|a| {
                    // one index past the end (must fail) only for the accounts the op names
                    let b = if probe.contains(&a) { bals[a] + 1 } else { bals[a] };
                    if b == 0 {
                        return "-".to_string();
                    }
                    (0..b).map(|i| show_opt(self.owner_token_at(a, i))).collect::<Vec<_>>().join(",")
                })
                .collect();
            format!("ts={} gl={} ol={}", ts, gl.join(","), ol.join("|"))
        } else {
            "ts=- gl=- ol=-".to_string()
        };
        format!(
            "own={} oq={} bal={} uri={} appr={} opr={} {}",
            own,
            if oq.is_empty() { "-".into() } else { oq.join(",") },
            join(&bals),
            join(&uri),
            if appr.is_empty() { "-".into() } else { appr.join(",") },
            if opr.is_empty() { "-".into() } else { opr.join(",") },
            en
        )
    }

    /// run one operation through a real invocation with exactly `auth` authorizing it
    /// (the contract admin additionally signs mints); returns whether it succeeded and
    /// the returned token id, if any
    pub fn exec(
        &mut self,
        t: &mut Trace,
        kind: &str,
        a: &[usize],
        id: u32,
        n: u32,
        lu: u32,
        auth: &[usize],
        q: &[(u32, u32)],
        qa: &[u32],
    ) -> (bool, Option<u32>) {
        let e = &self.e;
        let (func, argv): (&str, soroban_sdk::Vec<Val>) = match kind {
            "mint" => ("mint", args(e, [self.ad(a[0])])),
            "mint_id" if self.fl == Flavour::Acx => ("mint", args(e, [self.ad(a[0]), v(e, id), self.ad(ADMIN)])),
            "mint_id" => ("mint_id", args(e, [self.ad(a[0]), v(e, id)])),
            "batch_mint" => ("batch_mint", args(e, [self.ad(a[0]), v(e, n)])),
            "transfer" => ("transfer", args(e, [self.ad(a[0]), self.ad(a[1]), v(e, id)])),
            "transfer_from" => ("transfer_from", args(e, [self.ad(a[0]), self.ad(a[1]), self.ad(a[2]), v(e, id)])),
            "approve" => ("approve", args(e, [self.ad(a[0]), self.ad(a[1]), v(e, id), v(e, lu)])),
            "approve_for_all" => ("approve_for_all", args(e, [self.ad(a[0]), self.ad(a[1]), v(e, lu)])),
            "burn" => ("burn", args(e, [self.ad(a[0]), v(e, id)])),
            "burn_from" => ("burn_from", args(e, [self.ad(a[0]), self.ad(a[1]), v(e, id)])),
            _ => unreachable!(),
        };
        t.op(&format!(
            "nft {} a={} id={} n={} lu={} auth={} q={} qa={}",
            kind,
            join(a),
            id,
            n,
            lu,
            join(auth),
            show_ranges(q),
            join(qa)
        ));
        let mut signers: Vec<&Address> = auth.iter().map(|&i| self.u.a(i)).collect();
        let is_mint = matches!(kind, "mint" | "mint_id" | "batch_mint");
        if is_mint {
            signers.push(self.u.a(ADMIN));
        }
        let r = call(e, &self.tok, func, argv, &signers);
        let (tag, ret, dem) = match &r {
            Some(val) => {
                let dem: Vec<usize> = demanded(e, &self.u).into_iter().filter(|&i| i != ADMIN).collect();
                let ret: Option<u32> = soroban_sdk::TryFromVal::try_from_val(e, val).ok();
                ("ok", ret, join(&dem))
            }
            None => ("err", None, "-".to_string()),
        };
        let st = self.state(q, qa, a);
        t.obs(&format!("{} ret={} {} now={} dem={}", tag, ret.map(|x| x.to_string()).unwrap_or("-".into()), st, self.now, dem));
        (r.is_some(), ret)
    }

    pub fn advance(&mut self, t: &mut Trace, n: u32, q: &[(u32, u32)], qa: &[u32]) {
        self.now += n;
        set_ledger(&self.e, self.now, self.min_temp, self.max_ttl);
        t.op(&format!("nft advance a=- id=0 n={} lu=0 auth=- q={} qa={}", n, show_ranges(q), join(qa)));
        let st = self.state(q, qa, &[]);
        t.obs(&format!("ok ret=- {} now={} dem=-", st, self.now));
    }
}

pub fn show_opt<T: std::fmt::Display>(x: Option<T>) -> String {
    match x {
        Some(v) => v.to_string(),
        None => "x".into(),
    }
}

pub fn show_ranges(q: &[(u32, u32)]) -> String {
    if q.is_empty() {
        "-".into()
    } else {
        q.iter().map(|(a, b)| format!("{}-{}", a, b)).collect::<Vec<_>>().join(",")
    }
}
