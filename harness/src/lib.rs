//! Shared plumbing of the correspondence harness: one PRNG, the trace writer, value
//! generators. Every per-property binary (`src/bin/cXX.rs`) links the crates of /repo's
//! current working tree through path dependencies and writes a trace in the line protocol
//! described in /verif/lean/OZ/DrvUtil.lean.
#![allow(clippy::all)]

use std::io::Write;

/// SplitMix64: the single source of randomness; everything derives from `VERIF_SEED`.
#[derive(Clone)]
pub struct Rng(pub u64);

impl Rng {
    pub fn new(seed: u64) -> Self {
        Rng(seed ^ 0x9E37_79B9_7F4A_7C15)
    }
    pub fn next(&mut self) -> u64 {
        self.0 = self.0.wrapping_add(0x9E37_79B9_7F4A_7C15);
        let mut z = self.0;
        z = (z ^ (z >> 30)).wrapping_mul(0xBF58_476D_1CE4_E5B9);
        z = (z ^ (z >> 27)).wrapping_mul(0x94D0_49BB_1331_11EB);
        z ^ (z >> 31)
    }
    pub fn below(&mut self, n: u64) -> u64 {
        if n == 0 {
            0
        } else {
            self.next() % n
        }
    }
    pub fn range(&mut self, lo: i64, hi: i64) -> i64 {
        lo + self.below((hi - lo + 1) as u64) as i64
    }
    pub fn chance(&mut self, percent: u64) -> bool {
        self.below(100) < percent
    }
    pub fn pick<'a, T>(&mut self, xs: &'a [T]) -> &'a T {
        &xs[self.below(xs.len() as u64) as usize]
    }
    pub fn u128(&mut self) -> u128 {
        ((self.next() as u128) << 64) | self.next() as u128
    }
    /// random i128 stratified by bit length (0..=127 bits), both signs
    pub fn i128_any(&mut self) -> i128 {
        let bits = self.below(128) as u32;
        let mag: u128 = if bits == 0 { 0 } else { (self.u128() >> (128 - bits)) | (1u128 << (bits - 1)) };
        let v = mag as i128;
        if self.chance(50) {
            v.wrapping_neg()
        } else {
            v
        }
    }
    /// random non-negative i128 stratified by bit length
    pub fn i128_nonneg(&mut self) -> i128 {
        let bits = self.below(127) as u32;
        if bits == 0 {
            0
        } else {
            ((self.u128() >> (128 - bits)) | (1u128 << (bits - 1))) as i128
        }
    }
    pub fn fork(&mut self) -> Rng {
        Rng(self.next())
    }
}

pub fn seed_from_env() -> u64 {
    std::env::var("VERIF_SEED").ok().and_then(|s| s.parse::<i64>().ok()).map(|v| v as u64).unwrap_or(20260929)
}

/// Trace writer (line protocol). Also counts distribution statistics that end up in the
/// evidence file: ops per kind, ok / err outcomes.
pub struct Trace {
    out: Box<dyn Write>,
    pub ops: u64,
    pub seqs: u64,
    pub stats: std::collections::BTreeMap<String, u64>,
}

impl Trace {
    pub fn to_path(path: &str) -> Self {
        let f = std::fs::File::create(path).expect("create trace");
        Trace { out: Box::new(std::io::BufWriter::new(f)), ops: 0, seqs: 0, stats: Default::default() }
    }
    pub fn from_args() -> Self {
        let args: Vec<String> = std::env::args().collect();
        let path = arg_value(&args, "--out").unwrap_or_else(|| "/dev/stdout".to_string());
        Self::to_path(&path)
    }
    pub fn seq(&mut self, label: &str) {
        self.seqs += 1;
        writeln!(self.out, "# {}", label).unwrap();
    }
    pub fn op(&mut self, line: &str) {
        self.ops += 1;
        let kind = line.split(' ').take(2).collect::<Vec<_>>().join(" ");
        *self.stats.entry(format!("op:{}", kind_key(&kind))).or_insert(0) += 1;
        writeln!(self.out, "> {}", line).unwrap();
    }
    pub fn obs(&mut self, line: &str) {
        let k = line.split(' ').next().unwrap_or("");
        *self.stats.entry(format!("obs:{}", k)).or_insert(0) += 1;
        writeln!(self.out, "< {}", line).unwrap();
    }
    pub fn count(&mut self, key: &str) {
        *self.stats.entry(key.to_string()).or_insert(0) += 1;
    }
    /// final line consumed by the orchestrator (not by the driver)
    pub fn finish(mut self) {
        let stats: Vec<String> = self.stats.iter().map(|(k, v)| format!("{}={}", k, v)).collect();
        writeln!(self.out, "% stats seqs={} ops={} {}", self.seqs, self.ops, stats.join(" ")).unwrap();
        self.out.flush().unwrap();
    }
}

fn kind_key(kind: &str) -> String {
    // "fungible transfer_from" stays; "md128 v=plain" -> "md128"
    let mut parts = kind.split(' ');
    let a = parts.next().unwrap_or("");
    match parts.next() {
        Some(b) if !b.contains('=') => format!("{}_{}", a, b),
        _ => a.to_string(),
    }
}

pub fn arg_value(args: &[String], key: &str) -> Option<String> {
    args.iter().position(|a| a == key).and_then(|i| args.get(i + 1).cloned())
}

pub fn arg_u64(key: &str, default: u64) -> u64 {
    let args: Vec<String> = std::env::args().collect();
    arg_value(&args, key).and_then(|v| v.parse().ok()).unwrap_or(default)
}

pub fn arg_str(key: &str) -> Option<String> {
    let args: Vec<String> = std::env::args().collect();
    arg_value(&args, key)
}

/// Run `f`, mapping a Rust panic to `None`. The default panic hook is silenced once.
pub fn catch<T>(f: impl FnOnce() -> T) -> Option<T> {
    silence_panics();
    std::panic::catch_unwind(std::panic::AssertUnwindSafe(f)).ok()
}

pub fn silence_panics() {
    use std::sync::Once;
    static ONCE: Once = Once::new();
    ONCE.call_once(|| {
        std::panic::set_hook(Box::new(|_| {}));
    });
}

pub fn join<T: std::fmt::Display>(xs: &[T]) -> String {
    if xs.is_empty() {
        "-".to_string()
    } else {
        xs.iter().map(|x| x.to_string()).collect::<Vec<_>>().join(",")
    }
}
