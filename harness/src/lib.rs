//! Shared plumbing of the correspondence harness: one PRNG, the trace writer, value
//! generators. Every per-property binary (`src/bin/cXX.rs`) links the crates of /repo's
//! current working tree through path dependencies and writes a trace in the line protocol
//! described in /verif/lean/OZ/DrvUtil.lean.
#![allow(clippy::all)]

use std::io::Write;

/// SplitMix64: the single source of randomness; everything derives from `VERIF_SEED`.
#[derive(Clone)]
pub struct Rng(pub u64);

impl Rng {
    pub fn new(seed: u64) -> Self {
        Rng(seed ^ 0x9E37_79B9_7F4A_7C15)
    }
    pub fn next(&mut self) -> u64 {
        self.0 = self.0.wrapping_add(0x9E37_79B9_7F4A_7C15);
        let mut z = self.0;
        z = (z ^ (z >> 30)).wrapping_mul(0xBF58_476D_1CE4_E5B9);
        z = (z ^ (z >> 27)).wrapping_mul(0x94D0_49BB_1331_11EB);
        z ^ (z >> 31)
    }
    pub fn below(&mut self, n: u64) -> u64 {
        if n == 0 {
            0
        } else {
            self.next() % n
        }
    }
    pub fn range(&mut self, lo: i64, hi: i64) -> i64 {
        lo + self.below((hi - lo + 1) as u64) as i64
    }
    pub fn chance(&mut self, percent: u64) -> bool {
        self.below(100) < percent
    }
    pub fn pick<'a, T>(&mut self, xs: &'a [T]) -> &'a T {
        &xs[self.below(xs.len() as u64) as usize]
    }
    pub fn u128(&mut self) -> u128 {
        ((self.next() as u128) << 64) | self.next() as u128
    }
    /// random i128 stratified by bit length (0..=127 bits), both signs
    pub fn i128_any(&mut self) -> i128 {
        let bits = self.below(128) as u32;
        let mag: u128 = if bits == 0 { 0 } else { (self.u128() >> (128 - bits)) | (1u128 << (bits - 1)) };
        let v = mag as i128;
        if self.chance(50) {
            v.wrapping_neg()
        } else {
            v
        }
    }
    /// random non-negative i128 stratified by bit length
    pub fn i128_nonneg(&mut self) -> i128 {
        let bits = self.below(127) as u32;
        if bits == 0 {
            0
        } else {
            ((self.u128() >> (128 - bits)) | (1u128 << (bits - 1))) as i128
        }
    }
    pub fn fork(&mut self) -> Rng {
        Rng(self.next())
    }
}

pub fn seed_from_env() -> u64 {
    std::env::var("VERIF_SEED").ok().and_then(|s| s.parse::<i64>().ok()).map(|v| v as u64).unwrap_or(20260929)
}

/// Trace writer (line protocol). Also counts distribution statistics that end up in the
/// evidence file: ops per kind, ok / err outcomes.
pub struct Trace {
    out: Box<dyn Write>,
    pub ops: u64,
    pub seqs: u64,
    pub stats: std::collections::BTreeMap<String, u64>,
}

impl Trace {
    pub fn to_path(path: &str) -> Self {
        let f = std::fs::File::create(path).expect("create trace");
        Trace { out: Box::new(std::io::BufWriter::new(f)), ops: 0, seqs: 0, stats: Default::default() }
    }
    pub fn from_args() -> Self {
        let args: Vec<String> = std::env::args().collect();
        let path = arg_value(&args, "--out").unwrap_or_else(|| "/dev/stdout".to_string());
        Self::to_path(&path)
    }
    pub fn seq(&mut self, label: &str) {
        self.seqs += 1;
        writeln!(self.out, "# {}", label).unwrap();
    }
    pub fn op(&mut self, line: &str) {
        self.ops += 1;
        let kind = line.split(' ').take(2).collect::<Vec<_>>().join(" ");
        *self.stats.entry(format!("op:{}", kind_key(&kind))).or_insert(0) += 1;
        writeln!(self.out, "> {}", line).unwrap();
    }
    pub fn obs(&mut self, line: &str) {
        let k = line.split(' ').next().unwrap_or("");
        *self.stats.entry(format!("obs:{}", k)).or_insert(0) += 1;
        writeln!(self.out, "< {}", line).unwrap();
    }
    pub fn count(&mut self, key: &str) {
        *self.stats.entry(key.to_string()).or_insert(0) += 1;
    }
    /// final line consumed by the orchestrator (not by the driver)
    pub fn finish(mut self) {
        let stats: Vec<String> = self.stats.iter().map(|(k, v)| format!("{}={}", k, v)).collect();
        writeln!(self.out, "% stats seqs={} ops={} {}", self.seqs, self.ops, stats.join(" ")).unwrap();
        self.out.flush().unwrap();
    }
}

fn kind_key(kind: &str) -> String {
    // "fungible transfer_from" stays; "md128 v=plain" -> "md128"
    let mut parts = kind.split(' ');
    let a = parts.next().unwrap_or("");
    match parts.next() {
        Some(b) if !b.contains('=') => format!("{}_{}", a, b),
        _ => a.to_string(),
    }
}

pub fn arg_value(args: &[String], key: &str) -> Option<String> {
    args.iter().position(|a| a == key).and_then(|i| args.get(i + 1).cloned())
}

pub fn arg_u64(key: &str, default: u64) -> u64 {
    let args: Vec<String> = std::env::args().collect();
    arg_value(&args, key).and_then(|v| v.parse().ok()).unwrap_or(default)
}

pub fn arg_str(key: &str) -> Option<String> {
    let args: Vec<String> = std::env::args().collect();
    arg_value(&args, key)
}

/// Run `f`, mapping a Rust panic to `None`. The default panic hook is silenced once.
pub fn catch<T>(f: impl FnOnce() -> T) -> Option<T> {
    silence_panics();
    QUIET.with(|q| q.set(q.get() + 1));
    let r = std::panic::catch_unwind(std::panic::AssertUnwindSafe(f)).ok();
    QUIET.with(|q| q.set(q.get() - 1));
    r
}

thread_local! {
    static QUIET: std::cell::Cell<u32> = std::cell::Cell::new(0);
}

/// Panics inside `catch` (expected: they are the implementation's error outcome) are not
/// printed; a panic of the harness itself still is.
pub fn silence_panics() {
    use std::sync::Once;
    static ONCE: Once = Once::new();
    ONCE.call_once(|| {
        let default = std::panic::take_hook();
        std::panic::set_hook(Box::new(move |info| {
            if QUIET.with(|q| q.get()) == 0 {
                default(info);
            }
        }));
    });
}

pub fn join<T: std::fmt::Display>(xs: &[T]) -> String {
    if xs.is_empty() {
        "-".to_string()
    } else {
        xs.iter().map(|x| x.to_string()).collect::<Vec<_>>().join(",")
    }
}

// ------------------------------------------------------------------------------------------
// Soroban helpers
// ------------------------------------------------------------------------------------------
use soroban_sdk::{
    testutils::{Address as _, Ledger as _, LedgerInfo, MockAuth, MockAuthInvoke},
    xdr, Address, Env, IntoVal, Symbol, TryFromVal, Val, Vec as SVec,
};

/// Host ledger configuration used by every stateful harness run.
pub fn new_env(sequence: u32, min_temp_ttl: u32, max_entry_ttl: u32) -> Env {
    let e = Env::default();
    set_ledger(&e, sequence, min_temp_ttl, max_entry_ttl);
    e
}

pub fn set_ledger(e: &Env, sequence: u32, min_temp_ttl: u32, max_entry_ttl: u32) {
    e.ledger().set(LedgerInfo {
        timestamp: 1_700_000_000 + sequence as u64 * 5,
        protocol_version: 25,
        sequence_number: sequence,
        network_id: [7u8; 32],
        base_reserve: 10,
        min_temp_entry_ttl: min_temp_ttl,
        min_persistent_entry_ttl: max_entry_ttl.saturating_sub(1).max(1),
        max_entry_ttl,
    });
}

/// A small universe of addresses; index <-> Address.
pub struct Universe {
    pub addrs: std::vec::Vec<Address>,
    sc: std::vec::Vec<xdr::ScAddress>,
}

impl Universe {
    pub fn new(e: &Env, n: usize) -> Self {
        let addrs: std::vec::Vec<Address> = (0..n).map(|_| Address::generate(e)).collect();
        let sc = addrs.iter().map(sc_address).collect();
        Universe { addrs, sc }
    }
    pub fn push(&mut self, a: Address) -> usize {
        self.sc.push(sc_address(&a));
        self.addrs.push(a);
        self.addrs.len() - 1
    }
    pub fn a(&self, i: usize) -> &Address {
        &self.addrs[i]
    }
    pub fn index_of_sc(&self, a: &xdr::ScAddress) -> Option<usize> {
        self.sc.iter().position(|x| x == a)
    }
    pub fn index_of(&self, a: &Address) -> Option<usize> {
        self.index_of_sc(&sc_address(a))
    }
    pub fn len(&self) -> usize {
        self.addrs.len()
    }
}

pub fn sc_address(a: &Address) -> xdr::ScAddress {
    match xdr::ScVal::try_from(a).expect("address to scval") {
        xdr::ScVal::Address(x) => x,
        _ => unreachable!(),
    }
}

/// Invoke `func` on `contract` with exactly the addresses in `signers` authorizing this
/// top-level invocation (no sub-invocations). `None` = the invocation failed (any reason)
/// and was rolled back by the host.
pub fn call(e: &Env, contract: &Address, func: &str, args: SVec<Val>, signers: &[&Address]) -> Option<Val> {
    let invoke = MockAuthInvoke { contract, fn_name: func, args: args.clone(), sub_invokes: &[] };
    let mocks: std::vec::Vec<MockAuth> = signers.iter().map(|a| MockAuth { address: a, invoke: &invoke }).collect();
    e.mock_auths(&mocks);
    let r = catch(|| e.try_invoke_contract::<Val, soroban_sdk::Error>(contract, &Symbol::new(e, func), args));
    match r {
        Some(Ok(Ok(v))) => Some(v),
        _ => None,
    }
}

/// Same, with every `require_auth` satisfied (recording mode); use `demanded` afterwards.
pub fn call_all_auth(e: &Env, contract: &Address, func: &str, args: SVec<Val>) -> Option<Val> {
    e.mock_all_auths_allowing_non_root_auth();
    let r = catch(|| e.try_invoke_contract::<Val, soroban_sdk::Error>(contract, &Symbol::new(e, func), args));
    match r {
        Some(Ok(Ok(v))) => Some(v),
        _ => None,
    }
}

/// Read-only call that must not fail for reasons of authorization.
pub fn query<T: TryFromVal<Env, Val>>(e: &Env, contract: &Address, func: &str, args: SVec<Val>) -> Option<T> {
    let v = call_all_auth(e, contract, func, args)?;
    T::try_from_val(e, &v).ok()
}

/// Sorted, de-duplicated indices of the addresses whose authorization the last successful
/// invocation demanded (`env.auths()`); addresses outside the universe are reported as 99.
pub fn demanded(e: &Env, u: &Universe) -> std::vec::Vec<usize> {
    let mut v: std::vec::Vec<usize> = e.auths().iter().map(|(a, _)| u.index_of(a).unwrap_or(99)).collect();
    v.sort();
    v.dedup();
    v
}

pub fn args<const N: usize>(e: &Env, xs: [Val; N]) -> SVec<Val> {
    SVec::from_array(e, xs)
}

pub fn v<T: IntoVal<Env, Val>>(e: &Env, x: T) -> Val {
    x.into_val(e)
}

// ---- events ----------------------------------------------------------------------------

#[derive(Debug, Clone)]
pub struct Ev {
    pub name: String,
    pub topics: std::vec::Vec<xdr::ScVal>,
    pub data: xdr::ScVal,
    pub contract: Option<xdr::ScAddress>,
}

/// Events emitted by the last top-level invocation.
pub fn last_events(e: &Env) -> std::vec::Vec<Ev> {
    use soroban_sdk::testutils::Events as _;
    let all = e.events().all();
    all.events()
        .iter()
        .filter_map(|ce| {
            let xdr::ContractEventBody::V0(b) = &ce.body;
            let name = match b.topics.first() {
                Some(xdr::ScVal::Symbol(s)) => s.to_utf8_string_lossy(),
                _ => String::new(),
            };
            Some(Ev {
                name,
                topics: b.topics.iter().skip(1).cloned().collect(),
                data: b.data.clone(),
                contract: ce.contract_id.clone().map(|c| xdr::ScAddress::Contract(c)),
            })
        })
        .collect()
}

pub fn sc_i128(v: &xdr::ScVal) -> Option<i128> {
    match v {
        xdr::ScVal::I128(p) => Some(((p.hi as i128) << 64) | p.lo as i128),
        _ => None,
    }
}

pub fn sc_u32(v: &xdr::ScVal) -> Option<u32> {
    match v {
        xdr::ScVal::U32(x) => Some(*x),
        _ => None,
    }
}

/// field of an event's data map (contractevent default data format) by name
pub fn ev_field<'a>(data: &'a xdr::ScVal, name: &str) -> Option<&'a xdr::ScVal> {
    match data {
        xdr::ScVal::Map(Some(m)) => m.iter().find_map(|entry| match &entry.key {
            xdr::ScVal::Symbol(s) if s.to_utf8_string_lossy() == name => Some(&entry.val),
            _ => None,
        }),
        _ => None,
    }
}

pub fn ev_addr(u: &Universe, v: Option<&xdr::ScVal>) -> String {
    match v {
        Some(xdr::ScVal::Address(a)) => u.index_of_sc(a).map(|i| i.to_string()).unwrap_or_else(|| "?".into()),
        _ => "?".into(),
    }
}
