//! C10 correspondence: every NFT has exactly one owner and the enumerations mirror ownership.
//! Drives the three example contracts (sequential / enumerable / consecutive) and a harness
//! contract with explicit-id minting through real invocations; after every step `owner_of`
//! is read over windows around every touched id, batch edge and bucket edge (all ids while the
//! counter is small), plus balances, enumerations, approvals.
use ozharness::*;

#[path = "../nft_sim.rs"]
mod nft_sim;
use nft_sim::*;

const ITEM: u32 = 32;

struct Gen {
    s: Sim,
    /// ids that were ever named by an operation or issued (explicit / sequential flavours)
    ids: Vec<u32>,
    /// consecutive flavour: (first, last) of every batch
    batches: Vec<(u32, u32)>,
    /// recently touched ids, most recent last
    touched: Vec<u32>,
    next: u32,
    full_scan: bool,
}

impl Gen {
    /// long-horizon host (max_entry_ttl about a year) for the idle-gap sequences
    fn new_long(fl: Flavour, min_temp: u32, start: u32, full_scan: bool) -> Gen {
        Gen { s: Sim::with_ttl(fl, min_temp, start, MAX_TTL_LONG), ids: vec![], batches: vec![], touched: vec![], next: 0, full_scan }
    }
    fn new(fl: Flavour, min_temp: u32, start: u32, full_scan: bool) -> Gen {
        Gen { s: Sim::new(fl, min_temp, start), ids: vec![], batches: vec![], touched: vec![], next: 0, full_scan }
    }
    fn touch(&mut self, id: u32) {
        self.touched.retain(|&x| x != id);
        self.touched.push(id);
        if self.touched.len() > 10 {
            self.touched.remove(0);
        }
        if !self.ids.contains(&id) && self.ids.len() < 200 {
            self.ids.push(id);
        }
    }
    /// owner windows to observe after an op naming `extra` ids
    fn windows(&self, rng: &mut Rng, extra: &[u32]) -> Vec<(u32, u32)> {
        let mut r: Vec<(u32, u32)> = vec![];
        let next = self.next;
        match self.s.fl {
            Flavour::Cons => {
                let top = extra.iter().cloned().filter(|&x| x < next.saturating_add(MAX_BATCH + 2)).max().unwrap_or(0).max(next);
                if self.full_scan && top <= 4096 {
                    r.push((0, top + 2));
                } else {
                    let huge = self.batches.iter().any(|&(f, l)| l - f >= 6000);
                    let w = if huge { 1 } else { 3 };
                    for &x in extra.iter().chain(self.touched.iter().rev().take(if huge { 4 } else { 10 })) {
                        r.push(around(x, w));
                    }
                    for &(f, l) in &self.batches {
                        r.push(around(f, w.min(2)));
                        r.push(around(l, w.min(2)));
                    }
                    let mut k = IDS_IN_BUCKET;
                    while k <= next + IDS_IN_BUCKET {
                        r.push(around(k, if huge { 1 } else { 2 }));
                        k += IDS_IN_BUCKET;
                    }
                    r.push((next.saturating_sub(3), next + 1));
                    r.push((0, 2));
                    for _ in 0..(if huge { 3 } else { 8 }) {
                        let x = rng.below(next as u64 + 1) as u32;
                        r.push((x, x));
                    }
                }
            }
            _ => {
                r.push((0, next + 1));
                for &x in extra.iter().chain(self.touched.iter().rev().take(2)) {
                    r.push(around(x, 1));
                }
                for &x in self.ids.iter() {
                    r.push((x, x));
                }
            }
        }
        merge_ranges(r)
    }
    fn qa(&self, extra: &[u32]) -> Vec<u32> {
        let mut v: Vec<u32> = extra.to_vec();
        for &x in self.touched.iter().rev().take(2) {
            v.push(x);
        }
        if self.s.fl == Flavour::Cons {
            for &x in extra {
                v.push(x.saturating_sub(1));
            }
        }
        v.sort();
        v.dedup();
        v
    }
    fn run(&mut self, t: &mut Trace, rng: &mut Rng, kind: &str, a: &[usize], id: u32, n: u32, lu: u32, auth: &[usize]) -> bool {
        let names_id = matches!(kind, "mint_id" | "transfer" | "transfer_from" | "approve" | "burn" | "burn_from");
        if names_id {
            self.touch(id);
        }
        // what a successful mint will issue is observed too (windows are fixed before the call)
        let mut extra: Vec<u32> = if names_id { vec![id] } else { vec![] };
        if kind == "batch_mint" {
            extra.push(self.next);
            extra.push(self.next.saturating_add(n).saturating_sub(1));
        }
        if kind == "mint" {
            extra.push(self.next);
        }
        let q = self.windows(rng, &extra);
        let qa = self.qa(&extra);
        let (ok, ret) = self.s.exec(t, kind, a, id, n, lu, auth, &q, &qa);
        if ok {
            match kind {
                "mint" => {
                    let id = ret.unwrap();
                    self.next = id + 1;
                    self.touch(id);
                }
                "batch_mint" => {
                    let last = ret.unwrap();
                    self.batches.push((self.next, last));
                    self.next = last + 1;
                }
                _ => {}
            }
        }
        ok
    }
    fn advance(&mut self, t: &mut Trace, rng: &mut Rng, n: u32) {
        let q = self.windows(rng, &[]);
        let qa = self.qa(&[]);
        self.s.advance(t, n, &q, &qa);
    }
    /// an id worth operating on, biased to edges (consecutive) or existing tokens (others)
    fn pick_id(&self, rng: &mut Rng) -> u32 {
        match self.s.fl {
            Flavour::Cons => {
                if self.batches.is_empty() {
                    return rng.below(3) as u32;
                }
                if !self.touched.is_empty() && rng.chance(30) {
                    let x = *rng.pick(&self.touched);
                    return match rng.below(5) {
                        0 => x,
                        1 | 2 => x.saturating_sub(1),
                        _ => x.saturating_add(1),
                    };
                }
                let &(f, l) = rng.pick(&self.batches);
                let bucket_edge = |rng: &mut Rng| -> u32 {
                    // a bucket (3200) or item (32) boundary inside the batch, if any
                    let unit = if rng.chance(60) { IDS_IN_BUCKET } else { ITEM };
                    let lo = (f + unit - 1) / unit;
                    let hi = l / unit;
                    if lo > hi {
                        return f + rng.below((l - f + 1) as u64) as u32;
                    }
                    let k = lo + rng.below((hi - lo + 1) as u64) as u32;
                    let e = k * unit;
                    match rng.below(3) {
                        0 => e.saturating_sub(1).max(f),
                        1 => e,
                        _ => (e + 1).min(l),
                    }
                };
                match rng.below(12) {
                    0 => f,
                    1 => l,
                    2 => (f + 1).min(l),
                    3 => l.saturating_sub(1).max(f),
                    4 | 5 | 6 => bucket_edge(rng),
                    7 => self.next.saturating_sub(1),
                    8 => 0,
                    _ => f + rng.below((l - f + 1) as u64) as u32,
                }
            }
            _ => {
                if self.ids.is_empty() {
                    rng.below(3) as u32
                } else {
                    *rng.pick(&self.ids)
                }
            }
        }
    }
}

fn person(rng: &mut Rng) -> usize {
    rng.below(N as u64) as usize
}

fn auth_for(rng: &mut Rng, right: usize) -> Vec<usize> {
    if rng.chance(90) {
        let mut v = vec![right];
        if rng.chance(10) {
            v.push(person(rng));
        }
        v.sort();
        v.dedup();
        v
    } else if rng.chance(50) {
        vec![]
    } else {
        let mut v: Vec<usize> = (0..N).filter(|&i| i != right && rng.chance(40)).collect();
        v.sort();
        v
    }
}

const BATCH_SIZES: [u32; 13] = [1, 2, 31, 32, 33, 99, 100, 101, 3199, 3200, 3201, 6400, 32000];

/// the listed sizes; the huge ones are rarer because every `owner_of` in such a batch scans
/// up to 1000 bucket items in the real contract
fn batch_size(rng: &mut Rng) -> u32 {
    match rng.below(100) {
        0..=54 => *rng.pick(&BATCH_SIZES[0..8]),
        55..=84 => *rng.pick(&BATCH_SIZES[8..11]),
        85..=92 => 6400,
        _ => 32000,
    }
}

fn explicit_id(rng: &mut Rng, g: &Gen) -> u32 {
    match rng.below(10) {
        0 => u32::MAX,
        1 => u32::MAX - 1,
        2 => 1000 + rng.below(20) as u32,
        3 => IDS_IN_BUCKET - 1 + rng.below(3) as u32,
        4 => g.next + 40 + rng.below(5) as u32,
        5 if !g.ids.is_empty() => rng.pick(&g.ids).wrapping_add(1),
        _ => 500 + rng.below(100_000) as u32,
    }
}

/// one generated operation
fn gen_op(t: &mut Trace, rng: &mut Rng, g: &mut Gen) {
    let fl = g.s.fl;
    let r = rng.below(100);
    if r < 3 {
        let n = *rng.pick(&[0u32, 1, 2, 16, 100]);
        g.advance(t, rng, n);
        return;
    }
    let mint_share = if fl == Flavour::Cons { 14 } else { 28 };
    if r < 3 + mint_share {
        let to = person(rng);
        match fl {
            Flavour::Cons => {
                let n = if g.next > 120_000 {
                    1 + rng.below(40) as u32
                } else {
                    match rng.below(20) {
                        0 => 0,
                        1 => MAX_BATCH + 1,
                        2..=4 => 1 + rng.below(70) as u32,
                        5 => IDS_IN_BUCKET - (g.next % IDS_IN_BUCKET), // ends exactly at a bucket edge
                        6 => IDS_IN_BUCKET - (g.next % IDS_IN_BUCKET) + 1,
                        _ => batch_size(rng),
                    }
                };
                g.run(t, rng, "batch_mint", &[to], 0, n, 0, &[]);
            }
            Flavour::Exp if rng.chance(60) => {
                // explicit ids are fresh (the property's hypothesis); a used id now and then
                // only to compare the model (the monitor stops judging that sequence)
                let mut id = explicit_id(rng, g);
                if !rng.chance(3) {
                    let mut tries = 0;
                    while (g.s.owner_of(id).is_some() || id < g.next + 30) && tries < 20 {
                        id = explicit_id(rng, g);
                        tries += 1;
                    }
                    if tries == 20 {
                        return;
                    }
                }
                g.run(t, rng, "mint_id", &[to], id, 0, 0, &[]);
            }
            _ => {
                g.run(t, rng, "mint", &[to], 0, 0, 0, &[]);
            }
        }
        return;
    }
    // an op on a token
    let mut id = g.pick_id(rng);
    let owner = g.s.owner_of(id);
    // a third-party move: the owner (or nobody yet) delegates to a spender that is NOT the owner
    // — per-token approval or operator — and the spender transfers / burns the token. The
    // spender is picked by its own holdings: none, exactly one, several tokens.
    if let Some(o) = owner.filter(|&o| o < N) {
        if rng.chance(22) {
            let others: Vec<usize> = (0..N).filter(|&p| p != o).collect();
            let want = rng.below(3);
            let by_holdings: Vec<usize> = others
                .iter()
                .cloned()
                .filter(|&p| {
                    let b = g.s.bal(p);
                    match want {
                        0 => b == 0,
                        1 => b == 1,
                        _ => b >= 2,
                    }
                })
                .collect();
            let sp = if by_holdings.is_empty() { *rng.pick(&others) } else { *rng.pick(&by_holdings) };
            let lu = g.s.now + 50 + rng.below(100) as u32;
            let granted = if rng.chance(50) {
                g.run(t, rng, "approve", &[o, sp], id, 0, lu, &[o])
            } else if g.s.is_operator(o, sp) {
                true
            } else {
                g.run(t, rng, "approve_for_all", &[o, sp], 0, 0, lu, &[o])
            };
            if granted {
                if rng.chance(50) {
                    g.run(t, rng, "burn_from", &[sp, o], id, 0, 0, &[sp]);
                } else {
                    let to = match rng.below(4) {
                        0 => sp,
                        1 => o,
                        _ => person(rng),
                    };
                    g.run(t, rng, "transfer_from", &[sp, o, to], id, 0, 0, &[sp]);
                }
            }
            return;
        }
    }
    let valid = rng.chance(75);
    let frm = match owner {
        Some(o) if o < N && valid => o,
        _ => person(rng),
    };
    if !valid && rng.chance(30) {
        id = match rng.below(4) {
            0 => g.next,
            1 => g.next.saturating_add(1),
            2 => id.wrapping_add(1),
            _ => u32::MAX,
        };
    }
    let k = rng.below(100);
    if k < 38 {
        let to = if rng.chance(12) { frm } else { person(rng) };
        let auth = auth_for(rng, frm);
        g.run(t, rng, "transfer", &[frm, to], id, 0, 0, &auth);
    } else if k < 56 {
        let sp = if rng.chance(40) { frm } else { person(rng) };
        let to = if rng.chance(12) { frm } else { person(rng) };
        let auth = auth_for(rng, sp);
        g.run(t, rng, "transfer_from", &[sp, frm, to], id, 0, 0, &auth);
    } else if k < 72 {
        let auth = auth_for(rng, frm);
        g.run(t, rng, "burn", &[frm], id, 0, 0, &auth);
    } else if k < 82 {
        let sp = if rng.chance(40) { frm } else { person(rng) };
        let auth = auth_for(rng, sp);
        g.run(t, rng, "burn_from", &[sp, frm], id, 0, 0, &auth);
    } else if k < 93 {
        let approved = person(rng);
        let lu = match rng.below(6) {
            0 => 0,
            1 => g.s.now,
            2 => g.s.now.saturating_sub(1),
            _ => g.s.now + rng.below(200) as u32,
        };
        let auth = auth_for(rng, frm);
        g.run(t, rng, "approve", &[frm, approved], id, 0, lu, &auth);
    } else {
        let p = person(rng);
        let lu = match rng.below(5) {
            0 => 0,
            1 => g.s.now,
            _ => g.s.now + rng.below(200) as u32,
        };
        let auth = auth_for(rng, frm);
        g.run(t, rng, "approve_for_all", &[frm, p], 0, 0, lu, &auth);
    }
}

fn directed(t: &mut Trace, rng: &mut Rng) {
    // ---- consecutive: first / last / bucket-edge ids of batches, burns next to each other
    let mut g = Gen::new(Flavour::Cons, 1, 100, true);
    t.seq(&g.s.label("directed consecutive small batches"));
    g.run(t, rng, "transfer", &[0, 1], 0, 0, 0, &[0]); // nothing minted yet
    g.run(t, rng, "batch_mint", &[0], 0, 0, 0, &[]);
    g.run(t, rng, "batch_mint", &[0], 0, 10, 0, &[]);
    g.run(t, rng, "batch_mint", &[1], 0, 33, 0, &[]);
    g.run(t, rng, "transfer", &[0, 2], 0, 0, 0, &[0]);
    g.run(t, rng, "transfer", &[0, 2], 9, 0, 0, &[0]);
    g.run(t, rng, "transfer", &[1, 2], 10, 0, 0, &[1]);
    g.run(t, rng, "transfer", &[1, 1], 42, 0, 0, &[1]); // self transfer of the last id
    g.run(t, rng, "transfer", &[1, 1], 20, 0, 0, &[1]); // self transfer in the middle
    g.run(t, rng, "burn", &[0], 5, 0, 0, &[0]);
    g.run(t, rng, "burn", &[0], 4, 0, 0, &[0]);
    g.run(t, rng, "burn", &[0], 6, 0, 0, &[0]);
    g.run(t, rng, "transfer", &[0, 3], 5, 0, 0, &[0]); // burned
    g.run(t, rng, "burn", &[1], 42, 0, 0, &[1]); // last id of everything
    g.run(t, rng, "transfer", &[1, 4], 41, 0, 0, &[1]);
    g.run(t, rng, "batch_mint", &[5], 0, 2, 0, &[]);
    g.run(t, rng, "burn", &[5], 43, 0, 0, &[5]); // first id of a batch whose predecessor is burned
    g.run(t, rng, "transfer", &[1, 0], 43, 0, 0, &[1]);
    g.run(t, rng, "transfer", &[5, 0], 45, 0, 0, &[5]); // beyond the counter
    g.run(t, rng, "batch_mint", &[3], 0, MAX_BATCH + 1, 0, &[]);

    let mut g = Gen::new(Flavour::Cons, 1, 100, false);
    t.seq(&g.s.label("directed consecutive bucket edges"));
    g.run(t, rng, "batch_mint", &[0], 0, 3199, 0, &[]);
    g.run(t, rng, "batch_mint", &[1], 0, 2, 0, &[]); // 3199, 3200 straddle the bucket edge
    g.run(t, rng, "batch_mint", &[2], 0, 32000, 0, &[]); // 3201 ..= 35200
    g.run(t, rng, "transfer", &[2, 3], 3201, 0, 0, &[2]);
    g.run(t, rng, "transfer", &[2, 3], 6400, 0, 0, &[2]);
    g.run(t, rng, "transfer", &[2, 4], 6399, 0, 0, &[2]);
    g.run(t, rng, "burn", &[2], 9600, 0, 0, &[2]);
    g.run(t, rng, "burn", &[2], 35200, 0, 0, &[2]);
    g.run(t, rng, "transfer", &[2, 5], 35199, 0, 0, &[2]);
    g.run(t, rng, "transfer", &[1, 5], 3200, 0, 0, &[1]);
    g.run(t, rng, "transfer", &[1, 5], 3199, 0, 0, &[1]);
    g.run(t, rng, "burn", &[0], 3198, 0, 0, &[0]);
    g.run(t, rng, "transfer", &[0, 1], 31, 0, 0, &[0]);
    g.run(t, rng, "transfer", &[0, 1], 32, 0, 0, &[0]);
    g.run(t, rng, "transfer", &[0, 1], 0, 0, 0, &[0]);
    g.run(t, rng, "batch_mint", &[4], 0, 3200, 0, &[]);
    g.run(t, rng, "transfer", &[4, 0], 35201, 0, 0, &[4]);

    // ---- enumerable: remove first / last / only element of both lists
    let mut g = Gen::new(Flavour::Enum, 1, 100, true);
    t.seq(&g.s.label("directed enumerable swap-and-pop"));
    for to in [0usize, 0, 0, 1, 1, 0] {
        g.run(t, rng, "mint", &[to], 0, 0, 0, &[]);
    }
    g.run(t, rng, "transfer", &[0, 1], 0, 0, 0, &[0]); // first of owner 0
    g.run(t, rng, "transfer", &[0, 0], 1, 0, 0, &[0]); // self transfer
    g.run(t, rng, "burn", &[0], 5, 0, 0, &[0]); // last of both lists
    g.run(t, rng, "burn", &[1], 3, 0, 0, &[1]); // first of the owner list, middle of the global one
    g.run(t, rng, "burn", &[1], 0, 0, 0, &[1]);
    g.run(t, rng, "burn", &[1], 4, 0, 0, &[1]); // the owner's only token
    g.run(t, rng, "mint", &[1], 0, 0, 0, &[]);
    g.run(t, rng, "transfer", &[0, 2], 2, 0, 0, &[0]);
    g.run(t, rng, "burn", &[0], 1, 0, 0, &[0]);
    g.run(t, rng, "burn", &[2], 2, 0, 0, &[2]);
    g.run(t, rng, "burn", &[1], 6, 0, 0, &[1]); // the only token left
    g.run(t, rng, "burn", &[1], 6, 0, 0, &[1]);

    // ---- explicit ids (fresh), sequential ids beside them
    let mut g = Gen::new(Flavour::Exp, 1, 100, true);
    t.seq(&g.s.label("directed explicit ids"));
    g.run(t, rng, "mint_id", &[0], u32::MAX, 0, 0, &[]);
    g.run(t, rng, "mint_id", &[1], 7, 0, 0, &[]);
    g.run(t, rng, "mint", &[2], 0, 0, 0, &[]);
    g.run(t, rng, "mint", &[2], 0, 0, 0, &[]);
    g.run(t, rng, "transfer", &[0, 1], u32::MAX, 0, 0, &[0]);
    g.run(t, rng, "burn", &[1], 7, 0, 0, &[1]);
    g.run(t, rng, "mint_id", &[3], 7, 0, 0, &[]); // re-mint of a burned explicit id: no owner at that time
    g.run(t, rng, "burn", &[2], 0, 0, 0, &[2]);
    g.run(t, rng, "mint", &[4], 0, 0, 0, &[]); // sequential ids are not reused after a burn
    g.run(t, rng, "transfer", &[3, 3], 7, 0, 0, &[3]);

    // ---- the fresh-id hypothesis violated: only the model comparison judges this one
    let mut g = Gen::new(Flavour::Exp, 1, 100, true);
    t.seq(&g.s.label("directed explicit id used twice (hypothesis violated)"));
    g.run(t, rng, "mint_id", &[0], 2, 0, 0, &[]);
    g.run(t, rng, "mint_id", &[1], 2, 0, 0, &[]);
    g.run(t, rng, "mint", &[2], 0, 0, 0, &[]);
    g.run(t, rng, "mint", &[2], 0, 0, 0, &[]);
    g.run(t, rng, "mint", &[3], 0, 0, 0, &[]); // the counter reaches the explicit id
    g.run(t, rng, "transfer", &[3, 4], 2, 0, 0, &[3]);

    // ---- third-party burn_from / transfer_from (approved account, operator) with the spender
    // holding 0, 1 and several tokens and the owner holding several; first / middle / last
    // entry of the owner's list (round 2 seed 1: `Enumerable::burn_from` edited the SPENDER's list)
    for fl in [Flavour::Enum, Flavour::Seq, Flavour::Cons] {
        let mut g = Gen::new(fl, 1, 100, true);
        t.seq(&g.s.label("directed third-party burn_from and transfer_from"));
        if fl == Flavour::Cons {
            g.run(t, rng, "batch_mint", &[0], 0, 5, 0, &[]);
            g.run(t, rng, "batch_mint", &[2], 0, 1, 0, &[]);
            g.run(t, rng, "batch_mint", &[3], 0, 3, 0, &[]);
        } else {
            for to in [0usize, 0, 0, 0, 0, 2, 3, 3, 3] {
                g.run(t, rng, "mint", &[to], 0, 0, 0, &[]);
            }
        }
        // owner 0 holds 0..=4, account 1 nothing, account 2 one token (5), account 3 three (6,7,8)
        g.run(t, rng, "approve", &[0, 1], 0, 0, 500, &[0]);
        g.run(t, rng, "burn_from", &[1, 0], 0, 0, 0, &[1]); // spender with balance 0 burns the owner's FIRST token
        g.run(t, rng, "approve", &[0, 2], 2, 0, 500, &[0]);
        g.run(t, rng, "burn_from", &[2, 0], 2, 0, 0, &[2]); // spender with one token, a middle entry
        g.run(t, rng, "approve_for_all", &[0, 3], 0, 0, 500, &[0]);
        g.run(t, rng, "burn_from", &[3, 0], 1, 0, 0, &[3]); // operator with three tokens
        g.run(t, rng, "transfer_from", &[3, 0, 3], 3, 0, 0, &[3]); // operator takes a token for itself
        g.run(t, rng, "transfer_from", &[3, 0, 1], 4, 0, 0, &[3]); // …and hands the owner's last one to a third account
        g.run(t, rng, "approve", &[3, 1], 7, 0, 500, &[3]);
        g.run(t, rng, "burn_from", &[1, 3], 7, 0, 0, &[1]); // spender with one token, middle of a 4-list
        g.run(t, rng, "approve", &[3, 2], 8, 0, 500, &[3]);
        g.run(t, rng, "transfer_from", &[2, 3, 0], 8, 0, 0, &[2]);
        g.run(t, rng, "approve", &[1, 0], 4, 0, 500, &[1]);
        g.run(t, rng, "burn_from", &[0, 1], 4, 0, 0, &[0]); // the only token of account 1
        g.run(t, rng, "burn_from", &[2, 3], 6, 0, 0, &[2]); // no approval: rejected
        g.run(t, rng, "burn", &[3], 6, 0, 0, &[3]);
        g.run(t, rng, "burn", &[0], 8, 0, 0, &[0]);
    }

    // ---- sequential example
    let mut g = Gen::new(Flavour::Seq, 16, 100, true);
    t.seq(&g.s.label("directed sequential"));
    g.run(t, rng, "mint", &[0], 0, 0, 0, &[]);
    g.run(t, rng, "mint", &[1], 0, 0, 0, &[]);
    g.run(t, rng, "burn", &[1], 1, 0, 0, &[1]);
    g.run(t, rng, "mint", &[1], 0, 0, 0, &[]);
    g.run(t, rng, "transfer", &[1, 0], 1, 0, 0, &[1]);
    g.run(t, rng, "approve", &[0, 3], 0, 0, 120, &[0]);
    g.run(t, rng, "transfer_from", &[3, 0, 4], 0, 0, 0, &[3]);
    g.run(t, rng, "transfer_from", &[3, 4, 5], 0, 0, 0, &[3]);
}

/// "long idle" family: populate (mints / batches, transfers, burns, third-party moves), then
/// let 1 day, 31 days and 100 days pass WITHOUT any call in between, observing everything after
/// each gap, then mint again and go on. Persistent / instance data (owners, balances, lists,
/// buckets, marks, burned markers, the id counter) must be unchanged by the gaps and new ids
/// must lie above every id ever issued.
fn long_idle(t: &mut Trace, rng: &mut Rng, fl: Flavour, min_temp: u32, what: &str, one_gap: bool) {
    let mut g = Gen::new_long(fl, min_temp, 100, true);
    t.seq(&g.s.label(what));
    match fl {
        Flavour::Cons => {
            for n in [*rng.pick(&[1u32, 2, 33, 100]), *rng.pick(&[31u32, 32, 99, 101]), *rng.pick(&[1u32, 5, 64])] {
                let to = person(rng);
                g.run(t, rng, "batch_mint", &[to], 0, n, 0, &[]);
            }
        }
        _ => {
            for _ in 0..6 {
                let to = person(rng);
                g.run(t, rng, "mint", &[to], 0, 0, 0, &[]);
            }
            if fl == Flavour::Exp {
                let to = person(rng);
                g.run(t, rng, "mint_id", &[to], 70_000, 0, 0, &[]);
            }
        }
    }
    for _ in 0..10 {
        gen_op(t, rng, &mut g);
    }
    // make sure something was burned and something moved
    for id in [1u32, 3] {
        if let Some(o) = g.s.owner_of(id).filter(|&o| o < N) {
            if id == 1 {
                g.run(t, rng, "burn", &[o], id, 0, 0, &[o]);
            } else {
                g.run(t, rng, "transfer", &[o, (o + 1) % N], id, 0, 0, &[o]);
            }
        }
    }
    let gaps: &[u32] = if one_gap { &[100] } else { &[1, 31, 100] };
    for &days in gaps {
        g.advance(t, rng, days * LEDGERS_PER_DAY);
    }
    // life goes on: new ids, more moves
    let to = person(rng);
    match fl {
        Flavour::Cons => {
            g.run(t, rng, "batch_mint", &[to], 0, 3, 0, &[]);
        }
        _ => {
            g.run(t, rng, "mint", &[to], 0, 0, 0, &[]);
        }
    }
    for _ in 0..6 {
        gen_op(t, rng, &mut g);
    }
    g.advance(t, rng, 31 * LEDGERS_PER_DAY);
    for _ in 0..3 {
        gen_op(t, rng, &mut g);
    }
}

fn main() {
    let mut t = Trace::from_args();
    let seed = seed_from_env();
    let thorough = arg_str("--tier").as_deref() == Some("thorough");
    let nseq = arg_u64("--seqs", if thorough { 300 } else { 48 });
    let len = arg_u64("--len", 40);
    let mut rng = Rng::new(seed);
    directed(&mut t, &mut rng);
    for fl in [Flavour::Cons, Flavour::Enum, Flavour::Seq, Flavour::Exp] {
        long_idle(&mut t, &mut rng, fl, 1, "directed long idle 1d 31d 100d", false);
    }
    long_idle(&mut t, &mut rng, Flavour::Cons, 16, "directed long idle 100d", true);
    for k in 0..arg_u64("--long", if thorough { 40 } else { 4 }) {
        let fl = *rng.pick(&[Flavour::Cons, Flavour::Cons, Flavour::Enum, Flavour::Seq, Flavour::Exp]);
        let min_temp = if rng.chance(50) { 1 } else { 16 };
        let one = rng.chance(30);
        long_idle(&mut t, &mut rng, fl, min_temp, &format!("rand long idle k={} seed={}", k, seed), one);
    }
    for k in 0..nseq {
        let mut fl = match rng.below(10) {
            0 => Flavour::Seq,
            1 | 2 => Flavour::Exp,
            3 | 4 | 5 => Flavour::Enum,
            _ => Flavour::Cons,
        };
        match arg_str("--only").as_deref() {
            Some("seq") => fl = Flavour::Seq,
            Some("exp") => fl = Flavour::Exp,
            Some("enum") => fl = Flavour::Enum,
            Some("cons") => fl = Flavour::Cons,
            _ => {}
        }
        let min_temp = if rng.chance(50) { 1 } else { 16 };
        let full = rng.chance(25);
        let mut g = Gen::new(fl, min_temp, 100, full);
        t.seq(&g.s.label(&format!("rand k={} seed={}", k, seed)));
        if fl == Flavour::Cons {
            // start with a batch so that there is something to move
            let n = if full { 1 + rng.below(1200) as u32 } else { batch_size(&mut rng) };
            let to = person(&mut rng);
            g.run(&mut t, &mut rng, "batch_mint", &[to], 0, n, 0, &[]);
        }
        for _ in 0..len {
            gen_op(&mut t, &mut rng, &mut g);
        }
    }
    t.finish();
}
