//! C04 correspondence: a harness RWA token (`RWAToken` + `Pausable` + `FungibleToken<RWA>` over the
//! library functions of packages/tokens/src/rwa/storage.rs) wired to a MOCK identity verifier and to
//! the REAL modular compliance contract (a harness contract over the library functions of
//! packages/tokens/src/rwa/compliance/storage.rs, token bound through the library's token binder)
//! with three scriptable MOCK compliance modules; every contract logs every call it receives.
//! Driven through real invocations in the native Soroban host with exact authorization subsets.
//!
//! Operator policy of the harness token (modelled exactly in lean/OZ/Model/Rwa.lean `opAuth`):
//! `operator.require_auth()` and `operator == admin` (the admin is fixed by the constructor).
use ozharness::*;
use soroban_sdk::{
    contract, contractimpl, contracttype, panic_with_error, xdr, Address, Env, IntoVal, MuxedAddress, String as SString,
    TryFromVal, Val,
};
use stellar_contract_utils::pausable::{self as pausable, Pausable};
use stellar_tokens::{
    fungible::FungibleToken,
    rwa::{
        compliance::{storage as cstore, Compliance, ComplianceHook},
        utils::token_binder::{self, TokenBinder},
        RWAError, RWAToken, RWA,
    },
};

// ------------------------------------------------------------------------------------------
// mock identity verifier: per-address verdict, per-address recovery target, call log
// ------------------------------------------------------------------------------------------
#[contracttype]
pub enum IdvKey {
    Bad(Address),
    Target(Address),
    Log,
}

#[contract]
pub struct Idv;

fn idv_log(e: &Env, kind: u32, a: &Address) {
    let mut l: soroban_sdk::Vec<(u32, Address)> = e.storage().instance().get(&IdvKey::Log).unwrap_or(soroban_sdk::Vec::new(e));
    l.push_back((kind, a.clone()));
    e.storage().instance().set(&IdvKey::Log, &l);
}

#[contractimpl]
impl Idv {
    pub fn verify_identity(e: &Env, account: Address) {
        idv_log(e, 0, &account);
        let bad: bool = e.storage().persistent().get(&IdvKey::Bad(account.clone())).unwrap_or(false);
        if bad {
            panic_with_error!(e, RWAError::IdentityVerificationFailed)
        }
    }
    pub fn recovery_target(e: &Env, old_account: Address) -> Option<Address> {
        idv_log(e, 1, &old_account);
        e.storage().persistent().get(&IdvKey::Target(old_account))
    }
    // ---- scripting + getters (not logged)
    pub fn set_ok(e: &Env, account: Address, ok: bool) {
        e.storage().persistent().set(&IdvKey::Bad(account), &!ok);
    }
    pub fn set_target(e: &Env, account: Address, target: Option<Address>) {
        match target {
            Some(t) => e.storage().persistent().set(&IdvKey::Target(account), &t),
            None => e.storage().persistent().remove(&IdvKey::Target(account)),
        }
    }
    pub fn is_ok(e: &Env, account: Address) -> bool {
        !e.storage().persistent().get(&IdvKey::Bad(account)).unwrap_or(false)
    }
    pub fn target(e: &Env, account: Address) -> Option<Address> {
        e.storage().persistent().get(&IdvKey::Target(account))
    }
    pub fn take_log(e: &Env) -> soroban_sdk::Vec<(u32, Address)> {
        let l: soroban_sdk::Vec<(u32, Address)> = e.storage().instance().get(&IdvKey::Log).unwrap_or(soroban_sdk::Vec::new(e));
        e.storage().instance().remove(&IdvKey::Log);
        l
    }
}

// ------------------------------------------------------------------------------------------
// the REAL modular compliance contract: the library's rwa::compliance::storage functions behind a
// harness contract (operator policy as for the token); every call the token makes is logged before
// it is dispatched to the registered modules
// ------------------------------------------------------------------------------------------
#[contracttype]
pub enum CompKey {
    Admin,
    Log,
}

#[contract]
pub struct RealComp;

/// kind: 0 can_transfer, 1 can_create, 2 transferred, 3 created, 4 destroyed
fn comp_log(e: &Env, kind: u32, a: &Address, b: &Address, amount: i128) {
    let mut l: soroban_sdk::Vec<(u32, Address, Address, i128)> = e.storage().instance().get(&CompKey::Log).unwrap_or(soroban_sdk::Vec::new(e));
    l.push_back((kind, a.clone(), b.clone(), amount));
    e.storage().instance().set(&CompKey::Log, &l);
}

fn comp_op_auth(e: &Env, operator: &Address) {
    operator.require_auth();
    let admin: Address = e.storage().instance().get(&CompKey::Admin).expect("admin");
    if admin != *operator {
        panic_with_error!(e, RWAError::IdentityMismatch);
    }
}

#[contractimpl]
impl RealComp {
    pub fn __constructor(e: &Env, admin: Address) {
        e.storage().instance().set(&CompKey::Admin, &admin);
    }
    pub fn take_log(e: &Env) -> soroban_sdk::Vec<(u32, Address, Address, i128)> {
        let l: soroban_sdk::Vec<(u32, Address, Address, i128)> = e.storage().instance().get(&CompKey::Log).unwrap_or(soroban_sdk::Vec::new(e));
        e.storage().instance().remove(&CompKey::Log);
        l
    }
    pub fn is_bound(e: &Env, token: Address) -> bool {
        token_binder::is_token_bound(e, &token)
    }
}

#[contractimpl]
impl TokenBinder for RealComp {
    fn linked_tokens(e: &Env) -> soroban_sdk::Vec<Address> {
        token_binder::linked_tokens(e)
    }
    fn bind_token(e: &Env, token: Address, operator: Address) {
        comp_op_auth(e, &operator);
        token_binder::bind_token(e, &token);
    }
    fn unbind_token(e: &Env, token: Address, operator: Address) {
        comp_op_auth(e, &operator);
        token_binder::unbind_token(e, &token);
    }
}

#[contractimpl]
impl Compliance for RealComp {
    fn add_module_to(e: &Env, hook: ComplianceHook, module: Address, operator: Address) {
        comp_op_auth(e, &operator);
        cstore::add_module_to(e, hook, module);
    }
    fn remove_module_from(e: &Env, hook: ComplianceHook, module: Address, operator: Address) {
        comp_op_auth(e, &operator);
        cstore::remove_module_from(e, hook, module);
    }
    fn get_modules_for_hook(e: &Env, hook: ComplianceHook) -> soroban_sdk::Vec<Address> {
        cstore::get_modules_for_hook(e, hook)
    }
    fn is_module_registered(e: &Env, hook: ComplianceHook, module: Address) -> bool {
        cstore::is_module_registered(e, hook, module)
    }
    fn transferred(e: &Env, from: Address, to: Address, amount: i128, token: Address) {
        comp_log(e, 2, &from, &to, amount);
        cstore::transferred(e, from, to, amount, token);
    }
    fn created(e: &Env, to: Address, amount: i128, token: Address) {
        comp_log(e, 3, &to, &to, amount);
        cstore::created(e, to, amount, token);
    }
    fn destroyed(e: &Env, from: Address, amount: i128, token: Address) {
        comp_log(e, 4, &from, &from, amount);
        cstore::destroyed(e, from, amount, token);
    }
    fn can_transfer(e: &Env, from: Address, to: Address, amount: i128, token: Address) -> bool {
        comp_log(e, 0, &from, &to, amount);
        cstore::can_transfer(e, from, to, amount, token)
    }
    fn can_create(e: &Env, to: Address, amount: i128, token: Address) -> bool {
        comp_log(e, 1, &to, &to, amount);
        cstore::can_create(e, to, amount, token)
    }
}

// ------------------------------------------------------------------------------------------
// MOCK compliance module (registered several times): verdict = flag && parties not blocked &&
// amount <= cap, scriptable; the on_* hooks require the compliance contract's authorization;
// every call is logged
// ------------------------------------------------------------------------------------------
#[contracttype]
pub enum ModKey {
    Cfg,
    Compliance,
    Log,
}

#[contracttype]
#[derive(Clone)]
pub struct ModCfg {
    pub tx_ok: bool,
    pub create_ok: bool,
    pub cap: i128,
    pub blocked: soroban_sdk::Vec<Address>,
}

#[contract]
pub struct Module;

fn mod_cfg(e: &Env) -> ModCfg {
    e.storage().instance().get(&ModKey::Cfg).unwrap_or(ModCfg { tx_ok: true, create_ok: true, cap: i128::MAX, blocked: soroban_sdk::Vec::new(e) })
}

/// kind: 0 can_transfer, 1 can_create, 2 on_transfer, 3 on_created, 4 on_destroyed
fn mod_log(e: &Env, kind: u32, a: &Address, b: &Address, amount: i128) {
    let mut l: soroban_sdk::Vec<(u32, Address, Address, i128)> = e.storage().instance().get(&ModKey::Log).unwrap_or(soroban_sdk::Vec::new(e));
    l.push_back((kind, a.clone(), b.clone(), amount));
    e.storage().instance().set(&ModKey::Log, &l);
}

fn mod_from_compliance(e: &Env) {
    let c: Address = e.storage().instance().get(&ModKey::Compliance).expect("compliance");
    c.require_auth();
}

#[contractimpl]
impl Module {
    pub fn __constructor(e: &Env, compliance: Address) {
        e.storage().instance().set(&ModKey::Compliance, &compliance);
    }
    pub fn can_transfer(e: &Env, from: Address, to: Address, amount: i128, _token: Address) -> bool {
        mod_log(e, 0, &from, &to, amount);
        let c = mod_cfg(e);
        c.tx_ok && !c.blocked.contains(&from) && !c.blocked.contains(&to) && amount <= c.cap
    }
    pub fn can_create(e: &Env, to: Address, amount: i128, _token: Address) -> bool {
        mod_log(e, 1, &to, &to, amount);
        let c = mod_cfg(e);
        c.create_ok && !c.blocked.contains(&to) && amount <= c.cap
    }
    pub fn on_transfer(e: &Env, from: Address, to: Address, amount: i128, _token: Address) {
        mod_from_compliance(e);
        mod_log(e, 2, &from, &to, amount);
    }
    pub fn on_created(e: &Env, to: Address, amount: i128, _token: Address) {
        mod_from_compliance(e);
        mod_log(e, 3, &to, &to, amount);
    }
    pub fn on_destroyed(e: &Env, from: Address, amount: i128, _token: Address) {
        mod_from_compliance(e);
        mod_log(e, 4, &from, &from, amount);
    }
    // ---- scripting + getters (not logged)
    pub fn configure(e: &Env, cfg: ModCfg) {
        e.storage().instance().set(&ModKey::Cfg, &cfg);
    }
    pub fn config(e: &Env) -> ModCfg {
        mod_cfg(e)
    }
    pub fn take_log(e: &Env) -> soroban_sdk::Vec<(u32, Address, Address, i128)> {
        let l: soroban_sdk::Vec<(u32, Address, Address, i128)> = e.storage().instance().get(&ModKey::Log).unwrap_or(soroban_sdk::Vec::new(e));
        e.storage().instance().remove(&ModKey::Log);
        l
    }
}

// ------------------------------------------------------------------------------------------
// the harness RWA token
// ------------------------------------------------------------------------------------------
#[contracttype]
pub enum TokKey {
    Admin,
}

#[contract]
pub struct Tok;

/// the operator policy: the operator authorizes the call and is the admin
fn op_auth(e: &Env, operator: &Address) {
    operator.require_auth();
    let admin: Address = e.storage().instance().get(&TokKey::Admin).expect("admin");
    if admin != *operator {
        panic_with_error!(e, RWAError::IdentityMismatch);
    }
}

#[contractimpl]
impl Tok {
    pub fn __constructor(e: &Env, admin: Address, compliance: Address, identity_verifier: Address) {
        e.storage().instance().set(&TokKey::Admin, &admin);
        RWA::set_compliance(e, &compliance);
        RWA::set_identity_verifier(e, &identity_verifier);
    }
}

#[contractimpl(contracttrait)]
impl FungibleToken for Tok {
    type ContractType = RWA;
}

#[contractimpl]
impl Pausable for Tok {
    fn paused(e: &Env) -> bool {
        pausable::paused(e)
    }
    fn pause(e: &Env, caller: Address) {
        op_auth(e, &caller);
        pausable::pause(e);
    }
    fn unpause(e: &Env, caller: Address) {
        op_auth(e, &caller);
        pausable::unpause(e);
    }
}

#[contractimpl]
impl RWAToken for Tok {
    fn forced_transfer(e: &Env, from: Address, to: Address, amount: i128, operator: Address) {
        op_auth(e, &operator);
        RWA::forced_transfer(e, &from, &to, amount);
    }
    fn mint(e: &Env, to: Address, amount: i128, operator: Address) {
        op_auth(e, &operator);
        RWA::mint(e, &to, amount);
    }
    fn burn(e: &Env, user_address: Address, amount: i128, operator: Address) {
        op_auth(e, &operator);
        RWA::burn(e, &user_address, amount);
    }
    fn recover_balance(e: &Env, old_account: Address, new_account: Address, operator: Address) -> bool {
        op_auth(e, &operator);
        RWA::recover_balance(e, &old_account, &new_account)
    }
    fn set_address_frozen(e: &Env, user_address: Address, freeze: bool, operator: Address) {
        op_auth(e, &operator);
        RWA::set_address_frozen(e, &user_address, freeze);
    }
    fn freeze_partial_tokens(e: &Env, user_address: Address, amount: i128, operator: Address) {
        op_auth(e, &operator);
        RWA::freeze_partial_tokens(e, &user_address, amount);
    }
    fn unfreeze_partial_tokens(e: &Env, user_address: Address, amount: i128, operator: Address) {
        op_auth(e, &operator);
        RWA::unfreeze_partial_tokens(e, &user_address, amount);
    }
    fn is_frozen(e: &Env, user_address: Address) -> bool {
        RWA::is_frozen(e, &user_address)
    }
    fn get_frozen_tokens(e: &Env, user_address: Address) -> i128 {
        RWA::get_frozen_tokens(e, &user_address)
    }
    fn version(e: &Env) -> SString {
        RWA::version(e)
    }
    fn onchain_id(e: &Env) -> Address {
        RWA::onchain_id(e)
    }
    fn set_compliance(e: &Env, compliance: Address, operator: Address) {
        op_auth(e, &operator);
        RWA::set_compliance(e, &compliance);
    }
    fn compliance(e: &Env) -> Address {
        RWA::compliance(e)
    }
    fn set_identity_verifier(e: &Env, identity_verifier: Address, operator: Address) {
        op_auth(e, &operator);
        RWA::set_identity_verifier(e, &identity_verifier);
    }
    fn identity_verifier(e: &Env) -> Address {
        RWA::identity_verifier(e)
    }
}

// ------------------------------------------------------------------------------------------
// simulation
// ------------------------------------------------------------------------------------------
const N: usize = 5;
/// number of mock compliance modules
const K: usize = 3;
const MAX_TTL: u32 = 200_000;
/// universe indices `FIRST_ACCOUNT..N` are ACCOUNT addresses (G..., can be the target of a muxed
/// M... address with an id), the others are contract addresses (C..., cannot be multiplexed).
/// `Env::mock_auths` can only mock contract addresses, so an invocation authorized by an account
/// runs under `mock_all_auths` — only when the authorizing set covers the signer the entry point
/// asks for (otherwise the accounts are dropped from the set and the exact path is taken); the
/// demanded authorization is observed and compared in both cases.
const FIRST_ACCOUNT: usize = 3;
fn is_account(i: usize) -> bool {
    i >= FIRST_ACCOUNT
}
/// ComplianceHook in declaration order: Transferred, Created, Destroyed, CanTransfer, CanCreate
const H_TRANSFERRED: usize = 0;
const H_CREATED: usize = 1;
const H_DESTROYED: usize = 2;
const H_CAN_TRANSFER: usize = 3;
const H_CAN_CREATE: usize = 4;

fn hook_of(i: usize) -> ComplianceHook {
    match i {
        0 => ComplianceHook::Transferred,
        1 => ComplianceHook::Created,
        2 => ComplianceHook::Destroyed,
        3 => ComplianceHook::CanTransfer,
        _ => ComplianceHook::CanCreate,
    }
}

#[derive(Clone, Debug, Default)]
struct MCfg {
    tx_ok: bool,
    create_ok: bool,
    cap: i128,
    blocked: Vec<usize>,
}

impl MCfg {
    fn can_transfer(&self, f: usize, t: usize, amt: i128) -> bool {
        self.tx_ok && !self.blocked.contains(&f) && !self.blocked.contains(&t) && amt <= self.cap
    }
    fn open(&self) -> bool {
        self.tx_ok && self.create_ok && self.blocked.is_empty() && self.cap >= 1000
    }
}

#[derive(Clone, Debug, Default)]
struct Snap {
    sup: i128,
    bal: Vec<i128>,
    allow: Vec<(usize, usize, i128)>,
    paused: bool,
    af: Vec<bool>,
    ft: Vec<i128>,
    id: Vec<bool>,
    rec: Vec<Option<usize>>,
    bound: bool,
    /// registered modules per hook, in registration order
    mods: Vec<Vec<usize>>,
    mcfg: Vec<MCfg>,
}

impl Snap {
    fn free(&self, i: usize) -> i128 {
        self.bal[i] - self.ft[i]
    }
    fn allowance(&self, o: usize, s: usize) -> i128 {
        self.allow.iter().find(|(a, b, _)| *a == o && *b == s).map(|x| x.2).unwrap_or(0)
    }
    /// the smallest amount cap among the modules consulted for transfers
    fn cap(&self) -> i128 {
        self.mods[H_CAN_TRANSFER].iter().map(|m| self.mcfg[*m].cap).min().unwrap_or(i128::MAX)
    }
    /// some registered verdict module is not wide open
    fn comp_closed(&self) -> Option<usize> {
        self.mods[H_CAN_TRANSFER].iter().chain(self.mods[H_CAN_CREATE].iter()).find(|m| !self.mcfg[**m].open()).copied()
    }
    fn show(&self) -> String {
        let al: Vec<String> = self.allow.iter().map(|(o, s, a)| format!("{}:{}:{}", o, s, a)).collect();
        let b = |x: &bool| if *x { "1" } else { "0" }.to_string();
        let af: Vec<String> = self.af.iter().map(b).collect();
        let id: Vec<String> = self.id.iter().map(b).collect();
        let rec: Vec<String> = self.rec.iter().map(|r| r.map(|x| x.to_string()).unwrap_or("-".into())).collect();
        let dots = |v: &Vec<usize>| if v.is_empty() { "-".to_string() } else { v.iter().map(|x| x.to_string()).collect::<Vec<_>>().join(".") };
        let mods: Vec<String> = self.mods.iter().map(dots).collect();
        let cap = |c: i128| if c == i128::MAX { "max".to_string() } else { c.to_string() };
        let mcfg: Vec<String> = self.mcfg.iter().map(|c| format!("{}:{}:{}:{}", b(&c.tx_ok), b(&c.create_ok), cap(c.cap), dots(&c.blocked))).collect();
        format!(
            "sup={} bal={} allow={} paused={} af={} ft={} id={} rec={} bound={} mods={} mcfg={}",
            self.sup,
            join(&self.bal),
            if al.is_empty() { "-".into() } else { al.join(";") },
            b(&self.paused),
            af.join(","),
            join(&self.ft),
            id.join(","),
            rec.join(","),
            b(&self.bound),
            mods.join("/"),
            mcfg.join("/")
        )
    }
}

struct Sim {
    e: Env,
    u: Universe,
    tok: Address,
    idv: Address,
    comp: Address,
    modules: Vec<Address>,
    admin: usize,
    now: u32,
    min_temp: u32,
    snap: Snap,
    /// when set, a `transfer` whose destination is an account is sent to a MUXED address (account +
    /// mux id) with 40 % probability; the chosen id is recorded in the op line (`lu=`)
    mux: Option<Rng>,
    /// the host's max_entry_ttl of this sequence
    max_ttl: u32,
}

impl Sim {
    /// fresh token + identity verifier + REAL compliance contract (token bound, no module
    /// registered) + K mock modules
    fn new(min_temp: u32, start: u32, admin: usize) -> Sim {
        Self::new_ttl(min_temp, start, admin, MAX_TTL)
    }
    fn new_ttl(min_temp: u32, start: u32, admin: usize, max_ttl: u32) -> Sim {
        let e = new_env(start, min_temp, max_ttl);
        // accounts first (generated through the muxed-address generator, the only public way to get
        // an account address), then contract addresses
        let mut u = Universe::new(&e, 0);
        for i in 0..N {
            if is_account(i) {
                u.push(<MuxedAddress as soroban_sdk::testutils::MuxedAddress>::generate(&e).address());
            } else {
                u.push(<Address as soroban_sdk::testutils::Address>::generate(&e));
            }
        }
        let idv = e.register(Idv, ());
        let comp = e.register(RealComp, (u.a(admin).clone(),));
        let modules: Vec<Address> = (0..K).map(|_| e.register(Module, (comp.clone(),))).collect();
        let tok = e.register(Tok, (u.a(admin).clone(), comp.clone(), idv.clone()));
        call_all_auth(&e, &comp, "bind_token", args(&e, [v(&e, &tok), v(&e, u.a(admin))])).expect("bind");
        let mut s = Sim { e, u, tok, idv, comp, modules, admin, now: start, min_temp, snap: Snap::default(), mux: None, max_ttl };
        s.snap = s.read();
        s
    }
    fn label(&self, what: &str) -> String {
        format!("{} admin={} min_temp={} start={}", what, self.admin, self.min_temp, self.now)
    }
    /// module 0 registered for all five hooks: the compliance contract then behaves like one
    /// scriptable verdict (`env_comp`) that is told about every transfer / mint / burn
    fn single_module(&mut self, t: &mut Trace) {
        let admin = self.admin;
        for h in 0..5 {
            self.exec(t, "add_module", &[0, admin], 0, h as u32, false, &[admin]);
        }
    }
    fn q<T: TryFromVal<Env, Val>>(&self, c: &Address, f: &str, a: soroban_sdk::Vec<Val>) -> T {
        query(&self.e, c, f, a).unwrap_or_else(|| panic!("query {} failed", f))
    }
    fn mod_ix(&self, a: &Address) -> usize {
        self.modules.iter().position(|m| m == a).unwrap_or(99)
    }
    fn read(&self) -> Snap {
        let e = &self.e;
        let ad = |i: usize| -> Val { self.u.a(i).into_val(e) };
        let mut s = Snap::default();
        s.sup = self.q(&self.tok, "total_supply", args(e, []));
        s.paused = self.q(&self.tok, "paused", args(e, []));
        for i in 0..N {
            s.bal.push(self.q(&self.tok, "balance", args(e, [ad(i)])));
            s.af.push(self.q(&self.tok, "is_frozen", args(e, [ad(i)])));
            s.ft.push(self.q(&self.tok, "get_frozen_tokens", args(e, [ad(i)])));
            s.id.push(self.q(&self.idv, "is_ok", args(e, [ad(i)])));
            let t: Option<Address> = self.q(&self.idv, "target", args(e, [ad(i)]));
            s.rec.push(t.map(|a| self.u.index_of(&a).unwrap_or(99)));
            for sp in 0..N {
                let a: i128 = self.q(&self.tok, "allowance", args(e, [ad(i), ad(sp)]));
                if a != 0 {
                    s.allow.push((i, sp, a));
                }
            }
        }
        s.bound = self.q(&self.comp, "is_bound", args(e, [v(e, &self.tok)]));
        for h in 0..5 {
            let l: soroban_sdk::Vec<Address> = self.q(&self.comp, "get_modules_for_hook", args(e, [v(e, hook_of(h))]));
            s.mods.push(l.iter().map(|a| self.mod_ix(&a)).collect());
        }
        for m in 0..K {
            let c: ModCfg = self.q(&self.modules[m], "config", args(e, []));
            let mut blocked: Vec<usize> = c.blocked.iter().map(|a| self.u.index_of(&a).unwrap_or(99)).collect();
            blocked.sort();
            s.mcfg.push(MCfg { tx_ok: c.tx_ok, create_ok: c.create_ok, cap: c.cap, blocked });
        }
        s
    }
    fn ix(&self, a: &Address) -> String {
        self.u.index_of(a).map(|i| i.to_string()).unwrap_or("?".into())
    }
    /// decoded events of the last invocation (token events + module registration events of the
    /// compliance contract; token-binder events are not part of the observation)
    fn events(&self) -> String {
        let mut out = vec![];
        for ev in last_events(&self.e) {
            let amt = ev_field(&ev.data, "amount").and_then(sc_i128).map(|x| x.to_string()).unwrap_or("?".into());
            let t0 = ev_addr(&self.u, ev.topics.get(0));
            let t1 = ev_addr(&self.u, ev.topics.get(1));
            let hook_module = || -> (String, String) {
                let h = match ev.topics.get(0) {
                    Some(xdr::ScVal::Vec(Some(vs))) => match vs.first() {
                        Some(xdr::ScVal::Symbol(s)) => match s.to_utf8_string_lossy().as_str() {
                            "Transferred" => "0",
                            "Created" => "1",
                            "Destroyed" => "2",
                            "CanTransfer" => "3",
                            "CanCreate" => "4",
                            _ => "?",
                        },
                        _ => "?",
                    },
                    _ => "?",
                };
                let m = match ev_field(&ev.data, "module") {
                    Some(xdr::ScVal::Address(a)) => self.modules.iter().position(|x| sc_address(x) == *a).map(|i| i.to_string()).unwrap_or("?".into()),
                    _ => "?".into(),
                };
                (h.to_string(), m)
            };
            match ev.name.as_str() {
                "mint" => out.push(format!("mint:{}:{}", t0, amt)),
                "burn" => out.push(format!("burn:{}:{}", t0, amt)),
                "transfer" => match ev_field(&ev.data, "to_muxed_id") {
                    Some(xdr::ScVal::U64(id)) => out.push(format!("transfer:{}:{}:{}:mux{}", t0, t1, amt, id)),
                    _ => out.push(format!("transfer:{}:{}:{}", t0, t1, amt)),
                },
                "approve" => out.push(format!(
                    "approve:{}:{}:{}:{}",
                    t0,
                    t1,
                    amt,
                    ev_field(&ev.data, "live_until_ledger").and_then(sc_u32).map(|x| x.to_string()).unwrap_or("?".into())
                )),
                "tokens_frozen" => out.push(format!("frozen:{}:{}", t0, amt)),
                "tokens_unfrozen" => out.push(format!("unfrozen:{}:{}", t0, amt)),
                "address_frozen" => {
                    let b = match ev.topics.get(1) {
                        Some(xdr::ScVal::Bool(b)) => if *b { "1" } else { "0" },
                        _ => "?",
                    };
                    out.push(format!("afrozen:{}:{}", t0, b))
                }
                "recovery_success" => out.push(format!("recovered:{}:{}", t0, t1)),
                "paused" => out.push("paused".into()),
                "unpaused" => out.push("unpaused".into()),
                "module_added" => {
                    let (h, m) = hook_module();
                    out.push(format!("madd:{}:{}", h, m))
                }
                "module_removed" => {
                    let (h, m) = hook_module();
                    out.push(format!("mrem:{}:{}", h, m))
                }
                "token_bound" | "token_unbound" => {}
                other => out.push(format!("other:{}", other)),
            }
        }
        if out.is_empty() {
            "-".into()
        } else {
            out.join(";")
        }
    }
    /// drains the call logs: (identity verifier calls, compliance queries, compliance
    /// notifications, calls received by the modules grouped by module)
    fn logs(&self) -> (String, String, String, String) {
        let e = &self.e;
        let il: soroban_sdk::Vec<(u32, Address)> = self.q(&self.idv, "take_log", args(e, []));
        let cl: soroban_sdk::Vec<(u32, Address, Address, i128)> = self.q(&self.comp, "take_log", args(e, []));
        let idv: Vec<String> = il.iter().map(|(k, a)| format!("{}:{}", if k == 0 { "verify" } else { "target" }, self.ix(&a))).collect();
        let mut cq = vec![];
        let mut cn = vec![];
        for (k, a, b, amt) in cl.iter() {
            let s = match k {
                0 => format!("can_transfer:{}:{}:{}", self.ix(&a), self.ix(&b), amt),
                1 => format!("can_create:{}:{}", self.ix(&a), amt),
                2 => format!("transferred:{}:{}:{}", self.ix(&a), self.ix(&b), amt),
                3 => format!("created:{}:{}", self.ix(&a), amt),
                _ => format!("destroyed:{}:{}", self.ix(&a), amt),
            };
            if k == 0 || k == 1 {
                cq.push(s)
            } else {
                cn.push(s)
            }
        }
        let mut ml = vec![];
        for m in 0..K {
            let l: soroban_sdk::Vec<(u32, Address, Address, i128)> = self.q(&self.modules[m], "take_log", args(e, []));
            for (k, a, b, amt) in l.iter() {
                ml.push(match k {
                    0 => format!("{}:can_transfer:{}:{}:{}", m, self.ix(&a), self.ix(&b), amt),
                    1 => format!("{}:can_create:{}:{}", m, self.ix(&a), amt),
                    2 => format!("{}:on_transfer:{}:{}:{}", m, self.ix(&a), self.ix(&b), amt),
                    3 => format!("{}:on_created:{}:{}", m, self.ix(&a), amt),
                    _ => format!("{}:on_destroyed:{}:{}", m, self.ix(&a), amt),
                });
            }
        }
        let j = |v: Vec<String>| if v.is_empty() { "-".to_string() } else { v.join(";") };
        (j(idv), j(cq), j(cn), j(ml))
    }
    fn observe(&mut self, t: &mut Trace, ok: bool, ret: &str, evs: String, dem: String) {
        let (idv, cq, cn, ml) = self.logs();
        self.snap = self.read();
        t.obs(&format!(
            "{} ret={} {} now={} ev={} idv={} cq={} cn={} ml={} dem={}",
            if ok { "ok" } else { "err" },
            ret,
            self.snap.show(),
            self.now,
            evs,
            idv,
            cq,
            cn,
            ml,
            dem
        ));
    }
    /// one entry point of the token or of the compliance contract through a real invocation with
    /// exactly `auth` authorizing. For `add_module` / `remove_module`, `a = [module, operator]`
    /// and `lu` carries the hook index.
    /// For `transfer`, `lu` carries the mux id of the destination: 0 = plain address, `u32::MAX` =
    /// id `u64::MAX`, otherwise the id itself (the entry point takes a `MuxedAddress`).
    fn exec(&mut self, t: &mut Trace, kind: &str, a: &[usize], amount: i128, lu: u32, b: bool, auth: &[usize]) {
        let mut lu = lu;
        if kind == "transfer" && lu == 0 && is_account(a[1]) {
            if let Some(r) = self.mux.as_mut() {
                if r.chance(60) {
                    lu = *r.pick(&[1u32, 2, 77, u32::MAX, 1 << 31]);
                }
            }
        }
        let e = self.e.clone();
        let e = &e;
        let ad = |i: usize| -> Val { self.u.a(i).into_val(e) };
        let mut target = self.tok.clone();
        let (func, argv): (&str, soroban_sdk::Vec<Val>) = match kind {
            "mint" => ("mint", args(e, [ad(a[0]), v(e, amount), ad(a[1])])),
            "burn" => ("burn", args(e, [ad(a[0]), v(e, amount), ad(a[1])])),
            "transfer" => {
                let to: MuxedAddress = if lu == 0 {
                    self.u.a(a[1]).clone().into()
                } else {
                    let id = if lu == u32::MAX { u64::MAX } else { lu as u64 };
                    <MuxedAddress as soroban_sdk::testutils::MuxedAddress>::new(self.u.a(a[1]).clone(), id)
                };
                ("transfer", args(e, [ad(a[0]), v(e, to), v(e, amount)]))
            }
            "transfer_from" => ("transfer_from", args(e, [ad(a[0]), ad(a[1]), ad(a[2]), v(e, amount)])),
            "approve" => ("approve", args(e, [ad(a[0]), ad(a[1]), v(e, amount), v(e, lu)])),
            "forced_transfer" => ("forced_transfer", args(e, [ad(a[0]), ad(a[1]), v(e, amount), ad(a[2])])),
            "recover" => ("recover_balance", args(e, [ad(a[0]), ad(a[1]), ad(a[2])])),
            "freeze" => ("freeze_partial_tokens", args(e, [ad(a[0]), v(e, amount), ad(a[1])])),
            "unfreeze" => ("unfreeze_partial_tokens", args(e, [ad(a[0]), v(e, amount), ad(a[1])])),
            "set_frozen" => ("set_address_frozen", args(e, [ad(a[0]), v(e, b), ad(a[1])])),
            "pause" => ("pause", args(e, [ad(a[0])])),
            "unpause" => ("unpause", args(e, [ad(a[0])])),
            "add_module" => {
                target = self.comp.clone();
                ("add_module_to", args(e, [v(e, hook_of(lu as usize)), v(e, &self.modules[a[0]]), ad(a[1])]))
            }
            "remove_module" => {
                target = self.comp.clone();
                ("remove_module_from", args(e, [v(e, hook_of(lu as usize)), v(e, &self.modules[a[0]]), ad(a[1])]))
            }
            "bind" => {
                target = self.comp.clone();
                ("bind_token", args(e, [v(e, &self.tok), ad(a[0])]))
            }
            "unbind" => {
                target = self.comp.clone();
                ("unbind_token", args(e, [v(e, &self.tok), ad(a[0])]))
            }
            _ => unreachable!(),
        };
        // who the entry point asks for: the holder / spender / owner (first address) of a holder
        // op, the operator (last address) of everything else
        let right = match kind {
            "transfer" | "transfer_from" | "approve" => a[0],
            _ => *a.last().unwrap(),
        };
        let mut auth: Vec<usize> = auth.to_vec();
        let all_auth = auth.iter().any(|i| is_account(*i)) && auth.contains(&right);
        if !all_auth {
            auth.retain(|i| !is_account(*i));
        }
        let auth = &auth[..];
        t.op(&format!("rwa {} a={} amt={} lu={} b={} auth={}", kind, join(a), amount, lu, if b { 1 } else { 0 }, join(auth)));
        let signers: Vec<&Address> = auth.iter().map(|&i| self.u.a(i)).collect();
        let r = if all_auth { call_all_auth(e, &target, func, argv) } else { call(e, &target, func, argv, &signers) };
        match r {
            Some(val) => {
                let dem = join(&demanded(e, &self.u));
                let evs = self.events();
                let ret = if kind == "recover" {
                    match bool::try_from_val(e, &val) {
                        Ok(true) => "true",
                        Ok(false) => "false",
                        _ => "?",
                    }
                } else {
                    "-"
                };
                self.observe(t, true, ret, evs, dem);
            }
            None => self.observe(t, false, "-", "-".into(), "-".into()),
        }
    }
    fn advance(&mut self, t: &mut Trace, n: u32) {
        self.now += n;
        set_ledger(&self.e, self.now, self.min_temp, self.max_ttl);
        t.op(&format!("rwa advance n={}", n));
        self.observe(t, true, "-", "-".into(), "-".into());
    }
    // ---- environment: scripting of the mocks (no authorization involved)
    fn env_id(&mut self, t: &mut Trace, a: usize, ok: bool) {
        t.op(&format!("rwa env_id a={} b={}", a, if ok { 1 } else { 0 }));
        let e = &self.e;
        call_all_auth(e, &self.idv, "set_ok", args(e, [v(e, self.u.a(a)), v(e, ok)])).expect("set_ok");
        self.observe(t, true, "-", "-".into(), "-".into());
    }
    fn env_rec(&mut self, t: &mut Trace, a: usize, target: Option<usize>) {
        t.op(&format!("rwa env_rec a={} t={}", a, target.map(|x| x.to_string()).unwrap_or("-".into())));
        let e = &self.e;
        let tv: Option<Address> = target.map(|i| self.u.a(i).clone());
        call_all_auth(e, &self.idv, "set_target", args(e, [v(e, self.u.a(a)), v(e, tv)])).expect("set_target");
        self.observe(t, true, "-", "-".into(), "-".into());
    }
    /// script the verdict of module `m`
    fn env_mod(&mut self, t: &mut Trace, m: usize, tx_ok: bool, create_ok: bool, cap: i128, blocked: &[usize]) {
        let mut bl: Vec<usize> = blocked.to_vec();
        bl.sort();
        bl.dedup();
        let b = |x: bool| if x { 1 } else { 0 };
        t.op(&format!("rwa env_mod m={} tx={} create={} cap={} block={}", m, b(tx_ok), b(create_ok), cap, join(&bl)));
        let e = &self.e;
        let mut bv: soroban_sdk::Vec<Address> = soroban_sdk::Vec::new(e);
        for i in bl.iter() {
            bv.push_back(self.u.a(*i).clone());
        }
        let cfg = ModCfg { tx_ok, create_ok, cap, blocked: bv };
        call_all_auth(e, &self.modules[m], "configure", args(e, [v(e, cfg)])).expect("configure");
        self.observe(t, true, "-", "-".into(), "-".into());
    }
    /// the single-module sequences script "the compliance contract" through module 0
    fn env_comp(&mut self, t: &mut Trace, tx_ok: bool, create_ok: bool, cap: i128, blocked: &[usize]) {
        self.env_mod(t, 0, tx_ok, create_ok, cap, blocked)
    }
}

// ------------------------------------------------------------------------------------------
// generators
// ------------------------------------------------------------------------------------------
fn pick_amount(rng: &mut Rng, s: &Snap, from: Option<usize>, spender: Option<usize>) -> i128 {
    let bal = from.map(|f| s.bal[f]).unwrap_or(0);
    let ft = from.map(|f| s.ft[f]).unwrap_or(0);
    let free = bal - ft;
    let allow = match (from, spender) {
        (Some(f), Some(sp)) => s.allowance(f, sp),
        _ => 0,
    };
    match rng.below(30) {
        0 => 0,
        1 => 1,
        2 => -1,
        3 => bal,
        4 => bal.saturating_add(1),
        5 => (bal - 1).max(0),
        6 => free,
        7 => free.saturating_add(1),
        8 => (free - 1).max(0),
        9 => ft,
        10 => ft.saturating_add(1),
        11 => (ft - 1).max(0),
        12 => allow,
        13 => allow.saturating_add(1),
        14 => i128::MAX,
        15 => i128::MAX - s.sup,
        16 => (i128::MAX - s.sup).saturating_add(1),
        17 => i128::MIN,
        18 => rng.i128_any(),
        19 => free / 2,
        20 => allow.min(free),
        21 => s.cap(),
        22 => s.cap().saturating_add(1),
        23 => bal / 2,
        _ => rng.range(1, 1000) as i128,
    }
}

/// (holder, receiver, spender) distinct from the admin; the receiver is an ACCOUNT address so that
/// transfers to it can be muxed
fn cast(rng: &mut Rng, admin: usize) -> (usize, usize, usize) {
    let accounts: Vec<usize> = (0..N).filter(|x| is_account(*x) && *x != admin).collect();
    let to = *rng.pick(&accounts);
    let mut rest: Vec<usize> = (0..N).filter(|x| *x != admin && *x != to).collect();
    let i = rng.below(rest.len() as u64) as usize;
    let f = rest.remove(i);
    let sp = *rng.pick(&rest);
    (f, to, sp)
}

/// an amount that passes an upper bound (`upper` itself, just below, half, small, zero)
fn valid_amount(rng: &mut Rng, upper: i128) -> i128 {
    if upper <= 0 {
        return 0;
    }
    match rng.below(8) {
        0 | 1 => upper,
        2 => upper - 1,
        3 => upper / 2,
        4 => 1,
        5 => 0,
        _ => rng.range(0, upper.min(1_000_000) as i64) as i128,
    }
}

fn gen_auth(rng: &mut Rng, right: &[usize], mentioned: &[usize]) -> Vec<usize> {
    let mut r: Vec<usize> = vec![];
    if rng.chance(82) {
        r.extend_from_slice(right);
        if rng.chance(15) {
            r.push(rng.below(N as u64) as usize);
        }
    } else if rng.chance(50) {
        for x in mentioned.iter() {
            if !right.contains(x) {
                r.push(*x);
            }
        }
    } else {
        for i in 0..N {
            if rng.chance(35) {
                r.push(i);
            }
        }
    }
    r.sort();
    r.dedup();
    r
}

/// DESIGN section 8, defect 1: paused + owner frozen + 90 of 100 partially frozen + identity failing +
/// compliance denying; `transfer_from(sp, owner, to, 50)` must be rejected.
fn scenario_directed(t: &mut Trace) {
    let mut s = Sim::new(1, 100, 0);
    t.seq(&s.label("directed transfer_from through closed gates"));
    s.single_module(t);
    s.exec(t, "mint", &[1, 0], 100, 0, false, &[0]);
    s.exec(t, "approve", &[1, 3], 80, 5000, false, &[1]);
    s.exec(t, "freeze", &[1, 0], 90, 0, false, &[0]);
    s.exec(t, "set_frozen", &[1, 0], 0, 0, true, &[0]);
    s.env_id(t, 1, false);
    s.env_comp(t, false, true, i128::MAX, &[]);
    s.exec(t, "pause", &[0], 0, 0, false, &[0]);
    s.exec(t, "transfer", &[1, 2], 5, 0, false, &[1]);
    s.exec(t, "transfer_from", &[3, 1, 2], 50, 0, false, &[3]);
    // one gate at a time for transfer_from
    let mut s = Sim::new(1, 100, 0);
    t.seq(&s.label("directed transfer_from one gate at a time"));
    s.single_module(t);
    s.exec(t, "mint", &[1, 0], 100, 0, false, &[0]);
    s.exec(t, "approve", &[1, 3], 1000, 5000, false, &[1]);
    s.exec(t, "transfer_from", &[3, 1, 2], 1, 0, false, &[3]);
    s.exec(t, "pause", &[0], 0, 0, false, &[0]);
    s.exec(t, "transfer_from", &[3, 1, 2], 1, 0, false, &[3]);
    s.exec(t, "unpause", &[0], 0, 0, false, &[0]);
    s.exec(t, "set_frozen", &[1, 0], 0, 0, true, &[0]);
    s.exec(t, "transfer_from", &[3, 1, 2], 1, 0, false, &[3]);
    s.exec(t, "set_frozen", &[1, 0], 0, 0, false, &[0]);
    s.exec(t, "set_frozen", &[2, 0], 0, 0, true, &[0]);
    s.exec(t, "transfer_from", &[3, 1, 2], 1, 0, false, &[3]);
    s.exec(t, "set_frozen", &[2, 0], 0, 0, false, &[0]);
    s.exec(t, "freeze", &[1, 0], 90, 0, false, &[0]);
    s.exec(t, "transfer_from", &[3, 1, 2], 10, 0, false, &[3]);
    s.exec(t, "transfer_from", &[3, 1, 2], 9, 0, false, &[3]);
    s.exec(t, "unfreeze", &[1, 0], 50, 0, false, &[0]);
    s.env_id(t, 1, false);
    s.exec(t, "transfer_from", &[3, 1, 2], 1, 0, false, &[3]);
    s.env_id(t, 1, true);
    s.env_id(t, 2, false);
    s.exec(t, "transfer_from", &[3, 1, 2], 1, 0, false, &[3]);
    s.env_id(t, 2, true);
    s.env_comp(t, false, true, i128::MAX, &[]);
    s.exec(t, "transfer_from", &[3, 1, 2], 1, 0, false, &[3]);
    s.env_comp(t, true, true, 5, &[]);
    s.exec(t, "transfer_from", &[3, 1, 2], 6, 0, false, &[3]);
    s.exec(t, "transfer_from", &[3, 1, 2], 5, 0, false, &[3]);
    s.env_comp(t, true, true, i128::MAX, &[2]);
    s.exec(t, "transfer_from", &[3, 1, 2], 1, 0, false, &[3]);
    // supervisory paths: minimal unfreeze, recovery, wrong operator, burn
    let mut s = Sim::new(16, 100, 4);
    t.seq(&s.label("directed supervisory paths"));
    s.single_module(t);
    s.exec(t, "mint", &[1, 4], 1000, 0, false, &[4]);
    s.exec(t, "mint", &[1, 3], 1000, 0, false, &[3]);
    s.exec(t, "mint", &[1, 4], 1000, 0, false, &[]);
    s.exec(t, "freeze", &[1, 4], 700, 0, false, &[4]);
    s.exec(t, "freeze", &[1, 4], 301, 0, false, &[4]);
    s.exec(t, "freeze", &[1, 4], i128::MAX, 0, false, &[4]);
    s.exec(t, "forced_transfer", &[1, 2, 4], 300, 0, false, &[4]);
    s.exec(t, "forced_transfer", &[1, 2, 4], 1, 0, false, &[4]);
    s.exec(t, "forced_transfer", &[1, 1, 4], 699, 0, false, &[4]);
    s.exec(t, "forced_transfer", &[1, 2, 4], 700, 0, false, &[4]);
    s.exec(t, "forced_transfer", &[1, 2, 4], -1, 0, false, &[4]);
    s.exec(t, "burn", &[1, 4], 100, 0, false, &[4]);
    s.exec(t, "burn", &[1, 4], 600, 0, false, &[4]);
    s.exec(t, "unfreeze", &[1, 4], 600, 0, false, &[4]);
    s.exec(t, "unfreeze", &[1, 4], 599, 0, false, &[4]);
    s.exec(t, "mint", &[1, 4], 500, 0, false, &[4]);
    s.exec(t, "freeze", &[1, 4], 200, 0, false, &[4]);
    s.exec(t, "burn", &[1, 4], 950, 0, false, &[4]);
    s.exec(t, "burn", &[1, 4], 0, 0, false, &[4]);
    s.exec(t, "mint", &[1, 4], 350, 0, false, &[4]);
    s.exec(t, "freeze", &[1, 4], 50, 0, false, &[4]);
    s.exec(t, "set_frozen", &[1, 4], 0, 0, true, &[4]);
    s.exec(t, "recover", &[1, 3, 4], 0, 0, false, &[4]);
    s.env_rec(t, 1, Some(2));
    s.exec(t, "recover", &[1, 3, 4], 0, 0, false, &[4]);
    s.exec(t, "freeze", &[2, 4], 50, 0, false, &[4]);
    s.exec(t, "recover", &[1, 2, 4], 0, 0, false, &[4]);
    s.exec(t, "recover", &[1, 2, 4], 0, 0, false, &[4]);
    s.env_rec(t, 2, Some(2));
    s.exec(t, "recover", &[2, 2, 4], 0, 0, false, &[4]);
    s.env_id(t, 3, false);
    s.env_rec(t, 2, Some(3));
    s.exec(t, "recover", &[2, 3, 4], 0, 0, false, &[4]);
    s.exec(t, "mint", &[3, 4], 5, 0, false, &[4]);
    s.env_comp(t, true, false, i128::MAX, &[]);
    s.exec(t, "mint", &[0, 4], 5, 0, false, &[4]);
    s.exec(t, "pause", &[4], 0, 0, false, &[4]);
    s.exec(t, "pause", &[4], 0, 0, false, &[4]);
    s.exec(t, "forced_transfer", &[2, 0, 4], 10, 0, false, &[4]);
    s.exec(t, "unpause", &[3], 0, 0, false, &[3]);
    s.exec(t, "unpause", &[4], 0, 0, false, &[4]);
    s.exec(t, "unpause", &[4], 0, 0, false, &[4]);
}

/// One gate closed at a time (all others open), for transfer, transfer_from and mint: the closed
/// gate must reject, the reopened gate must accept. Accounts are drawn per run.
fn scenario_single_gates(t: &mut Trace, rng: &mut Rng) {
    let admin = rng.below(N as u64) as usize;
    let others: Vec<usize> = (0..N).filter(|x| *x != admin).collect();
    let _ = others;
    let (f, to, sp) = cast(rng, admin);
    let mut s = Sim::new(1, 100, admin);
    s.mux = Some(rng.fork());
    t.seq(&s.label("single gates"));
    s.single_module(t);
    s.exec(t, "mint", &[f, admin], 10_000, 0, false, &[admin]);
    s.exec(t, "approve", &[f, sp], 1_000_000, 50_000, false, &[f]);
    s.exec(t, "freeze", &[f, admin], 9_000, 0, false, &[admin]);
    for kind in ["transfer", "transfer_from", "mint"] {
        for gate in 0..10 {
            let amt = rng.range(1, 20) as i128;
            let mut run = |s: &mut Sim, t: &mut Trace, amt: i128| match kind {
                "transfer" => s.exec(t, kind, &[f, to], amt, 0, false, &[f]),
                "transfer_from" => s.exec(t, kind, &[sp, f, to], amt, 0, false, &[sp]),
                _ => s.exec(t, kind, &[to, admin], amt, 0, false, &[admin]),
            };
            // close
            match gate {
                0 => s.exec(t, "pause", &[admin], 0, 0, false, &[admin]),
                1 => s.exec(t, "set_frozen", &[f, admin], 0, 0, true, &[admin]),
                2 => s.exec(t, "set_frozen", &[to, admin], 0, 0, true, &[admin]),
                3 => {}
                4 => s.env_id(t, f, false),
                5 => s.env_id(t, to, false),
                6 => s.env_comp(t, kind == "mint", kind != "mint", i128::MAX, &[]),
                7 => s.env_comp(t, true, true, i128::MAX, &[f]),
                8 => s.env_comp(t, true, true, i128::MAX, &[to]),
                _ => s.env_comp(t, true, true, amt - 1, &[]),
            }
            if gate == 3 {
                let free = s.snap.free(f);
                run(&mut s, t, free + 1);
                run(&mut s, t, free);
                // restore a comfortable free balance
                let (bal, ft) = (s.snap.bal[f], s.snap.ft[f]);
                if bal < 2_000 {
                    s.exec(t, "mint", &[f, admin], 10_000, 0, false, &[admin]);
                } else if bal - ft < 500 {
                    s.exec(t, "unfreeze", &[f, admin], 500.min(ft), 0, false, &[admin]);
                }
                continue;
            }
            run(&mut s, t, amt);
            // reopen
            match gate {
                0 => s.exec(t, "unpause", &[admin], 0, 0, false, &[admin]),
                1 => s.exec(t, "set_frozen", &[f, admin], 0, 0, false, &[admin]),
                2 => s.exec(t, "set_frozen", &[to, admin], 0, 0, false, &[admin]),
                4 => s.env_id(t, f, true),
                5 => s.env_id(t, to, true),
                _ => s.env_comp(t, true, true, i128::MAX, &[]),
            }
            run(&mut s, t, amt);
        }
    }
}

/// Every entry point crossed with every combination of the seven gate bits (Gray-code walk, one
/// toggle per step) and the partial freeze below / at / above the amount.
fn scenario_gate_sweep(t: &mut Trace, rng: &mut Rng, per_combo: usize) {
    let admin = rng.below(N as u64) as usize;
    let others: Vec<usize> = (0..N).filter(|x| *x != admin).collect();
    let _ = others;
    let (f, to, sp) = cast(rng, admin);
    let mut s = Sim::new(1, 100, admin);
    s.mux = Some(rng.fork());
    t.seq(&s.label("gate sweep"));
    s.single_module(t);
    s.exec(t, "mint", &[f, admin], 1_000_000, 0, false, &[admin]);
    s.exec(t, "mint", &[to, admin], 1_000, 0, false, &[admin]);
    s.exec(t, "approve", &[f, sp], i128::MAX, 100_000, false, &[f]);
    s.env_rec(t, f, Some(to));
    let kinds = ["transfer", "transfer_from", "mint", "forced_transfer", "burn", "recover"];
    let mut prev = 0u32;
    for step in 0..128u32 {
        let g = step ^ (step >> 1);
        let changed = g ^ prev;
        prev = g;
        let on = |bit: u32| g & (1 << bit) != 0;
        match changed {
            0 => {}
            1 => s.exec(t, if on(0) { "pause" } else { "unpause" }, &[admin], 0, 0, false, &[admin]),
            2 => s.exec(t, "set_frozen", &[f, admin], 0, 0, on(1), &[admin]),
            4 => s.exec(t, "set_frozen", &[to, admin], 0, 0, on(2), &[admin]),
            8 => s.env_id(t, f, !on(3)),
            16 => s.env_id(t, to, !on(4)),
            32 | 64 => s.env_comp(t, !on(5), !on(6), i128::MAX, &[]),
            _ => unreachable!(),
        }
        for round in 0..per_combo + 2 {
            // make the free balance of `f` small and known: free = k
            let k = rng.range(1, 40) as i128;
            let (bal, ft) = (s.snap.bal[f], s.snap.ft[f]);
            if bal < 1000 {
                // refill (supervisory, not gated by freeze/pause; needs a verified recipient)
                s.exec(t, "forced_transfer", &[to, f, admin], s.snap.bal[to] / 2, 0, false, &[admin]);
                continue;
            }
            let want = bal - k;
            if want > ft {
                s.exec(t, "freeze", &[f, admin], want - ft, 0, false, &[admin]);
            } else if want < ft {
                s.exec(t, "unfreeze", &[f, admin], ft - want, 0, false, &[admin]);
            }
            // the two holder moves at every combination, then a few others
            let kind = match round {
                0 => "transfer",
                1 => "transfer_from",
                _ => *rng.pick(&kinds),
            };
            let amount = *rng.pick(&[k - 1, k, k, k, k + 1, 0]);
            match kind {
                "transfer" => s.exec(t, kind, &[f, to], amount, 0, false, &[f]),
                "transfer_from" => s.exec(t, kind, &[sp, f, to], amount, 0, false, &[sp]),
                "mint" => s.exec(t, kind, &[to, admin], amount, 0, false, &[admin]),
                "forced_transfer" => s.exec(t, kind, &[f, to, admin], amount, 0, false, &[admin]),
                "burn" => s.exec(t, kind, &[f, admin], amount, 0, false, &[admin]),
                _ => {
                    if rng.chance(25) {
                        s.exec(t, kind, &[f, to, admin], 0, 0, false, &[admin]);
                        // move it back so that the walk can go on
                        s.env_rec(t, to, Some(f));
                        s.exec(t, kind, &[to, f, admin], 0, 0, false, &[admin]);
                        if s.snap.bal[f] < 1000 {
                            // recovery failed on the way back: end the walk here
                            return;
                        }
                    }
                }
            }
        }
    }
}

/// The seeded defect's shape and its neighbours: several CanTransfer / CanCreate modules that
/// disagree, the rejecting one first / in the middle / last; fan-out of the notification hooks to
/// different module sets; removal; an unbound token.
fn scenario_modules_directed(t: &mut Trace) {
    let mut s = Sim::new(1, 100, 0);
    t.seq(&s.label("directed modules: veto order"));
    let max = i128::MAX;
    s.exec(t, "mint", &[1, 0], 1000, 0, false, &[0]);
    s.exec(t, "approve", &[1, 3], 500, 5000, false, &[1]);
    s.exec(t, "add_module", &[0, 0], 0, H_CAN_TRANSFER as u32, false, &[0]);
    s.exec(t, "add_module", &[1, 0], 0, H_CAN_TRANSFER as u32, false, &[0]);
    s.exec(t, "add_module", &[1, 0], 0, H_CAN_TRANSFER as u32, false, &[0]);
    s.exec(t, "add_module", &[2, 1], 0, H_CAN_TRANSFER as u32, false, &[1]);
    s.exec(t, "add_module", &[1, 0], 0, H_TRANSFERRED as u32, false, &[0]);
    s.exec(t, "add_module", &[2, 0], 0, H_TRANSFERRED as u32, false, &[0]);
    // [deny, allow]
    s.env_mod(t, 0, false, true, max, &[]);
    s.exec(t, "transfer", &[1, 2], 10, 0, false, &[1]);
    s.exec(t, "transfer_from", &[3, 1, 2], 10, 0, false, &[3]);
    // [allow, deny]
    s.env_mod(t, 0, true, true, max, &[]);
    s.env_mod(t, 1, false, true, max, &[]);
    s.exec(t, "transfer", &[1, 2], 10, 0, false, &[1]);
    s.exec(t, "transfer_from", &[3, 1, 2], 10, 0, false, &[3]);
    // [allow, allow]
    s.env_mod(t, 1, true, true, max, &[]);
    s.exec(t, "transfer", &[1, 2], 10, 0, false, &[1]);
    s.exec(t, "transfer_from", &[3, 1, 2], 10, 0, false, &[3]);
    // three modules: [allow, deny, allow], [deny(cap), allow, allow], [allow, allow, deny(blocked)]
    s.exec(t, "add_module", &[2, 0], 0, H_CAN_TRANSFER as u32, false, &[0]);
    s.env_mod(t, 1, false, true, max, &[]);
    s.exec(t, "transfer", &[1, 2], 10, 0, false, &[1]);
    s.exec(t, "transfer_from", &[3, 1, 2], 10, 0, false, &[3]);
    s.env_mod(t, 1, true, true, max, &[]);
    s.env_mod(t, 0, true, true, 9, &[]);
    s.exec(t, "transfer", &[1, 2], 10, 0, false, &[1]);
    s.exec(t, "transfer", &[1, 2], 9, 0, false, &[1]);
    s.exec(t, "transfer_from", &[3, 1, 2], 10, 0, false, &[3]);
    s.env_mod(t, 0, true, true, max, &[]);
    s.env_mod(t, 2, true, true, max, &[2]);
    s.exec(t, "transfer", &[1, 2], 10, 0, false, &[1]);
    s.exec(t, "transfer", &[1, 4], 10, 0, false, &[1]);
    s.exec(t, "transfer_from", &[3, 1, 2], 10, 0, false, &[3]);
    // the rejecting module is removed: the others decide
    s.exec(t, "remove_module", &[2, 0], 0, H_CAN_TRANSFER as u32, false, &[0]);
    s.exec(t, "remove_module", &[2, 0], 0, H_CAN_TRANSFER as u32, false, &[0]);
    s.exec(t, "transfer", &[1, 2], 10, 0, false, &[1]);
    // remove the first, re-add it last: order changes
    s.exec(t, "remove_module", &[0, 0], 0, H_CAN_TRANSFER as u32, false, &[0]);
    s.exec(t, "add_module", &[0, 0], 0, H_CAN_TRANSFER as u32, false, &[0]);
    s.env_mod(t, 1, false, true, max, &[]);
    s.exec(t, "transfer", &[1, 2], 10, 0, false, &[1]);
    s.env_mod(t, 1, true, true, max, &[]);
    // mint: CanCreate modules [2, 0]; Created -> 0; Destroyed -> 1, 2
    s.exec(t, "add_module", &[2, 0], 0, H_CAN_CREATE as u32, false, &[0]);
    s.exec(t, "add_module", &[0, 0], 0, H_CAN_CREATE as u32, false, &[0]);
    s.exec(t, "add_module", &[0, 0], 0, H_CREATED as u32, false, &[0]);
    s.exec(t, "add_module", &[1, 0], 0, H_DESTROYED as u32, false, &[0]);
    s.exec(t, "add_module", &[2, 0], 0, H_DESTROYED as u32, false, &[0]);
    s.exec(t, "mint", &[4, 0], 5, 0, false, &[0]);
    s.env_mod(t, 2, true, false, max, &[2]);
    s.exec(t, "mint", &[4, 0], 5, 0, false, &[0]);
    s.env_mod(t, 2, true, true, max, &[]);
    s.env_mod(t, 0, true, false, max, &[]);
    s.exec(t, "mint", &[4, 0], 5, 0, false, &[0]);
    s.env_mod(t, 0, true, true, max, &[]);
    s.exec(t, "mint", &[4, 0], 5, 0, false, &[0]);
    s.exec(t, "burn", &[4, 0], 3, 0, false, &[0]);
    s.exec(t, "forced_transfer", &[1, 4, 0], 7, 0, false, &[0]);
    // an unbound token cannot notify: every move fails
    s.exec(t, "unbind", &[0], 0, 0, false, &[0]);
    s.exec(t, "unbind", &[0], 0, 0, false, &[0]);
    s.exec(t, "transfer", &[1, 2], 1, 0, false, &[1]);
    s.exec(t, "mint", &[4, 0], 5, 0, false, &[0]);
    s.exec(t, "burn", &[4, 0], 1, 0, false, &[0]);
    s.exec(t, "bind", &[1], 0, 0, false, &[1]);
    s.exec(t, "bind", &[0], 0, 0, false, &[0]);
    s.exec(t, "bind", &[0], 0, 0, false, &[0]);
    s.exec(t, "transfer", &[1, 2], 1, 0, false, &[1]);
}

/// `FungibleToken::transfer` takes a `MuxedAddress`: a destination carrying a mux id must go
/// through the same gates, move the same balance, notify the compliance contract and its modules
/// exactly once, and emit a `transfer` event whose `to` is the underlying account
/// Long idle periods: balances, frozen amounts, address-freeze flags, the pause flag, the binding
/// and the module registry must survive months without any access (a one-year max_entry_ttl keeps the
/// unmodified code's persistent / instance entries live); the gates must still hold afterwards.
fn scenario_long_idle(t: &mut Trace) {
    const DAY: u32 = 17_280;
    let mut s = Sim::new_ttl(16, 100, 0, 6_312_000);
    t.seq(&s.label("directed long idle"));
    s.single_module(t);
    s.exec(t, "mint", &[1, 0], 1000, 0, false, &[0]);
    s.exec(t, "mint", &[2, 0], 500, 0, false, &[0]);
    s.exec(t, "mint", &[4, 0], 300, 0, false, &[0]);
    s.exec(t, "freeze", &[1, 0], 600, 0, false, &[0]);
    s.exec(t, "set_frozen", &[2, 0], 0, 0, true, &[0]);
    s.advance(t, DAY);
    s.exec(t, "transfer", &[2, 4], 1, 0, false, &[2]);
    s.advance(t, 31 * DAY);
    s.exec(t, "transfer", &[2, 4], 1, 0, false, &[2]);     // address still frozen
    s.exec(t, "transfer", &[4, 2], 1, 0, false, &[4]);     // ... also as receiver
    s.exec(t, "transfer", &[1, 4], 401, 0, false, &[1]);   // partial freeze still holds
    s.exec(t, "transfer", &[1, 4], 400, 0, false, &[1]);
    s.exec(t, "pause", &[0], 0, 0, false, &[0]);
    s.advance(t, 100 * DAY);
    s.exec(t, "transfer", &[4, 1], 1, 0, false, &[4]);     // still paused
    s.exec(t, "unpause", &[0], 0, 0, false, &[0]);
    s.exec(t, "transfer", &[2, 4], 1, 0, false, &[2]);
    s.exec(t, "approve", &[2, 4], 50, s.now + 10, false, &[2]);
    s.exec(t, "transfer_from", &[4, 2, 4], 5, 0, false, &[4]);
    s.exec(t, "set_frozen", &[2, 0], 0, 0, false, &[0]);
    s.exec(t, "transfer", &[2, 4], 1, 0, false, &[2]);
    s.exec(t, "burn", &[1, 0], 700, 0, false, &[0]);
    s.advance(t, 31 * DAY);
    s.exec(t, "transfer", &[4, 1], 7, 0, false, &[4]);
}

fn scenario_muxed_directed(t: &mut Trace) {
    let mut s = Sim::new(1, 100, 0);
    t.seq(&s.label("directed muxed destination"));
    s.single_module(t);
    s.exec(t, "add_module", &[1, 0], 0, H_TRANSFERRED as u32, false, &[0]);
    s.exec(t, "mint", &[1, 0], 1000, 0, false, &[0]);
    s.exec(t, "transfer", &[1, 3], 15, 0, false, &[1]);
    s.exec(t, "transfer", &[1, 3], 15, 7, false, &[1]);
    s.exec(t, "transfer", &[1, 3], 15, u32::MAX, false, &[1]);
    s.exec(t, "transfer", &[1, 3], 15, 7, false, &[2]);
    s.exec(t, "transfer", &[1, 2], 15, 0, false, &[1]);
    // an account as sender (authorized under mock_all_auths), to itself and to another account
    s.exec(t, "transfer", &[3, 3], 15, 3, false, &[3]);
    s.exec(t, "transfer", &[3, 4], 5, 1 << 31, false, &[3]);
    s.exec(t, "transfer", &[3, 4], 5, 2, false, &[4]);
    s.exec(t, "approve", &[3, 1], 20, 5000, false, &[3]);
    s.exec(t, "transfer_from", &[1, 3, 4], 5, 0, false, &[1]);
    // the gates hold for a muxed destination too
    s.exec(t, "freeze", &[1, 0], 900, 0, false, &[0]);
    s.exec(t, "transfer", &[1, 3], 41, 9, false, &[1]);
    s.exec(t, "transfer", &[1, 3], 40, 9, false, &[1]);
    s.exec(t, "unfreeze", &[1, 0], 500, 0, false, &[0]);
    s.exec(t, "pause", &[0], 0, 0, false, &[0]);
    s.exec(t, "transfer", &[1, 3], 1, 9, false, &[1]);
    s.exec(t, "unpause", &[0], 0, 0, false, &[0]);
    s.exec(t, "set_frozen", &[3, 0], 0, 0, true, &[0]);
    s.exec(t, "transfer", &[1, 3], 1, 9, false, &[1]);
    s.exec(t, "set_frozen", &[3, 0], 0, 0, false, &[0]);
    s.env_id(t, 3, false);
    s.exec(t, "transfer", &[1, 3], 1, 9, false, &[1]);
    s.env_id(t, 3, true);
    s.env_comp(t, true, true, i128::MAX, &[3]);
    s.exec(t, "transfer", &[1, 3], 1, 9, false, &[1]);
    s.env_comp(t, true, true, i128::MAX, &[]);
    s.exec(t, "transfer", &[1, 3], 1, 9, false, &[1]);
}

/// every ordered registration of a subset of the modules (16 arrangements of 3 modules) for
/// CanTransfer and CanCreate, crossed with every combination of module verdicts (Gray-code walk,
/// one module re-scripted per step; a rejection is a flag, an amount cap, or a blocked party), for
/// transfer, transfer_from and mint; the notification hooks get independent random arrangements
fn scenario_module_matrix(t: &mut Trace, rng: &mut Rng, arrangements: usize) {
    let mut all: Vec<Vec<usize>> = vec![vec![]];
    for a in 0..K {
        all.push(vec![a]);
        for b in 0..K {
            if b != a {
                all.push(vec![a, b]);
                for c in 0..K {
                    if c != a && c != b {
                        all.push(vec![a, b, c]);
                    }
                }
            }
        }
    }
    // the interesting ones (two or more modules) first when only a sample is run
    all.sort_by_key(|v| std::cmp::Reverse(v.len()));
    let start = rng.below(6) as usize;
    all[..6].rotate_left(start);
    for arr in all.iter().take(arrangements) {
        let admin = rng.below(N as u64) as usize;
        let others: Vec<usize> = (0..N).filter(|x| *x != admin).collect();
        let _ = others;
        let (f, to, sp) = cast(rng, admin);
        let mut s = Sim::new(1, 100, admin);
        s.mux = Some(rng.fork());
        let arr_s: Vec<String> = arr.iter().map(|x| x.to_string()).collect();
        t.seq(&s.label(&format!("module matrix order={}", if arr_s.is_empty() { "-".into() } else { arr_s.join(".") })));
        s.exec(t, "mint", &[f, admin], 100_000, 0, false, &[admin]);
        s.exec(t, "approve", &[f, sp], 1_000_000, 50_000, false, &[f]);
        for m in arr.iter() {
            s.exec(t, "add_module", &[*m, admin], 0, H_CAN_TRANSFER as u32, false, &[admin]);
        }
        for m in arr.iter().rev() {
            s.exec(t, "add_module", &[*m, admin], 0, H_CAN_CREATE as u32, false, &[admin]);
        }
        for h in [H_TRANSFERRED, H_CREATED, H_DESTROYED] {
            let pick = rng.pick(&all).clone();
            for m in pick {
                s.exec(t, "add_module", &[m, admin], 0, h as u32, false, &[admin]);
            }
        }
        let mut prev = 0u32;
        for step in 0..(1u32 << K) {
            let g = step ^ (step >> 1);
            let changed = g ^ prev;
            prev = g;
            let amt = rng.range(2, 50) as i128;
            if changed != 0 {
                let m = changed.trailing_zeros() as usize;
                if g & changed != 0 {
                    // module m rejects, in one of three ways
                    match rng.below(3) {
                        0 => s.env_mod(t, m, false, false, i128::MAX, &[]),
                        1 => s.env_mod(t, m, true, true, amt - 1, &[]),
                        _ => s.env_mod(t, m, true, true, i128::MAX, &[to]),
                    }
                } else {
                    s.env_mod(t, m, true, true, i128::MAX, &[]);
                }
            }
            s.exec(t, "transfer", &[f, to], amt, 0, false, &[f]);
            s.exec(t, "transfer_from", &[sp, f, to], amt, 0, false, &[sp]);
            s.exec(t, "mint", &[to, admin], amt, 0, false, &[admin]);
            if rng.chance(30) {
                s.exec(t, "burn", &[f, admin], amt, 0, false, &[admin]);
            }
            if rng.chance(30) {
                s.exec(t, "forced_transfer", &[f, to, admin], amt, 0, false, &[admin]);
            }
        }
    }
}

fn scenario_random(t: &mut Trace, rng: &mut Rng, k: u64, seed: u64, len: u64) {
    let min_temp = if rng.chance(50) { 1 } else { 16 };
    let start = *rng.pick(&[2u32, 100, 5000]);
    let admin = rng.below(N as u64) as usize;
    let mut s = Sim::new(min_temp, start, admin);
    s.mux = Some(rng.fork());
    t.seq(&s.label(&format!("rand k={} seed={}", k, seed)));
    // a random initial registry: per hook a random subset of the modules in a random order
    for h in 0..5 {
        let mut order: Vec<usize> = (0..K).collect();
        for i in (1..K).rev() {
            order.swap(i, rng.below(i as u64 + 1) as usize);
        }
        for m in order {
            if rng.chance(55) {
                s.exec(t, "add_module", &[m, admin], 0, h as u32, false, &[admin]);
            }
        }
    }
    let p = |rng: &mut Rng| rng.below(N as u64) as usize;
    for _ in 0..len {
        let snap = s.snap.clone();
        let holders: Vec<usize> = (0..N).filter(|i| snap.bal[*i] > 0).collect();
        let holder = |rng: &mut Rng| if !holders.is_empty() && rng.chance(85) { *rng.pick(&holders) } else { rng.below(N as u64) as usize };
        let operator = |rng: &mut Rng| if rng.chance(88) { admin } else { rng.below(N as u64) as usize };
        // keep the gates mostly open: repair one closed gate now and then
        if rng.chance(30) {
            let closed_af: Vec<usize> = (0..N).filter(|i| snap.af[*i]).collect();
            let closed_id: Vec<usize> = (0..N).filter(|i| !snap.id[*i]).collect();
            if snap.paused && rng.chance(60) {
                s.exec(t, "unpause", &[admin], 0, 0, false, &[admin]);
                continue;
            } else if !closed_af.is_empty() && rng.chance(50) {
                let a = *rng.pick(&closed_af);
                s.exec(t, "set_frozen", &[a, admin], 0, 0, false, &[admin]);
                continue;
            } else if !closed_id.is_empty() && rng.chance(50) {
                let a = *rng.pick(&closed_id);
                s.env_id(t, a, true);
                continue;
            } else if let (Some(m), true) = (snap.comp_closed(), rng.chance(50)) {
                s.env_mod(t, m, true, true, if rng.chance(70) { i128::MAX } else { rng.range(1000, 5000) as i128 }, &[]);
                continue;
            } else if !snap.bound && rng.chance(70) {
                s.exec(t, "bind", &[admin], 0, 0, false, &[admin]);
                continue;
            }
        }
        let r = rng.below(100);
        if r < 12 {
            let to = p(rng);
            let op = operator(rng);
            let amt = if rng.chance(70) { rng.range(1, 2000) as i128 } else { pick_amount(rng, &snap, None, None) };
            let auth = gen_auth(rng, &[op], &[to, op]);
            s.exec(t, "mint", &[to, op], amt, 0, false, &auth);
        } else if r < 27 {
            let f = holder(rng);
            let to = if rng.chance(10) { f } else { p(rng) };
            let amt = if rng.chance(60) { valid_amount(rng, snap.free(f).min(snap.cap())) } else { pick_amount(rng, &snap, Some(f), None) };
            let auth = gen_auth(rng, &[f], &[f, to]);
            s.exec(t, "transfer", &[f, to], amt, 0, false, &auth);
        } else if r < 41 {
            // prefer an existing allowance
            let (f, sp) = if !snap.allow.is_empty() && rng.chance(80) {
                let (o, sp, _) = *rng.pick(&snap.allow);
                (o, sp)
            } else {
                (holder(rng), p(rng))
            };
            let to = if rng.chance(10) { f } else { p(rng) };
            let amt = if rng.chance(60) {
                valid_amount(rng, snap.free(f).min(snap.cap()).min(snap.allowance(f, sp)))
            } else {
                pick_amount(rng, &snap, Some(f), Some(sp))
            };
            let auth = gen_auth(rng, &[sp], &[sp, f, to]);
            s.exec(t, "transfer_from", &[sp, f, to], amt, 0, false, &auth);
        } else if r < 49 {
            let (o, sp) = (holder(rng), p(rng));
            let lu = match rng.below(8) {
                0 => s.now,
                1 => s.now.saturating_sub(1),
                2 => s.now + MAX_TTL - 1,
                3 => s.now + MAX_TTL,
                _ => s.now + 50 + rng.below(4000) as u32,
            };
            let amt = if rng.chance(70) { rng.range(1, 3000) as i128 } else { pick_amount(rng, &snap, Some(o), Some(sp)) };
            let auth = gen_auth(rng, &[o], &[o, sp]);
            s.exec(t, "approve", &[o, sp], amt, lu, false, &auth);
        } else if r < 57 {
            let f = holder(rng);
            let to = if rng.chance(10) { f } else { p(rng) };
            let op = operator(rng);
            let amt = if rng.chance(60) { valid_amount(rng, snap.bal[f]) } else { pick_amount(rng, &snap, Some(f), None) };
            let auth = gen_auth(rng, &[op], &[f, to, op]);
            s.exec(t, "forced_transfer", &[f, to, op], amt, 0, false, &auth);
        } else if r < 63 {
            let f = holder(rng);
            let op = operator(rng);
            let amt = if rng.chance(60) { valid_amount(rng, snap.bal[f]) } else { pick_amount(rng, &snap, Some(f), None) };
            let auth = gen_auth(rng, &[op], &[f, op]);
            s.exec(t, "burn", &[f, op], amt, 0, false, &auth);
        } else if r < 69 {
            let old = holder(rng);
            let op = operator(rng);
            let new = match snap.rec[old] {
                Some(x) if x < N && rng.chance(80) => x,
                _ => {
                    let n = p(rng);
                    if rng.chance(70) {
                        s.env_rec(t, old, Some(n));
                    }
                    n
                }
            };
            let auth = gen_auth(rng, &[op], &[old, new, op]);
            s.exec(t, "recover", &[old, new, op], 0, 0, false, &auth);
        } else if r < 77 {
            let a = holder(rng);
            let op = operator(rng);
            let free = snap.free(a);
            let amt = match rng.below(8) {
                0 => free,
                1 => free.saturating_add(1),
                2 => (free - 1).max(0),
                3 => free / 2,
                4 => pick_amount(rng, &snap, Some(a), None),
                _ => rng.range(0, free.clamp(1, 500) as i64) as i128,
            };
            let auth = gen_auth(rng, &[op], &[a, op]);
            s.exec(t, "freeze", &[a, op], amt, 0, false, &auth);
        } else if r < 83 {
            let frozen: Vec<usize> = (0..N).filter(|i| snap.ft[*i] > 0).collect();
            let a = if !frozen.is_empty() && rng.chance(85) { *rng.pick(&frozen) } else { p(rng) };
            let op = operator(rng);
            let ft = snap.ft[a];
            let amt = match rng.below(7) {
                0 => ft,
                1 => ft.saturating_add(1),
                2 => (ft - 1).max(0),
                3 => -1,
                4 => pick_amount(rng, &snap, Some(a), None),
                _ => ft / 2,
            };
            let auth = gen_auth(rng, &[op], &[a, op]);
            s.exec(t, "unfreeze", &[a, op], amt, 0, false, &auth);
        } else if r < 88 {
            let a = p(rng);
            let op = operator(rng);
            let b = if snap.af[a] { rng.chance(25) } else { rng.chance(60) };
            let auth = gen_auth(rng, &[op], &[a, op]);
            s.exec(t, "set_frozen", &[a, op], 0, 0, b, &auth);
        } else if r < 92 {
            let op = operator(rng);
            let kind = if snap.paused == rng.chance(85) { "unpause" } else { "pause" };
            let auth = gen_auth(rng, &[op], &[op]);
            s.exec(t, kind, &[op], 0, 0, false, &auth);
        } else if r < 95 {
            let a = p(rng);
            let ok = if snap.id[a] { rng.chance(50) } else { rng.chance(85) };
            s.env_id(t, a, ok);
        } else if r < 97 {
            let m = rng.below(K as u64) as usize;
            let tx = rng.chance(75);
            let cr = rng.chance(80);
            let cap = if rng.chance(60) { i128::MAX } else { rng.range(0, 1500) as i128 };
            let mut bl = vec![];
            if rng.chance(30) {
                bl.push(p(rng));
            }
            s.env_mod(t, m, tx, cr, cap, &bl);
        } else if r < 98 {
            // administration of the compliance contract
            let op = operator(rng);
            let auth = gen_auth(rng, &[op], &[op]);
            match rng.below(10) {
                0 => s.exec(t, if snap.bound { "unbind" } else { "bind" }, &[op], 0, 0, false, &auth),
                1 => s.exec(t, if snap.bound { "bind" } else { "unbind" }, &[op], 0, 0, false, &auth),
                x => {
                    let h = rng.below(5) as usize;
                    let m = rng.below(K as u64) as usize;
                    let registered = snap.mods[h].contains(&m);
                    // mostly the applicable one of add / remove
                    let kind = if registered == (x < 8) { "remove_module" } else { "add_module" };
                    s.exec(t, kind, &[m, op], 0, h as u32, false, &auth)
                }
            }
        } else if r < 99 {
            let a = p(rng);
            let tg = if rng.chance(80) { Some(p(rng)) } else { None };
            s.env_rec(t, a, tg);
        } else {
            let n = *rng.pick(&[0u32, 1, 15, 16, 17, 100, 400]);
            s.advance(t, n);
        }
    }
}

fn main() {
    let mut t = Trace::from_args();
    let seed = seed_from_env();
    let thorough = arg_str("--tier").as_deref() == Some("thorough");
    let nseq = arg_u64("--seqs", if thorough { 600 } else { 140 });
    let len = arg_u64("--len", 45);
    let sweeps = arg_u64("--sweeps", if thorough { 6 } else { 1 });
    let per_combo = arg_u64("--per-combo", if thorough { 4 } else { 2 }) as usize;
    let mut rng = Rng::new(seed);
    scenario_directed(&mut t);
    scenario_modules_directed(&mut t);
    scenario_muxed_directed(&mut t);
    scenario_long_idle(&mut t);
    scenario_module_matrix(&mut t, &mut rng, if thorough { 16 } else { 6 });
    for _ in 0..(if thorough { 4 } else { 2 }) {
        scenario_single_gates(&mut t, &mut rng);
    }
    for _ in 0..sweeps {
        scenario_gate_sweep(&mut t, &mut rng, per_combo);
    }
    for k in 0..nseq {
        scenario_random(&mut t, &mut rng, k, seed, len);
    }
    t.finish();
}
