//! C06 correspondence: roles, role admins, admin / owner guards and the role enumeration.
//!
//! Real code driven (three kinds of sequences):
//!   lib  a harness contract exposing the `AccessControl` and `Ownable` trait defaults, the
//!        `*_no_auth` library functions as pass-throughs, and one entry point per attribute
//!        macro (`only_admin`, `only_owner`, `only_role`, `has_role`, `has_any_role`,
//!        `only_any_role`), expanded by the tree's macro crate;
//!   nft  `examples/nft-access-control` compiled from the working tree (#[path]);
//!   own  `examples/ownable` compiled from the working tree (#[path]);
//!   stk  a harness contract `stk::Stacked2` whose sixteen entry points stack TWO role guards (every ordered
//!        pair of `has_role`, `only_role`, `has_any_role`, `only_any_role`), expanded by the tree's macro
//!        crate; label `kind=stk`, op lines `stk ..`, its own model / monitor (OZ/Model/AccessStk*.lean).
//! Every call is a real invocation with an exact authorization subset; after every call all
//! getters are read back over the whole small universe, including `get_role_member(count)`.
use ozharness::*;
use soroban_sdk::{contract, contractimpl, Address, Env, IntoVal, String as SString, Symbol, Val, Vec};
use stellar_access::{
    access_control::{self as acl, set_admin, AccessControl},
    ownable::{set_owner, Ownable},
};
use stellar_macros::{has_any_role, has_role, only_admin, only_any_role, only_owner, only_role};

#[path = "/repo/examples/nft-access-control/src/contract.rs"]
#[allow(dead_code)]
mod nft_example;

#[path = "/repo/examples/ownable/src/contract.rs"]
#[allow(dead_code)]
mod ownable_example;

type StdVec<T> = std::vec::Vec<T>;

#[contract]
pub struct Lib;

#[contractimpl]
impl Lib {
    pub fn __constructor(e: &Env, admin: Address, owner: Address) {
        set_admin(e, &admin);
        set_owner(e, &owner);
    }
    pub fn grant_role_no_auth(e: &Env, account: Address, role: Symbol, caller: Address) {
        acl::grant_role_no_auth(e, &account, &role, &caller);
    }
    pub fn revoke_role_no_auth(e: &Env, account: Address, role: Symbol, caller: Address) {
        acl::revoke_role_no_auth(e, &account, &role, &caller);
    }
    pub fn set_role_admin_no_auth(e: &Env, role: Symbol, admin_role: Symbol) {
        acl::set_role_admin_no_auth(e, &role, &admin_role);
    }
    pub fn remove_role_admin_no_auth(e: &Env, role: Symbol) {
        acl::remove_role_admin_no_auth(e, &role);
    }
    pub fn remove_count_no_auth(e: &Env, role: Symbol) {
        acl::remove_role_accounts_count_no_auth(e, &role);
    }
    pub fn ensure_role(e: &Env, role: Symbol, caller: Address) {
        acl::ensure_role(e, &role, &caller);
    }
    pub fn ensure_role_auth(e: &Env, role: Symbol, caller: Address) {
        acl::ensure_role(e, &role, &caller);
        caller.require_auth();
    }
    pub fn ensure_admin_or_role(e: &Env, role: Symbol, caller: Address) {
        acl::ensure_if_admin_or_admin_role(e, &role, &caller);
    }

    #[only_admin]
    pub fn g_only_admin(e: &Env) -> u32 {
        1
    }
    #[only_owner]
    pub fn g_only_owner(e: &Env) -> u32 {
        2
    }
    #[only_role(caller, "minter")]
    pub fn g_only_role(e: &Env, caller: Address) -> u32 {
        3
    }
    #[only_role(caller, "burner")]
    pub fn g_only_role_ref(e: &Env, caller: &Address) -> u32 {
        3
    }
    #[has_role(caller, "burner")]
    pub fn g_has_role(e: &Env, caller: Address) -> u32 {
        4
    }
    #[has_role(caller, "minter")]
    pub fn g_has_role_auth(e: &Env, caller: Address) -> u32 {
        caller.require_auth();
        5
    }
    #[has_any_role(caller, ["minter", "burner"])]
    pub fn g_has_any(e: &Env, caller: Address) -> u32 {
        6
    }
    #[has_any_role(caller, ["burner", "r2", "admin"])]
    pub fn g_has_any_auth(e: &Env, caller: Address) -> u32 {
        caller.require_auth();
        7
    }
    #[only_any_role(caller, ["minter", "burner"])]
    pub fn g_only_any(e: &Env, caller: Address) -> u32 {
        8
    }
    #[only_any_role(caller, [""])]
    pub fn g_only_any_one(e: &Env, caller: Address) -> u32 {
        9
    }
    // guarded entry points whose BODY authorizes a different account whose name ends with the guarded one's
    #[only_role(caller, "minter")]
    pub fn g_only_role_co(e: &Env, new_caller: Address, caller: Address) -> u32 {
        new_caller.require_auth();
        10
    }
    #[only_any_role(caller, ["minter", "burner"])]
    pub fn g_only_any_co(e: &Env, sub_caller: Address, caller: Address) -> u32 {
        sub_caller.require_auth();
        11
    }
}

#[contractimpl(contracttrait)]
impl AccessControl for Lib {}

#[contractimpl(contracttrait)]
impl Ownable for Lib {}

/// machine `stk` ("stacked role guards"): every entry point stacks TWO role guards of `stellar_macros`,
/// one for every ordered pair (outer, inner) of `has_role` (hr), `only_role` (or), `has_any_role` (ha),
/// `only_any_role` (oa); the entry point `<outer>_<inner>` writes `<outer>` ABOVE `<inner>`. The outer guard
/// is always on the parameter `a` with the role "minter" (any-role macros: ["minter", "r2"]); the inner
/// guard is on the parameter `b` — for `oa_hr`, `hr_oa`, `or_oa`, `ha_ha` on `a` again (same parameter) —
/// with the role "burner" (any-role macros: ["burner", "r2"]). Every entry point adds 1 to the counter and
/// returns it. `grant` / `revoke` (the admin's authorization, one of the three roles) set up who holds what.
mod stk {
    use soroban_sdk::{contract, contractimpl, symbol_short, Address, Env, Symbol};
    use stellar_access::access_control as acl;
    use stellar_macros::{has_any_role, has_role, only_any_role, only_role};

    pub const COUNTER: Symbol = symbol_short!("COUNTER");

    #[contract]
    pub struct Stacked2;

    fn bump(e: &Env) -> i32 {
        let c: i32 = e.storage().instance().get(&COUNTER).expect("counter should be set");
        let c = c.checked_add(1).expect("counter overflow");
        e.storage().instance().set(&COUNTER, &c);
        c
    }

    fn known_role(e: &Env, role: &Symbol) {
        if !["minter", "burner", "r2"].iter().any(|r| Symbol::new(e, r) == *role) {
            panic!("not a role of this contract");
        }
    }

    #[contractimpl]
    impl Stacked2 {
        pub fn __constructor(e: &Env, admin: Address) {
            acl::set_admin(e, &admin);
            e.storage().instance().set(&COUNTER, &0i32);
        }

        pub fn counter(e: &Env) -> i32 {
            e.storage().instance().get(&COUNTER).expect("counter should be set")
        }

        pub fn holds(e: &Env, account: Address, role: Symbol) -> bool {
            acl::has_role(e, &account, &role).is_some()
        }

        pub fn grant(e: &Env, account: Address, role: Symbol) {
            let admin = acl::enforce_admin_auth(e);
            known_role(e, &role);
            acl::grant_role_no_auth(e, &account, &role, &admin);
        }

        pub fn revoke(e: &Env, account: Address, role: Symbol) {
            let admin = acl::enforce_admin_auth(e);
            known_role(e, &role);
            acl::revoke_role_no_auth(e, &account, &role, &admin);
        }

        // ---- outer: has_role ----
        #[has_role(a, "minter")]
        #[has_role(b, "burner")]
        pub fn hr_hr(e: &Env, a: Address, b: Address) -> i32 {
            bump(e)
        }

        #[has_role(a, "minter")]
        #[only_role(b, "burner")]
        pub fn hr_or(e: &Env, a: Address, b: Address) -> i32 {
            bump(e)
        }

        #[has_role(a, "minter")]
        #[has_any_role(b, ["burner", "r2"])]
        pub fn hr_ha(e: &Env, a: Address, b: Address) -> i32 {
            bump(e)
        }

        #[has_role(a, "minter")]
        #[only_any_role(a, ["burner", "r2"])]
        pub fn hr_oa(e: &Env, a: Address, _b: Address) -> i32 {
            bump(e)
        }

        // ---- outer: only_role ----
        #[only_role(a, "minter")]
        #[has_role(b, "burner")]
        pub fn or_hr(e: &Env, a: Address, b: Address) -> i32 {
            bump(e)
        }

        #[only_role(a, "minter")]
        #[only_role(b, "burner")]
        pub fn or_or(e: &Env, a: Address, b: Address) -> i32 {
            bump(e)
        }

        #[only_role(a, "minter")]
        #[has_any_role(b, ["burner", "r2"])]
        pub fn or_ha(e: &Env, a: Address, b: Address) -> i32 {
            bump(e)
        }

        #[only_role(a, "minter")]
        #[only_any_role(a, ["burner", "r2"])]
        pub fn or_oa(e: &Env, a: Address, _b: Address) -> i32 {
            bump(e)
        }

        // ---- outer: has_any_role ----
        #[has_any_role(a, ["minter", "r2"])]
        #[has_role(b, "burner")]
        pub fn ha_hr(e: &Env, a: Address, b: Address) -> i32 {
            bump(e)
        }

        #[has_any_role(a, ["minter", "r2"])]
        #[only_role(b, "burner")]
        pub fn ha_or(e: &Env, a: Address, b: Address) -> i32 {
            bump(e)
        }

        #[has_any_role(a, ["minter", "r2"])]
        #[has_any_role(a, ["burner", "r2"])]
        pub fn ha_ha(e: &Env, a: Address, _b: Address) -> i32 {
            bump(e)
        }

        #[has_any_role(a, ["minter", "r2"])]
        #[only_any_role(b, ["burner", "r2"])]
        pub fn ha_oa(e: &Env, a: Address, b: Address) -> i32 {
            bump(e)
        }

        // ---- outer: only_any_role ----
        #[only_any_role(a, ["minter", "r2"])]
        #[has_role(a, "burner")]
        pub fn oa_hr(e: &Env, a: Address, _b: Address) -> i32 {
            bump(e)
        }

        #[only_any_role(a, ["minter", "r2"])]
        #[only_role(b, "burner")]
        pub fn oa_or(e: &Env, a: Address, b: Address) -> i32 {
            bump(e)
        }

        #[only_any_role(a, ["minter", "r2"])]
        #[has_any_role(b, ["burner", "r2"])]
        pub fn oa_ha(e: &Env, a: Address, b: Address) -> i32 {
            bump(e)
        }

        #[only_any_role(a, ["minter", "r2"])]
        #[only_any_role(b, ["burner", "r2"])]
        pub fn oa_oa(e: &Env, a: Address, b: Address) -> i32 {
            bump(e)
        }
    }
}

/// the four role-guard macros that take a caller argument
#[derive(Clone, Copy, PartialEq, Debug)]
enum Mac {
    Hr,
    Or,
    Ha,
    Oa,
}

impl Mac {
    fn tag(self) -> &'static str {
        match self {
            Mac::Hr => "hr",
            Mac::Or => "or",
            Mac::Ha => "ha",
            Mac::Oa => "oa",
        }
    }
    fn any(self) -> bool {
        matches!(self, Mac::Ha | Mac::Oa)
    }
    fn auth(self) -> bool {
        matches!(self, Mac::Or | Mac::Oa)
    }
}

const MACS: [Mac; 4] = [Mac::Hr, Mac::Or, Mac::Ha, Mac::Oa];

/// a stacked entry point of `stk::Stacked2`: the attribute written on top, the one below it
#[derive(Clone, Copy, PartialEq, Debug)]
struct StkFn {
    outer: Mac,
    inner: Mac,
}

impl StkFn {
    fn all() -> StdVec<StkFn> {
        let mut v = vec![];
        for outer in MACS {
            for inner in MACS {
                v.push(StkFn { outer, inner });
            }
        }
        v
    }
    fn name(self) -> String {
        format!("{}_{}", self.outer.tag(), self.inner.tag())
    }
    /// the inner guard is on the parameter `a` too
    fn same_param(self) -> bool {
        matches!((self.outer, self.inner), (Mac::Oa, Mac::Hr) | (Mac::Hr, Mac::Oa) | (Mac::Or, Mac::Oa) | (Mac::Ha, Mac::Ha))
    }
    /// roles (indices) that satisfy the outer guard: "minter" (any-role: or "r2")
    fn outer_roles(self) -> StdVec<usize> {
        if self.outer.any() {
            vec![0, 2]
        } else {
            vec![0]
        }
    }
    /// roles that satisfy the inner guard: "burner" (any-role: or "r2")
    fn inner_roles(self) -> StdVec<usize> {
        if self.inner.any() {
            vec![1, 2]
        } else {
            vec![1]
        }
    }
    /// the accounts whose authorization the guards demand for the arguments (a, b)
    fn signers(self, a: usize, b: usize) -> StdVec<usize> {
        let mut v = vec![];
        if self.outer.auth() {
            v.push(a);
        }
        if self.inner.auth() {
            v.push(if self.same_param() { a } else { b });
        }
        v.sort();
        v.dedup();
        v
    }
}

const DAY: u32 = 17_280;
/// max_entry_ttl of the long-idle family (about one year): persistent / instance entries of the
/// unmodified code stay live over every idle gap
const LONG_TTL: u32 = 6_312_000;
const GAPS: [u32; 3] = [DAY, 31 * DAY, 100 * DAY];

const N: usize = 5; // accounts
const R: usize = 5; // displayed roles

#[derive(Clone, Copy, PartialEq, Debug)]
enum Kind {
    Lib,
    Nft,
    Own,
}

/// Role universe. Besides ordinary names it contains names that could collide with a default or
/// sentinel value: the EMPTY symbol (which `set_role_admin_no_auth` uses for "no previous admin
/// role" in its event) and "admin".
const EMPTY_ROLE: usize = 4;

fn role_name(r: usize) -> String {
    match r {
        0 => "minter".into(),
        1 => "burner".into(),
        3 => "admin".into(),
        EMPTY_ROLE => "".into(),
        _ => format!("r{}", r),
    }
}

fn role_index(name: &str) -> Option<usize> {
    match name {
        "minter" => Some(0),
        "burner" => Some(1),
        "admin" => Some(3),
        "" => Some(EMPTY_ROLE),
        _ => name.strip_prefix('r').and_then(|x| x.parse().ok()),
    }
}

struct Sim {
    e: Env,
    u: Universe,
    c: Address,
    kind: Kind,
    now: u32,
    min_temp: u32,
    max_ttl: u32,
    next_token: u32,
    /// last revoked index per role (the slot the former last member was swapped into)
    swapped: [Option<u32>; R],
}

fn show(o: Option<usize>) -> String {
    o.map(|x| x.to_string()).unwrap_or("-".into())
}

impl Sim {
    fn new(t: &mut Trace, what: &str, kind: Kind, min_temp: u32, start: u32) -> Sim {
        Self::new_ttl(t, what, kind, min_temp, start, 3_000_000)
    }
    fn new_ttl(t: &mut Trace, what: &str, kind: Kind, min_temp: u32, start: u32, max_ttl: u32) -> Sim {
        let e = new_env(start, min_temp, max_ttl);
        let u = Universe::new(&e, N);
        let (c, admin, owner) = match kind {
            Kind::Lib => (e.register(Lib, (u.a(0).clone(), u.a(1).clone())), "0", "1"),
            Kind::Nft => {
                let s = |x: &str| SString::from_str(&e, x);
                (e.register(nft_example::ExampleContract, (s("uri"), s("name"), s("SYM"), u.a(0).clone())), "0", "-")
            }
            Kind::Own => (e.register(ownable_example::ExampleContract, (u.a(0).clone(),)), "-", "0"),
        };
        t.seq(&format!(
            "{} kind={} min_temp={} max_ttl={} start={} admin={} owner={} empty={}",
            what,
            match kind {
                Kind::Lib => "lib",
                Kind::Nft => "nft",
                Kind::Own => "own",
            },
            min_temp,
            max_ttl,
            start,
            admin,
            owner,
            EMPTY_ROLE
        ));
        Sim { e, u, c, kind, now: start, min_temp, max_ttl, next_token: 0, swapped: [None; R] }
    }
    fn sym(&self, r: usize) -> Symbol {
        Symbol::new(&self.e, &role_name(r))
    }
    fn has_acl(&self) -> bool {
        self.kind != Kind::Own
    }
    fn has_own(&self) -> bool {
        self.kind != Kind::Nft
    }
    // ---- getters (real entry points) --------------------------------------------------------
    fn q<T: soroban_sdk::TryFromVal<Env, Val>>(&self, f: &str, a: Vec<Val>) -> Option<T> {
        query(&self.e, &self.c, f, a)
    }
    fn admin(&self) -> Option<usize> {
        if !self.has_acl() {
            return None;
        }
        let h: Option<Address> = self.q("get_admin", args(&self.e, [])).unwrap();
        h.map(|a| self.u.index_of(&a).unwrap_or(99))
    }
    fn owner(&self) -> Option<usize> {
        if !self.has_own() {
            return None;
        }
        let h: Option<Address> = self.q("get_owner", args(&self.e, [])).unwrap();
        h.map(|a| self.u.index_of(&a).unwrap_or(99))
    }
    fn has_role(&self, a: usize, r: usize) -> Option<u32> {
        if !self.has_acl() {
            return None;
        }
        let e = &self.e;
        self.q::<Option<u32>>("has_role", args(e, [self.u.a(a).into_val(e), self.sym(r).into_val(e)])).unwrap()
    }
    fn count(&self, r: usize) -> u32 {
        if !self.has_acl() {
            return 0;
        }
        let e = &self.e;
        self.q::<u32>("get_role_member_count", args(e, [self.sym(r).into_val(e)])).unwrap()
    }
    fn member(&self, r: usize, i: u32) -> Option<usize> {
        if !self.has_acl() {
            return None;
        }
        let e = &self.e;
        let a: Option<Address> = self.q("get_role_member", args(e, [self.sym(r).into_val(e), v(e, i)]));
        a.map(|a| self.u.index_of(&a).unwrap_or(99))
    }
    fn members(&self, r: usize) -> StdVec<usize> {
        (0..self.count(r)).filter_map(|i| self.member(r, i)).collect()
    }
    fn role_admin(&self, r: usize) -> Option<usize> {
        if !self.has_acl() {
            return None;
        }
        let e = &self.e;
        let s: Option<Symbol> = self.q("get_role_admin", args(e, [self.sym(r).into_val(e)])).unwrap();
        s.map(|s| role_index(&s.to_string()).unwrap_or(9999))
    }
    fn existing(&self) -> StdVec<usize> {
        if !self.has_acl() {
            return vec![];
        }
        let l: Vec<Symbol> = self.q("get_existing_roles", args(&self.e, [])).unwrap();
        l.iter().map(|s| role_index(&s.to_string()).unwrap_or(9999)).collect()
    }
    fn block(&self, r: usize) -> String {
        let c = self.count(r);
        let mem: StdVec<String> = (0..c).map(|i| self.member(r, i).map(|x| x.to_string()).unwrap_or("?".into())).collect();
        let idx: StdVec<String> = (0..N).map(|a| self.has_role(a, r).map(|x| x.to_string()).unwrap_or("-".into())).collect();
        let oob = match self.member(r, c) {
            None => "F".to_string(),
            Some(a) => format!("S{}", a),
        };
        format!("{}/{}/{}/{}", c, if mem.is_empty() { "-".into() } else { mem.join(",") }, idx.join(","), oob)
    }
    fn state(&self, xr: &[usize]) -> String {
        let ra: StdVec<String> = (0..R).map(|r| show(self.role_admin(r))).collect();
        let roles: StdVec<String> = (0..R).map(|r| self.block(r)).collect();
        let x: StdVec<String> = xr.iter().map(|&r| format!("{}:{}", r, self.block(r))).collect();
        format!(
            "admin={} owner={} now={} ra={} roles={} xr={} ex={}",
            show(self.admin()),
            show(self.owner()),
            self.now,
            ra.join(","),
            roles.join(";"),
            if x.is_empty() { "-".into() } else { x.join(";") },
            join(&self.existing())
        )
    }
    fn events(&self) -> String {
        let mut out = vec![];
        for ev in last_events(&self.e) {
            let a = |name: &str| ev_addr(&self.u, ev_field(&ev.data, name));
            let topic_addr = |i: usize| ev_addr(&self.u, ev.topics.get(i));
            let sym = |v: Option<&soroban_sdk::xdr::ScVal>| match v {
                Some(soroban_sdk::xdr::ScVal::Symbol(s)) => {
                    role_index(&s.to_utf8_string_lossy()).map(|x| x.to_string()).unwrap_or("?".into())
                }
                _ => "?".into(),
            };
            // "no previous admin role" is published as the empty symbol
            let prev = |v: Option<&soroban_sdk::xdr::ScVal>| {
                let x = sym(v);
                if x == EMPTY_ROLE.to_string() {
                    "-".to_string()
                } else {
                    x
                }
            };
            let lu = ev_field(&ev.data, "live_until_ledger").and_then(sc_u32).map(|x| x.to_string()).unwrap_or("?".into());
            match ev.name.as_str() {
                "role_granted" => out.push(format!("grant:{}:{}:{}", sym(ev.topics.get(0)), topic_addr(1), a("caller"))),
                "role_revoked" => out.push(format!("revoke:{}:{}:{}", sym(ev.topics.get(0)), topic_addr(1), a("caller"))),
                "role_admin_changed" => out.push(format!(
                    "radm:{}:{}:{}",
                    sym(ev.topics.get(0)),
                    prev(ev_field(&ev.data, "previous_admin_role")),
                    sym(ev_field(&ev.data, "new_admin_role"))
                )),
                "ownership_transfer" => out.push(format!("xfer:{}:{}:{}", a("old_owner"), a("new_owner"), lu)),
                "ownership_transfer_completed" => out.push(format!("done:{}:-", a("new_owner"))),
                "ownership_renounced" => out.push(format!("renounced:{}", a("old_owner"))),
                "admin_transfer_initiated" => out.push(format!("xfer:{}:{}:{}", topic_addr(0), a("new_admin"), lu)),
                "admin_transfer_completed" => out.push(format!("done:{}:{}", topic_addr(0), a("previous_admin"))),
                "admin_renounced" => out.push(format!("renounced:{}", topic_addr(0))),
                _ => {} // token events of the NFT example are not part of this property
            }
        }
        if out.is_empty() {
            "-".into()
        } else {
            out.join(";")
        }
    }
    fn invoke(&mut self, t: &mut Trace, line: String, xr: &[usize], func: &str, argv: Vec<Val>, auth: &[usize]) -> bool {
        t.op(&line);
        let signers: StdVec<&Address> = auth.iter().map(|&i| self.u.a(i)).collect();
        let r = call(&self.e, &self.c, func, argv, &signers);
        let evs = if r.is_some() { self.events() } else { "-".to_string() };
        t.obs(&format!("{} {} ev={}", if r.is_some() { "ok" } else { "err" }, self.state(xr), evs));
        r.is_some()
    }
    fn xr(rs: &[usize]) -> StdVec<usize> {
        let mut v: StdVec<usize> = vec![];
        for &r in rs {
            if r >= R && !v.contains(&r) {
                v.push(r);
            }
        }
        v
    }
    // ---- operations -------------------------------------------------------------------------
    fn ad(&self, i: usize) -> Val {
        self.u.a(i).into_val(&self.e)
    }
    fn sy(&self, r: usize) -> Val {
        self.sym(r).into_val(&self.e)
    }
    fn grant(&mut self, t: &mut Trace, na: bool, a: usize, r: usize, k: usize, auth: &[usize]) -> bool {
        let argv = args(&self.e, [self.ad(a), self.sy(r), self.ad(k)]);
        let (n, f) = if na { ("grant_na", "grant_role_no_auth") } else { ("grant", "grant_role") };
        self.invoke(t, format!("ac {} a={} r={} k={} auth={}", n, a, r, k, join(auth)), &Self::xr(&[r]), f, argv, auth)
    }
    fn revoke(&mut self, t: &mut Trace, na: bool, a: usize, r: usize, k: usize, auth: &[usize]) -> bool {
        let idx = self.has_role(a, r);
        let argv = args(&self.e, [self.ad(a), self.sy(r), self.ad(k)]);
        let (n, f) = if na { ("revoke_na", "revoke_role_no_auth") } else { ("revoke", "revoke_role") };
        let ok = self.invoke(t, format!("ac {} a={} r={} k={} auth={}", n, a, r, k, join(auth)), &Self::xr(&[r]), f, argv, auth);
        if ok && r < R {
            self.swapped[r] = idx;
        }
        ok
    }
    fn renounce(&mut self, t: &mut Trace, r: usize, k: usize, auth: &[usize]) -> bool {
        let idx = self.has_role(k, r);
        let argv = args(&self.e, [self.sy(r), self.ad(k)]);
        let ok = self.invoke(t, format!("ac renounce r={} k={} auth={}", r, k, join(auth)), &Self::xr(&[r]), "renounce_role", argv, auth);
        if ok && r < R {
            self.swapped[r] = idx;
        }
        ok
    }
    fn set_ra(&mut self, t: &mut Trace, na: bool, r: usize, ar: usize, auth: &[usize]) -> bool {
        let argv = args(&self.e, [self.sy(r), self.sy(ar)]);
        let (n, f) = if na { ("set_ra_na", "set_role_admin_no_auth") } else { ("set_ra", "set_role_admin") };
        self.invoke(t, format!("ac {} r={} ar={} auth={}", n, r, ar, join(auth)), &Self::xr(&[r, ar]), f, argv, auth)
    }
    fn rm_ra(&mut self, t: &mut Trace, r: usize, auth: &[usize]) -> bool {
        let argv = args(&self.e, [self.sy(r)]);
        self.invoke(t, format!("ac rm_ra_na r={} auth={}", r, join(auth)), &Self::xr(&[r]), "remove_role_admin_no_auth", argv, auth)
    }
    fn rm_cnt(&mut self, t: &mut Trace, r: usize, auth: &[usize]) -> bool {
        let argv = args(&self.e, [self.sy(r)]);
        self.invoke(t, format!("ac rm_cnt_na r={} auth={}", r, join(auth)), &Self::xr(&[r]), "remove_count_no_auth", argv, auth)
    }
    /// which: "adm" | "own"; op: offer/accept/renounce/guarded
    fn rt(&mut self, t: &mut Trace, which: &str, op: &str, new: usize, lu: u32, auth: &[usize]) -> bool {
        let e = self.e.clone();
        let adm = which == "adm";
        let (f, argv, line): (&str, Vec<Val>, String) = match op {
            "offer" => (
                if adm { "transfer_admin_role" } else { "transfer_ownership" },
                args(&e, [self.ad(new), v(&e, lu)]),
                format!("ac {}_offer new={} lu={} auth={}", which, new, lu, join(auth)),
            ),
            "accept" => (
                if adm { "accept_admin_transfer" } else { "accept_ownership" },
                args(&e, []),
                format!("ac {}_accept auth={}", which, join(auth)),
            ),
            "renounce" => (
                if adm { "renounce_admin" } else { "renounce_ownership" },
                args(&e, []),
                format!("ac {}_renounce auth={}", which, join(auth)),
            ),
            _ => (
                match (adm, self.kind) {
                    (true, Kind::Nft) => "admin_restricted_function",
                    (true, _) => "g_only_admin",
                    (false, Kind::Own) => "increment",
                    (false, _) => "g_only_owner",
                },
                args(&e, []),
                format!("ac {}_guarded auth={}", which, join(auth)),
            ),
        };
        self.invoke(t, line, &[], f, argv, auth)
    }
    /// a token of the NFT example owned by `a`, if any
    fn owned_token(&self, a: usize) -> Option<u32> {
        (0..self.next_token).find(|&tok| {
            let o: Option<Address> = self.q("owner_of", args(&self.e, [v(&self.e, tok)]));
            o.map(|o| self.u.index_of(&o) == Some(a)).unwrap_or(false)
        })
    }
    /// `#[only_role(k, r)]`: lib: g_only_role (minter) / g_only_role_ref (burner); nft: mint (minter)
    fn only_role(&mut self, t: &mut Trace, k: usize, r: usize, to: usize, auth: &[usize]) -> bool {
        let e = self.e.clone();
        match self.kind {
            Kind::Nft => {
                assert!(r == 0);
                let tok = self.next_token;
                self.next_token += 1;
                let argv = args(&e, [self.ad(to), v(&e, tok), self.ad(k)]);
                self.invoke(t, format!("ac only_role k={} r=0 body=1 auth={}", k, join(auth)), &[], "mint", argv, auth)
            }
            _ => {
                let f = if r == 0 { "g_only_role" } else { "g_only_role_ref" };
                self.invoke(t, format!("ac only_role k={} r={} body=1 auth={}", k, r, join(auth)), &[], f, args(&e, [self.ad(k)]), auth)
            }
        }
    }
    /// lib only: `#[only_role(k, minter)] g_only_role_co(n, k)` / `#[only_any_role(k, [minter, burner])]
    /// g_only_any_co(n, k)`: the body demands the authorization of a SECOND account `n != k`
    fn only_role_co(&mut self, t: &mut Trace, any: bool, k: usize, n: usize, auth: &[usize]) -> bool {
        let e = self.e.clone();
        assert!(n != k && !matches!(self.kind, Kind::Nft));
        if any {
            // the line has no body flag: the co-signer always signs
            let mut auth: StdVec<usize> = auth.to_vec();
            if !auth.contains(&n) {
                auth.push(n);
            }
            self.invoke(t, format!("ac only_any k={} rs=0,1 auth={}", k, join(&auth)), &[], "g_only_any_co", args(&e, [self.ad(n), self.ad(k)]), &auth)
        } else {
            let body = auth.contains(&n) as u8;
            self.invoke(t, format!("ac only_role k={} r=0 body={} auth={}", k, body, join(auth)), &[], "g_only_role_co", args(&e, [self.ad(n), self.ad(k)]), auth)
        }
    }
    /// `#[has_role(k, r)]`: lib: g_has_role (burner, no body auth) / g_has_role_auth (minter, body auth) /
    /// ensure_role(_auth) for any role; nft: burn / burn_from (burner, body needs auth + ownership)
    fn has_role_guard(&mut self, t: &mut Trace, k: usize, r: usize, body_auth: bool, variant: u64, auth: &[usize]) -> bool {
        let e = self.e.clone();
        match self.kind {
            Kind::Nft if variant >= 4 => {
                // THIRD-PARTY burn_from(spender = k, from = owner of some token, token): the role guard
                // is on the SPENDER, the body needs the spender's authorization and an approval of the
                // spender for that token (variant 4/5: approved first by the owner, 6/7: not approved)
                assert!(r == 1);
                let other = (0..self.next_token).find_map(|x| {
                    let o: Option<Address> = self.q("owner_of", args(&e, [v(&e, x)]));
                    o.and_then(|o| self.u.index_of(&o)).filter(|&o| o != k).map(|o| (x, o))
                });
                let Some((tok, owner)) = other else {
                    return self.has_role_guard(t, k, r, body_auth, variant % 4, auth);
                };
                let approved = variant < 6;
                if approved {
                    let lu = self.now + 100;
                    let ok = call(&e, &self.c, "approve", args(&e, [self.ad(owner), self.ad(k), v(&e, tok), v(&e, lu)]), &[self.u.a(owner)]);
                    assert!(ok.is_some(), "approve failed");
                } else {
                    // make sure no earlier approval / operator grant of this spender is left
                    let _ = call(&e, &self.c, "approve", args(&e, [self.ad(owner), self.ad(owner), v(&e, tok), v(&e, self.now + 1)]), &[self.u.a(owner)]);
                }
                let line = format!("ac has_role k={} r=1 ba=1 body={} auth={}", k, approved as u8, join(auth));
                self.invoke(t, line, &[], "burn_from", args(&e, [self.ad(k), self.ad(owner), v(&e, tok)]), auth)
            }
            Kind::Nft => {
                assert!(r == 1);
                let (tok, owns) = match self.owned_token(k) {
                    Some(tok) if variant % 4 != 3 => (tok, true),
                    _ => {
                        // a token of somebody else, or one that does not exist
                        let other = (0..self.next_token).find(|&x| self.owned_token(k) != Some(x)).unwrap_or(self.next_token + 7);
                        let o: Option<Address> = self.q("owner_of", args(&e, [v(&e, other)]));
                        (other, o.map(|o| self.u.index_of(&o) == Some(k)).unwrap_or(false))
                    }
                };
                let line = format!("ac has_role k={} r=1 ba=1 body={} auth={}", k, owns as u8, join(auth));
                if variant % 2 == 0 {
                    self.invoke(t, line, &[], "burn", args(&e, [self.ad(k), v(&e, tok)]), auth)
                } else {
                    self.invoke(t, line, &[], "burn_from", args(&e, [self.ad(k), self.ad(k), v(&e, tok)]), auth)
                }
            }
            _ => {
                let line = format!("ac has_role k={} r={} ba={} body=1 auth={}", k, r, body_auth as u8, join(auth));
                let (f, argv): (&str, Vec<Val>) = match (r, body_auth, variant % 2) {
                    (1, false, 0) => ("g_has_role", args(&e, [self.ad(k)])),
                    (0, true, 0) => ("g_has_role_auth", args(&e, [self.ad(k)])),
                    (_, false, _) => ("ensure_role", args(&e, [self.sy(r), self.ad(k)])),
                    (_, true, _) => ("ensure_role_auth", args(&e, [self.sy(r), self.ad(k)])),
                };
                self.invoke(t, line, &Self::xr(&[r]), f, argv, auth)
            }
        }
    }
    /// lib: g_has_any [0,1] / g_has_any_auth [1,2,3]; nft: multi_role_action [0,1] with body auth
    fn has_any(&mut self, t: &mut Trace, k: usize, body_auth: bool, auth: &[usize]) -> bool {
        let e = self.e.clone();
        let (f, rs, ba) = match (self.kind, body_auth) {
            (Kind::Nft, _) => ("multi_role_action", "0,1", true),
            (_, false) => ("g_has_any", "0,1", false),
            (_, true) => ("g_has_any_auth", "1,2,3", true),
        };
        self.invoke(t, format!("ac has_any k={} rs={} ba={} auth={}", k, rs, ba as u8, join(auth)), &[], f, args(&e, [self.ad(k)]), auth)
    }
    /// lib: g_only_any [0,1] / g_only_any_one [4]; nft: multi_role_auth_action [0,1]
    fn only_any(&mut self, t: &mut Trace, k: usize, one: bool, auth: &[usize]) -> bool {
        let e = self.e.clone();
        let (f, rs) = match (self.kind, one) {
            (Kind::Nft, _) => ("multi_role_auth_action", "0,1"),
            (_, false) => ("g_only_any", "0,1"),
            (_, true) => ("g_only_any_one", "4"),
        };
        self.invoke(t, format!("ac only_any k={} rs={} auth={}", k, rs, join(auth)), &[], f, args(&e, [self.ad(k)]), auth)
    }
    fn ensure_aor(&mut self, t: &mut Trace, r: usize, k: usize, auth: &[usize]) -> bool {
        let argv = args(&self.e, [self.sy(r), self.ad(k)]);
        self.invoke(t, format!("ac ensure_aor r={} k={} auth={}", r, k, join(auth)), &Self::xr(&[r]), "ensure_admin_or_role", argv, auth)
    }
    fn advance(&mut self, t: &mut Trace, n: u32) {
        self.now += n;
        set_ledger(&self.e, self.now, self.min_temp, self.max_ttl);
        t.op(&format!("ac advance n={}", n));
        t.obs(&format!("ok {} ev=-", self.state(&[])));
    }
}

// ------------------------------------------------------------------------------------------
// directed scenarios
// ------------------------------------------------------------------------------------------

fn directed(t: &mut Trace, thorough: bool) {
    // swap-and-pop orders: remove first / last / only / the just-swapped one, re-add
    let mut s = Sim::new(t, "directed swap-and-pop orders", Kind::Lib, 1, 100);
    for a in 0..5 {
        s.grant(t, false, a, 0, 0, &[0]);
    }
    s.grant(t, false, 2, 0, 0, &[0]); // already a member: no-op, no event
    s.revoke(t, false, 0, 0, 0, &[0]); // first: 4 swapped into slot 0
    s.revoke(t, false, 4, 0, 0, &[0]); // the just-swapped one
    s.revoke(t, false, 1, 0, 0, &[0]); // last
    s.revoke(t, false, 1, 0, 0, &[0]); // not held
    s.grant(t, false, 1, 0, 0, &[0]);
    s.revoke(t, false, 3, 0, 0, &[0]); // first again
    s.renounce(t, 0, 1, &[1]);
    s.renounce(t, 0, 2, &[2]); // the only one: role leaves existing roles
    s.renounce(t, 0, 2, &[2]);
    s.rm_cnt(t, 0, &[]);
    s.rm_cnt(t, 0, &[]);
    s.grant(t, true, 3, 0, 4, &[]);
    s.rm_cnt(t, 0, &[]);
    s.revoke(t, true, 3, 0, 4, &[]);
    s.revoke(t, true, 3, 0, 4, &[]);

    // role-admin chain and cycle; authority after the admin renounced
    let mut s = Sim::new(t, "directed role-admin chain and cycle", Kind::Lib, 1, 100);
    s.set_ra(t, false, 0, 1, &[1]);
    s.set_ra(t, false, 0, 1, &[0]);
    s.set_ra(t, false, 1, 2, &[0]);
    s.set_ra(t, false, 2, 0, &[0]); // cycle 0 <- 1 <- 2 <- 0
    s.grant(t, false, 2, 2, 2, &[2]); // nobody holds anything yet: refused
    s.grant(t, false, 2, 2, 0, &[0]); // admin seeds the cycle
    s.grant(t, false, 3, 1, 2, &[2]); // holder of role 2 administers role 1
    s.grant(t, false, 4, 0, 3, &[3]); // holder of role 1 administers role 0
    s.grant(t, false, 1, 2, 4, &[4]); // holder of role 0 administers role 2 (cycle closed)
    s.grant(t, false, 1, 1, 4, &[4]); // ... but not role 1
    s.grant(t, false, 1, 1, 2, &[3]); // right caller, somebody else authorizing
    s.grant(t, false, 1, 1, 2, &[0, 1, 3, 4]);
    s.ensure_aor(t, 1, 2, &[]);
    s.ensure_aor(t, 1, 4, &[]);
    s.ensure_aor(t, 1, 0, &[]);
    s.revoke(t, false, 2, 2, 1, &[1]); // 1 holds role 2? no (grant above by 4 succeeded: yes)
    s.revoke(t, false, 3, 1, 2, &[2]); // 2 lost role 2: refused
    s.rt(t, "adm", "renounce", 0, 0, &[0]);
    s.rt(t, "adm", "guarded", 0, 0, &[0]);
    s.rt(t, "adm", "guarded", 0, 0, &[0, 1, 2, 3, 4]);
    s.set_ra(t, false, 3, 0, &[0, 1, 2, 3, 4]);
    s.grant(t, false, 2, 3, 0, &[0]); // former admin: refused
    s.grant(t, false, 2, 0, 3, &[3]); // role admins keep working
    s.rt(t, "adm", "offer", 1, 200, &[0]);
    s.rt(t, "adm", "accept", 0, 0, &[0, 1, 2, 3, 4]);
    s.set_ra(t, true, 3, 3, &[]); // self-administered role
    s.grant(t, false, 2, 3, 2, &[2]);
    s.grant(t, true, 2, 3, 2, &[]);
    s.grant(t, false, 4, 3, 2, &[2]);
    s.rm_ra(t, 3, &[]);
    s.rm_ra(t, 3, &[]);
    s.grant(t, false, 0, 3, 2, &[2]);

    // role names that collide with defaults / sentinels: the EMPTY symbol (role 4) and "admin"
    // (role 3). Holding them confers nothing unless they are configured as a role's admin role.
    for kind in [Kind::Lib, Kind::Nft] {
        let mut s = Sim::new(t, "directed empty-symbol and admin-named roles", kind, 1, 100);
        s.grant(t, false, 3, EMPTY_ROLE, 0, &[0]); // stranger 3 gets the role named ""
        s.grant(t, false, 2, 3, 0, &[0]); // stranger 2 gets the role named "admin"
        for caller in [3usize, 2] {
            s.grant(t, false, 1, 0, caller, &[caller]); // no admin role configured for 0: refused
            s.grant(t, false, 1, EMPTY_ROLE, caller, &[caller]); // nor may they extend their own role
            s.grant(t, false, 1, 3, caller, &[caller]);
            s.revoke(t, false, 3, EMPTY_ROLE, caller, &[caller]);
            s.revoke(t, false, 2, 3, caller, &[caller]);
            s.rt(t, "adm", "guarded", 0, 0, &[caller]);
            if kind == Kind::Lib {
                s.ensure_aor(t, 0, caller, &[]);
                s.ensure_aor(t, EMPTY_ROLE, caller, &[]);
            }
        }
        s.grant(t, false, 1, 0, 0, &[0]);
        s.revoke(t, false, 1, 0, 3, &[3]);
        s.revoke(t, false, 1, 0, 2, &[2]);
        s.set_ra(t, false, 1, EMPTY_ROLE, &[0]); // now "" IS the admin role of role 1 (event: prev = none)
        s.grant(t, false, 4, 1, 3, &[3]); // ... so its holder may grant role 1
        s.grant(t, false, 4, 0, 3, &[3]); // ... but still not role 0
        s.grant(t, false, 4, 1, 2, &[2]);
        s.set_ra(t, false, 1, 3, &[0]); // previous admin role "" is published like "none"
        s.set_ra(t, false, 1, EMPTY_ROLE, &[0]);
        s.set_ra(t, false, EMPTY_ROLE, EMPTY_ROLE, &[0]); // self-administered ""
        s.grant(t, false, 1, EMPTY_ROLE, 3, &[3]);
        s.rt(t, "adm", "renounce", 0, 0, &[0]);
        s.grant(t, false, 0, 0, 3, &[3]); // after the admin is gone: still no authority over role 0
        s.grant(t, false, 0, 2, 1, &[1]);
        s.revoke(t, false, 1, 0, 3, &[3]);
        s.grant(t, false, 0, 1, 1, &[1]); // role 1 is administered by ""
        s.has_any(t, 2, true, &[2]);
        s.only_any(t, 3, true, &[3]);
        s.only_any(t, 2, true, &[2]);
        if kind == Kind::Lib {
            s.rm_ra(t, 1, &[]);
            s.grant(t, false, 2, 1, 3, &[3]); // admin role removed: "" holders lose role 1 again
            s.rm_ra(t, EMPTY_ROLE, &[]);
            s.grant(t, false, 2, EMPTY_ROLE, 3, &[3]);
        }
    }

    // admin hand-over changes who may grant; guards follow the holder
    let mut s = Sim::new(t, "directed admin / owner hand-over and guards", Kind::Lib, 1, 100);
    s.rt(t, "adm", "guarded", 0, 0, &[0]);
    s.rt(t, "adm", "guarded", 0, 0, &[1, 2, 3, 4]);
    s.rt(t, "own", "guarded", 0, 0, &[1]);
    s.rt(t, "own", "guarded", 0, 0, &[0]);
    s.rt(t, "adm", "offer", 2, 150, &[0]);
    s.grant(t, false, 3, 0, 2, &[2]); // pending admin has no power yet
    s.rt(t, "adm", "accept", 0, 0, &[2]);
    s.grant(t, false, 3, 0, 2, &[2]);
    s.grant(t, false, 4, 0, 0, &[0]); // old admin lost it
    s.rt(t, "adm", "guarded", 0, 0, &[0]);
    s.rt(t, "adm", "guarded", 0, 0, &[2]);
    s.only_role(t, 3, 0, 0, &[3]);
    s.only_role(t, 3, 0, 0, &[2]);
    s.only_role(t, 4, 0, 0, &[4]);
    s.only_role(t, 3, 1, 0, &[3]);
    s.has_role_guard(t, 3, 1, false, 0, &[]);
    s.grant(t, false, 3, 1, 2, &[2]);
    s.has_role_guard(t, 3, 1, false, 0, &[]);
    s.only_role(t, 3, 1, 0, &[3]);
    s.has_role_guard(t, 3, 0, true, 0, &[]);
    s.has_role_guard(t, 3, 0, true, 0, &[3]);
    s.has_any(t, 3, false, &[]);
    s.has_any(t, 4, false, &[4]);
    s.has_any(t, 3, true, &[]);
    s.has_any(t, 3, true, &[3]);
    s.only_any(t, 3, false, &[]);
    s.only_any(t, 3, false, &[3]);
    s.only_any(t, 3, true, &[3]);
    s.grant(t, false, 3, 4, 2, &[2]);
    s.only_any(t, 3, true, &[3]);
    // the body authorizes a co-signer; the guard still needs the role holder's own signature
    s.only_role_co(t, false, 3, 4, &[4]);
    s.only_role_co(t, false, 3, 4, &[3]);
    s.only_role_co(t, false, 3, 4, &[3, 4]);
    s.only_role_co(t, false, 4, 3, &[3, 4]);
    s.only_role_co(t, true, 3, 4, &[4]);
    s.only_role_co(t, true, 3, 4, &[3]);
    s.only_role_co(t, true, 4, 3, &[3]);
    s.rt(t, "own", "offer", 4, 130, &[1]);
    s.rt(t, "own", "accept", 0, 0, &[4]);
    s.rt(t, "own", "guarded", 0, 0, &[1]);
    s.rt(t, "own", "guarded", 0, 0, &[4]);
    s.rt(t, "own", "renounce", 0, 0, &[4]);
    s.rt(t, "own", "guarded", 0, 0, &[0, 1, 2, 3, 4]);
    s.rt(t, "own", "offer", 1, 200, &[0, 1, 2, 3, 4]);
    s.rt(t, "own", "accept", 0, 0, &[0, 1, 2, 3, 4]);

    // the withdrawal of an open offer (live_until = 0) is a privileged call like the offer itself: nobody, a stranger
    // and the invitee cannot withdraw it, for the owner as for the admin, on the library contract and on the example
    for kind in [Kind::Lib, Kind::Own] {
        let mut s = Sim::new(t, "directed withdrawal of an open offer", kind, 1, 100);
        let holder = s.owner().unwrap_or(1);
        s.rt(t, "own", "offer", 4, 160, &[holder]);
        s.rt(t, "own", "offer", 4, 0, &[]);
        s.rt(t, "own", "offer", 4, 0, &[3]);
        s.rt(t, "own", "offer", 4, 0, &[4]);
        s.rt(t, "own", "accept", 0, 0, &[3]);
        s.rt(t, "own", "offer", 4, 0, &[holder]);
        s.rt(t, "own", "accept", 0, 0, &[4]);
        if kind == Kind::Lib {
            let adm = s.admin().unwrap_or(0);
            s.rt(t, "adm", "offer", 2, 150, &[adm]);
            s.rt(t, "adm", "offer", 2, 0, &[]);
            s.rt(t, "adm", "offer", 2, 0, &[3]);
            s.rt(t, "adm", "offer", 2, 0, &[2]);
            s.rt(t, "adm", "offer", 2, 0, &[adm]);
            s.rt(t, "adm", "accept", 0, 0, &[2]);
        }
    }

    // the example contract: macro-guarded entry points with real bodies
    let mut s = Sim::new(t, "directed nft-access-control example", Kind::Nft, 1, 100);
    s.only_role(t, 1, 0, 2, &[1]);
    s.grant(t, false, 1, 0, 1, &[1]);
    s.grant(t, false, 1, 0, 0, &[]);
    s.grant(t, false, 1, 0, 0, &[0]);
    s.only_role(t, 1, 0, 2, &[]);
    s.only_role(t, 1, 0, 2, &[1]);
    s.only_role(t, 1, 0, 2, &[1]);
    s.only_role(t, 1, 0, 3, &[1]);
    s.has_role_guard(t, 2, 1, true, 0, &[2]); // owns a token but is no burner
    s.grant(t, false, 2, 1, 0, &[0]);
    s.has_role_guard(t, 2, 1, true, 0, &[]); // burner, owns, not authorizing
    s.has_role_guard(t, 2, 1, true, 3, &[2]); // burner, authorizing, not the owner of that token
    s.has_role_guard(t, 2, 1, true, 0, &[2]);
    s.has_role_guard(t, 2, 1, true, 1, &[2]);
    // third-party burn_from: burner 2 burns a token of account 3 (approved / not approved), with
    // only the owner signing, only the burner signing, both, nobody
    s.only_role(t, 1, 0, 3, &[1]);
    s.only_role(t, 1, 0, 3, &[1]);
    s.only_role(t, 1, 0, 3, &[1]);
    s.has_role_guard(t, 2, 1, true, 4, &[3]);
    s.has_role_guard(t, 2, 1, true, 4, &[]);
    s.has_role_guard(t, 2, 1, true, 6, &[2]);
    s.has_role_guard(t, 2, 1, true, 6, &[2, 3]);
    s.has_role_guard(t, 2, 1, true, 4, &[2]);
    s.has_role_guard(t, 4, 1, true, 4, &[4]); // approved by the owner but no burner
    s.has_role_guard(t, 2, 1, true, 5, &[2, 3]);
    s.has_any(t, 2, true, &[2]);
    s.has_any(t, 2, true, &[]);
    s.has_any(t, 3, true, &[3]);
    s.only_any(t, 1, false, &[1]);
    s.only_any(t, 1, false, &[2]);
    s.only_any(t, 4, false, &[4]);
    s.rt(t, "adm", "guarded", 0, 0, &[0]);
    s.rt(t, "adm", "guarded", 0, 0, &[1]);
    s.renounce(t, 0, 1, &[1]);
    s.only_role(t, 1, 0, 2, &[1]);
    s.rt(t, "adm", "renounce", 0, 0, &[0]);
    s.rt(t, "adm", "guarded", 0, 0, &[0]);
    s.grant(t, false, 1, 0, 0, &[0]);

    // MAX_ROLES = 256 existing roles
    let mut s = Sim::new(t, "directed MAX_ROLES", Kind::Lib, 1, 100);
    let base = 10;
    let n_roles = if thorough { 256 } else { 256 };
    for i in 0..n_roles {
        s.grant(t, false, i % N, base + i, 0, &[0]);
    }
    s.grant(t, false, 1, base + 300, 0, &[0]); // 257th role: refused
    s.grant(t, false, 2, base + 5, 0, &[0]); // second member of an existing role: fine
    s.revoke(t, false, 0, base, 0, &[0]); // role `base` (first in the list) disappears
    s.grant(t, false, 1, base + 300, 0, &[0]);
    s.grant(t, false, 1, base, 0, &[0]); // full again
    s.renounce(t, base + 255, 255 % N, &[255 % N]); // last in the list
    s.grant(t, true, 1, base, 3, &[]);
}

// ------------------------------------------------------------------------------------------
// long-idle family: everything that must persist (membership, indices, counts, role admins,
// existing roles, admin, owner) survives a day, a month and a hundred days of silence
// ------------------------------------------------------------------------------------------

fn long_idle_directed(t: &mut Trace) {
    for kind in [Kind::Lib, Kind::Nft] {
        let lib = kind == Kind::Lib;
        let mut s = Sim::new_ttl(t, "long-idle directed", kind, 1, 100, LONG_TTL);
        // build up: members, a revoked member, role admins (chain 0 <- 2, 1 <- "" ), owner
        s.grant(t, false, 1, 0, 0, &[0]);
        s.grant(t, false, 2, 0, 0, &[0]);
        s.grant(t, false, 3, 0, 0, &[0]);
        s.grant(t, false, 2, 1, 0, &[0]);
        s.grant(t, false, 3, 1, 0, &[0]);
        s.grant(t, false, 4, 2, 0, &[0]);
        s.grant(t, false, 4, EMPTY_ROLE, 0, &[0]);
        s.set_ra(t, false, 0, 2, &[0]);
        s.set_ra(t, false, 1, EMPTY_ROLE, &[0]);
        s.revoke(t, false, 1, 0, 0, &[0]); // first of three: swap
        s.only_role(t, 2, 0, 2, &[2]); // (nft: mints token 0 to account 2)
        let retry = |s: &mut Sim, t: &mut Trace| {
            s.only_role(t, 2, 0, 2, &[2]); // member: passes
            s.only_role(t, 1, 0, 2, &[1]); // revoked member: refused
            s.only_role(t, 4, 0, 2, &[4]); // never a member: refused
            s.has_role_guard(t, 2, 1, false, 0, &[2]);
            s.has_role_guard(t, 1, 1, false, 0, &[1]);
            s.has_any(t, 3, false, &[3]);
            s.has_any(t, 4, false, &[4]);
            s.only_any(t, 3, false, &[3]);
            s.only_any(t, 1, false, &[1]);
            s.rt(t, "adm", "guarded", 0, 0, &[0]);
            s.rt(t, "adm", "guarded", 0, 0, &[1, 2, 3, 4]);
            if lib {
                s.rt(t, "own", "guarded", 0, 0, &[1]);
                s.rt(t, "own", "guarded", 0, 0, &[0, 2, 3, 4]);
                s.ensure_aor(t, 0, 4, &[]);
                s.ensure_aor(t, 0, 3, &[]);
            }
            // the holder of role 2 still administers role 0, the holder of "" role 1
            s.grant(t, false, 1, 0, 4, &[4]);
            s.revoke(t, false, 1, 0, 4, &[4]);
            s.grant(t, false, 1, 1, 4, &[4]);
            s.revoke(t, false, 1, 1, 4, &[4]);
            s.grant(t, false, 1, 0, 3, &[3]); // a plain member does not
        };
        retry(&mut s, t);
        for g in GAPS {
            s.advance(t, g); // one jump, nothing touched in between
            retry(&mut s, t);
        }
        // renounced stays renounced; role admins keep working
        s.rt(t, "adm", "renounce", 0, 0, &[0]);
        if lib {
            s.rt(t, "own", "renounce", 0, 0, &[1]);
        }
        for g in GAPS {
            s.advance(t, g);
            s.rt(t, "adm", "guarded", 0, 0, &[0, 1, 2, 3, 4]);
            s.set_ra(t, false, 3, 0, &[0, 1, 2, 3, 4]);
            s.grant(t, false, 1, 3, 0, &[0]);
            s.rt(t, "adm", "offer", 1, s.now + 10, &[0, 1, 2, 3, 4]);
            if lib {
                s.rt(t, "own", "guarded", 0, 0, &[0, 1, 2, 3, 4]);
            }
            s.grant(t, false, 1, 0, 4, &[4]);
            s.revoke(t, false, 1, 0, 4, &[4]);
            s.only_role(t, 2, 0, 2, &[2]);
        }
    }
    // the ownable example
    let mut s = Sim::new_ttl(t, "long-idle directed", Kind::Own, 1, 100, LONG_TTL);
    for g in GAPS {
        s.advance(t, g);
        s.rt(t, "own", "guarded", 0, 0, &[0]);
        s.rt(t, "own", "guarded", 0, 0, &[1, 2, 3, 4]);
    }
    s.rt(t, "own", "renounce", 0, 0, &[0]);
    for g in GAPS {
        s.advance(t, g);
        s.rt(t, "own", "guarded", 0, 0, &[0, 1, 2, 3, 4]);
    }
}

// ------------------------------------------------------------------------------------------
// generated sequences
// ------------------------------------------------------------------------------------------

fn acct(rng: &mut Rng) -> usize {
    rng.below(N as u64) as usize
}

fn gen_auth(rng: &mut Rng, right: Option<usize>) -> StdVec<usize> {
    let mut r: StdVec<usize> = vec![];
    match (right, rng.below(100)) {
        (Some(x), 0..=69) => {
            r.push(x);
            if rng.chance(15) {
                r.push(acct(rng));
            }
        }
        (Some(x), 70..=84) => {
            for i in 0..N {
                if i != x && rng.chance(70) {
                    r.push(i);
                }
            }
        }
        _ => {
            for i in 0..N {
                if rng.chance(40) {
                    r.push(i);
                }
            }
        }
    }
    r.sort();
    r.dedup();
    r
}

/// somebody entitled to administer role r (the admin, or a holder of its admin role), if any
fn entitled(rng: &mut Rng, s: &Sim, r: usize) -> Option<usize> {
    let mut c: StdVec<usize> = vec![];
    if let Some(a) = s.admin() {
        c.push(a);
    }
    if let Some(ar) = s.role_admin(r) {
        if ar < 10_000 {
            c.extend(s.members(ar));
        }
    }
    if c.is_empty() {
        None
    } else {
        Some(*rng.pick(&c))
    }
}

fn gen_lu(rng: &mut Rng, s: &Sim) -> u32 {
    match rng.below(8) {
        0 => 0,
        1 => s.now,
        2 => s.now.saturating_sub(1),
        _ => s.now + rng.below(30) as u32,
    }
}

fn random_sequence(t: &mut Trace, rng: &mut Rng, k: u64, seed: u64, len: u64, long: bool) {
    let kind = match rng.below(10) {
        0..=5 => Kind::Lib,
        6..=8 => Kind::Nft,
        _ => Kind::Own,
    };
    let min_temp = if rng.chance(50) { 1 } else { 16 };
    let start = *rng.pick(&[2u32, 100, 5000]);
    let mut s = if long {
        Sim::new_ttl(t, &format!("long-idle rand k={} seed={}", k, seed), kind, min_temp, start, LONG_TTL)
    } else {
        Sim::new(t, &format!("rand k={} seed={}", k, seed), kind, min_temp, start)
    };
    let mut idle_total: u32 = 0;
    // how grant-heavy this sequence is (fuller roles give richer swap-and-pop patterns)
    let grant_bias = rng.below(3);
    for step in 0..len {
        // long-idle family: after some state has been built, a day / a month / a hundred days
        // pass in ONE jump (nothing is read or written in between)
        if long && step >= 8 && idle_total < 240 * DAY && rng.chance(12) {
            let g = *rng.pick(&GAPS);
            idle_total += g;
            s.advance(t, g);
            continue;
        }
        let x = rng.below(100);
        if kind == Kind::Own {
            match x {
                0..=39 => {
                    let auth = gen_auth(rng, s.owner());
                    s.rt(t, "own", "guarded", 0, 0, &auth);
                }
                40..=59 => {
                    let auth = gen_auth(rng, s.owner());
                    let lu = gen_lu(rng, &s);
                    s.rt(t, "own", "offer", acct(rng), lu, &auth);
                }
                60..=79 => {
                    let who = acct(rng);
                    let auth = gen_auth(rng, Some(who));
                    s.rt(t, "own", "accept", 0, 0, &auth);
                }
                80..=87 => {
                    let auth = gen_auth(rng, s.owner());
                    s.rt(t, "own", "renounce", 0, 0, &auth);
                }
                _ => s.advance(t, *rng.pick(&[1u32, 5, 15, 16, 40])),
            }
            continue;
        }
        let lib = kind == Kind::Lib;
        let r = if rng.chance(65) { rng.below(3) as usize } else { rng.below(R as u64) as usize };
        let grant_hi = 18 + 8 * grant_bias;
        if x < grant_hi {
            // grant: by an entitled caller or by anybody
            let a = acct(rng);
            let caller = if rng.chance(65) { entitled(rng, &s, r).unwrap_or(acct(rng)) } else { acct(rng) };
            let na = lib && rng.chance(12);
            let auth = gen_auth(rng, Some(caller));
            s.grant(t, na, a, r, caller, &auth);
        } else if x < grant_hi + 16 {
            // revoke: first / last / just-swapped / random member, sometimes a non-member
            let mem = s.members(r);
            let a = if mem.is_empty() || rng.chance(20) {
                acct(rng)
            } else {
                match rng.below(5) {
                    0 => mem[0],
                    1 => mem[mem.len() - 1],
                    2 => s.swapped[r].and_then(|i| mem.get(i as usize).copied()).unwrap_or(mem[0]),
                    _ => *rng.pick(&mem),
                }
            };
            let caller = if rng.chance(65) { entitled(rng, &s, r).unwrap_or(acct(rng)) } else { acct(rng) };
            let na = lib && rng.chance(12);
            let auth = gen_auth(rng, Some(caller));
            s.revoke(t, na, a, r, caller, &auth);
        } else if x < grant_hi + 24 {
            let mem = s.members(r);
            let caller = if !mem.is_empty() && rng.chance(75) { *rng.pick(&mem) } else { acct(rng) };
            let auth = gen_auth(rng, Some(caller));
            s.renounce(t, r, caller, &auth);
        } else if x < grant_hi + 33 {
            // role admins: chains, cycles, self-administration
            let ar = if rng.chance(15) { r } else { rng.below(R as u64) as usize };
            let na = lib && rng.chance(20);
            let auth = gen_auth(rng, s.admin());
            s.set_ra(t, na, r, ar, &auth);
        } else if x < grant_hi + 36 {
            if lib {
                if rng.chance(50) {
                    s.rm_ra(t, r, &[]);
                } else {
                    s.rm_cnt(t, r, &[]);
                }
            }
        } else if x < grant_hi + 44 {
            // admin machine
            match rng.below(10) {
                0..=3 => {
                    let auth = gen_auth(rng, s.admin());
                    let lu = gen_lu(rng, &s);
                    s.rt(t, "adm", "offer", acct(rng), lu, &auth);
                }
                4..=7 => {
                    let who = acct(rng);
                    let auth = gen_auth(rng, Some(who));
                    s.rt(t, "adm", "accept", 0, 0, &auth);
                }
                _ => {
                    let auth = gen_auth(rng, s.admin());
                    if rng.chance(30) {
                        s.rt(t, "adm", "renounce", 0, 0, &auth);
                    } else {
                        s.rt(t, "adm", "guarded", 0, 0, &auth);
                    }
                }
            }
        } else if x < grant_hi + 47 {
            if lib {
                match rng.below(4) {
                    0 => {
                        let auth = gen_auth(rng, s.owner());
                        let lu = gen_lu(rng, &s);
                        s.rt(t, "own", "offer", acct(rng), lu, &auth);
                    }
                    1 => {
                        let who = acct(rng);
                    let auth = gen_auth(rng, Some(who));
                        s.rt(t, "own", "accept", 0, 0, &auth);
                    }
                    2 => {
                        let auth = gen_auth(rng, s.owner());
                        if rng.chance(25) {
                            s.rt(t, "own", "renounce", 0, 0, &auth);
                        } else {
                            s.rt(t, "own", "guarded", 0, 0, &auth);
                        }
                    }
                    _ => s.advance(t, *rng.pick(&[1u32, 15, 16, 40])),
                }
            } else {
                s.advance(t, *rng.pick(&[1u32, 15, 16, 40]));
            }
        } else {
            // guards: callers = members, admins, strangers
            let gr = rng.below(2) as usize;
            let mem = s.members(gr);
            let caller = if !mem.is_empty() && rng.chance(60) { *rng.pick(&mem) } else { acct(rng) };
            let auth = gen_auth(rng, Some(caller));
            match rng.below(7) {
                0 => {
                    let a2 = gen_auth(rng, s.admin());
                    s.rt(t, "adm", "guarded", 0, 0, &a2);
                }
                1 => {
                    let role = if lib { gr } else { 0 };
                    let mem = s.members(role);
                    let caller = if !mem.is_empty() && rng.chance(60) { *rng.pick(&mem) } else { caller };
                    let auth = gen_auth(rng, Some(caller));
                    if lib && rng.chance(30) {
                        let mem0 = s.members(0);
                        let k = if !mem0.is_empty() && rng.chance(70) { *rng.pick(&mem0) } else { caller };
                        let n = (k + 1 + rng.below(N as u64 - 1) as usize) % N;
                        let auth = match rng.below(3) {
                            0 => vec![n],
                            1 => vec![k, n],
                            _ => gen_auth(rng, Some(k)),
                        };
                        s.only_role_co(t, rng.chance(40), k, n, &auth);
                    } else {
                        s.only_role(t, caller, role, acct(rng), &auth);
                    }
                }
                2 | 3 => {
                    if lib {
                        let role = if rng.chance(70) { gr } else { r };
                        let ba = rng.chance(50);
                        s.has_role_guard(t, caller, role, ba, rng.below(4), &auth);
                    } else {
                        let mem = s.members(1);
                        let caller = if !mem.is_empty() && rng.chance(70) { *rng.pick(&mem) } else { caller };
                        let auth = gen_auth(rng, Some(caller));
                        s.has_role_guard(t, caller, 1, true, rng.below(8), &auth);
                    }
                }
                4 => {
                    s.has_any(t, caller, rng.chance(50), &auth);
                }
                5 => {
                    s.only_any(t, caller, rng.chance(30), &auth);
                }
                _ => {
                    if lib {
                        let caller = if rng.chance(50) { entitled(rng, &s, r).unwrap_or(caller) } else { caller };
                        s.ensure_aor(t, r, caller, &auth);
                    } else {
                        s.only_any(t, caller, false, &auth);
                    }
                }
            }
        }
    }
}

// ------------------------------------------------------------------------------------------
// machine `stk`: entry points stacking two role guards (label `kind=stk`)
//   op lines   stk <outer>_<inner> a=<acct> b=<acct> auth=<signers>     stk grant|revoke a=<acct> r=<role> auth=
//   observation  ok|err ret=<i|-> counter=<i> roles=<bits of accounts 0..N-1 for minter;burner;r2>
// ------------------------------------------------------------------------------------------

/// `ozharness::call` with TWO authorization entries per signer. The host lets one entry satisfy one
/// `require_auth` of its address per frame; an entry point with two `only_*` guards on the same account
/// demands that account's authorization twice, which a signer grants by signing two entries. "auth=" of
/// the op line therefore reads: the accounts that authorize this call (as often as it asks).
fn call_signed_twice(e: &Env, contract: &Address, func: &str, argv: Vec<Val>, signers: &[&Address]) -> Option<Val> {
    use soroban_sdk::testutils::{MockAuth, MockAuthInvoke};
    let invoke = MockAuthInvoke { contract, fn_name: func, args: argv.clone(), sub_invokes: &[] };
    let mut mocks: StdVec<MockAuth> = vec![];
    for a in signers {
        mocks.push(MockAuth { address: a, invoke: &invoke });
        mocks.push(MockAuth { address: a, invoke: &invoke });
    }
    e.mock_auths(&mocks);
    let r = catch(|| e.try_invoke_contract::<Val, soroban_sdk::Error>(contract, &Symbol::new(e, func), argv));
    match r {
        Some(Ok(Ok(v))) => Some(v),
        _ => None,
    }
}

/// roles of `stk::Stacked2`: 0 minter, 1 burner, 2 r2 (3 = "admin": not a role of that contract)
const STK_ROLES: usize = 3;

struct StkSim {
    e: Env,
    u: Universe,
    c: Address,
}

impl StkSim {
    fn new(t: &mut Trace, what: &str, admin: usize, start: u32) -> StkSim {
        let e = new_env(start, 1, 3_000_000);
        let u = Universe::new(&e, N);
        let c = e.register(stk::Stacked2, (u.a(admin).clone(),));
        t.seq(&format!("{} kind=stk admin={} start={}", what, admin, start));
        StkSim { e, u, c }
    }
    fn holds(&self, a: usize, r: usize) -> bool {
        let e = &self.e;
        let sym = Symbol::new(e, &role_name(r));
        query::<bool>(e, &self.c, "holds", args(e, [self.u.a(a).into_val(e), sym.into_val(e)])).unwrap()
    }
    fn holds_any(&self, a: usize, rs: &[usize]) -> bool {
        rs.iter().any(|&r| self.holds(a, r))
    }
    fn counter(&self) -> i32 {
        query::<i32>(&self.e, &self.c, "counter", args(&self.e, [])).unwrap()
    }
    fn observe(&self, t: &mut Trace, r: Option<Val>, returns: bool) {
        use soroban_sdk::TryFromVal;
        let ret = match (&r, returns) {
            (Some(v), true) => i32::try_from_val(&self.e, v).map(|x| x.to_string()).unwrap_or("?".into()),
            _ => "-".into(),
        };
        let roles: StdVec<String> = (0..STK_ROLES)
            .map(|r| (0..N).map(|a| if self.holds(a, r) { '1' } else { '0' }).collect::<String>())
            .collect();
        t.obs(&format!("{} ret={} counter={} roles={}", if r.is_some() { "ok" } else { "err" }, ret, self.counter(), roles.join(";")));
    }
    fn call(&mut self, t: &mut Trace, f: StkFn, a: usize, b: usize, auth: &[usize]) -> bool {
        let e = &self.e;
        t.op(&format!("stk {} a={} b={} auth={}", f.name(), a, b, join(auth)));
        let signers: StdVec<&Address> = auth.iter().map(|&i| self.u.a(i)).collect();
        let argv = args(e, [self.u.a(a).into_val(e), self.u.a(b).into_val(e)]);
        let r = call_signed_twice(e, &self.c, &f.name(), argv, &signers);
        let ok = r.is_some();
        self.observe(t, r, true);
        ok
    }
    fn admin_op(&mut self, t: &mut Trace, name: &str, a: usize, r: usize, auth: &[usize]) -> bool {
        let e = &self.e;
        t.op(&format!("stk {} a={} r={} auth={}", name, a, r, join(auth)));
        let signers: StdVec<&Address> = auth.iter().map(|&i| self.u.a(i)).collect();
        let sym = Symbol::new(e, &role_name(r));
        let argv = args(e, [self.u.a(a).into_val(e), sym.into_val(e)]);
        let r = call_signed_twice(e, &self.c, name, argv, &signers);
        let ok = r.is_some();
        self.observe(t, r, false);
        ok
    }
    fn grant(&mut self, t: &mut Trace, a: usize, r: usize, auth: &[usize]) -> bool {
        self.admin_op(t, "grant", a, r, auth)
    }
    fn revoke(&mut self, t: &mut Trace, a: usize, r: usize, auth: &[usize]) -> bool {
        self.admin_op(t, "revoke", a, r, auth)
    }
}

fn without(xs: &[usize], drop: &[usize]) -> StdVec<usize> {
    xs.iter().cloned().filter(|x| !drop.contains(x)).collect()
}

/// every stacked entry point: both guards satisfied; only the outer; only the inner; neither; the roles
/// held but the authorization of an `only_*` guard missing (nobody / the other signer / everybody else);
/// the same account as `a` and `b`; the second role of the any-role guards; grants and revokes by the
/// admin, by others, by nobody
fn stk_directed(t: &mut Trace) {
    let all: StdVec<usize> = (0..N).collect();
    for (i, f) in StkFn::all().into_iter().enumerate() {
        // admin 0; for a quarter of the entry points the admin is the account X itself
        let admin = if i % 4 == 3 { 1 } else { 0 };
        let ad = [admin];
        let mut s = StkSim::new(t, &format!("directed stk {}", f.name()), admin, 100);
        let (x, y, w, z) = (1usize, 2usize, 3usize, 4usize);
        let (or0, ir0) = (f.outer_roles()[0], f.inner_roles()[0]);
        s.call(t, f, x, y, &all); // nobody holds anything
        s.grant(t, x, or0, &[z]); // not the admin
        s.grant(t, x, or0, &[]);
        s.grant(t, x, or0, &ad);
        s.grant(t, x, or0, &ad); // already held: accepted, no change
        if !f.same_param() {
            s.call(t, f, x, y, &all); // only the outer guard's condition holds
            s.call(t, f, x, x, &all);
            s.revoke(t, x, or0, &[x]);
            s.revoke(t, x, or0, &ad);
            s.grant(t, y, ir0, &ad);
            s.call(t, f, x, y, &all); // only the inner guard's condition holds
            s.call(t, f, y, y, &all);
            s.grant(t, x, or0, &ad);
            let need = f.signers(x, y);
            s.call(t, f, x, y, &need); // both
            s.call(t, f, x, y, &all);
            s.call(t, f, x, y, &[]); // the roles, but nobody authorizes
            for &n in &need {
                s.call(t, f, x, y, &without(&need, &[n]));
                s.call(t, f, x, y, &[n]);
                s.call(t, f, x, y, &without(&all, &[n]));
            }
            s.call(t, f, x, y, &without(&all, &need));
            s.call(t, f, y, x, &all); // each holds the other one's role
            s.call(t, f, z, y, &all);
            s.call(t, f, x, z, &all);
            s.call(t, f, z, z, &all);
            // the same account as a and b
            s.grant(t, x, ir0, &ad);
            s.call(t, f, x, x, &[x]);
            s.call(t, f, x, x, &[]);
            s.call(t, f, x, x, &[y, z]);
            s.revoke(t, x, or0, &ad);
            s.call(t, f, x, x, &[x]);
            s.grant(t, x, or0, &ad);
            s.revoke(t, x, ir0, &ad);
            // "r2" passes the any-role guards only
            s.grant(t, w, 2, &ad);
            s.call(t, f, w, y, &all);
            s.call(t, f, x, w, &all);
            s.call(t, f, w, w, &[w]);
            s.call(t, f, w, w, &[]);
        } else {
            s.call(t, f, x, y, &all); // only the outer guard's condition holds
            s.grant(t, y, ir0, &ad);
            s.call(t, f, y, x, &all); // only the inner guard's condition holds
            s.call(t, f, y, y, &all);
            s.grant(t, x, ir0, &ad);
            let need = f.signers(x, y);
            s.call(t, f, x, y, &need); // both
            s.call(t, f, x, y, &all);
            s.call(t, f, x, z, &need);
            s.call(t, f, x, y, &[]);
            s.call(t, f, x, y, &[y]);
            s.call(t, f, x, y, &without(&all, &need));
            s.call(t, f, z, x, &all); // a stranger as a, the holder as b
            s.revoke(t, x, or0, &ad);
            s.call(t, f, x, y, &all);
            s.grant(t, x, or0, &ad);
            s.revoke(t, x, ir0, &ad);
            s.call(t, f, x, y, &all);
            s.grant(t, w, 2, &ad);
            s.call(t, f, w, y, &all);
            s.call(t, f, w, y, &[w]);
            s.call(t, f, w, y, &[]);
        }
        // grants / revokes need the admin's authorization and one of the three roles
        s.grant(t, z, 3, &ad);
        s.revoke(t, z, or0, &ad); // not held
        s.revoke(t, x, or0, &[x, y, w, z].iter().cloned().filter(|q| *q != admin).collect::<StdVec<usize>>());
        s.revoke(t, x, or0, &[]);
        s.revoke(t, x, or0, &all);
        s.call(t, f, x, y, &all);
    }
}

fn rand_stk(t: &mut Trace, rng: &mut Rng, k: u64, seed: u64, len: u64) {
    let admin = acct(rng);
    let start = *rng.pick(&[2u32, 100, 5000]);
    let mut s = StkSim::new(t, &format!("rand k={} seed={}", k, seed), admin, start);
    let fns = StkFn::all();
    let all: StdVec<usize> = (0..N).collect();
    for step in 0..len {
        let x = if step < 5 { 0 } else { rng.below(100) };
        if x < 22 {
            let a = acct(rng);
            let r = if rng.chance(94) { rng.below(STK_ROLES as u64) as usize } else { 3 };
            let auth = if step < 5 { vec![admin] } else { gen_auth(rng, Some(admin)) };
            s.grant(t, a, r, &auth);
        } else if x < 34 {
            let held: StdVec<(usize, usize)> =
                (0..N).flat_map(|a| (0..STK_ROLES).map(move |r| (a, r))).filter(|&(a, r)| s.holds(a, r)).collect();
            let (a, r) = if !held.is_empty() && rng.chance(75) { *rng.pick(&held) } else { (acct(rng), rng.below(STK_ROLES as u64) as usize) };
            let auth = gen_auth(rng, Some(admin));
            s.revoke(t, a, r, &auth);
        } else {
            let f = *rng.pick(&fns);
            let (orr, irr) = (f.outer_roles(), f.inner_roles());
            let (a, b) = if f.same_param() {
                let fit: StdVec<usize> = (0..N).filter(|&q| s.holds_any(q, &orr) && s.holds_any(q, &irr)).collect();
                let half: StdVec<usize> = (0..N).filter(|&q| s.holds_any(q, &orr) || s.holds_any(q, &irr)).collect();
                let a = match rng.below(10) {
                    0..=5 if !fit.is_empty() => *rng.pick(&fit),
                    0..=7 if !half.is_empty() => *rng.pick(&half),
                    _ => acct(rng),
                };
                (a, acct(rng))
            } else {
                let fa: StdVec<usize> = (0..N).filter(|&q| s.holds_any(q, &orr)).collect();
                let fb: StdVec<usize> = (0..N).filter(|&q| s.holds_any(q, &irr)).collect();
                let a = if !fa.is_empty() && rng.chance(72) { *rng.pick(&fa) } else { acct(rng) };
                let b = if rng.chance(12) {
                    a
                } else if !fb.is_empty() && rng.chance(72) {
                    *rng.pick(&fb)
                } else {
                    acct(rng)
                };
                (a, b)
            };
            let need = f.signers(a, b);
            let mut auth: StdVec<usize> = match rng.below(100) {
                0..=49 => need.clone(),
                50..=61 => {
                    let mut v = need.clone();
                    v.push(acct(rng));
                    v
                }
                62..=77 if !need.is_empty() => {
                    let drop = *rng.pick(&need);
                    let mut v = without(&need, &[drop]);
                    if rng.chance(50) {
                        v.extend(without(&all, &need));
                    }
                    v
                }
                78..=86 => without(&all, &need),
                _ => (0..N).filter(|_| rng.chance(45)).collect(),
            };
            auth.sort();
            auth.dedup();
            s.call(t, f, a, b, &auth);
        }
    }
}

fn main() {
    let mut t = Trace::from_args();
    let seed = seed_from_env();
    let thorough = arg_str("--tier").as_deref() == Some("thorough");
    let nseq = arg_u64("--seqs", if thorough { 700 } else { 260 });
    let len = arg_u64("--len", 45);
    let mut rng = Rng::new(seed);
    if arg_str("--skip-directed").is_none() {
        directed(&mut t, thorough);
    }
    if arg_str("--skip-directed").is_none() {
        long_idle_directed(&mut t);
    }
    for k in 0..(if thorough { 40 } else { 6 }) {
        random_sequence(&mut t, &mut rng, k, seed, len, true);
    }
    for k in 0..nseq {
        random_sequence(&mut t, &mut rng, k, seed, len, false);
    }
    // machine `stk` after all the others (their random streams stay what they were)
    if arg_str("--skip-directed").is_none() {
        stk_directed(&mut t);
    }
    for k in 0..arg_u64("--stk-seqs", if thorough { 120 } else { 30 }) {
        rand_stk(&mut t, &mut rng, k, seed, 44);
    }
    t.finish();
}
