//! C19 correspondence: the fee-abstraction library (`collect_fee_and_invoke`, `collect_fee`,
//! allow-list, sweep) and the two fee-forwarder examples, driven through real invocations in
//! the native Soroban host with a real library `Base` fee token (4 of them), a counting /
//! failing / auth-demanding target contract and EXACT authorization trees (`MockAuth` with the
//! user's `require_auth_for_args` tuple + nested sub-invocations), also perturbed.
//!
//! Variants (one per sequence, `v=` in the label):
//!   pl  = examples/fee-forwarder-permissionless (eager, relayer collects, relayer auth)
//!   pd  = examples/fee-forwarder-permissioned  (lazy, contract collects, executor role,
//!         manager-gated allow-list and sweep)
//!   lib = a pass-through contract over the library functions with free choice of strategy
//!         and recipient and an un-gated allow-list (so that allow-list x eager etc. is covered)
use ozharness::*;
use soroban_sdk::{
    contract, contractimpl, contracttype,
    testutils::{AuthorizedFunction, AuthorizedInvocation, MockAuth, MockAuthInvoke},
    xdr, Address, Env, IntoVal, MuxedAddress, Symbol, TryFromVal, Val, Vec as SVec,
};
use stellar_fee_abstraction::{
    collect_fee_and_invoke, is_allowed_fee_token, is_fee_token_allowlist_enabled, set_allowed_fee_token, sweep_token,
    FeeAbstractionApproval, FeeAbstractionStorageKey,
};
use stellar_tokens::fungible::{Base, FungibleToken};

#[allow(dead_code)]
#[path = "/repo/examples/fee-forwarder-permissionless/src/contract.rs"]
mod permissionless;
#[allow(dead_code)]
#[path = "/repo/examples/fee-forwarder-permissioned/src/contract.rs"]
mod permissioned;

// ------------------------------------------------------------------------------ contracts

#[contract]
pub struct Tok;

#[contractimpl]
impl Tok {
    pub fn mint(e: &Env, to: Address, amount: i128) {
        Base::mint(e, &to, amount);
    }
}

#[contractimpl(contracttrait)]
impl FungibleToken for Tok {
    type ContractType = Base;
}

#[contracttype]
pub enum TKey {
    Count,
    LastFn,
    LastArgs,
}

/// The forwarded-to contract: counts and logs every call; `boom` logs and then panics (its
/// log entry must be rolled back together with the fee); `uadd` demands the authorization of
/// its first argument (the user's second sub-invocation).
#[contract]
pub struct Target;

fn tlog(e: &Env, f: &str, args: SVec<Val>) -> u32 {
    let n: u32 = e.storage().instance().get(&TKey::Count).unwrap_or(0) + 1;
    e.storage().instance().set(&TKey::Count, &n);
    e.storage().instance().set(&TKey::LastFn, &Symbol::new(e, f));
    e.storage().instance().set(&TKey::LastArgs, &args);
    n
}

#[contractimpl]
impl Target {
    pub fn ping(e: &Env) -> u32 {
        tlog(e, "ping", SVec::new(e))
    }
    pub fn add(e: &Env, x: i128) -> u32 {
        tlog(e, "add", SVec::from_array(e, [x.into_val(e)]))
    }
    pub fn add2(e: &Env, x: i128, y: i128) -> u32 {
        tlog(e, "add2", SVec::from_array(e, [x.into_val(e), y.into_val(e)]))
    }
    pub fn boom(e: &Env, x: i128) -> u32 {
        tlog(e, "boom", SVec::from_array(e, [x.into_val(e)]));
        panic!("target fails");
    }
    pub fn uadd(e: &Env, who: Address, x: i128) -> u32 {
        who.require_auth();
        tlog(e, "uadd", SVec::from_array(e, [who.into_val(e), x.into_val(e)]))
    }
}

/// Pass-through over the library (variant `lib`).
#[contract]
pub struct LibFwd;

#[contractimpl]
impl LibFwd {
    #[allow(clippy::too_many_arguments)]
    pub fn forward(
        e: &Env,
        fee_token: Address,
        fee_amount: i128,
        max_fee_amount: i128,
        expiration_ledger: u32,
        target_contract: Address,
        target_fn: Symbol,
        target_args: soroban_sdk::Vec<Val>,
        user: Address,
        recipient: Address,
        eager: bool,
    ) -> Val {
        collect_fee_and_invoke(
            e,
            &fee_token,
            fee_amount,
            max_fee_amount,
            expiration_ledger,
            &target_contract,
            &target_fn,
            &target_args,
            &user,
            &recipient,
            if eager { FeeAbstractionApproval::Eager } else { FeeAbstractionApproval::Lazy },
        )
    }
    pub fn set_allowed(e: &Env, token: Address, allowed: bool) {
        set_allowed_fee_token(e, &token, allowed);
    }
    pub fn sweep(e: &Env, token: Address, recipient: Address) -> i128 {
        sweep_token(e, &token, &recipient)
    }
}

// ------------------------------------------------------------------------------ universe
// model address = index: 0..5 accounts (0 admin, 1 manager, 2 and 3 executors), 6 forwarder,
// 7 target, 8..11 fee tokens
const NACC: usize = 6;
const FWD: usize = 6;
const TGT: usize = 7;
const TOK0: usize = 8;
const NTOK: usize = 4;
const NHOLD: usize = 8; // balances / allowances observed for addresses 0..7
/// long-horizon ledger configuration: max_entry_ttl ~ 1 year, min_persistent_entry_ttl = max - 1,
/// so persistent / instance entries of the UNMODIFIED code stay live over the 132 idle days of
/// the "long idle" sequences, while anything moved to temporary storage (even with a 30-day
/// extension) evaporates
const MAX_TTL: u32 = 6_312_000;
const DAY: u32 = 17_280;

/// read a forwarder storage entry wherever it lives (the observation must not depend on the
/// storage class the library chose; an expired / archived entry reads as absent)
fn get_any<T: TryFromVal<Env, Val>>(e: &Env, key: &FeeAbstractionStorageKey) -> Option<T> {
    if e.storage().persistent().has(key) {
        return e.storage().persistent().get(key);
    }
    if e.storage().instance().has(key) {
        return e.storage().instance().get(key);
    }
    if e.storage().temporary().has(key) {
        return e.storage().temporary().get(key);
    }
    None
}

#[derive(Clone, Debug, PartialEq)]
enum V {
    A(usize),
    I(i128),
    U(u32),
}

fn show_v(x: &V) -> String {
    match x {
        V::A(a) => format!("a{}", a),
        V::I(i) => format!("i{}", i),
        V::U(u) => format!("u{}", u),
    }
}
fn show_vs(xs: &[V], sep: &str) -> String {
    if xs.is_empty() {
        "-".into()
    } else {
        xs.iter().map(show_v).collect::<Vec<_>>().join(sep)
    }
}

#[derive(Clone, Debug)]
struct InvS {
    contract: usize,
    func: String,
    args: Vec<V>,
}

#[derive(Clone, Debug)]
struct UserAuth {
    signer: usize,
    tok: usize,
    max: i128,
    exp: u32,
    target: usize,
    func: String,
    args: Vec<V>,
    subs: Vec<InvS>,
}

#[derive(Clone, Debug)]
struct Fwd {
    user: usize,
    rel: usize, // relayer (pl, pd) or recipient (lib)
    tok: usize,
    fee: i128,
    max: i128,
    exp: u32,
    target: usize,
    func: String,
    args: Vec<V>,
    eager: bool, // lib only
}

#[derive(Clone, Copy, PartialEq, Debug)]
enum Variant {
    Pl,
    Pd,
    Lib,
}

struct Sim {
    e: Env,
    u: Universe,
    var: Variant,
    now: u32,
    min_temp: u32,
}

impl Sim {
    fn new(var: Variant, min_temp: u32, start: u32) -> Sim {
        let e = new_env(start, min_temp, MAX_TTL);
        let mut u = Universe::new(&e, NACC);
        let fwd = match var {
            Variant::Pl => e.register(permissionless::FeeForwarder, ()),
            Variant::Pd => e.register(
                permissioned::FeeForwarder,
                (u.a(0).clone(), u.a(1).clone(), SVec::from_array(&e, [u.a(2).clone(), u.a(3).clone()])),
            ),
            Variant::Lib => e.register(LibFwd, ()),
        };
        u.push(fwd);
        let tgt = e.register(Target, ());
        u.push(tgt);
        for _ in 0..NTOK {
            let t = e.register(Tok, ());
            u.push(t);
        }
        Sim { e, u, var, now: start, min_temp }
    }
    fn vname(&self) -> &'static str {
        match self.var {
            Variant::Pl => "pl",
            Variant::Pd => "pd",
            Variant::Lib => "lib",
        }
    }
    fn val(&self, x: &V) -> Val {
        match x {
            V::A(a) => self.u.a(*a).into_val(&self.e),
            V::I(i) => (*i).into_val(&self.e),
            V::U(u) => (*u).into_val(&self.e),
        }
    }
    fn vals(&self, xs: &[V]) -> SVec<Val> {
        let mut v = SVec::new(&self.e);
        for x in xs {
            v.push_back(self.val(x));
        }
        v
    }

    // ---------------------------------------------------------------- observation
    fn token_state(&self, t: usize) -> String {
        let e = &self.e;
        let fwd = self.u.a(FWD).clone();
        let (b, a) = e.as_contract(self.u.a(t), || {
            let b: Vec<i128> = (0..NHOLD).map(|i| Base::balance(e, self.u.a(i))).collect();
            let a: Vec<i128> = (0..NHOLD).map(|i| Base::allowance(e, self.u.a(i), &fwd)).collect();
            (b, a)
        });
        format!("{}|{}", join(&b), join(&a))
    }
    fn allowlist_state(&self) -> String {
        let e = &self.e;
        e.as_contract(self.u.a(FWD), || {
            let count: u32 = get_any(e, &FeeAbstractionStorageKey::Count).unwrap_or(0);
            let mut at = vec![];
            for i in 0..(count + 2).min(NTOK as u32 + 2) {
                let t: Option<Address> = get_any(e, &FeeAbstractionStorageKey::Token(i));
                at.push(match t {
                    Some(a) => self.u.index_of(&a).map(|x| x.to_string()).unwrap_or("?".into()),
                    None => "_".into(),
                });
            }
            let mut idx = vec![];
            let mut allowed = vec![];
            for k in 0..NTOK {
                let t = self.u.a(TOK0 + k);
                let i: Option<u32> = get_any(e, &FeeAbstractionStorageKey::TokenIndex(t.clone()));
                idx.push(match i {
                    Some(i) => i.to_string(),
                    None => "_".into(),
                });
                // `is_allowed_fee_token` extends the TTL of `Token(index)`; if the index map points
                // to a missing entry (inconsistent storage) that host call traps: report "!" instead
                // of letting the harness die inside `as_contract`
                let dangling = count > 0
                    && match i {
                        Some(i) => get_any::<Address>(e, &FeeAbstractionStorageKey::Token(i)).is_none(),
                        None => false,
                    };
                allowed.push(if dangling {
                    "!"
                } else if is_allowed_fee_token(e, t) {
                    "1"
                } else {
                    "0"
                });
            }
            format!(
                "{}|{}|{}|{}|{}",
                count,
                at.join(","),
                idx.join(","),
                allowed.join(""),
                if is_fee_token_allowlist_enabled(e) { 1 } else { 0 }
            )
        })
    }
    fn target_state(&self) -> String {
        let e = &self.e;
        e.as_contract(self.u.a(TGT), || {
            let n: u32 = e.storage().instance().get(&TKey::Count).unwrap_or(0);
            let f: Option<Symbol> = e.storage().instance().get(&TKey::LastFn);
            let a: Option<SVec<Val>> = e.storage().instance().get(&TKey::LastArgs);
            match (f, a) {
                (Some(f), Some(a)) => format!("{}:{}:{}", n, sym_str(&f), self.show_vals(&a, ",")),
                _ => format!("{}:-:-", n),
            }
        })
    }
    fn show_val(&self, v: &Val) -> String {
        let sc = xdr::ScVal::try_from_val(&self.e, v).expect("scval");
        self.show_scval(&sc)
    }
    fn show_scval(&self, sc: &xdr::ScVal) -> String {
        match sc {
            xdr::ScVal::Address(a) => format!("a{}", self.u.index_of_sc(a).map(|i| i.to_string()).unwrap_or("?".into())),
            xdr::ScVal::I128(_) => format!("i{}", sc_i128(sc).unwrap()),
            xdr::ScVal::U32(x) => format!("u{}", x),
            xdr::ScVal::Bool(b) => format!("b{}", if *b { 1 } else { 0 }),
            xdr::ScVal::Symbol(s) => format!("s{}", s.to_utf8_string_lossy()),
            xdr::ScVal::Vec(Some(v)) => {
                let inner: Vec<String> = v.iter().map(|x| self.show_scval(x)).collect();
                format!("[{}]", if inner.is_empty() { "-".to_string() } else { inner.join("+") })
            }
            other => format!("?{}", other.name()),
        }
    }
    fn show_vals(&self, vs: &SVec<Val>, sep: &str) -> String {
        if vs.is_empty() {
            return "-".into();
        }
        vs.iter().map(|v| self.show_val(&v)).collect::<Vec<_>>().join(sep)
    }
    fn show_inv(&self, inv: &AuthorizedInvocation) -> String {
        let head = match &inv.function {
            AuthorizedFunction::Contract((c, f, args)) => format!(
                "{}:{}:{}",
                self.u.index_of(c).map(|i| i.to_string()).unwrap_or("?".into()),
                sym_str(f),
                self.show_vals(args, ",")
            ),
            _ => "?:?:?".into(),
        };
        if inv.sub_invocations.is_empty() {
            head
        } else {
            let subs: Vec<String> = inv.sub_invocations.iter().map(|s| self.show_inv(s)).collect();
            format!("{}{{{}}}", head, subs.join("|"))
        }
    }
    /// `e.auths()` of the last successful invocation: who was demanded, with which root
    /// arguments and which nested invocations
    fn demanded_tree(&self) -> String {
        let mut v: Vec<String> = self
            .e
            .auths()
            .iter()
            .map(|(a, inv)| format!("{}@{}", self.u.index_of(a).map(|i| i.to_string()).unwrap_or("?".into()), self.show_inv(inv)))
            .collect();
        v.sort();
        if v.is_empty() {
            "-".into()
        } else {
            v.join(";")
        }
    }
    fn events(&self) -> String {
        let evs = last_events(&self.e);
        let mut tok = vec![];
        let mut fw = vec![];
        let fwd_sc = sc_address(self.u.a(FWD));
        for ev in evs {
            let by = ev.contract.as_ref().and_then(|c| self.u.index_of_sc(c));
            let amt = |name: &str| ev_field(&ev.data, name).and_then(sc_i128).map(|x| x.to_string()).unwrap_or("?".into());
            match ev.name.as_str() {
                "transfer" => tok.push(format!(
                    "transfer:{}:{}:{}:{}",
                    by.unwrap_or(99),
                    ev_addr(&self.u, ev.topics.get(0)),
                    ev_addr(&self.u, ev.topics.get(1)),
                    amt("amount")
                )),
                "approve" => tok.push(format!(
                    "approve:{}:{}:{}:{}:{}",
                    by.unwrap_or(99),
                    ev_addr(&self.u, ev.topics.get(0)),
                    ev_addr(&self.u, ev.topics.get(1)),
                    amt("amount"),
                    ev_field(&ev.data, "live_until_ledger").and_then(sc_u32).map(|x| x.to_string()).unwrap_or("?".into())
                )),
                "mint" => tok.push(format!("mint:{}:{}:{}", by.unwrap_or(99), ev_addr(&self.u, ev.topics.get(0)), amt("amount"))),
                "fee_collected" if ev.contract.as_ref() == Some(&fwd_sc) => fw.push(format!(
                    "fee:{}:{}:{}:{}",
                    ev_addr(&self.u, ev.topics.get(0)),
                    ev_addr(&self.u, ev.topics.get(1)),
                    ev_addr(&self.u, ev_field(&ev.data, "token")),
                    amt("amount")
                )),
                "forward_executed" if ev.contract.as_ref() == Some(&fwd_sc) => fw.push(format!(
                    "fwd:{}:{}:{}:{}",
                    ev_addr(&self.u, ev.topics.get(0)),
                    ev_addr(&self.u, ev.topics.get(1)),
                    ev_field(&ev.data, "target_fn").map(|s| self.show_scval(s)).unwrap_or("?".into()),
                    ev_field(&ev.data, "target_args").map(|s| self.show_scval(s)).unwrap_or("?".into())
                )),
                "fee_token_allowlist_updated" => fw.push(format!(
                    "al:{}:{}",
                    ev_addr(&self.u, ev.topics.get(0)),
                    ev_field(&ev.data, "allowed").map(|s| self.show_scval(s)).unwrap_or("?".into())
                )),
                "tokens_swept" => fw.push(format!(
                    "swept:{}:{}:{}",
                    ev_addr(&self.u, ev.topics.get(0)),
                    ev_addr(&self.u, ev.topics.get(1)),
                    amt("amount")
                )),
                other => fw.push(format!("other:{}", other)),
            }
        }
        tok.extend(fw);
        if tok.is_empty() {
            "-".into()
        } else {
            tok.join(";")
        }
    }
    fn observe(&self, t: &mut Trace, ok: bool, evs: String, dem: String) {
        let toks: Vec<String> = (0..NTOK).map(|k| format!("t{}={}", TOK0 + k, self.token_state(TOK0 + k))).collect();
        t.obs(&format!(
            "{} now={} al={} {} calls={} ev={} dem={}",
            if ok { "ok" } else { "err" },
            self.now,
            self.allowlist_state(),
            toks.join(" "),
            self.target_state(),
            evs,
            dem
        ));
    }

    // ---------------------------------------------------------------- invocation
    /// invoke with exactly the given authorization entries
    fn invoke(&self, contract: usize, func: &str, argv: SVec<Val>, plain: &[usize], ua: Option<&UserAuth>, all: bool) -> bool {
        let e = &self.e;
        let c = self.u.a(contract);
        if all {
            return call_all_auth(e, c, func, argv).is_some();
        }
        let root = MockAuthInvoke { contract: c, fn_name: func, args: argv.clone(), sub_invokes: &[] };
        let mut mocks: Vec<MockAuth> = plain.iter().map(|&i| MockAuth { address: self.u.a(i), invoke: &root }).collect();
        // the user's tree: require_auth_for_args tuple at the root + sub-invocations
        let sub_args: Vec<SVec<Val>>;
        let subs: Vec<MockAuthInvoke>;
        let uroot;
        if let Some(ua) = ua {
            sub_args = ua.subs.iter().map(|s| self.vals(&s.args)).collect();
            subs = ua
                .subs
                .iter()
                .zip(sub_args.iter())
                .map(|(s, a)| MockAuthInvoke { contract: self.u.a(s.contract), fn_name: &s.func, args: a.clone(), sub_invokes: &[] })
                .collect();
            let tuple: SVec<Val> = (
                self.u.a(ua.tok).clone(),
                ua.max,
                ua.exp,
                self.u.a(ua.target).clone(),
                Symbol::new(e, &ua.func),
                self.vals(&ua.args),
            )
                .into_val(e);
            uroot = MockAuthInvoke { contract: c, fn_name: func, args: tuple, sub_invokes: &subs };
            mocks.push(MockAuth { address: self.u.a(ua.signer), invoke: &uroot });
        }
        e.mock_auths(&mocks);
        let r = catch(|| e.try_invoke_contract::<Val, soroban_sdk::Error>(c, &Symbol::new(e, func), argv));
        matches!(r, Some(Ok(Ok(_))))
    }

    fn finish(&self, t: &mut Trace, ok: bool) {
        let (evs, dem) = if ok { (self.events(), self.demanded_tree()) } else { ("-".to_string(), "-".to_string()) };
        self.observe(t, ok, evs, dem);
    }

    fn show_ua(ua: Option<&UserAuth>) -> String {
        match ua {
            None => "uas=- uat=- usub=-".into(),
            Some(ua) => {
                let subs: Vec<String> =
                    ua.subs.iter().map(|s| format!("{}:{}:{}", s.contract, s.func, show_vs(&s.args, ","))).collect();
                format!(
                    "uas={} uat={}:{}:{}:{}:{}:{} usub={}",
                    ua.signer,
                    ua.tok,
                    ua.max,
                    ua.exp,
                    ua.target,
                    ua.func,
                    show_vs(&ua.args, ","),
                    if subs.is_empty() { "-".to_string() } else { subs.join(";") }
                )
            }
        }
    }

    /// how the (mock) target behaves for this call: a fact about the harness's own target
    /// contract, handed to the model as the oracle's answer
    fn target_oracle(&self, f: &Fwd) -> &'static str {
        if f.target != TGT {
            return "fail"; // an account, a token or the forwarder itself: no such callable function
        }
        let all_int = |n: usize| f.args.len() == n && f.args.iter().all(|a| matches!(a, V::I(_)));
        match f.func.as_str() {
            "ping" if all_int(0) => "ok",
            "add" if all_int(1) => "ok",
            "add2" if all_int(2) => "ok",
            "uadd" if f.args.len() == 2 && matches!(f.args[0], V::A(a) if a == f.user) && matches!(f.args[1], V::I(_)) => "user",
            _ => "fail",
        }
    }

    fn forward(&mut self, t: &mut Trace, f: &Fwd, plain: &[usize], ua: Option<&UserAuth>, all: bool) -> bool {
        let e = &self.e;
        let ad = |i: usize| -> Val { self.u.a(i).into_val(e) };
        let mut xs: Vec<Val> = vec![
            ad(f.tok),
            v(e, f.fee),
            v(e, f.max),
            v(e, f.exp),
            ad(f.target),
            v(e, Symbol::new(e, &f.func)),
            v(e, self.vals(&f.args)),
            ad(f.user),
            ad(f.rel),
        ];
        if self.var == Variant::Lib {
            xs.push(v(e, f.eager));
        }
        let argv = SVec::from_slice(e, &xs);
        t.op(&format!(
            "ff forward v={} user={} rel={} tok={} fee={} max={} exp={} target={} fn={} args={} eager={} tgt={} mode={} auth={} {}",
            self.vname(),
            f.user,
            f.rel,
            f.tok,
            f.fee,
            f.max,
            f.exp,
            f.target,
            f.func,
            show_vs(&f.args, ","),
            if f.eager { 1 } else { 0 },
            self.target_oracle(f),
            if all { "all" } else { "exact" },
            if all { "-".to_string() } else { join(plain) },
            if all { "uas=- uat=- usub=-".to_string() } else { Self::show_ua(ua) }
        ));
        let ok = self.invoke(FWD, "forward", argv, plain, ua, all);
        self.finish(t, ok);
        ok
    }

    /// allow-list management: pd = enable_fee_token / disable_fee_token (manager role +
    /// operator auth), lib = set_allowed (no gate)
    fn set_allowed(&mut self, t: &mut Trace, tok: usize, allowed: bool, operator: usize, plain: &[usize], all: bool) -> bool {
        let e = &self.e;
        let ad = |i: usize| -> Val { self.u.a(i).into_val(e) };
        t.op(&format!(
            "ff allow v={} tok={} allowed={} op={} mode={} auth={}",
            self.vname(),
            tok,
            if allowed { 1 } else { 0 },
            operator,
            if all { "all" } else { "exact" },
            if all { "-".to_string() } else { join(plain) }
        ));
        let ok = match self.var {
            Variant::Pd => {
                self.invoke(FWD, if allowed { "enable_fee_token" } else { "disable_fee_token" }, args(e, [ad(tok), ad(operator)]), plain, None, all)
            }
            Variant::Lib => self.invoke(FWD, "set_allowed", args(e, [ad(tok), v(e, allowed)]), plain, None, all),
            Variant::Pl => false,
        };
        self.finish(t, ok);
        ok
    }

    fn sweep(&mut self, t: &mut Trace, tok: usize, to: usize, operator: usize, plain: &[usize], all: bool) -> bool {
        let e = &self.e;
        let ad = |i: usize| -> Val { self.u.a(i).into_val(e) };
        t.op(&format!(
            "ff sweep v={} tok={} to={} op={} mode={} auth={}",
            self.vname(),
            tok,
            to,
            operator,
            if all { "all" } else { "exact" },
            if all { "-".to_string() } else { join(plain) }
        ));
        let ok = match self.var {
            Variant::Pd => self.invoke(FWD, "sweep_tokens", args(e, [ad(tok), ad(to), ad(operator)]), plain, None, all),
            Variant::Lib => self.invoke(FWD, "sweep", args(e, [ad(tok), ad(to)]), plain, None, all),
            Variant::Pl => false,
        };
        self.finish(t, ok);
        ok
    }

    // direct token operations (set-up of balances and pre-existing allowances)
    fn mint(&mut self, t: &mut Trace, tok: usize, to: usize, amt: i128) {
        let e = &self.e;
        t.op(&format!("ff mint tok={} to={} amt={}", tok, to, amt));
        let ok = self.invoke(tok, "mint", args(e, [v(e, self.u.a(to)), v(e, amt)]), &[], None, false);
        self.finish(t, ok);
    }
    fn approve(&mut self, t: &mut Trace, tok: usize, owner: usize, sp: usize, amt: i128, lu: u32, plain: &[usize]) {
        let e = &self.e;
        t.op(&format!("ff approve tok={} owner={} sp={} amt={} lu={} auth={}", tok, owner, sp, amt, lu, join(plain)));
        let ok = self.invoke(
            tok,
            "approve",
            args(e, [v(e, self.u.a(owner)), v(e, self.u.a(sp)), v(e, amt), v(e, lu)]),
            plain,
            None,
            false,
        );
        self.finish(t, ok);
    }
    fn advance(&mut self, t: &mut Trace, n: u32) {
        self.now += n;
        set_ledger(&self.e, self.now, self.min_temp, MAX_TTL);
        t.op(&format!("ff advance n={}", n));
        self.observe(t, true, "-".into(), "-".into());
    }

    // ---------------------------------------------------------------- state queries for the generator
    fn bal(&self, tok: usize, a: usize) -> i128 {
        let e = &self.e;
        e.as_contract(self.u.a(tok), || Base::balance(e, self.u.a(a)))
    }
    fn allowance(&self, tok: usize, o: usize) -> i128 {
        let e = &self.e;
        e.as_contract(self.u.a(tok), || Base::allowance(e, self.u.a(o), self.u.a(FWD)))
    }
    fn al_count(&self) -> u32 {
        let e = &self.e;
        e.as_contract(self.u.a(FWD), || get_any(e, &FeeAbstractionStorageKey::Count).unwrap_or(0))
    }
    fn al_has(&self, tok: usize) -> bool {
        let e = &self.e;
        e.as_contract(self.u.a(FWD), || {
            get_any::<u32>(e, &FeeAbstractionStorageKey::TokenIndex(self.u.a(tok).clone())).is_some()
        })
    }

    /// the authorization the user has to sign for `f` (tuple + approve sub-invocation
    /// [+ target sub-invocation when the target demands the user's authorization])
    fn right_user_auth(&self, f: &Fwd) -> UserAuth {
        let mut subs =
            vec![InvS { contract: f.tok, func: "approve".into(), args: vec![V::A(f.user), V::A(FWD), V::I(f.max), V::U(f.exp)] }];
        if self.target_oracle(f) == "user" {
            subs.push(InvS { contract: f.target, func: f.func.clone(), args: f.args.clone() });
        }
        UserAuth { signer: f.user, tok: f.tok, max: f.max, exp: f.exp, target: f.target, func: f.func.clone(), args: f.args.clone(), subs }
    }
    fn right_plain(&self, f: &Fwd) -> Vec<usize> {
        match self.var {
            Variant::Lib => vec![],
            _ => vec![f.rel],
        }
    }
}

fn sym_str(s: &Symbol) -> String {
    let sc = xdr::ScVal::try_from(s).expect("symbol");
    match sc {
        xdr::ScVal::Symbol(s) => s.to_utf8_string_lossy(),
        _ => "?".into(),
    }
}


// ------------------------------------------------------------------------------ directed scenarios

fn fwd(user: usize, rel: usize, tok: usize, fee: i128, max: i128, exp: u32, func: &str, args: Vec<V>) -> Fwd {
    Fwd { user, rel, tok, fee, max, exp, target: TGT, func: func.into(), args, eager: false }
}

/// forward with exactly the right authorization
fn fwd_right(s: &mut Sim, t: &mut Trace, f: &Fwd) -> bool {
    let ua = s.right_user_auth(f);
    let pl = s.right_plain(f);
    s.forward(t, f, &pl, Some(&ua), false)
}

fn directed_variant(t: &mut Trace, var: Variant, eager: bool) {
    let name = match var {
        Variant::Pl => "pl",
        Variant::Pd => "pd",
        Variant::Lib => "lib",
    };
    let base = |s: &Sim| -> Fwd { Fwd { eager, ..fwd(4, 2, 8, 5, 10, s.now + 20, "add", vec![V::I(7)]) } };

    // ---- fee / max pairs, expirations, user = forwarder, failing targets
    t.seq(&format!("directed bounds+expiry+targets v={} eager={} min_temp=16 start=100 max_ttl={}", name, eager as u8, MAX_TTL));
    let mut s = Sim::new(var, 16, 100);
    s.mint(t, 8, 4, 1000);
    s.mint(t, 9, 4, 50);
    for (fee, max) in [(0i128, 10i128), (-1, 10), (11, 10), (10, 10), (1, 1), (0, 0), (-5, -1), (1, 0), (1001, 2000), (1, i128::MAX), (i128::MAX, i128::MAX), (i128::MIN, i128::MAX), (986, 986)] {
        let f = Fwd { fee, max, ..base(&s) };
        fwd_right(&mut s, t, &f);
    }
    s.mint(t, 8, 4, 1000);
    // expirations now-1 / now / now+1 on the approve path (allowance below max) ...
    for d in [-1i64, 0, 1] {
        let f = Fwd { exp: (s.now as i64 + d) as u32, max: 2000, ..base(&s) };
        fwd_right(&mut s, t, &f);
    }
    // ... and with a sufficient pre-existing allowance (lazy: no approve, explicit expiration check)
    s.approve(t, 8, 4, FWD, 500, s.now + 100, &[4]);
    for d in [-1i64, 0, 1] {
        let f = Fwd { exp: (s.now as i64 + d) as u32, ..base(&s) };
        fwd_right(&mut s, t, &f);
    }
    // far expirations: the token refuses live_until beyond the maximum, the lazy no-approve path does not care
    for exp in [s.now + MAX_TTL - 1, s.now + MAX_TTL, u32::MAX] {
        let f = Fwd { exp, ..base(&s) };
        fwd_right(&mut s, t, &f);
        let f = Fwd { exp, max: 3000, ..base(&s) };
        fwd_right(&mut s, t, &f);
    }
    // user = forwarder (recording mode: every authorization granted)
    s.mint(t, 8, FWD, 100);
    let f = Fwd { user: FWD, ..base(&s) };
    s.forward(t, &f, &[], None, true);
    let f = Fwd { user: FWD, rel: FWD, ..base(&s) };
    s.forward(t, &f, &[], None, true);
    // failing targets: everything rolls back
    for (target, func, args) in [
        (TGT, "boom", vec![V::I(1)]),
        (TGT, "nofn", vec![]),
        (TGT, "add", vec![]),
        (TGT, "add", vec![V::I(1), V::I(2)]),
        (TGT, "ping", vec![V::I(1)]),
        (TGT, "add", vec![V::A(3)]),
        (3, "add", vec![V::I(1)]),
        (FWD, "add", vec![V::I(1)]),
        (8, "ping", vec![]),
    ] {
        let f = Fwd { target, func: func.into(), args, ..base(&s) };
        fwd_right(&mut s, t, &f);
        s.forward(t, &f, &[], None, true);
    }
    // good targets
    for (func, args) in [("ping", vec![]), ("add", vec![V::I(-3)]), ("add2", vec![V::I(i128::MAX), V::I(i128::MIN)]), ("uadd", vec![V::A(4), V::I(9)])] {
        let f = Fwd { func: func.into(), args, ..base(&s) };
        fwd_right(&mut s, t, &f);
        s.forward(t, &f, &[], None, true);
    }
    // fee above the balance: the approval is rolled back too
    let f = Fwd { tok: 9, fee: 51, max: 60, ..base(&s) };
    fwd_right(&mut s, t, &f);
    let f = Fwd { tok: 9, fee: 50, max: 60, ..base(&s) };
    fwd_right(&mut s, t, &f);
    // user = relayer / recipient (two authorization entries of the same address)
    s.mint(t, 8, 2, 100);
    let f = Fwd { user: 2, rel: 2, ..base(&s) };
    fwd_right(&mut s, t, &f);
    // recipient overflow: credit beyond i128::MAX cannot happen (supply bound) but try the closest
    s.mint(t, 10, 3, i128::MAX - 10);
    s.mint(t, 10, 4, 10);
    let f = Fwd { tok: 10, fee: 10, max: 10, rel: 3, ..base(&s) };
    fwd_right(&mut s, t, &f);

    // ---- pre-existing allowances below / at / above max, then expiry of the allowance
    t.seq(&format!("directed allowances v={} eager={} min_temp=1 start=100 max_ttl={}", name, eager as u8, MAX_TTL));
    let mut s = Sim::new(var, 1, 100);
    s.mint(t, 8, 4, 100_000);
    for (k, pre) in [9i128, 10, 11, 0, 5, 10, 1000].iter().enumerate() {
        s.approve(t, 8, 4, FWD, *pre, s.now + 50 + k as u32, &[4]);
        let f = Fwd { fee: 5, max: 10, ..base(&s) };
        // without the nested approve in the user's tree: only the lazy no-approve path can succeed
        let mut ua = s.right_user_auth(&f);
        ua.subs.clear();
        let pl = s.right_plain(&f);
        s.forward(t, &f, &pl, Some(&ua), false);
        fwd_right(&mut s, t, &f);
        fwd_right(&mut s, t, &f);
    }
    // a pre-existing allowance far above the authorized maximum never widens the fee bounds
    s.approve(t, 8, 4, FWD, 1000, s.now + 60, &[4]);
    for (fee, max) in [(11i128, 10i128), (999, 10), (1000, 999), (1, 0), (5, -1), (1000, 1000)] {
        let f = Fwd { fee, max, ..base(&s) };
        fwd_right(&mut s, t, &f);
    }
    s.approve(t, 8, 4, FWD, 500, s.now + 3, &[4]);
    s.advance(t, 3);
    let f = Fwd { fee: 5, max: 10, ..base(&s) };
    fwd_right(&mut s, t, &f);
    s.approve(t, 8, 4, FWD, 500, s.now + 3, &[4]);
    s.advance(t, 4); // allowance expired: reads as 0, lazy must approve again
    let f = Fwd { fee: 5, max: 10, ..base(&s) };
    let mut ua = s.right_user_auth(&f);
    ua.subs.clear();
    let pl = s.right_plain(&f);
    s.forward(t, &f, &pl, Some(&ua), false);
    fwd_right(&mut s, t, &f);

    // ---- perturbed authorizations: every component of the signed tuple, the nested calls, the relayer
    t.seq(&format!("directed auth v={} eager={} min_temp=16 start=100 max_ttl={}", name, eager as u8, MAX_TTL));
    let mut s = Sim::new(var, 16, 100);
    s.mint(t, 8, 4, 1000);
    s.mint(t, 9, 4, 1000);
    s.mint(t, 8, 5, 1000);
    for func in ["add", "uadd"] {
        let f = Fwd { func: func.into(), args: if func == "add" { vec![V::I(7)] } else { vec![V::A(4), V::I(7)] }, ..base(&s) };
        let right = s.right_user_auth(&f);
        let pl = s.right_plain(&f);
        let mut variants: Vec<UserAuth> = vec![];
        variants.push(UserAuth { max: f.max + 1, ..right.clone() });
        variants.push(UserAuth { max: f.max - 1, ..right.clone() });
        variants.push(UserAuth { max: f.fee, ..right.clone() });
        variants.push(UserAuth { exp: f.exp + 1, ..right.clone() });
        variants.push(UserAuth { exp: f.exp - 1, ..right.clone() });
        variants.push(UserAuth { tok: 9, ..right.clone() });
        variants.push(UserAuth { target: 3, ..right.clone() });
        variants.push(UserAuth { func: "add2".into(), ..right.clone() });
        variants.push(UserAuth { args: vec![V::I(8)], ..right.clone() });
        variants.push(UserAuth { args: vec![], ..right.clone() });
        variants.push(UserAuth { args: vec![V::I(7), V::I(7)], ..right.clone() });
        variants.push(UserAuth { signer: 5, ..right.clone() });
        let mut x = right.clone();
        x.subs.remove(0);
        variants.push(x);
        for k in 0..4 {
            let mut x = right.clone();
            x.subs[0].args[k] = match k {
                0 => V::A(5),
                1 => V::A(2),
                2 => V::I(f.max - 1),
                _ => V::U(f.exp + 1),
            };
            variants.push(x);
        }
        let mut x = right.clone();
        x.subs[0].contract = 9;
        variants.push(x);
        if func == "uadd" {
            let mut x = right.clone();
            x.subs.pop();
            variants.push(x);
            let mut x = right.clone();
            x.subs[1].args[1] = V::I(8);
            variants.push(x);
        }
        for ua in variants.iter() {
            s.forward(t, &f, &pl, Some(ua), false);
        }
        s.forward(t, &f, &pl, None, false);
        if var != Variant::Lib {
            s.forward(t, &f, &[], Some(&right), false);
            s.forward(t, &f, &[3], Some(&right), false);
            s.forward(t, &f, &[4], Some(&right), false);
        }
        // harmless: a stranger signs too, an unused nested call is signed too
        let mut x = right.clone();
        x.subs.push(InvS { contract: 9, func: "approve".into(), args: vec![V::A(4), V::A(FWD), V::I(77), V::U(f.exp)] });
        let mut pl2 = pl.clone();
        pl2.push(0);
        s.forward(t, &f, &pl2, Some(&x), false);
        s.forward(t, &f, &pl, Some(&right), false);
    }
    if var == Variant::Pd {
        // executor role: 2 and 3 are executors, 4 is not; authorization of a non-executor does not help
        let f = Fwd { rel: 4, user: 5, ..base(&s) };
        fwd_right(&mut s, t, &f);
        s.forward(t, &f, &[], None, true);
        let f = Fwd { rel: 3, user: 5, ..base(&s) };
        fwd_right(&mut s, t, &f);
        let f = Fwd { rel: 0, user: 5, ..base(&s) };
        fwd_right(&mut s, t, &f);
    }
}

/// allow / disallow histories over the four tokens, including every swap-and-pop position
fn directed_allowlist(t: &mut Trace, var: Variant) {
    let name = if var == Variant::Pd { "pd" } else { "lib" };
    let histories: Vec<Vec<(usize, bool)>> = vec![
        // remove the only one, re-add
        vec![(8, true), (8, false), (8, true), (8, true), (9, false)],
        // remove first of four (last moves into slot 0), then the moved one, then re-add
        vec![(8, true), (9, true), (10, true), (11, true), (8, false), (11, false), (8, true), (11, true)],
        // remove last of four, then middle
        vec![(8, true), (9, true), (10, true), (11, true), (11, false), (9, false), (10, false), (8, false), (8, false)],
        // remove middle repeatedly, duplicates, absent
        vec![(10, true), (9, true), (8, true), (9, false), (9, false), (9, true), (10, false), (8, false), (9, false), (11, false)],
        vec![(11, true), (10, true), (11, false), (10, false), (10, true), (11, true), (9, true), (8, true), (10, false), (9, false), (8, false), (11, false)],
    ];
    for (k, h) in histories.iter().enumerate() {
        t.seq(&format!("directed allowlist {} v={} min_temp=16 start=100 max_ttl={}", k, name, MAX_TTL));
        let mut s = Sim::new(var, 16, 100);
        s.mint(t, 8, 4, 1000);
        s.mint(t, 9, 4, 1000);
        s.mint(t, 10, 4, 1000);
        s.mint(t, 11, 4, 1000);
        for (tok, allowed) in h.iter() {
            s.set_allowed(t, *tok, *allowed, 1, &[1], false);
            // a forward with each token after every change: accepted iff list empty or member
            for ft in TOK0..TOK0 + NTOK {
                let f = Fwd { eager: k % 2 == 0, ..fwd(4, 2, ft, 1, 2, s.now + 10, "ping", vec![]) };
                fwd_right(&mut s, t, &f);
            }
        }
        if var == Variant::Pd {
            // gates: non-manager with own authorization, manager without authorization, admin
            s.set_allowed(t, 10, true, 4, &[4], false);
            s.set_allowed(t, 10, true, 1, &[], false);
            s.set_allowed(t, 10, true, 1, &[4], false);
            s.set_allowed(t, 10, true, 0, &[0], false);
            s.set_allowed(t, 10, true, 4, &[], true);
            s.set_allowed(t, 10, true, 1, &[], true);
            s.sweep(t, 8, 5, 4, &[4], false);
            s.sweep(t, 8, 5, 1, &[], false);
            s.sweep(t, 8, 5, 1, &[1], false);
            s.sweep(t, 8, 5, 1, &[1], false);
            s.sweep(t, 9, 1, 1, &[1], false);
            s.sweep(t, 11, FWD, 1, &[1], false);
        } else {
            s.sweep(t, 8, 5, 1, &[], false);
            let f = Fwd { rel: FWD, ..fwd(4, 2, 8, 3, 3, s.now + 10, "ping", vec![]) };
            s.set_allowed(t, 8, true, 1, &[], false);
            fwd_right(&mut s, t, &f);
            s.sweep(t, 8, 5, 1, &[], false);
            s.sweep(t, 8, 5, 1, &[], false);
        }
    }
}

/// "long idle": allow a few tokens, disallow one, then let 1 day, 31 days and 100 days pass
/// WITHOUT any invocation of the forwarder; after each pause all allow-list getters must be what
/// they were, an allowed token must still be accepted and a not-allowed one still refused
/// (an entry that silently expires would make the list look empty = every token accepted, or
/// refuse an allowed token, or break the enumeration)
fn directed_idle(t: &mut Trace, var: Variant, eager: bool) {
    let name = if var == Variant::Pd { "pd" } else { "lib" };
    t.seq(&format!("directed idle v={} eager={} min_temp=16 start=100 max_ttl={}", name, eager as u8, MAX_TTL));
    let mut s = Sim::new(var, 16, 100);
    for tok in TOK0..TOK0 + NTOK {
        s.mint(t, tok, 4, 1_000_000);
    }
    s.set_allowed(t, 8, true, 1, &[1], false);
    s.set_allowed(t, 9, true, 1, &[1], false);
    s.set_allowed(t, 10, true, 1, &[1], false);
    s.set_allowed(t, 9, false, 1, &[1], false); // swap-and-pop: [8, 10]
    let probe = |s: &mut Sim, t: &mut Trace, good: usize, bad: usize| {
        let f = Fwd { eager, ..fwd(4, 2, good, 3, 7, s.now + 50, "ping", vec![]) };
        fwd_right(s, t, &f);
        let f = Fwd { eager, ..fwd(4, 2, bad, 3, 7, s.now + 50, "ping", vec![]) };
        fwd_right(s, t, &f);
        s.forward(t, &f, &[], None, true);
    };
    probe(&mut s, t, 8, 9);
    for days in [1u32, 31, 100] {
        s.advance(t, days * DAY);
        probe(&mut s, t, 10, 11);
        probe(&mut s, t, 8, 9);
    }
    // the list is still operable: the index map is still the inverse of the enumeration
    s.set_allowed(t, 8, false, 1, &[1], false);
    s.set_allowed(t, 11, true, 1, &[1], false);
    s.set_allowed(t, 10, true, 1, &[1], false);
    probe(&mut s, t, 11, 8);
    s.set_allowed(t, 10, false, 1, &[1], false);
    s.set_allowed(t, 11, false, 1, &[1], false);
    // empty again: everything accepted
    probe(&mut s, t, 9, 9);
    // a second, single long pause right after allowing (no observation-induced TTL extension
    // in between): 40 days
    s.set_allowed(t, 9, true, 1, &[1], false);
    s.advance(t, 40 * DAY);
    probe(&mut s, t, 9, 10);
}

fn scenario_directed(t: &mut Trace) {
    directed_idle(t, Variant::Pd, false);
    directed_idle(t, Variant::Lib, true);
    directed_idle(t, Variant::Lib, false);
    directed_variant(t, Variant::Pl, true);
    directed_variant(t, Variant::Pd, false);
    directed_variant(t, Variant::Lib, true);
    directed_variant(t, Variant::Lib, false);
    directed_allowlist(t, Variant::Pd);
    directed_allowlist(t, Variant::Lib);
}

// ------------------------------------------------------------------------------ generated sequences

fn pick_tok(rng: &mut Rng, s: &Sim) -> usize {
    // biased towards an allowed token when the list is enabled
    if s.al_count() > 0 && rng.chance(65) {
        let allowed: Vec<usize> = (TOK0..TOK0 + NTOK).filter(|&k| s.al_has(k)).collect();
        if !allowed.is_empty() {
            return *rng.pick(&allowed);
        }
    }
    TOK0 + rng.below(NTOK as u64) as usize
}

fn gen_forward(rng: &mut Rng, s: &Sim, t: &mut Trace) -> (Fwd, Vec<usize>, Option<UserAuth>, bool) {
    let acc = |rng: &mut Rng| rng.below(NACC as u64) as usize;
    // ~60 % of the forwards are built to be valid in every dimension, the rest is perturbed
    // in one or more dimensions
    let good = rng.chance(60);
    let bad = |rng: &mut Rng, pct: u64| !good && rng.chance(pct);
    let mut tok = pick_tok(rng, s);
    if good && s.al_count() > 0 && !s.al_has(tok) {
        let allowed: Vec<usize> = (TOK0..TOK0 + NTOK).filter(|&k| s.al_has(k)).collect();
        tok = *rng.pick(&allowed);
    }
    // users with funds are more interesting
    let mut user = acc(rng);
    for _ in 0..3 {
        if s.bal(tok, user) > 0 {
            break;
        }
        user = acc(rng);
    }
    if good && s.bal(tok, user) <= 0 {
        // any funded (token, user) pair with an acceptable token
        let mut cands = vec![];
        for k in TOK0..TOK0 + NTOK {
            if s.al_count() == 0 || s.al_has(k) {
                for a in 0..NACC {
                    if s.bal(k, a) > 0 {
                        cands.push((k, a));
                    }
                }
            }
        }
        if !cands.is_empty() {
            let c = *rng.pick(&cands);
            tok = c.0;
            user = c.1;
        }
    }
    let rel = match s.var {
        Variant::Pl => {
            if rng.chance(5) {
                user
            } else {
                acc(rng)
            }
        }
        Variant::Pd => {
            if good || rng.chance(75) {
                2 + rng.below(2) as usize
            } else {
                acc(rng)
            }
        }
        Variant::Lib => match rng.below(10) {
            0 => FWD,
            1 => user,
            2 => TGT,
            _ => acc(rng),
        },
    };
    let bal = s.bal(tok, user);
    let al = s.allowance(tok, user);
    let valid = !bad(rng, 40);
    let max: i128 = if valid {
        match rng.below(8) {
            0 => 1,
            1 => al.max(1),
            2 => al.saturating_add(1),
            3 => (al - 1).max(1),
            4 => bal.max(1),
            5 => i128::MAX,
            _ => rng.range(1, 200) as i128,
        }
    } else {
        match rng.below(8) {
            0 => 0,
            1 => -1,
            2 => i128::MIN,
            3 => al,
            4 => bal.saturating_add(1),
            _ => rng.range(1, 200) as i128,
        }
    };
    let fee: i128 = if valid {
        let hi = max.min(bal).max(1);
        match rng.below(6) {
            0 => hi,
            1 => 1,
            2 => max.min(bal.max(1)),
            _ => 1 + (rng.below(hi.min(1_000_000) as u64) as i128),
        }
    } else {
        match rng.below(10) {
            0 => 0,
            1 => -1,
            2 => max.saturating_add(1),
            3 => max,
            4 => bal.saturating_add(1),
            5 => bal,
            6 => i128::MAX,
            7 => max.saturating_sub(1),
            _ => rng.range(1, 50) as i128,
        }
    };
    if fee == max {
        t.count("b:fee=max");
    }
    if fee == max.saturating_add(1) {
        t.count("b:fee=max+1");
    }
    if fee <= 0 {
        t.count("b:fee<=0");
    }
    if al > 0 && max == al {
        t.count("b:allowance=max");
    }
    if al > 0 && max == al.saturating_add(1) {
        t.count("b:allowance=max-1");
    }
    if al > 1 && max == al - 1 {
        t.count("b:allowance=max+1");
    }
    let exp: u32 = match if bad(rng, 40) { rng.below(8) } else { 1 + rng.below(3) + 7 * rng.below(2) } {
        0 => s.now.saturating_sub(1),
        1 | 2 => s.now,
        3 => s.now + 1,
        4 => s.now + MAX_TTL - 1,
        5 => s.now + MAX_TTL,
        6 => u32::MAX,
        7 => 0,
        _ => s.now + rng.below(300) as u32,
    };
    if exp == s.now {
        t.count("b:exp=now");
    }
    if exp as u64 + 1 == s.now as u64 {
        t.count("b:exp=now-1");
    }
    if exp == s.now + 1 {
        t.count("b:exp=now+1");
    }
    let (target, func, args): (usize, String, Vec<V>) = match if bad(rng, 35) { rng.below(5) } else { 5 + rng.below(15) } {
        0 => (TGT, "boom".into(), vec![V::I(rng.range(-5, 5) as i128)]),
        1 => (TGT, "nofn".into(), vec![]),
        2 => (TGT, "add".into(), vec![]),
        3 => (acc(rng), "add".into(), vec![V::I(1)]),
        4 => (if rng.chance(50) { FWD } else { tok }, "ping".into(), vec![]),
        5 | 6 | 7 => (TGT, "ping".into(), vec![]),
        8 | 9 | 10 | 11 => (TGT, "add2".into(), vec![V::I(rng.i128_any()), V::I(rng.range(-9, 9) as i128)]),
        12 | 13 | 14 => (TGT, "uadd".into(), vec![V::A(user), V::I(rng.range(0, 99) as i128)]),
        _ => (TGT, "add".into(), vec![V::I(rng.range(-99, 99) as i128)]),
    };
    let mut f = Fwd { user, rel, tok, fee, max, exp, target, func, args, eager: rng.chance(50) };
    // user = forwarder is only reachable with every authorization granted
    if bad(rng, 6) {
        f.user = FWD;
        return (f, vec![], None, true);
    }
    let same = f.user == f.rel && s.var != Variant::Lib;
    if rng.chance(22) && !same {
        return (f, vec![], None, true);
    }
    let mut ua = s.right_user_auth(&f);
    let mut plain = s.right_plain(&f);
    if bad(rng, 55) {
        t.count("auth:perturbed");
        match rng.below(22) {
            0 => ua.max = ua.max.saturating_add(1),
            1 => ua.max = ua.max.saturating_sub(1),
            2 => ua.max = f.fee,
            3 => ua.exp = ua.exp.saturating_add(1),
            4 => ua.exp = ua.exp.saturating_sub(1),
            5 => ua.tok = TOK0 + rng.below(NTOK as u64) as usize,
            6 => ua.target = if ua.target == TGT { acc(rng) } else { TGT },
            7 => ua.func = (*rng.pick(&["ping", "add", "add2", "uadd", "boom"])).into(),
            8 => {
                if ua.args.is_empty() {
                    ua.args.push(V::I(0))
                } else {
                    ua.args.pop();
                }
            }
            9 => {
                let n = ua.args.len();
                if n > 0 {
                    ua.args[n - 1] = V::I(rng.range(-99, 99) as i128)
                } else {
                    ua.args.push(V::A(user))
                }
            }
            10 => ua.signer = acc(rng),
            11 => {
                ua.subs.remove(0);
            }
            12 => ua.subs[0].args[2] = V::I(f.max.saturating_sub(1)),
            13 => ua.subs[0].args[2] = V::I(f.fee),
            14 => ua.subs[0].args[3] = V::U(f.exp.saturating_add(1)),
            15 => ua.subs[0].args[1] = V::A(f.rel),
            16 => {
                ua.subs.pop();
            }
            17 => {
                plain.clear();
            }
            18 => {
                plain = vec![acc(rng)];
            }
            19 => {
                // harmless: a stranger signs the invocation too
                plain.push(acc(rng));
                plain.sort();
                plain.dedup();
            }
            20 => {
                // harmless: an extra nested call that is never made
                ua.subs.push(InvS { contract: TOK0 + rng.below(NTOK as u64) as usize, func: "approve".into(), args: vec![V::A(user), V::A(FWD), V::I(1), V::U(f.exp)] });
            }
            _ => return (f, plain, None, false),
        }
    }
    (f, plain, Some(ua), false)
}

fn random_sequences(t: &mut Trace, rng: &mut Rng, nseq: u64, len: u64, seed: u64) {
    for k in 0..nseq {
        let var = match rng.below(10) {
            0 | 1 | 2 => Variant::Pl,
            3 | 4 | 5 | 6 => Variant::Pd,
            _ => Variant::Lib,
        };
        let min_temp = if rng.chance(50) { 1 } else { 16 };
        let start = *rng.pick(&[2u32, 100, 5000]);
        let mut s = Sim::new(var, min_temp, start);
        t.seq(&format!("rand k={} seed={} v={} min_temp={} start={} max_ttl={}", k, seed, s.vname(), min_temp, start, MAX_TTL));
        // funding
        for _ in 0..(3 + rng.below(4)) {
            let tok = TOK0 + rng.below(NTOK as u64) as usize;
            let to = rng.below(NACC as u64) as usize;
            let amt = match rng.below(6) {
                0 => 1,
                1 => rng.i128_nonneg() >> 2,
                _ => rng.range(1, 5000) as i128,
            };
            s.mint(t, tok, to, amt);
        }
        for _ in 0..len {
            let r = rng.below(100);
            if r < 55 || var == Variant::Pl && r < 80 {
                let (f, plain, ua, all) = gen_forward(rng, &s, t);
                s.forward(t, &f, &plain, ua.as_ref(), all);
            } else if r < 75 {
                // allow / disallow: mostly sensible (allow an absent one, remove a present one)
                let tok = TOK0 + rng.below(NTOK as u64) as usize;
                let has = s.al_has(tok);
                let allowed = if rng.chance(80) { !has } else { has };
                let (oper, plain, all): (usize, Vec<usize>, bool) = match rng.below(12) {
                    0 => (rng.below(NACC as u64) as usize, vec![1], false),
                    1 => (1, vec![], false),
                    2 => (4, vec![4], false),
                    3 => (1, vec![], true),
                    4 => (rng.below(NACC as u64) as usize, vec![], true),
                    _ => (1, vec![1], false),
                };
                s.set_allowed(t, tok, allowed, oper, &plain, all);
            } else if r < 80 {
                let mut tok = TOK0 + rng.below(NTOK as u64) as usize;
                if rng.chance(70) {
                    let funded: Vec<usize> = (TOK0..TOK0 + NTOK).filter(|&k| s.bal(k, FWD) > 0).collect();
                    if !funded.is_empty() {
                        tok = *rng.pick(&funded);
                    }
                }
                let to = rng.below(NHOLD as u64) as usize;
                let (oper, plain, all): (usize, Vec<usize>, bool) = match rng.below(8) {
                    0 => (4, vec![4], false),
                    1 => (1, vec![], false),
                    2 => (1, vec![], true),
                    _ => (1, vec![1], false),
                };
                s.sweep(t, tok, to, oper, &plain, all);
            } else if r < 89 {
                // a user's own approval of the forwarder: pre-existing allowances around typical maxima
                let tok = TOK0 + rng.below(NTOK as u64) as usize;
                let owner = rng.below(NACC as u64) as usize;
                let amt = match rng.below(6) {
                    0 => 0,
                    1 => s.bal(tok, owner),
                    _ => rng.range(1, 200) as i128,
                };
                let lu = match rng.below(6) {
                    0 => s.now,
                    1 => s.now + 1,
                    2 => s.now + 2,
                    _ => s.now + rng.below(300) as u32,
                };
                let plain = if rng.chance(90) { vec![owner] } else { vec![] };
                s.approve(t, tok, owner, FWD, amt, lu, &plain);
            } else if r < 93 {
                let tok = TOK0 + rng.below(NTOK as u64) as usize;
                let to = rng.below(NHOLD as u64) as usize;
                s.mint(t, tok, to, rng.range(1, 500) as i128);
            } else {
                let n = if rng.chance(12) {
                    t.count("b:long-idle");
                    *rng.pick(&[DAY, 30 * DAY, 31 * DAY, 100 * DAY])
                } else {
                    *rng.pick(&[0u32, 1, 1, 2, 3, 15, 16, 17, 100, 299, 300])
                };
                if (s.now as u64) + (n as u64) < 3_500_000 {
                    s.advance(t, n);
                }
            }
        }
    }
}

fn main() {
    let mut t = Trace::from_args();
    let seed = seed_from_env();
    let thorough = arg_str("--tier").as_deref() == Some("thorough");
    let nseq = arg_u64("--seqs", if thorough { 700 } else { 220 });
    let len = arg_u64("--len", 40);
    let mut rng = Rng::new(seed);
    scenario_directed(&mut t);
    random_sequences(&mut t, &mut rng, nseq, len, seed);
    t.finish();
}
