//! C13, the vote-tracking LIBRARY driven directly (`stellar_governance::votes`), with `u128` amounts over the
//! whole range: a harness contract exposes `transfer_voting_units(from, to, amount)` (mint: `from = None`, burn:
//! `to = None`) and `delegate`, as a token contract built on the library would call them. The token flavours of
//! harness/src/bin/c13.rs never leave `0 ..= i128::MAX`; the library's own bounds (`u128` units, votes and supply,
//! every addition and subtraction checked) are only reached here.
//!
//! op line   : vr xfer f=<acct|-> t=<acct|-> amt=<u128> | vr delegate a=<acct> d=<acct> auth=<accts|-> | vr advance n=<k>
//! obs line  : ok|err units=<u0,..> del=<d0|x,..> votes=<v0,..> total=<T> now=<ledger>
use ozharness::*;
use soroban_sdk::{contract, contractimpl, Address, Env, IntoVal, Val};
use stellar_governance::votes as lib_votes;

#[contract]
pub struct RawVotes;

#[contractimpl]
impl RawVotes {
    pub fn transfer_units(e: &Env, from: Option<Address>, to: Option<Address>, amount: u128) {
        lib_votes::transfer_voting_units(e, from.as_ref(), to.as_ref(), amount);
    }
    pub fn delegate(e: &Env, account: Address, delegatee: Address) {
        lib_votes::delegate(e, &account, &delegatee);
    }
    pub fn get_votes(e: &Env, account: Address) -> u128 {
        lib_votes::get_votes(e, &account)
    }
    pub fn get_total_supply(e: &Env) -> u128 {
        lib_votes::get_total_supply(e)
    }
    pub fn get_delegate(e: &Env, account: Address) -> Option<Address> {
        lib_votes::get_delegate(e, &account)
    }
    pub fn voting_units(e: &Env, account: Address) -> u128 {
        lib_votes::get_voting_units(e, &account)
    }
}

const N: usize = 5;
const MAX_TTL: u32 = 200_000;

struct Sim {
    e: Env,
    u: Universe,
    c: Address,
    now: u32,
}

impl Sim {
    fn new(t: &mut Trace, what: &str, start: u32) -> Sim {
        let e = new_env(start, 16, MAX_TTL);
        let u = Universe::new(&e, N);
        let c = e.register(RawVotes, ());
        t.seq(&format!("{} start={}", what, start));
        Sim { e, u, c, now: start }
    }
    fn ad(&self, i: usize) -> Val {
        self.u.a(i).into_val(&self.e)
    }
    fn opt(&self, i: Option<usize>) -> Val {
        let o: Option<Address> = i.map(|i| self.u.a(i).clone());
        o.into_val(&self.e)
    }
    fn state(&self) -> String {
        let sh = |x: Option<u128>| x.map(|v| v.to_string()).unwrap_or_else(|| "?".to_string());
        let units: Vec<String> =
            (0..N).map(|i| sh(query(&self.e, &self.c, "voting_units", args(&self.e, [self.ad(i)])))).collect();
        let votes: Vec<String> = (0..N).map(|i| sh(query(&self.e, &self.c, "get_votes", args(&self.e, [self.ad(i)])))).collect();
        let del: Vec<String> = (0..N)
            .map(|i| {
                let d: Option<Option<Address>> = query(&self.e, &self.c, "get_delegate", args(&self.e, [self.ad(i)]));
                match d {
                    None => "?".to_string(),
                    Some(None) => "x".to_string(),
                    Some(Some(a)) => self.u.index_of(&a).map(|k| k.to_string()).unwrap_or_else(|| "?".to_string()),
                }
            })
            .collect();
        let total = sh(query(&self.e, &self.c, "get_total_supply", args(&self.e, [])));
        format!("units={} del={} votes={} total={} now={}", units.join(","), del.join(","), votes.join(","), total, self.now)
    }
    fn sho(i: Option<usize>) -> String {
        i.map(|x| x.to_string()).unwrap_or_else(|| "-".to_string())
    }
    fn xfer(&mut self, t: &mut Trace, f: Option<usize>, to: Option<usize>, amt: u128) -> bool {
        t.op(&format!("vr xfer f={} t={} amt={}", Self::sho(f), Self::sho(to), amt));
        let r = call(&self.e, &self.c, "transfer_units", args(&self.e, [self.opt(f), self.opt(to), v(&self.e, amt)]), &[]);
        t.obs(&format!("{} {}", if r.is_some() { "ok" } else { "err" }, self.state()));
        r.is_some()
    }
    fn delegate(&mut self, t: &mut Trace, a: usize, d: usize, auth: &[usize]) -> bool {
        t.op(&format!("vr delegate a={} d={} auth={}", a, d, join(auth)));
        let signers: Vec<&Address> = auth.iter().map(|&i| self.u.a(i)).collect();
        let r = call(&self.e, &self.c, "delegate", args(&self.e, [self.ad(a), self.ad(d)]), &signers);
        t.obs(&format!("{} {}", if r.is_some() { "ok" } else { "err" }, self.state()));
        r.is_some()
    }
    fn advance(&mut self, t: &mut Trace, n: u32) {
        self.now += n;
        set_ledger(&self.e, self.now, 16, MAX_TTL);
        t.op(&format!("vr advance n={}", n));
        t.obs(&format!("ok {}", self.state()));
    }
}

fn directed(t: &mut Trace) {
    // the whole u128 range: issuance up to the limit, one unit beyond it, to the same and to another account
    let mut s = Sim::new(t, "directed supply at the u128 limit", 100);
    s.delegate(t, 0, 0, &[0]);
    s.delegate(t, 1, 2, &[1]);
    s.xfer(t, None, Some(0), u128::MAX - 10);
    s.xfer(t, None, Some(0), 11); // units of 0 would overflow
    s.xfer(t, None, Some(1), 11); // units of 1 fit, the supply does not
    s.xfer(t, None, Some(1), 10); // exactly the limit
    s.xfer(t, None, Some(3), 1);
    s.advance(t, 3);
    s.xfer(t, Some(0), Some(1), u128::MAX - 10); // units of 1 would overflow
    s.xfer(t, Some(0), Some(3), u128::MAX - 10);
    s.delegate(t, 3, 2, &[3]); // votes of 2: 10 + (MAX - 10)
    s.xfer(t, Some(3), None, u128::MAX - 10);
    s.xfer(t, Some(1), None, 11); // more than it holds
    s.xfer(t, Some(1), None, 10);
    s.xfer(t, None, None, 5); // mint and burn at once: supply up, then down
    s.xfer(t, Some(4), Some(4), 0);
    s.xfer(t, Some(4), Some(0), 1);

    let mut s = Sim::new(t, "directed delegation moves, same-ledger updates, burns below zero", 2);
    s.xfer(t, None, Some(0), 1000);
    s.xfer(t, None, Some(1), 500);
    s.delegate(t, 0, 1, &[]);
    s.delegate(t, 0, 1, &[1]);
    s.delegate(t, 0, 1, &[0]);
    s.delegate(t, 0, 1, &[0]); // same delegate
    s.delegate(t, 1, 1, &[1]);
    s.xfer(t, Some(0), Some(1), 300);
    s.advance(t, 1);
    s.delegate(t, 0, 4, &[0]);
    s.delegate(t, 1, 4, &[1]);
    s.xfer(t, Some(1), None, 800);
    s.xfer(t, Some(1), None, 1);
    s.xfer(t, Some(0), None, 701);
    s.xfer(t, Some(0), Some(0), 700);
    s.advance(t, 100);
    s.xfer(t, Some(0), None, 700);
}

fn main() {
    let mut t = Trace::from_args();
    let seed = seed_from_env();
    let thorough = arg_str("--tier").as_deref() == Some("thorough");
    let nseq = arg_u64("--seqs", if thorough { 400 } else { 80 });
    let len = arg_u64("--len", 40);
    let mut rng = Rng::new(seed ^ 0x5eed_0013);
    directed(&mut t);
    let big = [0u128, 1, 2, 999, 1u128 << 64, (1u128 << 127) - 1, 1u128 << 127, u128::MAX / 2, u128::MAX - 1, u128::MAX];
    for k in 0..nseq {
        let start = *rng.pick(&[2u32, 100, 5000]);
        let mut s = Sim::new(&mut t, &format!("rand k={} seed={}", k, seed), start);
        // half of the sequences live near the top of the range
        let high = rng.chance(50);
        for _ in 0..len {
            let r = rng.below(100);
            let acct = |rng: &mut Rng| rng.below(N as u64) as usize;
            let oacct = |rng: &mut Rng| if rng.chance(25) { None } else { Some(rng.below(N as u64) as usize) };
            if r < 12 {
                s.advance(&mut t, *rng.pick(&[0u32, 1, 2, 17]));
            } else if r < 35 {
                let a = acct(&mut rng);
                let d = acct(&mut rng);
                let auth = if rng.chance(80) { vec![a] } else if rng.chance(50) { vec![d] } else { vec![] };
                s.delegate(&mut t, a, d, &auth);
            } else {
                let f = oacct(&mut rng);
                let to = oacct(&mut rng);
                let units_f: u128 = f.and_then(|i| query(&s.e, &s.c, "voting_units", args(&s.e, [s.ad(i)]))).unwrap_or(0);
                let total: u128 = query(&s.e, &s.c, "get_total_supply", args(&s.e, [])).unwrap_or(0);
                let amt = match rng.below(8) {
                    0 => *rng.pick(&big),
                    1 => units_f,
                    2 => units_f.saturating_add(1),
                    3 => u128::MAX - total,
                    4 => (u128::MAX - total).saturating_add(1),
                    5 if high => rng.u128() | (1u128 << 126),
                    _ => rng.below(5000) as u128,
                };
                s.xfer(&mut t, f, to, amt);
            }
        }
    }
    t.finish();
}
