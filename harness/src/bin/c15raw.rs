//! C15, first sentence, with issuers that do NOT use the library's helper pipeline: a conforming `ClaimIssuer`
//! (returns unit / panics) that confirms a claim by looking (topic, data) up in its own table — no signatures, no
//! expiration encoding in the data. The identity verifier must count exactly the claims such an issuer confirms,
//! whatever the claim data looks like (4 bytes, 15 bytes, 32 zero bytes, bytes that read as a past or future
//! `valid_until`), at every timestamp.
//!
//! The registry, the identity-registry storage, the identity (claims) contract and the verifier are the library's,
//! behind pass-through contracts as in harness/src/bin/c15.rs.
//!
//! universe  : issuers 0..2, topics 1..3, one identity (account 9), data kinds 0..5
//! op line   : oq topic t=<t> on=<0|1> | oq trust i=<i> ts=<t,..|-> | oq confirm i=<i> t=<t> k=<kind> ok=<0|1>
//!             | oq claim i=<i> t=<t> k=<kind> | oq unclaim i=<i> t=<t> | oq time ts=<u64> | oq verify
//! obs line  : ok|err ver=<0|1>     (ver: verify_identity(account) succeeds right now)
use ozharness::*;
use soroban_sdk::{Address, Bytes, BytesN, Env, IntoVal, String as SString, Val, Vec as SVec};

use contracts::*;

mod contracts {
use soroban_sdk::{contract, contractimpl, contracttype, vec, Address, Bytes, BytesN, Env, Map, String as SString, Vec};
use stellar_tokens::rwa::{
    claim_issuer::ClaimIssuer,
    claim_topics_and_issuers::storage as cti,
    identity_claims::{self as ic},
    identity_registry_storage::{self as irs, CountryData, CountryRelation, IdentityType, IndividualCountryRelation},
    identity_verifier::storage as iv,
};

#[contract]
pub struct RegC;
#[contractimpl]
impl RegC {
    pub fn add_claim_topic(e: &Env, t: u32) {
        cti::add_claim_topic(e, t)
    }
    pub fn remove_claim_topic(e: &Env, t: u32) {
        cti::remove_claim_topic(e, t)
    }
    pub fn add_trusted_issuer(e: &Env, i: Address, ts: Vec<u32>) {
        cti::add_trusted_issuer(e, &i, &ts)
    }
    pub fn remove_trusted_issuer(e: &Env, i: Address) {
        cti::remove_trusted_issuer(e, &i)
    }
    pub fn update_issuer_claim_topics(e: &Env, i: Address, ts: Vec<u32>) {
        cti::update_issuer_claim_topics(e, &i, &ts)
    }
    pub fn get_claim_topics_and_issuers(e: &Env) -> Map<u32, Vec<Address>> {
        cti::get_claim_topics_and_issuers(e)
    }
}

#[contract]
pub struct IrsC;
#[contractimpl]
impl IrsC {
    pub fn add_identity(e: &Env, account: Address, identity: Address) {
        let cd = CountryData { country: CountryRelation::Individual(IndividualCountryRelation::Residence(840)), metadata: None };
        irs::add_identity(e, &account, &identity, IdentityType::Individual, &vec![e, cd]);
    }
    pub fn stored_identity(e: &Env, account: Address) -> Address {
        irs::stored_identity(e, &account)
    }
    pub fn get_recovered_to(e: &Env, old: Address) -> Option<Address> {
        irs::get_recovered_to(e, &old)
    }
}

#[contract]
pub struct IdC;
#[contractimpl]
impl IdC {
    pub fn add_claim(e: &Env, topic: u32, scheme: u32, issuer: Address, signature: Bytes, data: Bytes, uri: SString) -> BytesN<32> {
        ic::add_claim(e, topic, scheme, &issuer, &signature, &data, &uri)
    }
    pub fn get_claim(e: &Env, claim_id: BytesN<32>) -> ic::Claim {
        ic::get_claim(e, &claim_id)
    }
    pub fn get_claim_ids_by_topic(e: &Env, topic: u32) -> Vec<BytesN<32>> {
        ic::get_claim_ids_by_topic(e, topic)
    }
    pub fn remove_claim(e: &Env, claim_id: BytesN<32>) {
        ic::remove_claim(e, &claim_id)
    }
    pub fn claim_id(e: &Env, issuer: Address, topic: u32) -> BytesN<32> {
        ic::generate_claim_id(e, &issuer, topic)
    }
}

#[contract]
pub struct VerC;
#[contractimpl]
impl VerC {
    pub fn set_cti(e: &Env, a: Address) {
        iv::set_claim_topics_and_issuers(e, &a)
    }
    pub fn set_irs(e: &Env, a: Address) {
        iv::set_identity_registry_storage(e, &a)
    }
    pub fn verify(e: &Env, account: Address) {
        iv::verify_identity(e, &account)
    }
}

#[contracttype]
pub enum OKey {
    Ok(u32, Bytes),
}

/// a conforming issuer outside the helper pipeline: its own table decides
#[contract]
pub struct OpaqueIssuer;
#[contractimpl]
impl OpaqueIssuer {
    pub fn confirm(e: &Env, topic: u32, data: Bytes, ok: bool) {
        e.storage().persistent().set(&OKey::Ok(topic, data), &ok);
    }
}
#[contractimpl]
impl ClaimIssuer for OpaqueIssuer {
    fn is_claim_valid(e: &Env, _identity: Address, claim_topic: u32, _scheme: u32, _sig_data: Bytes, claim_data: Bytes) {
        let ok: bool = e.storage().persistent().get(&OKey::Ok(claim_topic, claim_data)).unwrap_or(false);
        if !ok {
            panic!("claim not confirmed");
        }
    }
}

}

const NI: usize = 3;
const TOPICS: [u32; 3] = [1, 2, 3];
const NK: u32 = 6;
const TS0: u64 = 1_000_000;

struct Sim {
    e: Env,
    reg: Address,
    idc: Address,
    ver: Address,
    iss: Vec<Address>,
    account: Address,
    ts: u64,
    trusted: Vec<bool>,
}

impl Sim {
    fn new(t: &mut Trace, what: &str) -> Sim {
        let e = new_env(100, 16, 200_000);
        let u = Universe::new(&e, 1);
        let reg = e.register(RegC, ());
        let irs_ = e.register(IrsC, ());
        let idc = e.register(IdC, ());
        let ver = e.register(VerC, ());
        let iss: Vec<Address> = (0..NI).map(|_| e.register(OpaqueIssuer, ())).collect();
        let account = u.a(0).clone();
        e.mock_all_auths();
        let _: () = e.invoke_contract(&ver, &soroban_sdk::Symbol::new(&e, "set_cti"), args(&e, [reg.into_val(&e)]));
        let _: () = e.invoke_contract(&ver, &soroban_sdk::Symbol::new(&e, "set_irs"), args(&e, [irs_.into_val(&e)]));
        let _: () = e.invoke_contract(
            &irs_,
            &soroban_sdk::Symbol::new(&e, "add_identity"),
            args(&e, [account.into_val(&e), idc.into_val(&e)]),
        );
        let s = Sim { e, reg, idc, ver, iss, account, ts: TS0, trusted: vec![false; NI] };
        s.set_time();
        t.seq(&format!("{} ts={}", what, TS0));
        s
    }
    fn set_time(&self) {
        use soroban_sdk::testutils::Ledger as _;
        let ts = self.ts;
        self.e.ledger().with_mut(|li| li.timestamp = ts);
    }
    /// the claim data of kind `k` (kind 3 and 4 carry 16 bytes whose bytes 8..16 read as TS0 + 100 / TS0 + 1000)
    fn data(&self, k: u32) -> Bytes {
        let v: Vec<u8> = match k {
            0 => vec![1, 2, 3, 4],
            1 => vec![0u8; 32],
            2 => vec![0xffu8; 32],
            3 => {
                let mut d = 7u64.to_be_bytes().to_vec();
                d.extend_from_slice(&(TS0 + 100).to_be_bytes());
                d
            }
            4 => {
                let mut d = (TS0 + 5).to_be_bytes().to_vec();
                d.extend_from_slice(&(TS0 + 1000).to_be_bytes());
                d.extend_from_slice(b"payload");
                d
            }
            _ => vec![9u8; 15],
        };
        Bytes::from_slice(&self.e, &v)
    }
    fn ver_now(&self) -> bool {
        call_all_auth(&self.e, &self.ver, "verify", args(&self.e, [self.account.into_val(&self.e)])).is_some()
    }
    fn fin(&self, t: &mut Trace, ok: bool) {
        t.obs(&format!("{} ver={}", if ok { "ok" } else { "err" }, self.ver_now() as u8));
    }
    fn run(&mut self, t: &mut Trace, line: String, c: &Address, f: &str, a: SVec<Val>) -> bool {
        t.op(&line);
        let r = call_all_auth(&self.e, c, f, a);
        self.fin(t, r.is_some());
        r.is_some()
    }
    fn topic(&mut self, t: &mut Trace, tp: u32, on: bool) -> bool {
        let f = if on { "add_claim_topic" } else { "remove_claim_topic" };
        let (reg, a) = (self.reg.clone(), args(&self.e, [v(&self.e, tp)]));
        self.run(t, format!("oq topic t={} on={}", tp, on as u8), &reg, f, a)
    }
    /// the issuer's topic set becomes `ts` (empty = de-listed)
    fn trust(&mut self, t: &mut Trace, i: usize, ts: &[u32]) -> bool {
        let e = self.e.clone();
        let mut tv: SVec<u32> = SVec::new(&e);
        for x in ts {
            tv.push_back(*x);
        }
        let ia: Val = self.iss[i].into_val(&e);
        let reg = self.reg.clone();
        let line = format!("oq trust i={} ts={}", i, join(ts));
        let ok = if ts.is_empty() {
            self.run(t, line, &reg, "remove_trusted_issuer", args(&e, [ia]))
        } else if self.trusted[i] {
            self.run(t, line, &reg, "update_issuer_claim_topics", args(&e, [ia, tv.into_val(&e)]))
        } else {
            self.run(t, line, &reg, "add_trusted_issuer", args(&e, [ia, tv.into_val(&e)]))
        };
        if ok {
            self.trusted[i] = !ts.is_empty();
        }
        ok
    }
    fn confirm(&mut self, t: &mut Trace, i: usize, tp: u32, k: u32, ok: bool) -> bool {
        let e = self.e.clone();
        let c = self.iss[i].clone();
        let a = args(&e, [v(&e, tp), self.data(k).into_val(&e), v(&e, ok)]);
        self.run(t, format!("oq confirm i={} t={} k={} ok={}", i, tp, k, ok as u8), &c, "confirm", a)
    }
    fn claim(&mut self, t: &mut Trace, i: usize, tp: u32, k: u32) -> bool {
        let e = self.e.clone();
        let c = self.idc.clone();
        let a = args(
            &e,
            [
                v(&e, tp),
                v(&e, 1u32),
                self.iss[i].into_val(&e),
                Bytes::from_slice(&e, &[0u8; 8]).into_val(&e),
                self.data(k).into_val(&e),
                SString::from_str(&e, "u").into_val(&e),
            ],
        );
        self.run(t, format!("oq claim i={} t={} k={}", i, tp, k), &c, "add_claim", a)
    }
    fn unclaim(&mut self, t: &mut Trace, i: usize, tp: u32) -> bool {
        let e = self.e.clone();
        let c = self.idc.clone();
        let id: Option<BytesN<32>> = query(&e, &c, "claim_id", args(&e, [self.iss[i].into_val(&e), v(&e, tp)]));
        let a = args(&e, [id.unwrap().into_val(&e)]);
        self.run(t, format!("oq unclaim i={} t={}", i, tp), &c, "remove_claim", a)
    }
    fn time(&mut self, t: &mut Trace, ts: u64) {
        self.ts = ts;
        self.set_time();
        t.op(&format!("oq time ts={}", ts));
        self.fin(t, true);
    }
    fn verify(&mut self, t: &mut Trace) {
        t.op("oq verify");
        let ok = self.ver_now();
        t.obs(&format!("{} ver={}", if ok { "ok" } else { "err" }, ok as u8));
    }
}

fn directed(t: &mut Trace) {
    for k in 0..NK {
        let mut s = Sim::new(t, &format!("directed opaque data kind {}", k));
        s.verify(t); // no required topic: verified
        s.topic(t, 1, true);
        s.verify(t); // required topic without issuer
        s.trust(t, 0, &[1]);
        s.verify(t); // no claim
        s.claim(t, 0, 1, k); // not confirmed by the issuer: refused at add
        s.confirm(t, 0, 1, k, true);
        s.claim(t, 0, 1, k);
        s.verify(t); // counts, whatever the data looks like
        s.time(t, TS0 + 100);
        s.time(t, TS0 + 999);
        s.time(t, TS0 + 1000);
        s.time(t, TS0 + 5_000_000);
        s.confirm(t, 0, 1, k, false); // withdrawn by the issuer
        s.confirm(t, 0, 1, k, true);
        s.topic(t, 2, true);
        s.trust(t, 1, &[2, 1]);
        s.confirm(t, 1, 2, (k + 1) % NK, true);
        s.claim(t, 1, 2, (k + 1) % NK);
        s.trust(t, 0, &[]); // issuer 0 de-listed: topic 1 needs issuer 1 now
        s.confirm(t, 1, 1, k, true);
        s.claim(t, 1, 1, k);
        s.unclaim(t, 1, 2);
        s.topic(t, 2, false);
    }
}

fn main() {
    let mut t = Trace::from_args();
    let seed = seed_from_env();
    let thorough = arg_str("--tier").as_deref() == Some("thorough");
    let nseq = arg_u64("--seqs", if thorough { 300 } else { 60 });
    let len = arg_u64("--len", 40);
    let mut rng = Rng::new(seed ^ 0x5eed_0015);
    directed(&mut t);
    for kx in 0..nseq {
        let mut s = Sim::new(&mut t, &format!("rand k={} seed={}", kx, seed));
        for _ in 0..len {
            let i = rng.below(NI as u64) as usize;
            let tp = *rng.pick(&TOPICS);
            let k = rng.below(NK as u64) as u32;
            match rng.below(100) {
                0..=9 => {
                    s.topic(&mut t, tp, rng.chance(70));
                }
                10..=24 => {
                    let ts: Vec<u32> = TOPICS.iter().cloned().filter(|_| rng.chance(45)).collect();
                    s.trust(&mut t, i, &ts);
                }
                25..=49 => {
                    s.confirm(&mut t, i, tp, k, rng.chance(75));
                }
                50..=74 => {
                    s.claim(&mut t, i, tp, k);
                }
                75..=81 => {
                    s.unclaim(&mut t, i, tp);
                }
                82..=89 => {
                    let ts = *rng.pick(&[TS0, TS0 + 99, TS0 + 100, TS0 + 101, TS0 + 1000, TS0 + 1001, TS0 + 10_000_000, 5]);
                    s.time(&mut t, ts);
                }
                _ => s.verify(&mut t),
            }
        }
    }
    t.finish();
}
