//! C17 correspondence: the real `Verifier<Sha256>` / `Verifier<Keccak256>`, `hash_pair` /
//! `commutative_hash_pair`, the `Hasher` wrappers and `MerkleDistributor` behind pass-through
//! contracts, and the fungible-merkle-airdrop example contract.
//!
//! Trees are built HERE with the sha2 / sha3 crates (independent of the code under test): all
//! sizes 1..64, several shapes, every leaf's honest proof, every single-element corruption of
//! (leaf, proof, index, root), truncation / extension / reordering; then claim histories with
//! repeats, proofs for other leaves and root changes.
use ozharness::*;
use sha2::Digest;
#[allow(unused_imports)]
use soroban_sdk::IntoVal as _;
use soroban_sdk::MuxedAddress;
use soroban_sdk::{contract, contractimpl, contracttype, xdr::ToXdr, Address, Bytes, BytesN, Env, TryFromVal, Val, Vec as SVec};
use stellar_contract_utils::{
    crypto::{
        hashable::{commutative_hash_pair, hash_pair},
        hasher::Hasher,
        keccak::Keccak256,
        merkle::Verifier,
        sha256::Sha256,
    },
    merkle_distributor::{IndexableLeaf, MerkleDistributor},
};
use stellar_tokens::fungible::{Base, FungibleToken};

#[path = "/repo/examples/fungible-merkle-airdrop/src/contract.rs"]
mod airdrop;

type H32 = [u8; 32];

// ------------------------------------------------------------------ harness contracts

#[contract]
pub struct MerkleLib;

#[contractimpl]
impl MerkleLib {
    pub fn verify_sha(e: &Env, proof: soroban_sdk::Vec<BytesN<32>>, root: BytesN<32>, leaf: BytesN<32>) -> bool {
        Verifier::<Sha256>::verify(e, proof, root, leaf)
    }
    pub fn verify_kec(e: &Env, proof: soroban_sdk::Vec<BytesN<32>>, root: BytesN<32>, leaf: BytesN<32>) -> bool {
        Verifier::<Keccak256>::verify(e, proof, root, leaf)
    }
    pub fn verify_idx_sha(e: &Env, proof: soroban_sdk::Vec<BytesN<32>>, root: BytesN<32>, leaf: BytesN<32>, index: u32) -> bool {
        Verifier::<Sha256>::verify_with_index(e, proof, root, leaf, index)
    }
    pub fn verify_idx_kec(e: &Env, proof: soroban_sdk::Vec<BytesN<32>>, root: BytesN<32>, leaf: BytesN<32>, index: u32) -> bool {
        Verifier::<Keccak256>::verify_with_index(e, proof, root, leaf, index)
    }
    pub fn pair_sha(e: &Env, a: BytesN<32>, b: BytesN<32>, sorted: bool) -> BytesN<32> {
        if sorted {
            commutative_hash_pair(&a, &b, Sha256::new(e))
        } else {
            hash_pair(&a, &b, Sha256::new(e))
        }
    }
    pub fn pair_kec(e: &Env, a: BytesN<32>, b: BytesN<32>, sorted: bool) -> BytesN<32> {
        if sorted {
            commutative_hash_pair(&a, &b, Keccak256::new(e))
        } else {
            hash_pair(&a, &b, Keccak256::new(e))
        }
    }
    pub fn hash_sha(e: &Env, parts: soroban_sdk::Vec<Bytes>) -> BytesN<32> {
        let mut h = Sha256::new(e);
        for p in parts {
            h.update(p);
        }
        h.finalize()
    }
    pub fn hash_kec(e: &Env, parts: soroban_sdk::Vec<Bytes>) -> BytesN<32> {
        let mut h = Keccak256::new(e);
        for p in parts {
            h.update(p);
        }
        h.finalize()
    }
}

#[contracttype]
#[derive(Clone)]
pub struct Leaf {
    pub index: u32,
    pub amount: i128,
    pub tag: u32,
}

impl IndexableLeaf for Leaf {
    fn index(&self) -> u32 {
        self.index
    }
}

/// a second leaf type whose XDR encoding is exactly 64 bytes (the length of two concatenated hashes):
/// used for the distributions whose harness leaves carry `tag >= 64`
#[contracttype]
#[derive(Clone)]
pub struct Leaf64 {
    pub index: u32,
    pub amount: u64,
}

impl IndexableLeaf for Leaf64 {
    fn index(&self) -> u32 {
        self.index
    }
}

fn narrow(l: &Leaf) -> Leaf64 {
    Leaf64 { index: l.index, amount: ((l.amount as u64) << 1) | (l.tag as u64 & 1) }
}

#[contract]
pub struct DistSha;

#[contractimpl]
impl DistSha {
    pub fn set_root(e: &Env, root: BytesN<32>) {
        MerkleDistributor::<Sha256>::set_root(e, root)
    }
    pub fn get_root(e: &Env) -> BytesN<32> {
        MerkleDistributor::<Sha256>::get_root(e)
    }
    pub fn is_claimed(e: &Env, index: u32) -> bool {
        MerkleDistributor::<Sha256>::is_claimed(e, index)
    }
    pub fn claim(e: &Env, leaf: Leaf, proof: soroban_sdk::Vec<BytesN<32>>) {
        MerkleDistributor::<Sha256>::verify_and_set_claimed(e, leaf, proof)
    }
    pub fn claim_idx(e: &Env, leaf: Leaf, proof: soroban_sdk::Vec<BytesN<32>>) {
        MerkleDistributor::<Sha256>::verify_with_index_and_set_claimed(e, leaf, proof)
    }
    pub fn claim64(e: &Env, leaf: Leaf64, proof: soroban_sdk::Vec<BytesN<32>>) {
        MerkleDistributor::<Sha256>::verify_and_set_claimed(e, leaf, proof)
    }
    pub fn claim64_idx(e: &Env, leaf: Leaf64, proof: soroban_sdk::Vec<BytesN<32>>) {
        MerkleDistributor::<Sha256>::verify_with_index_and_set_claimed(e, leaf, proof)
    }
}

#[contract]
pub struct DistKec;

#[contractimpl]
impl DistKec {
    pub fn set_root(e: &Env, root: BytesN<32>) {
        MerkleDistributor::<Keccak256>::set_root(e, root)
    }
    pub fn get_root(e: &Env) -> BytesN<32> {
        MerkleDistributor::<Keccak256>::get_root(e)
    }
    pub fn is_claimed(e: &Env, index: u32) -> bool {
        MerkleDistributor::<Keccak256>::is_claimed(e, index)
    }
    pub fn claim(e: &Env, leaf: Leaf, proof: soroban_sdk::Vec<BytesN<32>>) {
        MerkleDistributor::<Keccak256>::verify_and_set_claimed(e, leaf, proof)
    }
    pub fn claim_idx(e: &Env, leaf: Leaf, proof: soroban_sdk::Vec<BytesN<32>>) {
        MerkleDistributor::<Keccak256>::verify_with_index_and_set_claimed(e, leaf, proof)
    }
    pub fn claim64(e: &Env, leaf: Leaf64, proof: soroban_sdk::Vec<BytesN<32>>) {
        MerkleDistributor::<Keccak256>::verify_and_set_claimed(e, leaf, proof)
    }
    pub fn claim64_idx(e: &Env, leaf: Leaf64, proof: soroban_sdk::Vec<BytesN<32>>) {
        MerkleDistributor::<Keccak256>::verify_with_index_and_set_claimed(e, leaf, proof)
    }
}

/// the token distributed by the airdrop example: the library's fungible Base token
#[contract]
pub struct Tok;

#[contractimpl]
impl Tok {
    pub fn mint(e: &Env, to: Address, amount: i128) {
        Base::mint(e, &to, amount);
    }
}

#[contractimpl(contracttrait)]
impl FungibleToken for Tok {
    type ContractType = Base;
}

/// same fields (hence same XDR) as the example's private `Receiver`
#[contracttype]
#[derive(Clone)]
pub struct Receiver {
    pub index: u32,
    pub address: Address,
    pub amount: i128,
}

// ------------------------------------------------------------------ independent tree building

#[derive(Clone, Copy, PartialEq)]
enum Alg {
    Sha,
    Kec,
}

impl Alg {
    fn name(self) -> &'static str {
        match self {
            Alg::Sha => "sha",
            Alg::Kec => "kec",
        }
    }
}

fn hash(alg: Alg, data: &[u8]) -> H32 {
    match alg {
        Alg::Sha => sha2::Sha256::digest(data).into(),
        Alg::Kec => sha3::Keccak256::digest(data).into(),
    }
}

fn pair(alg: Alg, sorted: bool, a: &H32, b: &H32) -> H32 {
    let (x, y) = if sorted && a > b { (b, a) } else { (a, b) };
    let mut m = x.to_vec();
    m.extend_from_slice(y);
    hash(alg, &m)
}

enum T {
    Leaf(H32),
    Node(Box<T>, Box<T>, H32),
}

impl T {
    fn root(&self) -> H32 {
        match self {
            T::Leaf(h) => *h,
            T::Node(_, _, h) => *h,
        }
    }
}

/// shapes: 0 balanced halves, 1 left = largest power of two below n, 2 comb (1 | n-1),
/// 3 comb (n-1 | 1), 4 random split
fn build(alg: Alg, sorted: bool, leaves: &[H32], shape: u8, rng: &mut Rng) -> T {
    let n = leaves.len();
    if n == 1 {
        return T::Leaf(leaves[0]);
    }
    let k = match shape {
        0 => (n + 1) / 2,
        1 => {
            let mut p = 1;
            while p * 2 < n {
                p *= 2;
            }
            p
        }
        2 => 1,
        3 => n - 1,
        _ => 1 + rng.below(n as u64 - 1) as usize,
    };
    let l = build(alg, sorted, &leaves[..k], shape, rng);
    let r = build(alg, sorted, &leaves[k..], shape, rng);
    let h = pair(alg, sorted, &l.root(), &r.root());
    T::Node(Box::new(l), Box::new(r), h)
}

#[derive(Clone)]
struct Item {
    leaf: H32,
    /// siblings from the leaf upwards
    proof: Vec<H32>,
    /// bit i set iff the node at level i (from the leaf) is a right child
    index: u64,
}

fn collect(t: &T, path: &mut Vec<(bool, H32)>, out: &mut Vec<Item>) {
    match t {
        T::Leaf(h) => {
            let mut proof = vec![];
            let mut index = 0u64;
            for (lvl, (right, sib)) in path.iter().rev().enumerate() {
                proof.push(*sib);
                if *right && lvl < 63 {
                    index |= 1 << lvl;
                }
            }
            out.push(Item { leaf: *h, proof, index });
        }
        T::Node(l, r, _) => {
            path.push((false, r.root()));
            collect(l, path, out);
            path.pop();
            path.push((true, l.root()));
            collect(r, path, out);
            path.pop();
        }
    }
}

fn items(t: &T) -> Vec<Item> {
    let mut out = vec![];
    collect(t, &mut vec![], &mut out);
    out
}

fn rand32(rng: &mut Rng) -> H32 {
    let mut h = [0u8; 32];
    for b in h.iter_mut() {
        *b = rng.next() as u8;
    }
    h
}

fn hex(b: &[u8]) -> String {
    if b.is_empty() {
        return "-".into();
    }
    let mut s = String::with_capacity(b.len() * 2);
    for x in b {
        s.push_str(&format!("{:02x}", x));
    }
    s
}

fn hexlist(p: &[H32]) -> String {
    if p.is_empty() {
        "-".into()
    } else {
        p.iter().map(|h| hex(h)).collect::<Vec<_>>().join(",")
    }
}

// ------------------------------------------------------------------ stateless ops

struct Lib {
    e: Env,
    addr: Address,
}

impl Lib {
    fn new() -> Lib {
        let e = Env::default();
        let addr = e.register(MerkleLib, ());
        Lib { e, addr }
    }
    fn b32(&self, h: &H32) -> BytesN<32> {
        BytesN::from_array(&self.e, h)
    }
    fn vec32(&self, p: &[H32]) -> SVec<BytesN<32>> {
        let mut v = SVec::new(&self.e);
        for h in p {
            v.push_back(self.b32(h));
        }
        v
    }
}

fn show_bool(e: &Env, r: Option<Val>) -> String {
    match r {
        None => "err".into(),
        Some(v) => match bool::try_from_val(e, &v) {
            Ok(true) => "ok true".into(),
            Ok(false) => "ok false".into(),
            Err(_) => "ok ?".into(),
        },
    }
}

fn show_h32(e: &Env, r: Option<Val>) -> String {
    match r.and_then(|v| BytesN::<32>::try_from_val(e, &v).ok()) {
        None => "err".into(),
        Some(b) => format!("ok {}", hex(&b.to_array())),
    }
}

fn do_verify(t: &mut Trace, l: &Lib, alg: Alg, root: &H32, leaf: &H32, proof: &[H32], exp: &str) {
    t.op(&format!("verify alg={} root={} leaf={} proof={} exp={}", alg.name(), hex(root), hex(leaf), hexlist(proof), exp));
    let e = &l.e;
    let f = if alg == Alg::Sha { "verify_sha" } else { "verify_kec" };
    let r = call(e, &l.addr, f, args(e, [v(e, l.vec32(proof)), v(e, l.b32(root)), v(e, l.b32(leaf))]), &[]);
    let o = show_bool(e, r);
    t.count(&format!("verify:{}:{}", exp.split(':').next().unwrap_or(""), o.replace(' ', "_")));
    t.obs(&o);
}

fn do_verify_idx(t: &mut Trace, l: &Lib, alg: Alg, root: &H32, leaf: &H32, index: u32, proof: &[H32], exp: &str) {
    t.op(&format!("verifyidx alg={} root={} leaf={} index={} proof={} exp={}", alg.name(), hex(root), hex(leaf), index, hexlist(proof), exp));
    let e = &l.e;
    let f = if alg == Alg::Sha { "verify_idx_sha" } else { "verify_idx_kec" };
    let r = call(e, &l.addr, f, args(e, [v(e, l.vec32(proof)), v(e, l.b32(root)), v(e, l.b32(leaf)), v(e, index)]), &[]);
    let o = show_bool(e, r);
    t.count(&format!("verifyidx:{}:{}", exp.split(':').next().unwrap_or(""), o.replace(' ', "_")));
    t.obs(&o);
}

/// a proof vector with ONE element that is not a `BytesN<32>` inserted at `pos` (`kind`: 0 a u32, 1 a 31-byte
/// string, 2 a 33-byte string, 3 void): a host vector is type-checked element by element only when read, so such
/// a value can be handed to every entry point that takes a `Vec<BytesN<32>>`
fn do_verify_junk(t: &mut Trace, l: &Lib, alg: Alg, root: &H32, leaf: &H32, index: Option<u32>, proof: &[H32], pos: usize, kind: u32) {
    let e = &l.e;
    t.op(&format!(
        "verifyj alg={} root={} leaf={} index={} proof={} pos={} junk={} exp=c:junk",
        alg.name(), hex(root), hex(leaf), index.map(|i| i.to_string()).unwrap_or("-".into()), hexlist(proof), pos, kind
    ));
    let mut vals: SVec<Val> = SVec::new(e);
    for (i, h) in proof.iter().enumerate() {
        if i == pos {
            vals.push_back(junk_val(e, kind));
        }
        vals.push_back(l.b32(h).into_val(e));
    }
    if pos >= proof.len() {
        vals.push_back(junk_val(e, kind));
    }
    let pv: Val = vals.into_val(e);
    let r = match index {
        None => call(e, &l.addr, if alg == Alg::Sha { "verify_sha" } else { "verify_kec" }, args(e, [pv, v(e, l.b32(root)), v(e, l.b32(leaf))]), &[]),
        Some(i) => call(e, &l.addr, if alg == Alg::Sha { "verify_idx_sha" } else { "verify_idx_kec" }, args(e, [pv, v(e, l.b32(root)), v(e, l.b32(leaf)), v(e, i)]), &[]),
    };
    let o = show_bool(e, r);
    t.count(&format!("verifyj:{}", o.replace(' ', "_")));
    t.obs(&o);
}

fn junk_val(e: &Env, kind: u32) -> Val {
    match kind {
        0 => 7u32.into_val(e),
        1 => soroban_sdk::Bytes::from_slice(e, &[0u8; 31]).into_val(e),
        2 => soroban_sdk::Bytes::from_slice(e, &[0u8; 33]).into_val(e),
        _ => ().into_val(e),
    }
}

fn do_pair(t: &mut Trace, l: &Lib, alg: Alg, sorted: bool, a: &H32, b: &H32) {
    t.op(&format!("pair alg={} mode={} a={} b={} want={}", alg.name(), if sorted { "sorted" } else { "plain" }, hex(a), hex(b), hex(&pair(alg, sorted, a, b))));
    let e = &l.e;
    let f = if alg == Alg::Sha { "pair_sha" } else { "pair_kec" };
    let r = call(e, &l.addr, f, args(e, [v(e, l.b32(a)), v(e, l.b32(b)), v(e, sorted)]), &[]);
    t.obs(&show_h32(e, r));
}

fn do_hash(t: &mut Trace, l: &Lib, alg: Alg, parts: &[Vec<u8>]) {
    let all: Vec<u8> = parts.concat();
    let plist = if parts.is_empty() { "none".to_string() } else { parts.iter().map(|p| hex(p)).collect::<Vec<_>>().join(",") };
    t.op(&format!("hash alg={} parts={} want={}", alg.name(), plist, hex(&hash(alg, &all))));
    let e = &l.e;
    let mut v_parts: SVec<Bytes> = SVec::new(e);
    for p in parts {
        v_parts.push_back(Bytes::from_slice(e, p));
    }
    let f = if alg == Alg::Sha { "hash_sha" } else { "hash_kec" };
    let r = call(e, &l.addr, f, args(e, [v(e, v_parts)]), &[]);
    t.obs(&show_h32(e, r));
}

fn flip_bit(h: &H32, rng: &mut Rng) -> H32 {
    let mut x = *h;
    let b = rng.below(256) as usize;
    x[b / 8] ^= 1 << (b % 8);
    x
}

/// every single-element corruption of one honest (leaf, proof[, index]) against `root`
fn corruptions(t: &mut Trace, l: &Lib, rng: &mut Rng, alg: Alg, sorted: bool, root: &H32, it: &Item, others: &[Item]) {
    let run = |t: &mut Trace, leaf: &H32, proof: &[H32], index: u64, root: &H32, exp: &str| {
        if sorted {
            do_verify(t, l, alg, root, leaf, proof, exp);
        } else {
            do_verify_idx(t, l, alg, root, leaf, index.min(u32::MAX as u64) as u32, proof, exp);
        }
    };
    let k = it.proof.len();
    // leaf: one bit, a fresh value, another leaf of the same tree
    run(t, &flip_bit(&it.leaf, rng), &it.proof, it.index, root, "c:leaf");
    run(t, &rand32(rng), &it.proof, it.index, root, "c:leaf");
    if let Some(o) = others.iter().find(|o| o.leaf != it.leaf) {
        run(t, &o.leaf, &it.proof, it.index, root, "c:leaf");
        if o.proof != it.proof {
            // the honest proof of another leaf
            run(t, &it.leaf, &o.proof, it.index, root, "c:otherproof");
        }
    }
    // root
    run(t, &it.leaf, &it.proof, it.index, &flip_bit(root, rng), "c:root");
    run(t, &it.leaf, &it.proof, it.index, &rand32(rng), "c:root");
    // every proof element
    for i in 0..k {
        let mut p = it.proof.clone();
        p[i] = flip_bit(&p[i], rng);
        run(t, &it.leaf, &p, it.index, root, "c:proof");
        let mut p = it.proof.clone();
        p[i] = it.leaf;
        if p != it.proof {
            run(t, &it.leaf, &p, it.index, root, "c:proof");
        }
    }
    // truncated (from either end), extended (at either end, and in the middle)
    if k > 0 {
        run(t, &it.leaf, &it.proof[..k - 1], it.index & ((1u64 << (k - 1)) - 1), root, "c:trunc");
        run(t, &it.leaf, &it.proof[1..], it.index >> 1, root, "c:trunc");
        if !sorted {
            run(t, &it.leaf, &it.proof[..k - 1], it.index, root, "c:trunc");
        }
        run(t, &it.leaf, &[], 0, root, "c:trunc");
    }
    // an honest proof extended by an element that is not a 32-byte string, at either end and in the middle
    for (pos, kind) in [(0usize, 0u32), (k, 1), (k / 2, 3), (k, 2)] {
        do_verify_junk(t, l, alg, root, &it.leaf, if sorted { None } else { Some(it.index.min(u32::MAX as u64) as u32) }, &it.proof, pos, kind);
    }
    let mut p = it.proof.clone();
    p.push(rand32(rng));
    run(t, &it.leaf, &p, it.index, root, "c:ext");
    let mut p = it.proof.clone();
    p.push(*root);
    run(t, &it.leaf, &p, it.index, root, "c:ext");
    let mut p = it.proof.clone();
    p.insert(0, rand32(rng));
    run(t, &it.leaf, &p, it.index << 1, root, "c:ext");
    if k > 0 {
        let mut p = it.proof.clone();
        p.insert(k / 2, p[k / 2]);
        run(t, &it.leaf, &p, it.index, root, "c:ext");
    }
    // special values (all-zero "padding", all-ones) appended, prepended, inserted and substituted:
    // a verifier that treats some value as "no sibling" accepts these
    for sv in [[0u8; 32], [0xffu8; 32]] {
        let mut p = it.proof.clone();
        p.push(sv);
        run(t, &it.leaf, &p, it.index, root, "c:ext");
        let mut p = it.proof.clone();
        p.insert(0, sv);
        run(t, &it.leaf, &p, it.index << 1, root, "c:ext");
        if k > 0 {
            let mut p = it.proof.clone();
            p.insert((k + 1) / 2, sv);
            run(t, &it.leaf, &p, it.index, root, "c:ext");
            let i = rng.below(k as u64) as usize;
            if it.proof[i] != sv {
                let mut p = it.proof.clone();
                p[i] = sv;
                run(t, &it.leaf, &p, it.index, root, "c:proof");
            }
        }
    }
    // reordered: every adjacent transposition of different elements, and the reversal
    for i in 0..k.saturating_sub(1) {
        if it.proof[i] != it.proof[i + 1] {
            let mut p = it.proof.clone();
            p.swap(i, i + 1);
            run(t, &it.leaf, &p, it.index, root, "c:reorder");
        }
    }
    if k > 2 {
        let mut p = it.proof.clone();
        p.reverse();
        if p != it.proof {
            run(t, &it.leaf, &p, it.index, root, "c:reorder");
        }
    }
    if sorted {
        // the exchange inherent to sorted pairs: the sibling as "leaf", the leaf as first proof element
        if k > 0 && it.proof[0] != it.leaf {
            let mut p = it.proof.clone();
            let sib = p[0];
            p[0] = it.leaf;
            run(t, &sib, &p, 0, root, "exchange");
        }
    } else {
        // index: every single bit, +-1, out of range
        for b in 0..k {
            run(t, &it.leaf, &it.proof, it.index ^ (1 << b), root, "c:index");
        }
        if it.index > 0 {
            run(t, &it.leaf, &it.proof, it.index - 1, root, "c:index");
        }
        run(t, &it.leaf, &it.proof, it.index + 1, root, if it.index + 1 < (1 << k) { "c:index" } else { "c:indexrange" });
        run(t, &it.leaf, &it.proof, 1 << k, root, "c:indexrange");
        run(t, &it.leaf, &it.proof, it.index | (1 << k), root, "c:indexrange");
        run(t, &it.leaf, &it.proof, u32::MAX as u64, root, "c:indexrange");
        if k > 0 {
            // same positions, sorted-pair hashing instead of positional: only a tree whose
            // pairs happen to be in order everywhere would verify
            let o = others.iter().find(|o| o.leaf != it.leaf);
            if let Some(o) = o {
                run(t, &o.leaf, &o.proof, it.index, root, if o.index == it.index { "free" } else { "c:index" });
            }
        }
    }
}

fn tree_cases(t: &mut Trace, rng: &mut Rng, thorough: bool) {
    for alg in [Alg::Sha, Alg::Kec] {
        for sorted in [true, false] {
            let l = Lib::new();
            t.seq(&format!("trees alg={} form={}", alg.name(), if sorted { "sorted" } else { "indexed" }));
            for n in 1..=64usize {
                // shapes 0, 1, 4 have short proofs (about log n); the combs 2, 3 have proofs of up to
                // n - 1 elements: all honest proofs, corruptions of a few leaves only
                let shapes: Vec<u8> = if thorough {
                    vec![(n % 2) as u8, 4, 2, 3]
                } else {
                    let mut v = vec![[0u8, 1, 4][n % 3], [0u8, 1, 4][(n + 1) % 3]];
                    if n <= 20 {
                        v.push(2 + (n % 2) as u8);
                    }
                    v
                };
                for shape in shapes {
                    let comb = shape == 2 || shape == 3;
                    if comb && !sorted && n > 32 {
                        // a comb of more than 32 leaves has paths longer than 31: the positional
                        // verifier refuses such proofs; covered separately below
                        continue;
                    }
                    let mut leaves: Vec<H32> = (0..n).map(|_| rand32(rng)).collect();
                    // some trees carry the all-zero / all-ones value as a genuine leaf, so that it
                    // occurs as a genuine sibling in honest proofs
                    if n >= 2 && n % 5 == 2 {
                        let j = rng.below(n as u64) as usize;
                        leaves[j] = [0u8; 32];
                        let j2 = rng.below(n as u64) as usize;
                        if j2 != j {
                            leaves[j2] = [0xffu8; 32];
                        }
                    }
                    let tr = build(alg, sorted, &leaves, shape, rng);
                    let root = tr.root();
                    let its = items(&tr);
                    // node pairs of this tree through the library's pair functions
                    for it in its.iter().take(if thorough { 8 } else { 2 }) {
                        if let Some(s) = it.proof.first() {
                            do_pair(t, &l, alg, sorted, &it.leaf, s);
                            do_pair(t, &l, alg, sorted, s, &it.leaf);
                        }
                    }
                    // every leaf's honest proof
                    for it in &its {
                        if sorted {
                            do_verify(t, &l, alg, &root, &it.leaf, &it.proof, "honest");
                        } else {
                            do_verify_idx(t, &l, alg, &root, &it.leaf, it.index as u32, &it.proof, "honest");
                        }
                    }
                    // corruptions: every leaf (thorough, short proofs) or first / last / random ones
                    let sel: Vec<usize> = if thorough && !comb {
                        (0..n).collect()
                    } else {
                        let extra = if thorough { 4 } else if comb { 0 } else { 2 };
                        let mut s = vec![0, n - 1];
                        for _ in 0..extra {
                            s.push(rng.below(n as u64) as usize);
                        }
                        s.sort();
                        s.dedup();
                        s
                    };
                    for i in sel {
                        corruptions(t, &l, rng, alg, sorted, &root, &its[i], &its);
                    }
                }
            }
            // proof lengths around the 32 bound of the positional form (a comb)
            if !sorted {
                for n in [31usize, 32, 33, 34] {
                    let leaves: Vec<H32> = (0..n).map(|_| rand32(rng)).collect();
                    let tr = build(alg, false, &leaves, 2, rng);
                    let root = tr.root();
                    let its = items(&tr);
                    for it in its.iter().rev().take(3) {
                        let exp = if it.proof.len() >= 32 { "c:prooflen" } else { "honest" };
                        do_verify_idx(t, &l, alg, &root, &it.leaf, it.index.min(u32::MAX as u64) as u32, &it.proof, exp);
                    }
                    do_verify_idx(t, &l, alg, &root, &its[0].leaf, 0, &its[0].proof, "honest");
                }
                let p31: Vec<H32> = (0..31).map(|_| rand32(rng)).collect();
                for idx in [0u32, 1, (1 << 31) - 1, 1 << 31, u32::MAX] {
                    do_verify_idx(t, &l, alg, &rand32(rng), &rand32(rng), idx, &p31, "free");
                }
            } else {
                // the sorted form has no length bound: a comb of 40 leaves
                let leaves: Vec<H32> = (0..40).map(|_| rand32(rng)).collect();
                let tr = build(alg, true, &leaves, 2, rng);
                let root = tr.root();
                for it in items(&tr).iter().rev().take(3) {
                    do_verify(t, &l, alg, &root, &it.leaf, &it.proof, "honest");
                }
            }
            // degenerate inputs
            let x = rand32(rng);
            if sorted {
                do_verify(t, &l, alg, &x, &x, &[], "honest");
                do_verify(t, &l, alg, &x, &x, &[x], "free");
                do_verify(t, &l, alg, &pair(alg, true, &x, &x), &x, &[x], "honest");
                do_verify(t, &l, alg, &[0; 32], &[0; 32], &[], "honest");
                do_verify(t, &l, alg, &[0xff; 32], &[0; 32], &[], "free");
            } else {
                do_verify_idx(t, &l, alg, &x, &x, 0, &[], "honest");
                do_verify_idx(t, &l, alg, &x, &x, 1, &[], "c:indexrange");
                do_verify_idx(t, &l, alg, &pair(alg, false, &x, &x), &x, 0, &[x], "honest");
                do_verify_idx(t, &l, alg, &pair(alg, false, &x, &x), &x, 1, &[x], "free");
            }
            // ordering of the sorted pair: bytes that differ late, in the first byte, 0x7f / 0x80
            if sorted {
                let mut a = rand32(rng);
                let mut b = a;
                for (i, (va, vb)) in [(31usize, (1u8, 2u8)), (0, (0x7f, 0x80)), (0, (0x00, 0xff)), (15, (0x80, 0x7f)), (31, (0xff, 0x00))] {
                    a[i] = va;
                    b[i] = vb;
                    do_pair(t, &l, alg, true, &a, &b);
                    do_pair(t, &l, alg, true, &b, &a);
                    do_pair(t, &l, alg, false, &a, &b);
                    do_verify(t, &l, alg, &pair(alg, true, &a, &b), &a, &[b], "honest");
                    do_verify(t, &l, alg, &pair(alg, true, &a, &b), &b, &[a], "honest");
                    a = rand32(rng);
                    b = a;
                }
                do_pair(t, &l, alg, true, &a, &a);
            }
        }
    }
}

fn hash_cases(t: &mut Trace, rng: &mut Rng, thorough: bool) {
    let l = Lib::new();
    t.seq("hashers");
    for alg in [Alg::Sha, Alg::Kec] {
        do_hash(t, &l, alg, &[]);
        let lens: Vec<usize> = if thorough { (0..=300).collect() } else { (0..=70).chain([119, 120, 127, 128, 135, 136, 137, 200, 271, 272, 273]).collect() };
        for n in lens {
            let data: Vec<u8> = (0..n).map(|_| rng.next() as u8).collect();
            match rng.below(3) {
                0 => do_hash(t, &l, alg, &[data]),
                1 => {
                    let k = rng.below(n as u64 + 1) as usize;
                    do_hash(t, &l, alg, &[data[..k].to_vec(), data[k..].to_vec()]);
                }
                _ => {
                    let k = rng.below(n as u64 + 1) as usize;
                    let j = rng.below(k as u64 + 1) as usize;
                    do_hash(t, &l, alg, &[data[..j].to_vec(), data[j..k].to_vec(), data[k..].to_vec()]);
                }
            }
        }
        for _ in 0..(if thorough { 400 } else { 60 }) {
            do_pair(t, &l, alg, rng.chance(50), &rand32(rng), &rand32(rng));
        }
    }
}

// ------------------------------------------------------------------ distributor histories

fn leaf_hash(e: &Env, alg: Alg, leaf: &Leaf) -> H32 {
    let b = if leaf.tag >= 64 { narrow(leaf).to_xdr(e) } else { leaf.clone().to_xdr(e) };
    let mut raw = vec![0u8; b.len() as usize];
    b.copy_into_slice(&mut raw);
    hash(alg, &raw)
}

/// ledgers per day (5 s ledgers), as in the library's `DAY_IN_LEDGERS`
const DAY: u32 = 17280;
/// one year: with `min_persistent_entry_ttl = MAX_TTL - 1` the persistent / instance entries
/// of the unmodified code stay live over the whole horizon of a sequence (< 250 days); what
/// the network does with a persistent entry beyond its TTL (archival) is outside the model
const MAX_TTL: u32 = 6_312_000;
const START: u32 = 1000;

struct DistSim {
    e: Env,
    addr: Address,
    alg: Alg,
    w: u32,
    now: std::cell::Cell<u32>,
}

impl DistSim {
    fn obs(&self, ok: bool) -> String {
        let e = &self.e;
        let root = call(e, &self.addr, "get_root", args(e, []), &[]).and_then(|v| BytesN::<32>::try_from_val(e, &v).ok());
        let mut cl = vec![];
        for i in (0..self.w).chain([u32::MAX - 1, u32::MAX]) {
            let c: bool = query(e, &self.addr, "is_claimed", args(e, [v(e, i)])).unwrap();
            if c {
                cl.push(i);
            }
        }
        format!("{} root={} claimed={}", if ok { "ok" } else { "err" }, root.map(|r| hex(&r.to_array())).unwrap_or("none".into()), join(&cl))
    }
    /// move the ledger forward by `d` ledgers without touching the contract; `look`: observe
    /// root and flags afterwards (every `is_claimed` that finds a flag extends its TTL), or
    /// leave all entries untouched until the next operation
    fn advance(&self, t: &mut Trace, d: u32, look: bool) {
        self.now.set(self.now.get() + d);
        set_ledger(&self.e, self.now.get(), 16, MAX_TTL);
        t.op(&format!("advance d={} look={}", d, look as u8));
        if look {
            t.obs(&self.obs(true));
        } else {
            t.obs(&format!("ok now={}", self.now.get()));
        }
    }
    fn set_root(&self, t: &mut Trace, root: &H32) {
        t.op(&format!("setroot root={}", hex(root)));
        let e = &self.e;
        let r = call(e, &self.addr, "set_root", args(e, [v(e, BytesN::from_array(e, root))]), &[]);
        t.obs(&self.obs(r.is_some()));
    }
    fn claim(&self, t: &mut Trace, indexed: bool, leaf: &Leaf, proof: &[H32], exp: &str) {
        let e = &self.e;
        let lh = leaf_hash(e, self.alg, leaf);
        t.op(&format!("claim mode={} index={} leaf={} proof={} exp={}", if indexed { "indexed" } else { "sorted" }, leaf.index, hex(&lh), hexlist(proof), exp));
        let mut pv: SVec<BytesN<32>> = SVec::new(e);
        for h in proof {
            pv.push_back(BytesN::from_array(e, h));
        }
        let r = if leaf.tag >= 64 {
            call(e, &self.addr, if indexed { "claim64_idx" } else { "claim64" }, args(e, [v(e, narrow(leaf)), v(e, pv)]), &[])
        } else {
            call(e, &self.addr, if indexed { "claim_idx" } else { "claim" }, args(e, [v(e, leaf.clone()), v(e, pv)]), &[])
        };
        t.count(&format!("claim:{}:{}", exp.split(':').next().unwrap_or(""), if r.is_some() { "ok" } else { "err" }));
        t.obs(&self.obs(r.is_some()));
    }
}

struct Drop {
    leaves: Vec<Leaf>,
    items: Vec<Item>,
    root: H32,
}

/// a distribution of `n` leaves with indices 0..n; `indexed`: a perfect positional tree
/// (padded with distinct filler leaves) so that the leaf's index is its position
fn make_drop(e: &Env, alg: Alg, indexed: bool, n: usize, tag: u32, rng: &mut Rng) -> Drop {
    make_drop_shifted(e, alg, indexed, n, tag, 0, rng)
}

/// the same with every leaf's index raised by `shift`: with `shift` = the padded size of a positional tree the
/// indices are congruent to the positions but are NOT positions of the tree
fn make_drop_shifted(e: &Env, alg: Alg, indexed: bool, n: usize, tag: u32, shift: u32, rng: &mut Rng) -> Drop {
    let mut leaves: Vec<Leaf> = (0..n).map(|i| Leaf { index: i as u32 + shift, amount: rng.i128_nonneg() >> 40, tag }).collect();
    // in the sorted form the index is only data of the leaf: every other distribution carries the two
    // highest legal indices (u32::MAX - 1, u32::MAX) on its last two leaves
    if !indexed && n >= 4 && rng.chance(50) {
        leaves[n - 2].index = u32::MAX - 1;
        leaves[n - 1].index = u32::MAX;
    }
    let mut hs: Vec<H32> = leaves.iter().map(|l| leaf_hash(e, alg, l)).collect();
    let shape = if indexed {
        let mut p = 1;
        while p < n {
            p *= 2;
        }
        while hs.len() < p {
            hs.push(rand32(rng));
        }
        0
    } else {
        rng.below(5) as u8
    };
    let tr = build(alg, !indexed, &hs, shape, rng);
    let items = items(&tr);
    Drop { leaves, items, root: tr.root() }
}

fn dist_history(t: &mut Trace, rng: &mut Rng, alg: Alg, indexed: bool, n: usize, steps: usize) {
    let e = new_env(START, 16, MAX_TTL);
    let addr = if alg == Alg::Sha { e.register(DistSha, ()) } else { e.register(DistKec, ()) };
    let w = n as u32 + 3;
    let sim = DistSim { e, addr, alg, w, now: std::cell::Cell::new(START) };
    t.seq(&format!("dist alg={} w={} start={}", alg.name(), w, START));
    // every other history distributes leaves whose encoding is exactly 64 bytes
    let base_tag = if rng.chance(50) { 64 } else { 1 };
    let a = make_drop(&sim.e, alg, indexed, n, base_tag, rng);
    let b = make_drop(&sim.e, alg, indexed, n, base_tag + 1, rng);
    // a claim before any root is set
    sim.claim(t, indexed, &a.leaves[0], &a.items[0].proof, "noroot");
    if indexed {
        // positional form: a tree whose leaves carry indices that are congruent to their positions modulo the
        // tree's width but lie outside it - none of them is a position of the tree, every claim must be refused
        // (seed C17-r11-1: the distributor's positional path lost the range checks of verify_with_index)
        let width = n.next_power_of_two() as u32;
        let c = make_drop_shifted(&sim.e, alg, true, n, base_tag + 2, width * (1 + rng.below(3) as u32), rng);
        sim.set_root(t, &c.root);
        for i in 0..n.min(3) {
            sim.claim(t, true, &c.leaves[i], &c.items[i].proof, "c:outside");
        }
    }
    sim.set_root(t, &a.root);
    let mut cur = &a;
    let mut other = &b;
    // indices claimed (attempted honestly) so far under either root, for neighbours and repeats
    let mut touched: Vec<usize> = vec![];
    let mut days_left: u32 = 240;
    for _ in 0..steps {
        // the next index: a bit-pattern neighbour of an earlier one (i +- 1, 32, 64, 128, 256),
        // an earlier one again, or a fresh random one
        let i = if !touched.is_empty() && rng.chance(55) {
            let j = *rng.pick(&touched) as i64;
            let d = *rng.pick(&[1i64, 32, 64, 64, 128, 128, 256]) * if rng.chance(50) { 1 } else { -1 };
            let k = j + d;
            if k >= 0 && (k as usize) < n {
                k as usize
            } else if j - d >= 0 && ((j - d) as usize) < n {
                (j - d) as usize
            } else {
                j as usize
            }
        } else {
            rng.below(n as u64) as usize
        };
        match rng.below(24) {
            0..=9 => {
                sim.claim(t, indexed, &cur.leaves[i], &cur.items[i].proof, "honest");
                touched.push(i);
            }
            10 => {
                // immediately repeated
                sim.claim(t, indexed, &cur.leaves[i], &cur.items[i].proof, "honest");
                sim.claim(t, indexed, &cur.leaves[i], &cur.items[i].proof, "repeat");
                touched.push(i);
            }
            11 => {
                // proof of another leaf
                let j = (i + 1 + rng.below(n as u64) as usize) % n;
                let exp = if cur.items[j].proof == cur.items[i].proof && j == i { "honest" } else { "c:otherproof" };
                sim.claim(t, indexed, &cur.leaves[i], &cur.items[j].proof, exp);
            }
            12 => {
                // leaf data of i under another index (the index is part of the hashed leaf)
                let mut l = cur.leaves[i].clone();
                l.index = (i as u32 + *rng.pick(&[1u32, 64, 128])) % w;
                if l.index == i as u32 {
                    l.index = (i as u32 + 1) % w;
                }
                sim.claim(t, indexed, &l, &cur.items[i].proof, "c:otherindex");
            }
            13 => {
                let mut l = cur.leaves[i].clone();
                l.amount += 1;
                sim.claim(t, indexed, &l, &cur.items[i].proof, "c:leaf");
            }
            14 => {
                let mut p = cur.items[i].proof.clone();
                if p.is_empty() {
                    p.push(rand32(rng));
                } else {
                    let k = rng.below(p.len() as u64) as usize;
                    p[k] = flip_bit(&p[k], rng);
                }
                sim.claim(t, indexed, &cur.leaves[i], &p, "c:proof");
            }
            15 => {
                let mut p = cur.items[i].proof.clone();
                if rng.chance(50) && !p.is_empty() {
                    p.pop();
                    sim.claim(t, indexed, &cur.leaves[i], &p, "c:trunc");
                } else {
                    p.push(rand32(rng));
                    sim.claim(t, indexed, &cur.leaves[i], &p, "c:ext");
                }
            }
            16 => {
                // a claim of the distribution that is NOT the current root
                sim.claim(t, indexed, &other.leaves[i], &other.items[i].proof, "c:otherroot");
            }
            17 | 18 => {
                // root change: claims made so far must stay
                std::mem::swap(&mut cur, &mut other);
                sim.set_root(t, &cur.root);
            }
            19 => {
                // a far index: a one-leaf distribution is not the current root
                let l = Leaf { index: u32::MAX - rng.below(2) as u32, amount: 1, tag: 9 };
                sim.claim(t, indexed, &l, &[], "c:otherroot");
            }
            _ => {
                // time passes (1, 31 or 100 days) with nobody touching the contract; then an index
                // claimed earlier is claimed again with its valid proof: refused forever
                let days = *rng.pick(&[1u32, 31, 31, 100]);
                if days <= days_left {
                    days_left -= days;
                    sim.advance(t, days * DAY + rng.below(3) as u32, false);
                    if let Some(&j) = touched.last() {
                        let j = if rng.chance(50) { j } else { *rng.pick(&touched) };
                        sim.claim(t, indexed, &cur.leaves[j], &cur.items[j].proof, "repeat-later");
                    }
                    if rng.chance(30) && days_left > 0 {
                        days_left -= 1;
                        sim.advance(t, DAY, true);
                    }
                }
            }
        }
    }
    // a month later every leaf (of a sample, in large universes) of the current distribution once
    // more: claimed ones are refused, the flags of all others are still clear
    if days_left >= 31 {
        sim.advance(t, 31 * DAY, false);
    }
    let sweep: Vec<usize> = if n <= 40 {
        (0..n).collect()
    } else {
        let mut v: Vec<usize> = touched.iter().rev().take(10).cloned().collect();
        for _ in 0..14 {
            v.push(rng.below(n as u64) as usize);
        }
        v
    };
    for i in sweep {
        sim.claim(t, indexed, &cur.leaves[i], &cur.items[i].proof, "sweep");
    }
}

// ------------------------------------------------------------------ the airdrop example

fn airdrop_history(t: &mut Trace, rng: &mut Rng, n: usize, steps: usize) {
    let e = new_env(START, 16, MAX_TTL);
    e.mock_all_auths_allowing_non_root_auth();
    let nrcv = 4usize;
    let rcv: Vec<Address> = (0..nrcv).map(|_| <Address as soroban_sdk::testutils::Address>::generate(&e)).collect();
    let funder = <Address as soroban_sdk::testutils::Address>::generate(&e);
    let tok = e.register(Tok, ());
    // some leaves grant the amount 0 (a zero-amount entry is a leaf like any other: claimable once, with its proof only)
    let data: Vec<(u32, usize, i128)> = (0..n)
        .map(|i| (i as u32, rng.below(nrcv as u64) as usize, if rng.chance(15) { 0 } else { 1 + rng.below(1000) as i128 }))
        .collect();
    let total: i128 = data.iter().map(|d| d.2).sum();
    // fund a little less than the total in some runs: late claims then fail in the transfer
    let funding = if rng.chance(40) { total - data[n - 1].2 / 2 - 1 } else { total };
    let funding = funding.max(0);
    call_all_auth(&e, &tok, "mint", args(&e, [v(&e, funder.clone()), v(&e, funding)])).expect("mint");
    let rec = |d: &(u32, usize, i128)| Receiver { index: d.0, address: rcv[d.1].clone(), amount: d.2 };
    let lh = |r: &Receiver| -> H32 {
        let b = r.clone().to_xdr(&e);
        let mut raw = vec![0u8; b.len() as usize];
        b.copy_into_slice(&mut raw);
        hash(Alg::Sha, &raw)
    };
    let hs: Vec<H32> = data.iter().map(|d| lh(&rec(d))).collect();
    let tr = build(Alg::Sha, true, &hs, rng.below(5) as u8, rng);
    let its = items(&tr);
    let root = tr.root();
    e.mock_all_auths_allowing_non_root_auth();
    let air = e.register(airdrop::AirdropContract, (BytesN::from_array(&e, &root), tok.clone(), funding, funder.clone()));
    let w = n as u32 + 2;
    t.seq(&format!("airdrop alg=sha w={} root={} pool={} nrcv={} start={}", w, hex(&root), funding, nrcv, START));
    let bal = |a: &Address| -> i128 { query(&e, &tok, "balance", args(&e, [v(&e, a.clone())])).unwrap() };
    let obs = |ok: bool| -> String {
        let mut cl = vec![];
        for i in 0..w {
            let c: bool = query(&e, &air, "is_claimed", args(&e, [v(&e, i)])).unwrap();
            if c {
                cl.push(i);
            }
        }
        let bs: Vec<i128> = rcv.iter().map(|a| bal(a)).collect();
        format!("{} claimed={} pool={} bal={}", if ok { "ok" } else { "err" }, join(&cl), bal(&air), join(&bs))
    };
    let claim = |t: &mut Trace, d: &(u32, usize, i128), proof: &[H32], exp: &str| {
        let r = rec(d);
        t.op(&format!("aclaim index={} rcv={} amount={} leaf={} proof={} exp={}", d.0, d.1, d.2, hex(&lh(&r)), hexlist(proof), exp));
        let mut pv: SVec<BytesN<32>> = SVec::new(&e);
        for h in proof {
            pv.push_back(BytesN::from_array(&e, h));
        }
        let res = call(&e, &air, "claim", args(&e, [v(&e, d.0), v(&e, r.address.clone()), v(&e, d.2), v(&e, pv)]), &[]);
        t.count(&format!("aclaim:{}:{}", exp.split(':').next().unwrap_or(""), if res.is_some() { "ok" } else { "err" }));
        t.obs(&obs(res.is_some()));
    };
    for _ in 0..steps {
        let i = rng.below(n as u64) as usize;
        match rng.below(10) {
            0..=4 => claim(t, &data[i], &its[i].proof, "honest"),
            5 => {
                claim(t, &data[i], &its[i].proof, "honest");
                claim(t, &data[i], &its[i].proof, "repeat");
            }
            6 => {
                let mut d = data[i];
                if rng.chance(40) && d.2 != 0 {
                    // the amount 0 instead of the leaf's amount, with the honest proof and with none
                    d.2 = 0;
                    claim(t, &d, &its[i].proof, "c:leaf");
                    claim(t, &d, &[], if its[i].proof.is_empty() { "c:leaf" } else { "c:trunc" });
                } else {
                    d.2 += 1 + rng.below(5) as i128; // a larger amount than the leaf grants
                    claim(t, &d, &its[i].proof, "c:leaf");
                }
            }
            7 => {
                let mut d = data[i];
                d.1 = (d.1 + 1) % nrcv; // another receiver
                claim(t, &d, &its[i].proof, "c:leaf");
            }
            8 => {
                let j = (i + 1) % n;
                claim(t, &data[i], &its[j].proof, if j == i { "honest" } else { "c:otherproof" });
            }
            _ => {
                let mut d = data[i];
                d.0 = (d.0 + 1) % w; // same receiver and amount under another index
                claim(t, &d, &its[i].proof, "c:otherindex");
            }
        }
    }
    // 31 days later, nobody having touched the contract: every leaf once more
    set_ledger(&e, START + 31 * DAY, 16, MAX_TTL);
    t.op(&format!("advance d={} look=0", 31 * DAY));
    t.obs(&format!("ok now={}", START + 31 * DAY));
    for i in 0..n {
        claim(t, &data[i], &its[i].proof, "sweep");
    }
}

fn main() {
    let mut t = Trace::from_args();
    let seed = seed_from_env();
    let thorough = arg_str("--tier").as_deref() == Some("thorough");
    let mut rng = Rng::new(seed);

    hash_cases(&mut t, &mut rng, thorough);
    tree_cases(&mut t, &mut rng, thorough);
    let hist = arg_u64("--hist", if thorough { 40 } else { 6 }) as usize;
    let big = arg_u64("--big", if thorough { 12 } else { 2 }) as usize;
    for k in 0..hist {
        for alg in [Alg::Sha, Alg::Kec] {
            for indexed in [false, true] {
                let n = *rng.pick(&[1usize, 2, 3, 5, 8, 13, 16, 17]);
                // the second round always distributes ONE entry: the leaf's hash is the root and the only honest proof is empty
                let n = if k == 0 { 8 } else if k == 1 { 1 } else { n };
                dist_history(&mut t, &mut rng, alg, indexed, n, 30 + 2 * n);
                // index universes well above 128: every flag of the universe is observed after
                // every operation
                if k < big {
                    let n = *rng.pick(&[130usize, 193, 200, 257, 300]);
                    dist_history(&mut t, &mut rng, alg, indexed, n, 45);
                }
            }
        }
        let n = *rng.pick(&[1usize, 2, 4, 7, 12]);
        airdrop_history(&mut t, &mut rng, n, 12 + 2 * n);
    }
    t.finish();
}
