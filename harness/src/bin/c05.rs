//! C05 correspondence: the real `examples/fungible-vault` contract (its source is compiled
//! from /repo's working tree) over a real library `Base` asset token, driven through real
//! invocations in the native Soroban host with exact authorization trees.
//!
//! Universe: addresses 0..=3 are users, address 4 is the vault contract itself.
use ozharness::*;
use soroban_sdk::{
    contract, contractimpl,
    testutils::{MockAuth, MockAuthInvoke},
    Address, Env, IntoVal, MuxedAddress, String as SString, Symbol, Val, Vec as SVec,
};
use stellar_tokens::fungible::{Base, FungibleToken};

#[path = "/repo/examples/fungible-vault/src/contract.rs"]
mod vault;

/// the underlying asset: the library's own `Base` token plus an open `mint` (funding)
#[contract]
pub struct Tok;

#[contractimpl]
impl Tok {
    pub fn __constructor(e: &Env) {
        Base::set_metadata(e, 7, SString::from_str(e, "Asset"), SString::from_str(e, "AST"));
    }
    pub fn mint(e: &Env, to: Address, amount: i128) {
        Base::mint(e, &to, amount);
    }
}

#[contractimpl(contracttrait)]
impl FungibleToken for Tok {
    type ContractType = Base;
}

const N: usize = 5; // 0..=3 users, 4 = vault
const VAULT: usize = 4;
const MAX_TTL: u32 = 200_000;
const E18: i128 = 1_000_000_000_000_000_000;

struct Sim {
    e: Env,
    u: Universe,
    asset: Address,
    vault: Option<Address>,
    now: u32,
    min_temp: u32,
}

fn opt(x: Option<i128>) -> String {
    x.map(|v| v.to_string()).unwrap_or_else(|| "e".into())
}

impl Sim {
    fn new(min_temp: u32, start: u32) -> Sim {
        let e = new_env(start, min_temp, MAX_TTL);
        let asset = e.register(Tok, ());
        let u = Universe::new(&e, N - 1);
        Sim { e, u, asset, vault: None, now: start, min_temp }
    }
    /// first op of every sequence: deploy the vault with the given decimals offset
    fn construct(&mut self, t: &mut Trace, offset: u32) -> bool {
        t.op(&format!("vault construct offset={}", offset));
        let e = &self.e;
        let asset = self.asset.clone();
        let r = catch(|| {
            e.register(
                vault::ExampleContract,
                (SString::from_str(e, "Vault"), SString::from_str(e, "VLT"), asset, offset),
            )
        });
        match r {
            Some(addr) => {
                self.u.push(addr.clone());
                self.vault = Some(addr);
                let st = self.state();
                t.obs(&format!("ok ret=- {} now={} ev=- dem=-", st, self.now));
                true
            }
            None => {
                t.obs("err noinit");
                false
            }
        }
    }
    fn v(&self) -> &Address {
        self.vault.as_ref().unwrap()
    }
    fn qv(&self, func: &str, a: SVec<Val>) -> Option<i128> {
        query(&self.e, self.v(), func, a)
    }
    fn q1(&self, func: &str, x: i128) -> Option<i128> {
        self.qv(func, args(&self.e, [v(&self.e, x)]))
    }
    fn qa(&self, func: &str, i: usize) -> Option<i128> {
        self.qv(func, args(&self.e, [v(&self.e, self.u.a(i))]))
    }
    fn ta(&self) -> i128 {
        self.qv("total_assets", args(&self.e, [])).unwrap()
    }
    fn ssup(&self) -> i128 {
        self.qv("total_supply", args(&self.e, [])).unwrap()
    }
    fn sbal(&self, i: usize) -> i128 {
        self.qa("balance", i).unwrap()
    }
    fn abal(&self, i: usize) -> i128 {
        query(&self.e, &self.asset, "balance", args(&self.e, [v(&self.e, self.u.a(i))])).unwrap()
    }
    fn asup(&self) -> i128 {
        query(&self.e, &self.asset, "total_supply", args(&self.e, [])).unwrap()
    }
    fn allow(&self, c: &Address, o: usize, s: usize) -> i128 {
        query(&self.e, c, "allowance", args(&self.e, [v(&self.e, self.u.a(o)), v(&self.e, self.u.a(s))])).unwrap()
    }
    fn sallow(&self, o: usize, s: usize) -> i128 {
        self.allow(self.v(), o, s)
    }
    fn aallow(&self, o: usize, s: usize) -> i128 {
        self.allow(&self.asset, o, s)
    }
    fn allow_str(&self, c: &Address) -> String {
        let mut al = vec![];
        for o in 0..N {
            for s in 0..N {
                let a = self.allow(c, o, s);
                if a != 0 {
                    al.push(format!("{}:{}:{}", o, s, a));
                }
            }
        }
        if al.is_empty() {
            "-".into()
        } else {
            al.join(";")
        }
    }
    fn state(&self) -> String {
        let sb: Vec<i128> = (0..N).map(|i| self.sbal(i)).collect();
        let ab: Vec<i128> = (0..N).map(|i| self.abal(i)).collect();
        format!(
            "A={} S={} sb={} ab={} asup={} sal={} aal={}",
            self.ta(),
            self.ssup(),
            join(&sb),
            join(&ab),
            self.asup(),
            self.allow_str(self.v()),
            self.allow_str(&self.asset)
        )
    }
    /// decoded events of the last invocation: the asset token's first, then the vault's
    fn events(&self) -> String {
        let evs = last_events(&self.e);
        let asset_sc = sc_address(&self.asset);
        let (mut a_out, mut v_out) = (vec![], vec![]);
        for ev in evs {
            let is_asset = ev.contract.as_ref() == Some(&asset_sc);
            let num = |k: &str| ev_field(&ev.data, k).and_then(sc_i128).map(|x| x.to_string()).unwrap_or("?".into());
            let ad = |i: usize| ev_addr(&self.u, ev.topics.get(i));
            let s = match ev.name.as_str() {
                "mint" => format!("mint:{}:{}", ad(0), num("amount")),
                "burn" => format!("burn:{}:{}", ad(0), num("amount")),
                "transfer" => format!("transfer:{}:{}:{}", ad(0), ad(1), num("amount")),
                "approve" => format!(
                    "approve:{}:{}:{}:{}",
                    ad(0),
                    ad(1),
                    num("amount"),
                    ev_field(&ev.data, "live_until_ledger").and_then(sc_u32).map(|x| x.to_string()).unwrap_or("?".into())
                ),
                "deposit" => format!("dep:{}:{}:{}:{}:{}", ad(0), ad(1), ad(2), num("assets"), num("shares")),
                "withdraw" => format!("wd:{}:{}:{}:{}:{}", ad(0), ad(1), ad(2), num("assets"), num("shares")),
                other => format!("other:{}", other),
            };
            if is_asset {
                a_out.push(format!("a.{}", s));
            } else {
                v_out.push(s);
            }
        }
        a_out.extend(v_out);
        if a_out.is_empty() {
            "-".into()
        } else {
            a_out.join(";")
        }
    }
    /// real invocation where every signer authorizes the tree `func(args)` + `subs`
    fn call_tree(&self, contract: &Address, func: &str, argv: SVec<Val>, auth: &[usize], subs: &[MockAuthInvoke]) -> Option<Val> {
        let e = &self.e;
        let invoke = MockAuthInvoke { contract, fn_name: func, args: argv.clone(), sub_invokes: subs };
        let mocks: Vec<MockAuth> = auth.iter().map(|&i| MockAuth { address: self.u.a(i), invoke: &invoke }).collect();
        e.mock_auths(&mocks);
        let r = catch(|| e.try_invoke_contract::<Val, soroban_sdk::Error>(contract, &Symbol::new(e, func), argv));
        match r {
            Some(Ok(Ok(v))) => Some(v),
            _ => None,
        }
    }
    fn finish(&self, t: &mut Trace, r: Option<Val>, with_ret: bool) -> Option<i128> {
        let e = &self.e;
        let (tag, ret, evs, dem, out) = match r {
            Some(val) => {
                let dem = demanded(e, &self.u);
                let evs = self.events();
                let ret: Option<i128> = if with_ret { soroban_sdk::TryFromVal::try_from_val(e, &val).ok() } else { None };
                ("ok", ret.map(|x| x.to_string()).unwrap_or("-".into()), evs, join(&dem), ret)
            }
            None => ("err", "-".to_string(), "-".to_string(), "-".to_string(), None),
        };
        let st = self.state();
        t.obs(&format!("{} ret={} {} now={} ev={} dem={}", tag, ret, st, self.now, evs, dem));
        out
    }
    /// all previews / conversions for `x` and the limits of `who`, as one traced op
    fn query_op(&self, t: &mut Trace, x: i128, who: usize) {
        t.op(&format!("vault query x={} who={}", x, who));
        let line = format!(
            "pd={} pm={} pw={} pr={} cs={} ca={} mw={} mr={} md={} mm={}",
            opt(self.q1("preview_deposit", x)),
            opt(self.q1("preview_mint", x)),
            opt(self.q1("preview_withdraw", x)),
            opt(self.q1("preview_redeem", x)),
            opt(self.q1("convert_to_shares", x)),
            opt(self.q1("convert_to_assets", x)),
            opt(self.qa("max_withdraw", who)),
            opt(self.qa("max_redeem", who)),
            opt(self.qa("max_deposit", who)),
            opt(self.qa("max_mint", who)),
        );
        let st = self.state();
        t.obs(&format!("ok ret=- {} {} now={} ev=- dem=-", line, st, self.now));
    }
    /// deposit / mint / withdraw / redeem; `a = [receiver, from|owner, operator]`.
    /// The previews are queried (and traced) immediately before the call.
    fn vault_op(&self, t: &mut Trace, kind: &str, x: i128, a: [usize; 3], auth: &[usize], sub: bool) -> Option<i128> {
        self.vault_op_adj(t, kind, x, a, auth, sub, 0)
    }
    /// `adj != 0`: the signers authorize the nested asset-token movement for an amount that is off by `adj` from the
    /// previewed one (`sub=2` on the op line: as far as the real code is concerned the nested call is NOT authorized)
    fn vault_op_adj(&self, t: &mut Trace, kind: &str, x: i128, a: [usize; 3], auth: &[usize], sub: bool, adj: i128) -> Option<i128> {
        self.query_op(t, x, a[1]);
        let e = &self.e;
        let ad = |i: usize| -> Val { self.u.a(i).into_val(e) };
        let argv = args(e, [v(e, x), ad(a[0]), ad(a[1]), ad(a[2])]);
        t.op(&format!("vault {} x={} a={} auth={} sub={}", kind, x, join(&a), join(auth), if adj != 0 { 2 } else if sub { 1 } else { 0 }));
        // the nested asset-token invocation the signers authorize along with the root
        let assets = match kind {
            "deposit" => x,
            "mint" => self.q1("preview_mint", x).unwrap_or(0),
            _ => 0,
        } + adj;
        let to: MuxedAddress = self.v().clone().into();
        let (sfn, sargs): (&str, SVec<Val>) = if a[2] == a[1] {
            ("transfer", args(e, [ad(a[1]), v(e, to), v(e, assets)]))
        } else {
            ("transfer_from", args(e, [ad(a[2]), ad(a[1]), ad(VAULT), v(e, assets)]))
        };
        let subs = [MockAuthInvoke { contract: &self.asset, fn_name: sfn, args: sargs, sub_invokes: &[] }];
        let with_sub = sub && (kind == "deposit" || kind == "mint");
        let r = self.call_tree(self.v(), kind, argv, auth, if with_sub { &subs } else { &[] });
        self.finish(t, r, true)
    }
    /// an entry point of the share token (`s_*`) or of the asset token (`a_*`)
    fn token_op(&self, t: &mut Trace, kind: &str, x: i128, a: &[usize], lu: u32, auth: &[usize]) {
        let e = &self.e;
        let ad = |i: usize| -> Val { self.u.a(i).into_val(e) };
        let contract = if kind.starts_with("s_") { self.v().clone() } else { self.asset.clone() };
        let (func, argv): (&str, SVec<Val>) = match &kind[2..] {
            "mint" => ("mint", args(e, [ad(a[0]), v(e, x)])),
            "transfer" => {
                let to: MuxedAddress = self.u.a(a[1]).clone().into();
                ("transfer", args(e, [ad(a[0]), v(e, to), v(e, x)]))
            }
            "transfer_from" => ("transfer_from", args(e, [ad(a[0]), ad(a[1]), ad(a[2]), v(e, x)])),
            "approve" => ("approve", args(e, [ad(a[0]), ad(a[1]), v(e, x), v(e, lu)])),
            _ => unreachable!(),
        };
        t.op(&format!("vault {} x={} a={} lu={} auth={}", kind, x, join(a), lu, join(auth)));
        let r = self.call_tree(&contract, func, argv, auth, &[]);
        self.finish(t, r, false);
    }
    fn advance(&mut self, t: &mut Trace, n: u32) {
        self.now += n;
        set_ledger(&self.e, self.now, self.min_temp, MAX_TTL);
        t.op(&format!("vault advance n={}", n));
        let st = self.state();
        t.obs(&format!("ok ret=- {} now={} ev=- dem=-", st, self.now));
    }
}

const SMALL: [i128; 12] = [0, 1, 2, 3, 5, 7, 11, 13, 97, 1009, 65_537, 1_000_003];
const PRIMES: [i128; 5] = [999_999_937, 1_000_000_007, 2_147_483_647, 1_000_000_000_039, 18_446_744_073_709_551_557];

/// boundary-biased, state-derived amount for a vault operation by `party` (payer / owner)
fn pick_amount(rng: &mut Rng, s: &Sim, kind: &str, party: usize, operator: usize) -> i128 {
    let a_tot = s.ta();
    let sup = s.ssup();
    let ab = s.abal(party);
    let sb = s.sbal(party);
    let mw = s.qa("max_withdraw", party).unwrap_or(0);
    let pd_all = s.q1("preview_deposit", ab).unwrap_or(0);
    let virt = (sup / 2).max(1); // magnitude of the share side
    let base: i128 = match kind {
        "deposit" => ab,
        "mint" => pd_all,
        "withdraw" => mw,
        _ => sb,
    };
    let allow = match kind {
        "deposit" | "mint" => s.aallow(party, operator),
        _ => s.sallow(party, operator),
    };
    match rng.below(40) {
        0 => 0,
        1 => -1,
        2 => i128::MIN,
        3 => i128::MAX,
        4 => base,
        5 => base.saturating_add(1),
        6 => (base - 1).max(0),
        7 => base / 2,
        8 => base / 3,
        9 => base / 7 + 1,
        10 => E18,
        11 => E18 + 1,
        12 => E18 - 1,
        13 => *rng.pick(&PRIMES),
        14 => a_tot,
        15 => a_tot.saturating_add(1),
        16 => sup,
        17 => sup.saturating_add(1),
        18 => allow,
        19 => allow.saturating_add(1),
        20 => (allow - 1).max(0),
        // products that just cross i128: x * (S+V) resp. x * (A+1) around 2^127
        21 => i128::MAX / (sup.saturating_add(10_000_000_000)).max(1),
        22 => (i128::MAX / (sup.saturating_add(10_000_000_000)).max(1)).saturating_add(1),
        23 => i128::MAX / (a_tot.saturating_add(1)).max(1),
        24 => (i128::MAX / (a_tot.saturating_add(1)).max(1)).saturating_add(1),
        25 => rng.i128_nonneg(),
        26 => (rng.i128_nonneg() >> 20).min(base.max(1)),
        27 => virt,
        28 => rng.range(1, 100) as i128 * 1_000_000_007,
        29 | 30 | 31 => {
            // a random fraction of what the party can afford
            let d = rng.range(1, 1000) as i128;
            (base / 1000).saturating_mul(d).saturating_add(rng.range(0, 999) as i128).min(base.max(0))
        }
        32 | 33 => rng.range(1, 1_000_000) as i128,
        _ => *rng.pick(&SMALL),
    }
}

fn gen_auth(rng: &mut Rng, right: usize, mentioned: &[usize]) -> Vec<usize> {
    // the vault contract (index 4) has no `__check_auth`: it can never sign
    let mut r: Vec<usize> = vec![];
    if rng.chance(85) {
        r.push(right);
        if rng.chance(12) {
            r.push(rng.below((N - 1) as u64) as usize);
        }
    } else if rng.chance(50) {
        for x in mentioned {
            if *x != right && *x != VAULT {
                r.push(*x);
            }
        }
    } else {
        for i in 0..N - 1 {
            if rng.chance(30) {
                r.push(i);
            }
        }
    }
    r.retain(|x| *x != VAULT);
    r.sort();
    r.dedup();
    r
}

fn directed(t: &mut Trace) {
    // 1. inflation attack on an offset-0 vault, odd amounts, round trips
    t.seq("directed inflation attack offset=0 min_temp=1 start=100");
    let mut s = Sim::new(1, 100);
    s.construct(t, 0);
    s.token_op(t, "a_mint", 2 * E18 + 7, &[0], 0, &[]);
    s.token_op(t, "a_mint", E18 + 1, &[1], 0, &[]);
    s.vault_op(t, "deposit", 1, [0, 0, 0], &[0], true);
    s.token_op(t, "a_transfer", E18, &[0, VAULT], 0, &[0]); // donation
    s.vault_op(t, "deposit", E18 + 1, [1, 1, 1], &[1], true); // victim: floor(…)=1 share
    s.vault_op(t, "redeem", 1, [0, 0, 0], &[0], true);
    s.vault_op(t, "redeem", 1, [1, 1, 1], &[1], true);
    s.vault_op(t, "deposit", 0, [0, 0, 0], &[0], true);
    s.vault_op(t, "mint", 0, [0, 0, 0], &[0], true);
    s.vault_op(t, "withdraw", 0, [0, 0, 0], &[0], true);
    s.vault_op(t, "redeem", 0, [0, 0, 0], &[0], true);
    s.vault_op(t, "deposit", -1, [0, 0, 0], &[0], true);
    s.vault_op(t, "mint", -1, [0, 0, 0], &[0], true);
    s.vault_op(t, "mint", 3, [1, 0, 0], &[0], true);
    s.vault_op(t, "withdraw", 1, [0, 1, 1], &[1], true);
    let mw = s.qa("max_withdraw", 1).unwrap_or(0);
    s.vault_op(t, "withdraw", mw + 1, [1, 1, 1], &[1], true);
    s.vault_op(t, "withdraw", mw, [1, 1, 1], &[1], true);
    s.vault_op(t, "redeem", 1, [1, 1, 1], &[1], true);

    // 1b. a skewed rate: every mint / withdraw price is inexact (ceil != floor), also below one asset unit
    for offset in [0u32, 3] {
        t.seq(&format!("directed inexact prices at a skewed rate offset={} min_temp=1 start=100", offset));
        let mut s = Sim::new(1, 100);
        s.construct(t, offset);
        s.token_op(t, "a_mint", 1_000_000, &[0], 0, &[]);
        s.token_op(t, "a_mint", 1_000_000, &[1], 0, &[]);
        s.vault_op(t, "deposit", 1000, [0, 0, 0], &[0], true);
        s.token_op(t, "a_transfer", 333, &[0, VAULT], 0, &[0]); // donation
        s.query_op(t, 7, 1);
        s.vault_op(t, "mint", 7, [1, 1, 1], &[1], true);
        // the payer authorizes one unit LESS / MORE than the previewed price: the real mint asks for the preview
        s.vault_op_adj(t, "mint", 7, [1, 1, 1], &[1], true, -1);
        s.vault_op_adj(t, "mint", 7, [1, 1, 1], &[1], true, 1);
        s.vault_op_adj(t, "deposit", 13, [1, 1, 1], &[1], true, -1);
        s.query_op(t, 999, 1);
        s.vault_op(t, "mint", 999, [1, 1, 1], &[1], true);
        s.vault_op_adj(t, "mint", 999, [1, 1, 1], &[1], true, -1);
        s.query_op(t, 1, 1);
        s.vault_op(t, "mint", 1, [1, 1, 1], &[1], true);
        s.query_op(t, 10, 1);
        s.vault_op(t, "withdraw", 10, [1, 1, 1], &[1], true);
        s.query_op(t, 1, 1);
        s.vault_op(t, "withdraw", 1, [1, 1, 1], &[1], true);
        s.query_op(t, 5, 1);
        s.vault_op(t, "redeem", 5, [1, 1, 1], &[1], true);
        s.query_op(t, 13, 1);
        s.vault_op(t, "deposit", 13, [1, 1, 1], &[1], true);
    }

    // 2. offset 10, phantom overflow: the intermediate product exceeds i128, the result fits
    t.seq("directed phantom overflow offset=10 min_temp=1 start=100");
    let mut s = Sim::new(1, 100);
    s.construct(t, 10);
    let big: i128 = 1_000_000_000_000_000_000_000_000_000_007; // 10^30 + 7
    s.token_op(t, "a_mint", big * 3, &[0], 0, &[]);
    s.token_op(t, "a_mint", i128::MAX - big * 3, &[1], 0, &[]);
    s.vault_op(t, "deposit", big, [0, 0, 0], &[0], true); // 10^30 * 10^10 > i128::MAX: result overflows -> err
    s.vault_op(t, "deposit", 1_000_000_000_000_000_000_000_000_007, [0, 0, 0], &[0], true);
    s.vault_op(t, "deposit", big, [0, 0, 0], &[0], true); // now product > 2^127 but quotient fits
    s.vault_op(t, "mint", 9_999_999_967, [0, 0, 0], &[0], true);
    s.vault_op(t, "withdraw", 999_999_999_989, [2, 0, 0], &[0], true);
    let sb = s.sbal(0);
    s.vault_op(t, "redeem", sb / 3 + 1, [3, 0, 0], &[0], true);
    s.vault_op(t, "deposit", i128::MAX, [1, 1, 1], &[1], true);
    s.vault_op(t, "mint", i128::MAX, [1, 1, 1], &[1], true);
    s.vault_op(t, "withdraw", i128::MAX, [0, 0, 0], &[0], true);
    s.vault_op(t, "redeem", i128::MAX, [0, 0, 0], &[0], true);
    let sb = s.sbal(0);
    s.vault_op(t, "redeem", sb, [0, 0, 0], &[0], true);

    // 2b. offset 10, the share supply within 10^offset of i128::MAX: supply + 10^offset does not fit, every
    // conversion (views, previews, deposit / mint / withdraw / redeem) must be refused, none may answer with a
    // capped effective supply (seed C05-r11-2)
    t.seq("directed share supply next to i128::MAX offset=10 min_temp=1 start=100");
    let mut s = Sim::new(1, 100);
    s.construct(t, 10);
    let a: i128 = 17_014_118_346_046_923_173_168_730_371; // a * 10^10 <= i128::MAX < (a + 1) * 10^10
    s.token_op(t, "a_mint", a, &[0], 0, &[]);
    s.token_op(t, "a_mint", 1000, &[1], 0, &[]);
    s.vault_op(t, "deposit", a, [0, 0, 0], &[0], true);
    s.vault_op(t, "redeem", 10_000_000_000, [0, 0, 0], &[0], true);
    s.vault_op(t, "withdraw", 1, [0, 0, 0], &[0], true);
    s.vault_op(t, "deposit", 1000, [1, 1, 1], &[1], true);
    s.vault_op(t, "mint", 1, [1, 1, 1], &[1], true);
    let sb = s.sbal(0);
    s.vault_op(t, "redeem", sb, [0, 0, 0], &[0], true);

    // 3. operator != owner / from: share allowance, asset allowance, expiry, auth shapes
    t.seq("directed operator allowance offset=3 min_temp=16 start=100");
    let mut s = Sim::new(16, 100);
    s.construct(t, 3);
    s.token_op(t, "a_mint", 1_000_003, &[0], 0, &[]);
    s.token_op(t, "a_mint", 777, &[2], 0, &[]);
    s.vault_op(t, "deposit", 500_009, [0, 0, 0], &[], true); // nobody signs
    s.vault_op(t, "deposit", 500_009, [0, 0, 0], &[1], true); // a stranger signs
    s.vault_op(t, "deposit", 500_009, [0, 0, 0], &[0], false); // root only, nested transfer not authorized
    s.vault_op(t, "deposit", 500_009, [0, 0, 0], &[0], true);
    s.vault_op(t, "deposit", 100, [1, 0, 1], &[1], true); // operator 1 without asset allowance
    s.token_op(t, "a_approve", 150, &[0, 1], 130, &[0]);
    s.vault_op(t, "deposit", 151, [1, 0, 1], &[1], true);
    s.vault_op(t, "deposit", 100, [1, 0, 1], &[0], true); // from signs instead of the operator
    s.vault_op(t, "deposit", 100, [1, 0, 1], &[1], true);
    s.vault_op(t, "mint", 49_000, [1, 0, 1], &[1], true);
    s.token_op(t, "a_transfer", 333, &[2, VAULT], 0, &[2]); // donation skews the rate
    s.vault_op(t, "redeem", 1000, [1, 0, 1], &[1], true); // no share allowance
    s.token_op(t, "s_approve", 5000, &[0, 1], 120, &[0]);
    s.vault_op(t, "redeem", 5001, [1, 0, 1], &[1], true);
    s.vault_op(t, "redeem", 1000, [1, 0, 1], &[0], true); // owner signs instead of the operator
    s.vault_op(t, "redeem", 1000, [1, 0, 1], &[1], true);
    s.vault_op(t, "withdraw", 3, [2, 0, 1], &[1], true);
    s.vault_op(t, "withdraw", 4, [2, 0, 1], &[1], true); // needs ceil > remaining allowance?
    s.advance(t, 20);
    s.vault_op(t, "redeem", 10, [1, 0, 1], &[1], true);
    s.advance(t, 1);
    s.vault_op(t, "redeem", 10, [1, 0, 1], &[1], true); // allowance expired
    s.vault_op(t, "redeem", 0, [1, 0, 1], &[1], true); // zero needs no allowance
    s.token_op(t, "s_transfer", 40_000, &[0, 3], 0, &[0]);
    s.token_op(t, "s_approve", 100_000, &[3, 2], 500, &[3]);
    s.token_op(t, "s_transfer_from", 15_000, &[2, 3, 1], 0, &[2]);
    s.vault_op(t, "redeem", 25_000, [VAULT, 3, 2], &[2], true); // assets paid to the vault itself
    s.vault_op(t, "deposit", 50, [VAULT, 2, 2], &[2], true); // shares minted to the vault itself
    s.vault_op(t, "redeem", 1, [0, VAULT, 0], &[0], true); // nobody can spend the vault's own shares

    // 4. exits with every combination of the three roles (receiver, owner, operator), for BOTH
    //    withdraw and redeem, with every user holding shares: a mix-up of owner and receiver
    //    (or of whose allowance is spent) goes through silently only when the wrong party also
    //    holds shares / has approved the operator, which is exactly what is set up here
    t.seq("directed exit roles offset=2 min_temp=1 start=100");
    let mut s = Sim::new(1, 100);
    s.construct(t, 2);
    for (i, amt) in [(0usize, 1_000_003i128), (1, 700_001), (2, 500_009), (3, 90_007)] {
        s.token_op(t, "a_mint", amt, &[i], 0, &[]);
        s.vault_op(t, "deposit", amt - 7, [i, i, i], &[i], true);
    }
    s.token_op(t, "a_transfer", 5, &[3, VAULT], 0, &[3]); // uneven rate
    for kind in ["withdraw", "redeem"] {
        let x: i128 = if kind == "withdraw" { 301 } else { 30_011 };
        // all three equal
        s.vault_op(t, kind, x, [0, 0, 0], &[0], true);
        // operator == owner != receiver (receiver holds shares too)
        s.vault_op(t, kind, x, [1, 0, 0], &[0], true);
        // operator == receiver != owner, receiver holds shares: no allowance yet -> must fail
        s.vault_op(t, kind, x, [1, 0, 1], &[1], true);
        // ... the owner approves the operator: must burn the OWNER's shares, pay the receiver,
        // spend the owner's allowance
        s.token_op(t, "s_approve", 2_000_000, &[0, 1], 5000, &[0]);
        s.vault_op(t, kind, x, [1, 0, 1], &[1], true);
        // receiver == owner != operator (operator approved above)
        s.vault_op(t, kind, x, [0, 0, 1], &[1], true);
        // all distinct; only the RECEIVER has approved the operator -> must fail
        s.token_op(t, "s_approve", 2_000_000, &[2, 3], 5000, &[2]);
        s.vault_op(t, kind, x, [2, 0, 3], &[3], true);
        // all distinct; owner and receiver have both approved the operator: only the owner's
        // allowance and shares may move
        s.token_op(t, "s_approve", 2_000_000, &[0, 3], 5000, &[0]);
        s.vault_op(t, kind, x, [2, 0, 3], &[3], true);
        // all distinct, the receiver holds no allowance relation at all
        s.vault_op(t, kind, x, [1, 0, 3], &[3], true);
        // the receiver signs instead of the operator
        s.vault_op(t, kind, x, [2, 0, 3], &[2], true);
        // reset the allowances for the second round
        s.token_op(t, "s_approve", 0, &[0, 1], 5000, &[0]);
        s.token_op(t, "s_approve", 0, &[2, 3], 5000, &[2]);
        s.token_op(t, "s_approve", 0, &[0, 3], 5000, &[0]);
    }

    // 5. constructor bound
    t.seq("directed offset bound min_temp=1 start=100");
    let mut s = Sim::new(1, 100);
    s.construct(t, 11);
    t.seq("directed offset bound max min_temp=1 start=100");
    let mut s = Sim::new(1, 100);
    s.construct(t, u32::MAX);
}

fn main() {
    let mut t = Trace::from_args();
    let seed = seed_from_env();
    let thorough = arg_str("--tier").as_deref() == Some("thorough");
    let nseq = arg_u64("--seqs", if thorough { 500 } else { 160 });
    let len = arg_u64("--len", 36);
    let mut rng = Rng::new(seed);
    directed(&mut t);
    for k in 0..nseq {
        let min_temp = if rng.chance(60) { 1 } else { 16 };
        let start = *rng.pick(&[2u32, 100, 5000]);
        let offset = (k % 11) as u32; // every offset 0..=10 in every run
        let mut s = Sim::new(min_temp, start);
        t.seq(&format!("rand k={} seed={} min_temp={} start={} offset={}", k, seed, min_temp, start, offset));
        if !s.construct(&mut t, offset) {
            continue;
        }
        // funding: magnitudes from tiny to > 2^100 so that products cross i128
        let scale = rng.below(5);
        for i in 0..N - 1 {
            let amt: i128 = match (scale + rng.below(2)) % 6 {
                0 => rng.range(1, 2000) as i128,
                1 => 1_000_003 * rng.range(1, 1000) as i128,
                2 => E18 + rng.range(-1, 1) as i128,
                3 => E18 * rng.range(2, 1_000_000_000) as i128 + rng.range(0, 1000) as i128,
                4 => (1i128 << 100) + (rng.i128_nonneg() >> 30),
                _ => (1i128 << 120) + (rng.i128_nonneg() >> 10),
            };
            s.token_op(&mut t, "a_mint", amt, &[i], 0, &[]);
        }
        // some vaults are skewed by a donation before anybody holds shares
        if rng.chance(25) {
            let d = rng.below((N - 1) as u64) as usize;
            let amt = s.abal(d) / *rng.pick(&[2i128, 3, 1000, 1_000_000]);
            s.token_op(&mut t, "a_transfer", amt, &[d, VAULT], 0, &[d]);
        }
        let mut marks: Vec<u32> = vec![];
        for _ in 0..len {
            let r = rng.below(100);
            let p = |rng: &mut Rng| rng.below((N - 1) as u64) as usize;
            if r < 3 {
                let n = if !marks.is_empty() && rng.chance(60) {
                    let m = *rng.pick(&marks);
                    ((m as i64 + rng.range(-1, 1)).max(s.now as i64) as u32) - s.now
                } else {
                    *rng.pick(&[0u32, 1, 15, 16, 17, 100])
                };
                if (s.now as u64 + n as u64) < 60_000 {
                    s.advance(&mut t, n);
                }
            } else if r < 66 {
                let kind = *rng.pick(&["deposit", "deposit", "mint", "mint", "withdraw", "withdraw", "redeem", "redeem", "redeem"]);
                let inflow0 = kind == "deposit" || kind == "mint";
                // mostly somebody who has something to move
                let holders: Vec<usize> = (0..N - 1).filter(|&i| if inflow0 { s.abal(i) > 0 } else { s.sbal(i) > 0 }).collect();
                let party = if rng.chance(3) {
                    VAULT
                } else if !holders.is_empty() && rng.chance(85) {
                    *rng.pick(&holders)
                } else {
                    p(&mut rng)
                };
                let mut operator = if rng.chance(72) { party } else if rng.chance(4) { VAULT } else { p(&mut rng) };
                let mut receiver = if rng.chance(55) { party } else if rng.chance(8) { VAULT } else { p(&mut rng) };
                let inflow = kind == "deposit" || kind == "mint";
                // exits paid to ANOTHER share holder, often pulled by that holder itself or by an
                // operator the receiver has approved too: the combinations in which confusing
                // owner and receiver (or whose allowance is spent) would not simply fail
                if !inflow && party != VAULT && rng.chance(35) {
                    let others: Vec<usize> = holders.iter().cloned().filter(|&i| i != party).collect();
                    if !others.is_empty() {
                        receiver = *rng.pick(&others);
                        operator = match rng.below(10) {
                            0..=4 => receiver,
                            5..=6 => party,
                            _ => p(&mut rng),
                        };
                        if operator != receiver && operator != VAULT && rng.chance(60) && s.sallow(receiver, operator) == 0 {
                            let lu = s.now + *rng.pick(&[16u32, 50, 300]);
                            marks.push(lu);
                            s.token_op(&mut t, "s_approve", s.sbal(receiver), &[receiver, operator], lu, &[receiver]);
                        }
                        t.count("exit_to_holder");
                    }
                }
                // mostly make the allowance path viable before using it
                if operator != party && party != VAULT && operator != VAULT && rng.chance(65) {
                    let have = if inflow { s.aallow(party, operator) } else { s.sallow(party, operator) };
                    if have == 0 || rng.chance(20) {
                        let bal = if inflow { s.abal(party) } else { s.sbal(party) };
                        let amt = match rng.below(4) {
                            0 => bal,
                            1 => bal / 2 + 1,
                            2 => i128::MAX,
                            _ => rng.range(1, 100_000) as i128,
                        };
                        let lu = s.now + *rng.pick(&[0u32, 1, 16, 50, 300]);
                        marks.push(lu);
                        s.token_op(&mut t, if inflow { "a_approve" } else { "s_approve" }, amt, &[party, operator], lu, &[party]);
                    }
                }
                let mut x = pick_amount(&mut rng, &s, kind, party, operator);
                if !inflow && receiver != party && receiver != VAULT && rng.chance(50) {
                    // something both the owner and the receiver could afford
                    let cap = if kind == "redeem" { s.sbal(party).min(s.sbal(receiver)) } else { s.qa("max_withdraw", party).unwrap_or(0).min(s.qa("max_withdraw", receiver).unwrap_or(0)) };
                    if cap > 0 {
                        x = (cap / *rng.pick(&[1i128, 2, 3, 7])).max(1);
                    }
                }
                let auth = gen_auth(&mut rng, operator, &[receiver, party, operator]);
                let sub = !rng.chance(4);
                // statistics: does the intermediate product leave i128 (phantom overflow path)?
                let (f1, f2) = if kind == "deposit" || kind == "withdraw" {
                    (s.ssup().saturating_add(10i128.pow(offset)), s.ta().saturating_add(1))
                } else {
                    (s.ta().saturating_add(1), s.ssup().saturating_add(10i128.pow(offset)))
                };
                let phantom = x > 0 && x.checked_mul(f1).is_none();
                let _ = f2;
                let r = s.vault_op(&mut t, kind, x, [receiver, party, operator], &auth, sub);
                if phantom {
                    t.count(if r.is_some() { "phantom_ok" } else { "phantom_err" });
                }
                if r.is_some() && operator != party {
                    t.count("operator_ok");
                }
            } else if r < 76 {
                // donation: plain asset transfer to the vault
                let d = p(&mut rng);
                let bal = s.abal(d);
                let amt = match rng.below(8) {
                    0 => 1,
                    1 => bal,
                    2 => bal / 2,
                    3 => E18 + 1,
                    4 => bal.saturating_add(1),
                    5 => s.ta().saturating_add(1).min(bal),
                    _ => (bal / 1000).saturating_mul(rng.range(0, 1000) as i128),
                };
                let auth = gen_auth(&mut rng, d, &[d]);
                s.token_op(&mut t, "a_transfer", amt, &[d, VAULT], 0, &auth);
            } else if r < 80 {
                let (f, to) = (p(&mut rng), p(&mut rng));
                let amt = s.abal(f) / *rng.pick(&[1i128, 2, 3, 10]);
                let auth = gen_auth(&mut rng, f, &[f, to]);
                s.token_op(&mut t, "a_transfer", amt, &[f, to], 0, &auth);
            } else if r < 83 {
                let to = if rng.chance(20) { VAULT } else { p(&mut rng) };
                let room = i128::MAX - s.asup();
                let amt = match rng.below(5) {
                    0 => room,
                    1 => room.saturating_add(1),
                    2 => E18 - 1,
                    _ => rng.range(0, 1_000_000_000) as i128,
                };
                s.token_op(&mut t, "a_mint", amt, &[to], 0, &[]);
            } else if r < 90 {
                let asset_side = rng.chance(45);
                let (o, sp) = (p(&mut rng), p(&mut rng));
                let bal = if asset_side { s.abal(o) } else { s.sbal(o) };
                let amt = match rng.below(6) {
                    0 => 0,
                    1 => bal,
                    2 => i128::MAX,
                    3 => -1,
                    _ => (bal / 100).saturating_mul(rng.range(0, 150) as i128),
                };
                let lu = match rng.below(8) {
                    0 => s.now.saturating_sub(1),
                    1 => s.now,
                    2 => s.now + MAX_TTL - 1,
                    3 => s.now + MAX_TTL,
                    _ => s.now + rng.below(200) as u32,
                };
                if lu >= s.now && lu < 70_000 {
                    marks.push(lu);
                }
                let auth = gen_auth(&mut rng, o, &[o, sp]);
                s.token_op(&mut t, if asset_side { "a_approve" } else { "s_approve" }, amt, &[o, sp], lu, &auth);
            } else if r < 96 {
                let f = if rng.chance(5) { VAULT } else { p(&mut rng) };
                let to = if rng.chance(10) { VAULT } else { p(&mut rng) };
                let bal = s.sbal(f);
                let amt = match rng.below(6) {
                    0 => bal,
                    1 => bal.saturating_add(1),
                    2 => 0,
                    3 => -1,
                    _ => (bal / 100).saturating_mul(rng.range(0, 100) as i128),
                };
                let auth = gen_auth(&mut rng, f, &[f, to]);
                s.token_op(&mut t, "s_transfer", amt, &[f, to], 0, &auth);
            } else {
                let (sp, f, to) = (p(&mut rng), p(&mut rng), p(&mut rng));
                let al = s.sallow(f, sp);
                let amt = match rng.below(4) {
                    0 => al,
                    1 => al.saturating_add(1),
                    2 => al.min(s.sbal(f)),
                    _ => al / 2,
                };
                let auth = gen_auth(&mut rng, sp, &[sp, f, to]);
                s.token_op(&mut t, "s_transfer_from", amt, &[sp, f, to], 0, &auth);
            }
        }
    }
    t.finish();
}
