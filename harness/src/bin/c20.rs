//! C20 correspondence: the eight registries of /repo's working tree behind pass-through harness
//! contracts (and the REAL `examples/multisig-smart-account/account` contract for the context
//! rules), driven in the native Soroban host. After EVERY op, accepted or refused, every getter
//! of the registry is read over the whole (small) universe; long registries print counts, an
//! order-dependent digest, order-independent sums and windows of probes instead.
//!
//! Line protocol: label `# <registry> <description> k=v ...`, op `> <registry> <kind> k=v ...`,
//! observation `< ok|err <getters>`; /verif/lean/OZ/Drv/C20*.lean is the other side.
use ozharness::*;
use soroban_sdk::{
    testutils::Address as _, xdr, Address, Bytes, BytesN, Env, IntoVal, Map, String as SString, TryFromVal, Val,
    Vec as SVec,
};
use std::collections::HashMap;
use stellar_accounts::smart_account::{ContextRule, ContextRuleType, Signer};
use stellar_tokens::rwa::{
    claim_issuer::SigningKey,
    compliance::ComplianceHook,
    extensions::doc_manager::{Document, DocumentStorageKey},
    identity_claims::Claim,
    identity_registry_storage::{CountryData, CountryRelation, IdentityProfile, IdentityType, IndividualCountryRelation},
};

#[path = "/repo/examples/multisig-smart-account/account/src/contract.rs"]
#[allow(dead_code)]
mod account;

use contracts::*;

// ------------------------------------------------------------------------------------------
// pass-through contracts over the library functions + the mock collaborators
// ------------------------------------------------------------------------------------------
mod contracts {
    use soroban_sdk::{contract, contractimpl, contracttype, Address, Bytes, BytesN, Env, Map, String as SString, Val, Vec};
    use stellar_accounts::smart_account::{ContextRule, Signer};
    use stellar_tokens::rwa::{
        claim_issuer as ci,
        claim_issuer::SigningKey,
        claim_topics_and_issuers::storage as cti,
        compliance::{storage as comp, ComplianceHook},
        extensions::doc_manager as dm,
        identity_claims as ic,
        identity_registry_storage as irs,
        utils::token_binder as tb,
    };

    // ---- claim issuer keys -------------------------------------------------------------
    #[contract]
    pub struct KeysC;
    #[contractimpl]
    impl KeysC {
        pub fn allow_key(e: &Env, pk: Bytes, registry: Address, scheme: u32, topic: u32) {
            ci::allow_key(e, &pk, &registry, scheme, topic)
        }
        pub fn remove_key(e: &Env, pk: Bytes, registry: Address, scheme: u32, topic: u32) {
            ci::remove_key(e, &pk, &registry, scheme, topic)
        }
        pub fn get_keys_for_topic(e: &Env, topic: u32) -> Vec<SigningKey> {
            ci::get_keys_for_topic(e, topic)
        }
        pub fn get_registries(e: &Env, key: SigningKey) -> Vec<Address> {
            ci::get_registries(e, &key)
        }
        pub fn allowed_topic(e: &Env, pk: Bytes, scheme: u32, topic: u32) -> bool {
            ci::is_key_allowed_for_topic(e, &pk, scheme, topic)
        }
        pub fn allowed_registry(e: &Env, pk: Bytes, scheme: u32, registry: Address) -> bool {
            ci::is_key_allowed_for_registry(e, &pk, scheme, &registry)
        }
    }

    /// stands for a claim-topics-and-issuers registry: this issuer may emit every topic but 7 - unless the
    /// registry has been told to deny everything (`set_deny`): the harness does that on registry 2 around every
    /// `remove_key` (and undoes it before every `allow_key`), so that the answer at the only place the code may
    /// consult the registry (allow_key) is always `topic != 7`, while a remove_key that consulted it would see
    /// "not authorized any more" (seed C20-r11-2)
    #[contract]
    pub struct MockReg;
    #[contractimpl]
    impl MockReg {
        pub fn has_claim_topic(e: &Env, _issuer: Address, topic: u32) -> bool {
            let deny: bool = e.storage().instance().get(&soroban_sdk::symbol_short!("deny")).unwrap_or(false);
            !deny && topic != 7
        }
        pub fn set_deny(e: &Env, deny: bool) {
            e.storage().instance().set(&soroban_sdk::symbol_short!("deny"), &deny);
        }
    }

    // ---- claim topics and issuers ------------------------------------------------------
    #[contract]
    pub struct TopicsC;
    #[contractimpl]
    impl TopicsC {
        pub fn add_claim_topic(e: &Env, t: u32) {
            cti::add_claim_topic(e, t)
        }
        pub fn remove_claim_topic(e: &Env, t: u32) {
            cti::remove_claim_topic(e, t)
        }
        pub fn add_trusted_issuer(e: &Env, i: Address, ts: Vec<u32>) {
            cti::add_trusted_issuer(e, &i, &ts)
        }
        pub fn remove_trusted_issuer(e: &Env, i: Address) {
            cti::remove_trusted_issuer(e, &i)
        }
        pub fn update_issuer_topics(e: &Env, i: Address, ts: Vec<u32>) {
            cti::update_issuer_claim_topics(e, &i, &ts)
        }
        pub fn get_claim_topics(e: &Env) -> Vec<u32> {
            cti::get_claim_topics(e)
        }
        pub fn get_trusted_issuers(e: &Env) -> Vec<Address> {
            cti::get_trusted_issuers(e)
        }
        pub fn get_claim_topic_issuers(e: &Env, t: u32) -> Vec<Address> {
            cti::get_claim_topic_issuers(e, t)
        }
        pub fn get_issuer_claim_topics(e: &Env, i: Address) -> Vec<u32> {
            cti::get_trusted_issuer_claim_topics(e, &i)
        }
        pub fn get_topics_and_issuers(e: &Env) -> Map<u32, Vec<Address>> {
            cti::get_claim_topics_and_issuers(e)
        }
        pub fn has_claim_topic(e: &Env, issuer: Address, t: u32) -> bool {
            cti::has_claim_topic(e, &issuer, t)
        }
        pub fn is_trusted_issuer(e: &Env, issuer: Address) -> bool {
            cti::is_trusted_issuer(e, &issuer)
        }
    }

    // ---- token binder ------------------------------------------------------------------
    /// mirror of the library's (private) `TokenBinderStorageKey`: same names, same encoding
    #[contracttype]
    pub enum TokenBinderStorageKey {
        TokenBucket(u32),
        TotalCount,
    }
    #[contract]
    pub struct BinderC;
    #[contractimpl]
    impl BinderC {
        pub fn bind_token(e: &Env, t: Address) {
            tb::bind_token(e, &t)
        }
        pub fn bind_tokens(e: &Env, ts: Vec<Address>) {
            tb::bind_tokens(e, &ts)
        }
        pub fn unbind_token(e: &Env, t: Address) {
            tb::unbind_token(e, &t)
        }
        pub fn linked_tokens(e: &Env) -> Vec<Address> {
            tb::linked_tokens(e)
        }
        pub fn is_token_bound(e: &Env, t: Address) -> bool {
            tb::is_token_bound(e, &t)
        }
        pub fn get_token_index(e: &Env, t: Address) -> u32 {
            tb::get_token_index(e, &t)
        }
        pub fn get_token_by_index(e: &Env, i: u32) -> Address {
            tb::get_token_by_index(e, i)
        }
        /// `linked_token_count` is not exported: read the `TotalCount` entry it reads
        pub fn total_count(e: &Env) -> u32 {
            e.storage().persistent().get(&TokenBinderStorageKey::TotalCount).unwrap_or(0)
        }
    }

    // ---- document manager --------------------------------------------------------------
    #[contract]
    pub struct DocsC;
    #[contractimpl]
    impl DocsC {
        pub fn set_document(e: &Env, name: BytesN<32>, uri: SString, hash: BytesN<32>) {
            dm::set_document(e, &name, &uri, &hash)
        }
        pub fn remove_document(e: &Env, name: BytesN<32>) {
            dm::remove_document(e, &name)
        }
        pub fn get_document(e: &Env, name: BytesN<32>) -> dm::Document {
            dm::get_document(e, &name)
        }
        pub fn get_document_by_index(e: &Env, i: u32) -> (BytesN<32>, dm::Document) {
            dm::get_document_by_index(e, i)
        }
        pub fn get_document_count(e: &Env) -> u32 {
            dm::get_document_count(e)
        }
        pub fn get_documents(e: &Env, b: u32) -> Vec<(BytesN<32>, dm::Document)> {
            dm::get_documents(e, b)
        }
    }

    // ---- identity registry storage -----------------------------------------------------
    #[contract]
    pub struct IrsC;
    #[contractimpl]
    impl IrsC {
        pub fn add_identity(e: &Env, a: Address, id: Address, ty: irs::IdentityType, cs: Vec<irs::CountryData>) {
            irs::add_identity(e, &a, &id, ty, &cs)
        }
        pub fn modify_identity(e: &Env, a: Address, id: Address) {
            irs::modify_identity(e, &a, &id)
        }
        pub fn remove_identity(e: &Env, a: Address) {
            irs::remove_identity(e, &a)
        }
        pub fn recover_identity(e: &Env, old: Address, new: Address) {
            irs::recover_identity(e, &old, &new)
        }
        pub fn add_countries(e: &Env, a: Address, cs: Vec<irs::CountryData>) {
            irs::add_country_data_entries(e, &a, &cs)
        }
        pub fn modify_country(e: &Env, a: Address, i: u32, c: irs::CountryData) {
            irs::modify_country_data(e, &a, i, &c)
        }
        pub fn delete_country(e: &Env, a: Address, i: u32) {
            irs::delete_country_data(e, &a, i)
        }
        pub fn stored_identity(e: &Env, a: Address) -> Address {
            irs::stored_identity(e, &a)
        }
        pub fn get_identity_profile(e: &Env, a: Address) -> irs::IdentityProfile {
            irs::get_identity_profile(e, &a)
        }
        pub fn get_country_data(e: &Env, a: Address, i: u32) -> irs::CountryData {
            irs::get_country_data(e, &a, i)
        }
        pub fn get_country_entries(e: &Env, a: Address) -> Vec<irs::CountryData> {
            irs::get_country_data_entries(e, &a)
        }
        pub fn get_recovered_to(e: &Env, a: Address) -> Option<Address> {
            irs::get_recovered_to(e, &a)
        }
    }

    // ---- identity claims ---------------------------------------------------------------
    #[contract]
    pub struct ClaimsC;
    #[contractimpl]
    impl ClaimsC {
        pub fn add_claim(e: &Env, topic: u32, scheme: u32, issuer: Address, sig: Bytes, data: Bytes, uri: SString) -> BytesN<32> {
            ic::add_claim(e, topic, scheme, &issuer, &sig, &data, &uri)
        }
        pub fn remove_claim(e: &Env, id: BytesN<32>) {
            ic::remove_claim(e, &id)
        }
        pub fn get_claim(e: &Env, id: BytesN<32>) -> ic::Claim {
            ic::get_claim(e, &id)
        }
        pub fn get_claim_ids_by_topic(e: &Env, t: u32) -> Vec<BytesN<32>> {
            ic::get_claim_ids_by_topic(e, t)
        }
        pub fn claim_id(e: &Env, issuer: Address, t: u32) -> BytesN<32> {
            ic::generate_claim_id(e, &issuer, t)
        }
    }

    /// a claim issuer that rejects exactly the claims with empty data
    #[contract]
    pub struct MockIssuer;
    #[contractimpl]
    impl MockIssuer {
        pub fn is_claim_valid(_e: &Env, _identity: Address, _topic: u32, _scheme: u32, _sig: Bytes, data: Bytes) {
            if data.is_empty() {
                panic!("invalid claim")
            }
        }
    }

    // ---- compliance hook modules -------------------------------------------------------
    #[contract]
    pub struct HooksC;
    #[contractimpl]
    impl HooksC {
        pub fn add_module_to(e: &Env, hook: ComplianceHook, module: Address) {
            comp::add_module_to(e, hook, module)
        }
        pub fn remove_module_from(e: &Env, hook: ComplianceHook, module: Address) {
            comp::remove_module_from(e, hook, module)
        }
        pub fn get_modules_for_hook(e: &Env, hook: ComplianceHook) -> Vec<Address> {
            comp::get_modules_for_hook(e, hook)
        }
        pub fn is_module_registered(e: &Env, hook: ComplianceHook, module: Address) -> bool {
            comp::is_module_registered(e, hook, module)
        }
    }

    // ---- smart-account policies --------------------------------------------------------
    /// mode 1: `uninstall` panics (the account swallows it); mode 2: `install` panics
    #[contract]
    pub struct PolicyC;
    #[contractimpl]
    impl PolicyC {
        pub fn set_mode(e: &Env, mode: u32) {
            e.storage().instance().set(&0u32, &mode)
        }
        pub fn install(e: &Env, _param: Val, _rule: ContextRule, _account: Address) {
            if e.storage().instance().get::<_, u32>(&0u32).unwrap_or(0) == 2 {
                panic!("install refused")
            }
        }
        pub fn uninstall(e: &Env, _rule: ContextRule, _account: Address) {
            if e.storage().instance().get::<_, u32>(&0u32).unwrap_or(0) == 1 {
                panic!("uninstall refused")
            }
        }
        pub fn can_enforce(_e: &Env, _c: soroban_sdk::auth::Context, _s: Vec<Signer>, _rule: ContextRule, _account: Address) -> bool {
            true
        }
        pub fn enforce(_e: &Env, _c: soroban_sdk::auth::Context, _s: Vec<Signer>, _rule: ContextRule, _account: Address) {}
    }
}

// ------------------------------------------------------------------------------------------
// helpers
// ------------------------------------------------------------------------------------------
const MAX_TTL: u32 = 3_000_000;

/// fresh host at ledger 100. The SDK's test host enforces the MAINNET per-transaction resource
/// limits by default and reports an excess by panicking AFTER the invocation has committed; the
/// property is about the registries as data structures, so the limits are switched off (with
/// them, e.g. `remove_claim_topic` over 50 issuers writes 51 > 50 ledger entries).
/// "long idle" sequences use a host whose entries may live about a year (`max_entry_ttl`
/// 6 312 000 ledgers, `min_persistent_entry_ttl` = max - 1): the persistent and instance entries of
/// the unmodified code stay live across the idle gaps (1 + 31 + 100 days), an entry that was moved
/// to TEMPORARY storage with a ~30-day extension does not.
const LONG_TTL: u32 = 6_312_000;
const LEDGERS_PER_DAY: u32 = 17_280;
thread_local! {
    static LONG_ENV: std::cell::Cell<bool> = std::cell::Cell::new(false);
    /// (number of the op before which the gap is inserted, days)
    static IDLE_PLAN: std::cell::RefCell<Vec<(u32, u32)>> = std::cell::RefCell::new(vec![]);
    static OP_NO: std::cell::Cell<u32> = std::cell::Cell::new(0);
}
fn long_env(on: bool) {
    LONG_ENV.with(|l| l.set(on));
    IDLE_PLAN.with(|p| p.borrow_mut().clear());
    OP_NO.with(|c| c.set(0));
}
/// thorough tier: every fourth random history runs on the long-horizon host with two or three idle
/// gaps (1, 31, 100 days) at random places
fn plan_idle(rng: &mut Rng, thorough: bool, k: u64) {
    long_env(false);
    if thorough && k % 4 == 0 {
        long_env(true);
        let mut plan: Vec<(u32, u32)> = vec![(rng.range(3, 15) as u32, 31), (rng.range(16, 28) as u32, 100)];
        if rng.chance(50) {
            plan.push((rng.range(29, 38) as u32, 1));
        }
        IDLE_PLAN.with(|p| *p.borrow_mut() = plan);
    }
}

fn env() -> Env {
    let e = new_env(100, 16, if LONG_ENV.with(|l| l.get()) { LONG_TTL } else { MAX_TTL });
    e.cost_estimate().disable_resource_limits();
    e.cost_estimate().budget().reset_unlimited();
    e
}

fn kv<'a>(ws: &[&'a str], k: &str) -> Option<&'a str> {
    ws.iter().find_map(|w| w.strip_prefix(k).and_then(|r| r.strip_prefix('=')))
}
fn kvn(ws: &[&str], k: &str) -> u32 {
    kv(ws, k).and_then(|x| x.parse().ok()).unwrap_or(0)
}
/// "-" -> [], "a..b" -> a, a+1, .., b-1, "1,2,3"
fn kvl(ws: &[&str], k: &str) -> Vec<u32> {
    let s = kv(ws, k).unwrap_or("-");
    if s == "-" || s.is_empty() {
        return vec![];
    }
    if let Some((a, b)) = s.split_once("..") {
        let (a, b): (u32, u32) = (a.parse().unwrap(), b.parse().unwrap());
        return (a..b).collect();
    }
    s.split(',').filter_map(|x| x.parse().ok()).collect()
}
fn sep(sepr: &str, xs: &[String]) -> String {
    if xs.is_empty() {
        "-".into()
    } else {
        xs.join(sepr)
    }
}
fn bits(xs: &[bool]) -> String {
    if xs.is_empty() {
        "-".into()
    } else {
        xs.iter().map(|b| if *b { '1' } else { '0' }).collect()
    }
}
fn digest(xs: &[u64]) -> u64 {
    let mut h: u128 = 7;
    for x in xs {
        h = (h * 1000003 + *x as u128 + 1) % 2305843009213693951u128;
    }
    h as u64
}
fn sum1(xs: &[u64]) -> u128 {
    xs.iter().map(|x| *x as u128 + 1).sum()
}
fn sumsq(xs: &[u64]) -> u128 {
    xs.iter().map(|x| (*x as u128 + 1) * (*x as u128 + 1)).sum()
}
fn dedup_keep(xs: Vec<u32>) -> Vec<u32> {
    let mut out = vec![];
    for x in xs {
        if !out.contains(&x) {
            out.push(x);
        }
    }
    out
}
fn bn32(e: &Env, n: u32) -> BytesN<32> {
    let mut a = [0u8; 32];
    a[28..].copy_from_slice(&n.to_be_bytes());
    BytesN::from_array(e, &a)
}
fn bn32_num(b: &BytesN<32>) -> u32 {
    let a = b.to_array();
    u32::from_be_bytes([a[28], a[29], a[30], a[31]])
}
fn bytes_of(e: &Env, n: u32) -> Bytes {
    if n == 0 {
        Bytes::new(e)
    } else {
        Bytes::from_array(e, &n.to_be_bytes())
    }
}
fn bytes_num(b: &Bytes) -> u32 {
    if b.len() != 4 {
        return 0;
    }
    u32::from_be_bytes([b.get(0).unwrap(), b.get(1).unwrap(), b.get(2).unwrap(), b.get(3).unwrap()])
}

/// index <-> Address with a hash map (the token binder needs 10 000 of them)
struct Book {
    addrs: Vec<Address>,
    map: HashMap<xdr::ScAddress, usize>,
}
impl Book {
    fn new(e: &Env, n: usize) -> Book {
        let addrs: Vec<Address> = (0..n).map(|_| Address::generate(e)).collect();
        Self::from(addrs)
    }
    fn from(addrs: Vec<Address>) -> Book {
        let map = addrs.iter().enumerate().map(|(i, a)| (sc_address(a), i)).collect();
        Book { addrs, map }
    }
    fn a(&self, i: u32) -> &Address {
        &self.addrs[i as usize]
    }
    fn idx(&self, a: &Address) -> String {
        self.map.get(&sc_address(a)).map(|i| i.to_string()).unwrap_or("?".into())
    }
    fn idx_n(&self, a: &Address) -> u64 {
        self.map.get(&sc_address(a)).map(|i| *i as u64).unwrap_or(999_999)
    }
}

fn q<T: TryFromVal<Env, Val>>(e: &Env, c: &Address, f: &str, a: SVec<Val>) -> Option<T> {
    query(e, c, f, a)
}
fn run(e: &Env, c: &Address, f: &str, a: SVec<Val>) -> Option<Val> {
    call_all_auth(e, c, f, a)
}

/// one registry under test: executes an op line, prints all getters
trait Reg {
    /// (accepted?, extra tokens printed right after ok/err, e.g. "ret=3 ")
    fn exec(&mut self, ws: &[&str]) -> (bool, String);
    fn host(&self) -> &Env;
    /// printed between the verdict and the getters of an idle observation
    fn idle_extra(&self) -> &'static str {
        ""
    }
    fn state(&self, ws: &[&str]) -> String;
}

fn drive(t: &mut Trace, r: &mut dyn Reg, op: &str) -> bool {
    // planned idle gaps of a random long-idle history
    let no = OP_NO.with(|c| {
        c.set(c.get() + 1);
        c.get()
    });
    let gap = IDLE_PLAN.with(|p| p.borrow().iter().find(|(at, _)| *at == no).map(|(_, d)| *d));
    if let Some(days) = gap {
        let reg = op.split(' ').next().unwrap().to_string();
        IDLE_PLAN.with(|p| p.borrow_mut().retain(|(at, _)| *at != no));
        drive(t, r, &format!("{} idle days=0", reg));
        drive(t, r, &format!("{} idle days={}", reg, days));
    }
    let t0 = std::time::Instant::now();
    t.op(op);
    let ws: Vec<&str> = op.split(' ').filter(|w| !w.is_empty()).collect();
    let (ok, extra) = if ws[1] == "idle" {
        // the ledger moves on, the contract is not touched
        use soroban_sdk::testutils::Ledger as _;
        let e = r.host();
        let mut li = e.ledger().get();
        li.sequence_number += kvn(&ws, "days") * LEDGERS_PER_DAY;
        li.timestamp += kvn(&ws, "days") as u64 * 86_400;
        e.ledger().set(li);
        (true, r.idle_extra().to_string())
    } else {
        r.exec(&ws)
    };
    let st = r.state(&ws);
    t.obs(&format!("{} {}{}", if ok { "ok" } else { "err" }, extra, st));
    if std::env::var("C20_TIMING").is_ok() && t0.elapsed().as_millis() > 40 {
        eprintln!("{:>6} ms  {}", t0.elapsed().as_millis(), &op[..op.len().min(70)]);
    }
    ok
}

// ------------------------------------------------------------------------------------------
// keys
// ------------------------------------------------------------------------------------------
struct KeysSim {
    e: Env,
    c: Address,
    regs: Vec<Address>,
    nk: u32,
    nt: u32,
}
impl KeysSim {
    fn new(nk: u32, nt: u32) -> KeysSim {
        let e = env();
        let c = e.register(KeysC, ());
        let regs = (0..3).map(|_| e.register(MockReg, ())).collect();
        KeysSim { e, c, regs, nk, nt }
    }
    fn keys(&self) -> Vec<(u32, u32)> {
        (0..=self.nk).flat_map(|k| [(k, 1u32), (k, 2u32)]).collect()
    }
}
impl Reg for KeysSim {
    fn host(&self) -> &Env {
        &self.e
    }
    fn exec(&mut self, ws: &[&str]) -> (bool, String) {
        let e = &self.e;
        let (k, s, r, t) = (kvn(ws, "k"), kvn(ws, "s"), kvn(ws, "r"), kvn(ws, "t"));
        let a = args(e, [v(e, bytes_of(e, k)), v(e, &self.regs[r as usize]), v(e, s), v(e, t)]);
        let f = match ws[1] {
            "allow" => "allow_key",
            "remove" => "remove_key",
            _ => unreachable!(),
        };
        if r == 2 {
            // registry 2 has dropped every topic whenever a key is removed, and lists them again whenever one is allowed
            run(e, &self.regs[2], "set_deny", args(e, [v(e, ws[1] == "remove")]));
        }
        (run(e, &self.c, f, a).is_some(), String::new())
    }
    fn state(&self, _ws: &[&str]) -> String {
        let e = &self.e;
        let showk = |k: &SigningKey| format!("{}.{}", bytes_num(&k.public_key), k.scheme);
        let mut tt = vec![];
        for t in 0..self.nt {
            if let Some(l) = q::<SVec<SigningKey>>(e, &self.c, "get_keys_for_topic", args(e, [v(e, t)])) {
                tt.push(format!("{}:{}", t, l.iter().map(|k| showk(&k)).collect::<Vec<_>>().join(",")));
            }
        }
        let mut rr = vec![];
        let (mut at, mut ar) = (vec![], vec![]);
        for (k, s) in self.keys() {
            let key = SigningKey { public_key: bytes_of(e, k), scheme: s };
            if let Some(l) = q::<SVec<Address>>(e, &self.c, "get_registries", args(e, [v(e, key.clone())])) {
                let idx: Vec<String> =
                    l.iter().map(|a| self.regs.iter().position(|x| *x == a).map(|i| i.to_string()).unwrap_or("?".into())).collect();
                rr.push(format!("{}.{}:{}", k, s, sep(",", &idx)));
            }
            for t in 0..self.nt {
                at.push(q::<bool>(e, &self.c, "allowed_topic", args(e, [v(e, bytes_of(e, k)), v(e, s), v(e, t)])).unwrap());
            }
            for r in 0..3 {
                ar.push(
                    q::<bool>(e, &self.c, "allowed_registry", args(e, [v(e, bytes_of(e, k)), v(e, s), v(e, &self.regs[r])]))
                        .unwrap(),
                );
            }
        }
        format!("T={} R={} at={} ar={}", sep(";", &tt), sep(";", &rr), bits(&at), bits(&ar))
    }
}

fn keys_scenarios(t: &mut Trace, rng: &mut Rng, thorough: bool) {
    long_env(true);
    t.seq("keys long idle 1 31 100 days nk=3 nt=8");
    let mut s = KeysSim::new(3, 8);
    let mut build: Vec<String> = (0..20u32).map(|i| format!("keys allow k=1 s=1 r={} t={}", i % 3, i / 3)).collect();
    build.extend(strs(&["keys allow k=2 s=1 r=0 t=0", "keys allow k=2 s=2 r=1 t=1", "keys remove k=2 s=2 r=1 t=1"]));
    idle_history(t, "keys", &mut s, &build, &|_| {
        strs(&[
            "keys allow k=1 s=1 r=2 t=6",
            "keys allow k=2 s=1 r=0 t=0",
            "keys remove k=2 s=2 r=1 t=1",
            "keys remove k=1 s=1 r=0 t=0",
            "keys allow k=1 s=1 r=0 t=0",
        ])
    });
    long_env(false);
    // directed: the documented limit of 20 (topic, registry) pairs per key, exactly
    t.seq("keys directed 20 pairs per key then the 21st nk=3 nt=8");
    let mut s = KeysSim::new(3, 8);
    for i in 0..21u32 {
        drive(t, &mut s, &format!("keys allow k=1 s=1 r={} t={}", i % 3, i / 3));
    }
    drive(t, &mut s, "keys remove k=1 s=1 r=0 t=0");
    drive(t, &mut s, "keys allow k=1 s=1 r=0 t=0");
    drive(t, &mut s, "keys allow k=1 s=1 r=0 t=0");
    drive(t, &mut s, "keys allow k=1 s=2 r=0 t=0");
    // directed: duplicates, absent, empty key, disallowed topic, topic link kept while a pair remains
    t.seq("keys directed dup absent empty two-way nk=3 nt=8");
    let mut s = KeysSim::new(3, 8);
    for op in [
        "keys remove k=1 s=1 r=0 t=0",
        "keys allow k=0 s=1 r=0 t=0",
        "keys allow k=1 s=1 r=0 t=7",
        "keys allow k=1 s=1 r=0 t=0",
        "keys allow k=1 s=1 r=0 t=0",
        "keys allow k=1 s=1 r=1 t=0",
        "keys allow k=2 s=1 r=0 t=0",
        "keys allow k=1 s=2 r=2 t=3",
        "keys remove k=1 s=1 r=2 t=0",
        "keys remove k=1 s=1 r=0 t=0",
        "keys remove k=1 s=1 r=0 t=0",
        "keys remove k=1 s=1 r=1 t=0",
        "keys remove k=2 s=1 r=0 t=0",
        "keys allow k=2 s=1 r=0 t=0",
        "keys remove k=1 s=2 r=2 t=3",
        "keys remove k=2 s=1 r=0 t=0",
    ] {
        drive(t, &mut s, op);
    }
    // directed: the documented limit of 50 keys per topic, exactly
    t.seq("keys directed 50 keys per topic then the 51st nk=52 nt=2");
    let mut s = KeysSim::new(52, 2);
    for k in 1..=51u32 {
        drive(t, &mut s, &format!("keys allow k={} s=1 r=0 t=0", k));
    }
    drive(t, &mut s, "keys allow k=3 s=1 r=1 t=0"); // a key already in the topic still gets a second registry
    drive(t, &mut s, "keys remove k=1 s=1 r=0 t=0");
    drive(t, &mut s, "keys allow k=51 s=1 r=0 t=0");
    drive(t, &mut s, "keys allow k=52 s=1 r=0 t=0");
    // generated
    let nseq = if thorough { 120 } else { 14 };
    for k in 0..nseq {
        plan_idle(rng, thorough, k as u64);
        t.seq(&format!("keys rand k={} nk=3 nt=8", k));
        let mut s = KeysSim::new(3, 8);
        let mut live: Vec<(u32, u32, u32, u32)> = vec![];
        for _ in 0..40 {
            let allow = rng.chance(62);
            let (kk, sc, r, tp) = if !live.is_empty() && rng.chance(if allow { 25 } else { 80 }) {
                *rng.pick(&live)
            } else {
                (
                    if rng.chance(5) { 0 } else { rng.range(1, 3) as u32 },
                    rng.range(1, 2) as u32,
                    rng.below(3) as u32,
                    if rng.chance(6) { 7 } else { rng.below(4) as u32 },
                )
            };
            let op = format!("keys {} k={} s={} r={} t={}", if allow { "allow" } else { "remove" }, kk, sc, r, tp);
            if drive(t, &mut s, &op) {
                if allow {
                    live.push((kk, sc, r, tp));
                } else {
                    live.retain(|x| *x != (kk, sc, r, tp));
                }
            }
        }
    }
    if thorough {
        // bounded-exhaustive: all sequences of length 4 over 1 key, 2 topics, 2 registries, allow/remove
        let alphabet: Vec<String> = (0..8u32)
            .map(|i| format!("keys {} k=1 s=1 r={} t={}", if i & 4 == 0 { "allow" } else { "remove" }, i & 1, (i >> 1) & 1))
            .collect();
        exhaustive(t, "keys exhaustive nk=1 nt=2", &alphabet, 5, &mut || Box::new(KeysSim::new(1, 2)));
    }
}


// ------------------------------------------------------------------------------------------
// topics
// ------------------------------------------------------------------------------------------
struct TopicsSim {
    e: Env,
    c: Address,
    iss: Book,
    nt: u32,
    ni: u32,
    ht: u32,
}
impl TopicsSim {
    fn new(nt: u32, ni: u32, ht: u32) -> TopicsSim {
        let e = env();
        let c = e.register(TopicsC, ());
        let iss = Book::new(&e, ni as usize);
        TopicsSim { e, c, iss, nt, ni, ht }
    }
    fn ts(&self, l: &[u32]) -> SVec<u32> {
        SVec::from_slice(&self.e, l)
    }
}
impl TopicsSim {
    /// ~70 % operations that the current state accepts, ~30 % arbitrary ones
    fn gen(&self, rng: &mut Rng) -> String {
        let e = &self.e;
        let topics: Vec<u32> = q::<SVec<u32>>(e, &self.c, "get_claim_topics", args(e, [])).unwrap().iter().collect();
        let issuers: Vec<u32> = q::<SVec<Address>>(e, &self.c, "get_trusted_issuers", args(e, []))
            .unwrap()
            .iter()
            .map(|a| self.iss.idx_n(&a) as u32)
            .collect();
        let valid = rng.chance(70);
        let free_t: Vec<u32> = (0..self.nt).filter(|t| !topics.contains(t)).collect();
        let free_i: Vec<u32> = (0..self.ni).filter(|i| !issuers.contains(i)).collect();
        let any_t = |rng: &mut Rng| rng.below(self.nt as u64) as u32;
        let any_i = |rng: &mut Rng| rng.below(self.ni as u64) as u32;
        let subset = |rng: &mut Rng| -> Vec<u32> {
            if valid && !topics.is_empty() {
                let mut l: Vec<u32> = topics.iter().cloned().filter(|_| rng.chance(55)).collect();
                if l.is_empty() {
                    l.push(*rng.pick(&topics));
                }
                if rng.chance(50) {
                    l.reverse();
                }
                l
            } else {
                let mut l: Vec<u32> = (0..self.nt).filter(|_| rng.chance(45)).collect();
                if rng.chance(20) && !l.is_empty() {
                    l.push(l[0]);
                }
                l
            }
        };
        let r = rng.below(100);
        if r < 22 || (valid && topics.is_empty()) {
            format!("topics add_topic t={}", if valid && !free_t.is_empty() { *rng.pick(&free_t) } else { any_t(rng) })
        } else if r < 34 {
            format!("topics remove_topic t={}", if valid { *rng.pick(&topics) } else { any_t(rng) })
        } else if r < 60 || (valid && issuers.is_empty()) {
            format!("topics add_issuer i={} ts={}", if valid && !free_i.is_empty() { *rng.pick(&free_i) } else { any_i(rng) }, lst(&subset(rng)))
        } else if r < 72 {
            format!("topics remove_issuer i={}", if valid { *rng.pick(&issuers) } else { any_i(rng) })
        } else {
            format!("topics update i={} ts={}", if valid { *rng.pick(&issuers) } else { any_i(rng) }, lst(&subset(rng)))
        }
    }
}
impl Reg for TopicsSim {
    fn host(&self) -> &Env {
        &self.e
    }
    fn exec(&mut self, ws: &[&str]) -> (bool, String) {
        let e = &self.e;
        let (t, i, ts) = (kvn(ws, "t"), kvn(ws, "i"), kvl(ws, "ts"));
        let r = match ws[1] {
            "add_topic" => run(e, &self.c, "add_claim_topic", args(e, [v(e, t)])),
            "remove_topic" => run(e, &self.c, "remove_claim_topic", args(e, [v(e, t)])),
            "add_issuer" => run(e, &self.c, "add_trusted_issuer", args(e, [v(e, self.iss.a(i)), v(e, self.ts(&ts))])),
            "remove_issuer" => run(e, &self.c, "remove_trusted_issuer", args(e, [v(e, self.iss.a(i))])),
            "update" => run(e, &self.c, "update_issuer_topics", args(e, [v(e, self.iss.a(i)), v(e, self.ts(&ts))])),
            _ => unreachable!(),
        };
        (r.is_some(), String::new())
    }
    fn state(&self, _ws: &[&str]) -> String {
        let e = &self.e;
        let c = &self.c;
        let nats = |l: SVec<u32>| sep(",", &l.iter().map(|x| x.to_string()).collect::<Vec<_>>());
        let addrs = |l: SVec<Address>| sep(",", &l.iter().map(|a| self.iss.idx(&a)).collect::<Vec<_>>());
        let tt = nats(q::<SVec<u32>>(e, c, "get_claim_topics", args(e, [])).unwrap());
        let ii = addrs(q::<SVec<Address>>(e, c, "get_trusted_issuers", args(e, [])).unwrap());
        let mut ti = vec![];
        for t in 0..self.nt {
            if let Some(l) = q::<SVec<Address>>(e, c, "get_claim_topic_issuers", args(e, [v(e, t)])) {
                ti.push(format!("{}:{}", t, addrs(l)));
            }
        }
        let mut it = vec![];
        let mut tr = vec![];
        let mut h = String::new();
        for i in 0..self.ni {
            if let Some(l) = q::<SVec<u32>>(e, c, "get_issuer_claim_topics", args(e, [v(e, self.iss.a(i))])) {
                it.push(format!("{}:{}", i, nats(l)));
            }
            tr.push(q::<bool>(e, c, "is_trusted_issuer", args(e, [v(e, self.iss.a(i))])).unwrap());
            for t in 0..self.ht {
                h.push(match q::<bool>(e, c, "has_claim_topic", args(e, [v(e, self.iss.a(i)), v(e, t)])) {
                    Some(true) => '1',
                    Some(false) => '0',
                    None => 'x',
                });
            }
        }
        let m = match q::<Map<u32, SVec<Address>>>(e, c, "get_topics_and_issuers", args(e, [])) {
            None => "x".to_string(),
            Some(m) => sep(";", &m.iter().map(|(t, l)| format!("{}:{}", t, addrs(l))).collect::<Vec<_>>()),
        };
        format!(
            "T={} I={} TI={} IT={} M={} tr={} h={}",
            tt,
            ii,
            sep(";", &ti),
            sep(";", &it),
            m,
            bits(&tr),
            if h.is_empty() { "-".into() } else { h }
        )
    }
}

fn lst(xs: &[u32]) -> String {
    if xs.is_empty() {
        "-".into()
    } else {
        xs.iter().map(|x| x.to_string()).collect::<Vec<_>>().join(",")
    }
}

fn topics_scenarios(t: &mut Trace, rng: &mut Rng, thorough: bool) {
    long_env(true);
    t.seq("topics long idle 1 31 100 days nt=17 ni=4 ht=2");
    let mut s = TopicsSim::new(17, 4, 2);
    let mut build: Vec<String> = (0..15u32).map(|k| format!("topics add_topic t={}", k)).collect();
    build.extend(strs(&["topics add_issuer i=0 ts=0,1", "topics add_issuer i=1 ts=1", "topics add_issuer i=2 ts=0", "topics remove_issuer i=2"]));
    idle_history(t, "topics", &mut s, &build, &|_| {
        strs(&[
            "topics add_topic t=15",
            "topics add_topic t=0",
            "topics add_issuer i=0 ts=1",
            "topics remove_issuer i=2",
            "topics update i=1 ts=0,1",
            "topics update i=1 ts=1",
            "topics remove_topic t=14",
            "topics add_topic t=14",
        ])
    });
    long_env(false);
    t.seq("topics directed 15 topics then the 16th, 50 issuers then the 51st nt=17 ni=52 ht=2");
    let mut s = TopicsSim::new(17, 52, 2);
    for k in 0..16u32 {
        drive(t, &mut s, &format!("topics add_topic t={}", k));
    }
    drive(t, &mut s, "topics remove_topic t=3");
    drive(t, &mut s, "topics add_topic t=16");
    drive(t, &mut s, "topics add_topic t=3");
    drive(t, &mut s, "topics add_issuer i=0 ts=0,1,2,4,5,6,7,8,9,10,11,12,13,14,16");
    drive(t, &mut s, "topics add_issuer i=1 ts=0,1,2,4,5,6,7,8,9,10,11,12,13,14,16,3");
    drive(t, &mut s, "topics update i=0 ts=0,1");
    drive(t, &mut s, "topics update i=0 ts=0,1,2,4,5,6,7,8,9,10,11,12,13,14,16,3");
    drive(t, &mut s, "topics update i=0 ts=16,14,13,12,11,10,9,8,7,6,5,4,2,1,0");
    for k in 1..51u32 {
        drive(t, &mut s, &format!("topics add_issuer i={} ts={}", k, if k % 2 == 0 { "0" } else { "0,1" }));
    }
    drive(t, &mut s, "topics remove_issuer i=7");
    drive(t, &mut s, "topics add_issuer i=50 ts=1");
    drive(t, &mut s, "topics add_issuer i=51 ts=1");
    drive(t, &mut s, "topics remove_topic t=0");
    drive(t, &mut s, "topics update i=2 ts=1,2");
    t.seq("topics directed dup absent two-way nt=4 ni=4");
    let mut s = TopicsSim::new(4, 4, 4);
    for op in [
        "topics remove_topic t=0",
        "topics add_issuer i=0 ts=0",
        "topics add_topic t=0",
        "topics add_topic t=0",
        "topics add_topic t=1",
        "topics add_topic t=2",
        "topics add_issuer i=0 ts=-",
        "topics add_issuer i=0 ts=0,0",
        "topics add_issuer i=0 ts=0,3",
        "topics add_issuer i=0 ts=0,1",
        "topics add_issuer i=0 ts=2",
        "topics add_issuer i=1 ts=1,2",
        "topics update i=2 ts=1",
        "topics update i=0 ts=2,1",
        "topics update i=0 ts=2,1",
        "topics update i=0 ts=0",
        "topics remove_topic t=1",
        "topics remove_topic t=0",
        "topics remove_issuer i=0",
        "topics remove_issuer i=0",
        "topics add_issuer i=0 ts=2",
        "topics remove_topic t=2",
        "topics remove_issuer i=1",
        "topics add_topic t=2",
        "topics update i=0 ts=2",
    ] {
        drive(t, &mut s, op);
    }
    let nseq = if thorough { 150 } else { 16 };
    for k in 0..nseq {
        plan_idle(rng, thorough, k as u64);
        t.seq(&format!("topics rand k={} nt=4 ni=4", k));
        let mut s = TopicsSim::new(4, 4, 4);
        for _ in 0..40 {
            let op = s.gen(rng);
            drive(t, &mut s, &op);
        }
    }
    if thorough {
        let alphabet: Vec<String> = [
            "topics add_topic t=0",
            "topics add_topic t=1",
            "topics remove_topic t=0",
            "topics add_issuer i=0 ts=0",
            "topics add_issuer i=0 ts=0,1",
            "topics add_issuer i=1 ts=1",
            "topics remove_issuer i=0",
            "topics update i=0 ts=1",
            "topics update i=1 ts=0,1",
        ]
        .iter()
        .map(|x| x.to_string())
        .collect();
        exhaustive(t, "topics exhaustive nt=2 ni=2", &alphabet, 5, &mut || Box::new(TopicsSim::new(2, 2, 2)));
    }
}

// ------------------------------------------------------------------------------------------
// binder
// ------------------------------------------------------------------------------------------
struct BinderSim {
    e: Env,
    c: Address,
    toks: Book,
    u: u32,
}
impl BinderSim {
    fn new(u: u32) -> BinderSim {
        let e = env();
        let c = e.register(BinderC, ());
        let toks = Book::new(&e, if u > 0 { u as usize + 2 } else { 20_002 });
        BinderSim { e, c, toks, u }
    }
}
impl Reg for BinderSim {
    fn host(&self) -> &Env {
        &self.e
    }
    fn exec(&mut self, ws: &[&str]) -> (bool, String) {
        let e = &self.e;
        let r = match ws[1] {
            "bind" => run(e, &self.c, "bind_token", args(e, [v(e, self.toks.a(kvn(ws, "t")))])),
            "unbind" => run(e, &self.c, "unbind_token", args(e, [v(e, self.toks.a(kvn(ws, "t")))])),
            "bind_many" => {
                let l: Vec<Address> = kvl(ws, "ts").iter().map(|i| self.toks.a(*i).clone()).collect();
                run(e, &self.c, "bind_tokens", args(e, [v(e, SVec::from_slice(e, &l))]))
            }
            "preload" => {
                // state injection (quick tier): the storage `bind_tokens` leaves after binding the
                // tokens 0..n-1 in order to an empty binder (the thorough tier does it for real)
                let n = kvn(ws, "n");
                e.as_contract(&self.c, || {
                    for b in 0..(n + 99) / 100 {
                        let l: Vec<Address> = (b * 100..n.min(b * 100 + 100)).map(|i| self.toks.a(i).clone()).collect();
                        e.storage().persistent().set(&TokenBinderStorageKey::TokenBucket(b), &SVec::from_slice(e, &l));
                    }
                    e.storage().persistent().set(&TokenBinderStorageKey::TotalCount, &n);
                });
                Some(().into_val(e))
            }
            _ => unreachable!(),
        };
        (r.is_some(), String::new())
    }
    fn state(&self, ws: &[&str]) -> String {
        let e = &self.e;
        let c = &self.c;
        let list: Vec<u64> =
            q::<SVec<Address>>(e, c, "linked_tokens", args(e, [])).unwrap().iter().map(|a| self.toks.idx_n(&a)).collect();
        let n = list.len() as u32;
        let cnt: u32 = q(e, c, "total_count", args(e, [])).unwrap();
        let (pt, pi): (Vec<u32>, Vec<u32>) = if self.u > 0 {
            ((0..self.u).collect(), (0..=self.u).collect())
        } else {
            let mut optoks: Vec<u32> = match ws[1] {
                "bind_many" => {
                    let l = kvl(ws, "ts");
                    if l.is_empty() {
                        vec![]
                    } else {
                        vec![l[0], *l.last().unwrap()]
                    }
                }
                "preload" | "idle" => vec![],
                _ => vec![kvn(ws, "t")],
            };
            optoks.extend([0, 1, 99, 100, 101, 199, 200, 201, 9999, 10000]);
            (
                dedup_keep(optoks),
                dedup_keep(vec![0, 1, 98, 99, 100, 101, 198, 199, 200, 201, n.saturating_sub(2), n.saturating_sub(1), n]),
            )
        };
        let b: Vec<String> = pt
            .iter()
            .map(|t| format!("{}:{}", t, if q::<bool>(e, c, "is_token_bound", args(e, [v(e, self.toks.a(*t))])).unwrap() { 1 } else { 0 }))
            .collect();
        let ix: Vec<String> = pt
            .iter()
            .map(|t| {
                format!(
                    "{}:{}",
                    t,
                    q::<u32>(e, c, "get_token_index", args(e, [v(e, self.toks.a(*t))])).map(|i| i.to_string()).unwrap_or("x".into())
                )
            })
            .collect();
        let at: Vec<String> = pi
            .iter()
            .map(|i| {
                format!(
                    "{}:{}",
                    i,
                    q::<Address>(e, c, "get_token_by_index", args(e, [v(e, *i)])).map(|a| self.toks.idx(&a)).unwrap_or("x".into())
                )
            })
            .collect();
        let ls = if list.len() <= 16 {
            sep(",", &list.iter().map(|x| x.to_string()).collect::<Vec<_>>())
        } else {
            format!("#{}", digest(&list))
        };
        format!(
            "n={} cnt={} list={} sum={} sq={} b={} ix={} at={}",
            n,
            cnt,
            ls,
            sum1(&list),
            sumsq(&list),
            sep(",", &b),
            sep(",", &ix),
            sep(",", &at)
        )
    }
}

/// 9999 tokens 0..9998 are bound. (`bind_tokens` copies a host map per already-bound token:
/// an ACCEPTED batch at ~10 000 tokens takes seconds; the quick tier only sends refused ones.)
fn binder_at_limit(t: &mut Trace, s: &mut BinderSim, slow: bool) {
    if slow {
        drive(t, s, "binder bind_many ts=20000..20001");
        drive(t, s, "binder unbind t=20000");
    }
    for op in [
        "binder bind_many ts=9999..10001",
        "binder bind t=9999",
        "binder bind t=10000",
        "binder bind_many ts=10000..10001",
        "binder unbind t=0",
        "binder unbind t=9999",
        "binder unbind t=9998",
        "binder bind t=10002",
        "binder bind t=10000",
        "binder bind t=10001",
        "binder bind_many ts=10004..10005",
        "binder bind t=10003",
        "binder unbind t=5000",
        "binder bind t=10003",
        "binder bind t=5000",
    ] {
        drive(t, s, op);
    }
}

fn binder_scenarios(t: &mut Trace, rng: &mut Rng, thorough: bool) {
    long_env(true);
    t.seq("binder long idle 1 31 100 days at the limit big=1");
    let mut s = BinderSim::new(0);
    idle_history(
        t,
        "binder",
        &mut s,
        &strs(&["binder preload n=9999", "binder bind t=9999", "binder unbind t=0", "binder bind t=0"]),
        &|_| {
            strs(&[
                "binder bind t=10001",
                "binder bind t=5",
                "binder bind_many ts=10001..10002",
                "binder unbind t=20000",
                "binder unbind t=7",
                "binder bind t=7",
            ])
        },
    );
    long_env(false);
    t.seq("binder directed remove first last only, re-add u=6");
    let mut s = BinderSim::new(6);
    for op in [
        "binder unbind t=0",
        "binder bind t=0",
        "binder bind t=0",
        "binder unbind t=0",
        "binder bind t=1",
        "binder bind t=2",
        "binder bind t=3",
        "binder unbind t=1",
        "binder unbind t=2",
        "binder bind t=1",
        "binder bind_many ts=4,5,4",
        "binder bind_many ts=4,1",
        "binder bind_many ts=4,5",
        "binder bind_many ts=-",
        "binder unbind t=3",
        "binder unbind t=5",
        "binder unbind t=4",
        "binder unbind t=1",
        "binder unbind t=1",
        "binder bind t=2",
    ] {
        drive(t, &mut s, op);
    }
    t.seq("binder directed bucket boundaries 99 100 101 200 201 big=1");
    let mut s = BinderSim::new(0);
    for op in [
        "binder bind_many ts=0..99",
        "binder bind t=99",
        "binder unbind t=0",
        "binder bind t=0",
        "binder bind t=100",
        "binder unbind t=5",
        "binder unbind t=100",
        "binder unbind t=99",
        "binder bind_many ts=300..501",
        "binder bind_many ts=300..500",
        "binder bind_many ts=99..101",
        "binder unbind t=1",
        "binder unbind t=499",
        "binder bind_many ts=500..602",
        "binder unbind t=300",
        "binder unbind t=601",
        "binder unbind t=50",
        "binder bind t=5",
        "binder bind_many ts=5,700",
        "binder bind_many ts=700..899",
        // a batch naming a token that is bound in an EARLIER bucket than the one the batch lands in
        "binder bind_many ts=10,950",
        "binder bind_many ts=950,10",
        "binder bind_many ts=950,951,320,952",
        "binder bind_many ts=950,951",
    ] {
        drive(t, &mut s, op);
    }
    for _ in 0..(if thorough { 60 } else { 12 }) {
        // batches of fresh tokens with one token from anywhere in the range (bound in some bucket, or not)
        let x = rng.below(960) as u32;
        let f = 2000 + rng.below(17_000) as u32;
        let l = if rng.chance(50) { vec![f, x] } else { vec![x, f, f + 1] };
        drive(t, &mut s, &format!("binder bind_many ts={}", lst(&l)));
    }
    for _ in 0..(if thorough { 220 } else { 40 }) {
        // shrink back across the boundaries by unbinding random bound tokens
        let cands: Vec<u32> = (0..900).collect();
        let x = *rng.pick(&cands);
        drive(t, &mut s, &format!("binder unbind t={}", x));
    }
    if thorough && first_shard() {
        t.seq("binder directed the limit of 10000 tokens from empty big=1");
        let mut s = BinderSim::new(0);
        for k in 0..49u32 {
            drive(t, &mut s, &format!("binder bind_many ts={}..{}", k * 200, k * 200 + 200));
        }
        drive(t, &mut s, "binder bind_many ts=9800..10001"); // 201: batch size
        drive(t, &mut s, "binder bind_many ts=9800..10000"); // the 50th batch of 200 fills it exactly
        drive(t, &mut s, "binder bind_many ts=10000..10001");
        drive(t, &mut s, "binder bind t=10000");
        drive(t, &mut s, "binder unbind t=9999");
        binder_at_limit(t, &mut s, true);
    }
    // every entry point that can reach MAX_TOKENS: the batch entry point from MAX-3
    t.seq("binder directed exact fill through bind_tokens (9997 preloaded) big=1");
    let mut s = BinderSim::new(0);
    for op in [
        "binder preload n=9997",
        "binder bind_many ts=9997..10001", // k+1 = 4: refused, nothing bound
        "binder bind_many ts=9997..10000", // k = 3: accepted, count = MAX
        "binder bind_many ts=10000..10001", // a batch of one past the limit
        "binder bind t=10000",
        "binder unbind t=5",
        "binder bind_many ts=10000..10002", // one slot free, batch of two
        // batch of one into the last slot (an ACCEPTED batch at this size costs ~5 s: the quick tier
        // sends one of them, above, and fills this slot through bind_token)
        if thorough { "binder bind_many ts=10000..10001" } else { "binder bind t=10000" },
        "binder bind t=10001",
        "binder bind_many ts=10001..10002",
    ] {
        drive(t, &mut s, op);
    }
    t.seq("binder directed the limit of 10000 tokens (9999 preloaded) big=1");
    let mut s = BinderSim::new(0);
    drive(t, &mut s, "binder preload n=9999");
    binder_at_limit(t, &mut s, false);
    let nseq = if thorough { 200 } else { 16 };
    for k in 0..nseq {
        plan_idle(rng, thorough, k as u64);
        t.seq(&format!("binder rand k={} u=6", k));
        let mut s = BinderSim::new(6);
        for _ in 0..40 {
            let r = rng.below(100);
            let op = if r < 45 {
                format!("binder bind t={}", rng.below(6))
            } else if r < 85 {
                format!("binder unbind t={}", rng.below(6))
            } else {
                let l: Vec<u32> = (0..rng.below(4)).map(|_| rng.below(6) as u32).collect();
                format!("binder bind_many ts={}", lst(&l))
            };
            drive(t, &mut s, &op);
        }
    }
    if thorough {
        let alphabet: Vec<String> = ["binder bind t=0", "binder bind t=1", "binder bind t=2", "binder unbind t=0", "binder unbind t=1", "binder unbind t=2", "binder bind_many ts=1,2"]
            .iter()
            .map(|x| x.to_string())
            .collect();
        exhaustive(t, "binder exhaustive u=3", &alphabet, 6, &mut || Box::new(BinderSim::new(3)));
    }
}

// ------------------------------------------------------------------------------------------
// docs
// ------------------------------------------------------------------------------------------
struct DocsSim {
    e: Env,
    c: Address,
    u: u32,
}
impl DocsSim {
    fn new(u: u32) -> DocsSim {
        let e = env();
        let c = e.register(DocsC, ());
        DocsSim { e, c, u }
    }
    fn set(&self, n: u32, u: u32, h: u32, ts: u32) -> bool {
        use soroban_sdk::testutils::Ledger as _;
        let e = &self.e;
        e.ledger().set_timestamp(ts as u64);
        let uri = SString::from_str(e, &"a".repeat(u as usize));
        run(e, &self.c, "set_document", args(e, [v(e, bn32(e, n)), v(e, uri), v(e, bn32(e, h))])).is_some()
    }
    fn showdoc(d: &Document) -> String {
        format!("{}.{}.{}", d.uri.len(), bn32_num(&d.document_hash), d.timestamp)
    }
}
impl Reg for DocsSim {
    fn host(&self) -> &Env {
        &self.e
    }
    fn exec(&mut self, ws: &[&str]) -> (bool, String) {
        let e = &self.e;
        let ok = match ws[1] {
            "set" => self.set(kvn(ws, "n"), kvn(ws, "u"), kvn(ws, "h"), kvn(ws, "ts")),
            "remove" => run(e, &self.c, "remove_document", args(e, [v(e, bn32(e, kvn(ws, "n")))])).is_some(),
            "fill" => {
                let mut all = true;
                for n in kvn(ws, "a")..kvn(ws, "b") {
                    all &= self.set(n, kvn(ws, "u"), kvn(ws, "h"), kvn(ws, "ts"));
                }
                all
            }
            "preload" => {
                // state injection (quick tier): the storage left by `set_document` for the names
                // 0..n-1 in order on an empty manager (the thorough tier does it for real)
                let (n, u, h, ts) = (kvn(ws, "n"), kvn(ws, "u"), kvn(ws, "h"), kvn(ws, "ts"));
                let doc = Document { uri: SString::from_str(e, &"a".repeat(u as usize)), document_hash: bn32(e, h), timestamp: ts as u64 };
                e.as_contract(&self.c, || {
                    for b in 0..(n + 49) / 50 {
                        let l: Vec<(BytesN<32>, Document)> = (b * 50..n.min(b * 50 + 50)).map(|i| (bn32(e, i), doc.clone())).collect();
                        e.storage().persistent().set(&DocumentStorageKey::Bucket(b), &SVec::from_slice(e, &l));
                    }
                    for i in 0..n {
                        e.storage().persistent().set(&DocumentStorageKey::Index(bn32(e, i)), &i);
                    }
                    e.storage().persistent().set(&DocumentStorageKey::Count, &n);
                });
                true
            }
            _ => unreachable!(),
        };
        (ok, String::new())
    }
    fn state(&self, ws: &[&str]) -> String {
        let e = &self.e;
        let c = &self.c;
        let n: u32 = q(e, c, "get_document_count", args(e, [])).unwrap();
        let nb = if n == 0 { 0 } else { (n - 1) / 50 + 1 };
        let mut list: Vec<(u32, Document)> = vec![];
        let mut bk = vec![];
        for b in 0..=nb {
            let l: SVec<(BytesN<32>, Document)> = q(e, c, "get_documents", args(e, [v(e, b)])).unwrap();
            bk.push(l.len().to_string());
            if b < nb {
                list.extend(l.iter().map(|(nm, d)| (bn32_num(&nm), d)));
            }
        }
        let names: Vec<u64> = list.iter().map(|x| x.0 as u64).collect();
        let (pn, pi): (Vec<u32>, Vec<u32>) = if self.u > 0 {
            ((0..self.u).collect(), (0..=self.u).collect())
        } else {
            let mut ns: Vec<u32> = match ws[1] {
                "fill" => vec![kvn(ws, "a"), kvn(ws, "b").saturating_sub(1)],
                "preload" | "idle" => vec![],
                _ => vec![kvn(ws, "n")],
            };
            ns.extend([0, 1, 49, 50, 51, 4999, 5000]);
            (dedup_keep(ns), dedup_keep(vec![0, 49, 50, 51, 99, 100, n.saturating_sub(2), n.saturating_sub(1), n]))
        };
        let ls = if list.len() <= 16 {
            sep(",", &list.iter().map(|(nm, d)| format!("{}:{}", nm, Self::showdoc(d))).collect::<Vec<_>>())
        } else {
            let flat: Vec<u64> = list
                .iter()
                .flat_map(|(nm, d)| [*nm as u64, d.uri.len() as u64, bn32_num(&d.document_hash) as u64, d.timestamp])
                .collect();
            format!("#{}", digest(&flat))
        };
        let g: Vec<String> = pn
            .iter()
            .map(|nm| {
                format!(
                    "{}:{}",
                    nm,
                    q::<Document>(e, c, "get_document", args(e, [v(e, bn32(e, *nm))])).map(|d| Self::showdoc(&d)).unwrap_or("x".into())
                )
            })
            .collect();
        let at: Vec<String> = pi
            .iter()
            .map(|i| {
                format!(
                    "{}:{}",
                    i,
                    q::<(BytesN<32>, Document)>(e, c, "get_document_by_index", args(e, [v(e, *i)]))
                        .map(|(nm, _)| bn32_num(&nm).to_string())
                        .unwrap_or("x".into())
                )
            })
            .collect();
        format!(
            "n={} list={} sum={} sq={} g={} at={} bk={}",
            n,
            ls,
            sum1(&names),
            sumsq(&names),
            sep(",", &g),
            sep(",", &at),
            sep(",", &bk)
        )
    }
}

/// 4999 documents 0..4998 are stored
fn docs_at_limit(t: &mut Trace, s: &mut DocsSim) {
    for op in [
        "docs fill a=4999 b=5001 u=2 h=3 ts=3001",
        "docs remove n=4999",
        "docs set n=4999 u=2 h=3 ts=3001",
        "docs set n=5000 u=2 h=3 ts=3002",
        "docs set n=17 u=9 h=9 ts=3003",
        "docs remove n=17",
        "docs fill a=5000 b=5002 u=2 h=3 ts=3004",
        "docs remove n=4999",
        "docs remove n=0",
        "docs set n=5001 u=2 h=3 ts=3005",
        "docs set n=5002 u=2 h=3 ts=3006",
        "docs set n=5003 u=2 h=3 ts=3006",
    ] {
        drive(t, s, op);
    }
}

fn docs_scenarios(t: &mut Trace, rng: &mut Rng, thorough: bool) {
    long_env(true);
    t.seq("docs long idle 1 31 100 days u=5");
    let mut s = DocsSim::new(5);
    idle_history(
        t,
        "docs",
        &mut s,
        &strs(&["docs set n=0 u=1 h=1 ts=6000", "docs set n=1 u=2 h=2 ts=6001", "docs set n=2 u=3 h=3 ts=6002", "docs set n=3 u=200 h=4 ts=6003", "docs remove n=1"]),
        &|gap| {
            vec![
                "docs remove n=1".to_string(),
                format!("docs set n=0 u=5 h=9 ts={}", 7000 + gap),
                "docs set n=4 u=201 h=1 ts=7100".to_string(),
                "docs remove n=2".to_string(),
                format!("docs set n=2 u=3 h=3 ts={}", 7200 + gap),
            ]
        },
    );
    if thorough && first_shard() {
        t.seq("docs long idle 1 31 100 days at the limit big=1");
        let mut s = DocsSim::new(0);
        idle_history(
            t,
            "docs",
            &mut s,
            &strs(&["docs preload n=4999 u=2 h=3 ts=3000", "docs set n=4999 u=2 h=3 ts=3001", "docs remove n=0", "docs set n=0 u=2 h=3 ts=3002"]),
            &|_| strs(&["docs set n=5001 u=2 h=3 ts=3003", "docs remove n=6000", "docs set n=17 u=9 h=9 ts=3004", "docs remove n=7", "docs set n=7 u=2 h=3 ts=3005"]),
        );
    }
    long_env(false);
    t.seq("docs directed update, remove first last only, uri length 200 201 u=5");
    let mut s = DocsSim::new(5);
    for op in [
        "docs remove n=0",
        "docs set n=0 u=10 h=1 ts=1000",
        "docs set n=0 u=200 h=2 ts=1001",
        "docs set n=0 u=201 h=3 ts=1002",
        "docs set n=1 u=201 h=3 ts=1002",
        "docs remove n=0",
        "docs remove n=0",
        "docs set n=1 u=0 h=4 ts=1003",
        "docs set n=2 u=5 h=5 ts=1004",
        "docs set n=3 u=6 h=6 ts=1005",
        "docs remove n=1",
        "docs set n=3 u=7 h=7 ts=1006",
        "docs remove n=2",
        "docs set n=1 u=8 h=8 ts=1007",
        "docs remove n=1",
        "docs remove n=3",
        "docs set n=4 u=1 h=1 ts=1",
    ] {
        drive(t, &mut s, op);
    }
    t.seq("docs directed bucket boundaries 49 50 51 big=1");
    let mut s = DocsSim::new(0);
    for op in [
        "docs fill a=0 b=49 u=3 h=7 ts=2000",
        "docs set n=49 u=4 h=8 ts=2001",
        "docs remove n=0",
        "docs set n=0 u=4 h=9 ts=2002",
        "docs set n=50 u=4 h=9 ts=2003",
        "docs set n=49 u=5 h=10 ts=2004",
        "docs remove n=7",
        "docs remove n=50",
        "docs remove n=49",
        "docs fill a=100 b=153 u=1 h=1 ts=2005",
        "docs remove n=1",
        "docs remove n=152",
        "docs set n=120 u=9 h=9 ts=2006",
        "docs remove n=100",
        "docs fill a=100 b=103 u=2 h=2 ts=2007",
    ] {
        drive(t, &mut s, op);
    }
    for _ in 0..(if thorough { 160 } else { 30 }) {
        drive(t, &mut s, &format!("docs remove n={}", rng.below(160)));
    }
    // swap-remove ACROSS buckets: the last document moves into a slot of another bucket and is then
    // updated, looked up and removed through its stored index
    t.seq("docs directed swap-remove across buckets big=1");
    let mut s = DocsSim::new(0);
    for op in [
        "docs fill a=0 b=120 u=3 h=7 ts=2100",
        "docs remove n=60",
        "docs set n=119 u=9 h=9 ts=2101",
        "docs set n=10 u=8 h=8 ts=2102",
        "docs remove n=119",
        "docs remove n=10",
        "docs remove n=70",
        "docs set n=118 u=7 h=7 ts=2103",
        "docs remove n=118",
        "docs remove n=5",
        "docs set n=117 u=6 h=6 ts=2104",
        "docs remove n=117",
        "docs set n=60 u=5 h=5 ts=2105",
        "docs remove n=55",
        "docs remove n=60",
    ] {
        drive(t, &mut s, op);
    }
    // the limit of 5000 documents
    if thorough && first_shard() {
        t.seq("docs directed the limit of 5000 documents from empty big=1");
        let mut s = DocsSim::new(0);
        for k in 0..24u32 {
            drive(t, &mut s, &format!("docs fill a={} b={} u=2 h=3 ts=3000", k * 200, k * 200 + 200));
        }
        drive(t, &mut s, "docs fill a=4800 b=4999 u=2 h=3 ts=3000");
        docs_at_limit(t, &mut s);
    }
    t.seq("docs directed the limit of 5000 documents (4999 preloaded) big=1");
    let mut s = DocsSim::new(0);
    drive(t, &mut s, "docs preload n=4999 u=2 h=3 ts=3000");
    docs_at_limit(t, &mut s);
    let nseq = if thorough { 200 } else { 16 };
    for k in 0..nseq {
        plan_idle(rng, thorough, k as u64);
        t.seq(&format!("docs rand k={} u=5", k));
        let mut s = DocsSim::new(5);
        for j in 0..40u32 {
            let op = if rng.chance(58) {
                format!(
                    "docs set n={} u={} h={} ts={}",
                    rng.below(5),
                    *rng.pick(&[0u32, 1, 7, 199, 200, 201, 30]),
                    rng.below(1000),
                    5000 + j
                )
            } else {
                format!("docs remove n={}", rng.below(5))
            };
            drive(t, &mut s, &op);
        }
    }
    if thorough {
        let alphabet: Vec<String> = ["docs set n=0 u=1 h=1 ts=1", "docs set n=1 u=2 h=2 ts=2", "docs set n=2 u=3 h=3 ts=3", "docs set n=0 u=4 h=4 ts=4", "docs remove n=0", "docs remove n=1", "docs remove n=2"]
            .iter()
            .map(|x| x.to_string())
            .collect();
        exhaustive(t, "docs exhaustive u=3", &alphabet, 6, &mut || Box::new(DocsSim::new(3)));
    }
}

// ------------------------------------------------------------------------------------------
// irs
// ------------------------------------------------------------------------------------------
struct IrsSim {
    e: Env,
    c: Address,
    accts: Book,
    idents: Book,
    na: u32,
}
impl IrsSim {
    fn new(na: u32) -> IrsSim {
        let e = env();
        let c = e.register(IrsC, ());
        let accts = Book::new(&e, na as usize);
        let idents = Book::new(&e, 4);
        IrsSim { e, c, accts, idents, na }
    }
    /// "code/m/len" -> CountryData
    fn cd(&self, s: &str) -> CountryData {
        let p: Vec<u32> = s.split('/').map(|x| x.parse().unwrap()).collect();
        let metadata = if p[1] == 0 {
            None
        } else {
            let mut m = Map::new(&self.e);
            for j in 0..p[1] {
                m.set(soroban_sdk::Symbol::new(&self.e, &format!("k{}", j)), SString::from_str(&self.e, &"m".repeat(p[2] as usize)));
            }
            Some(m)
        };
        CountryData { country: CountryRelation::Individual(IndividualCountryRelation::Residence(p[0])), metadata }
    }
    fn cds(&self, ws: &[&str]) -> SVec<CountryData> {
        let s = kv(ws, "cs").unwrap_or("-");
        let mut out = SVec::new(&self.e);
        if s != "-" {
            for x in s.split(',') {
                out.push_back(self.cd(x));
            }
        }
        out
    }
    fn show_cd(c: &CountryData) -> String {
        let code = match &c.country {
            CountryRelation::Individual(IndividualCountryRelation::Residence(x)) => *x,
            _ => 99999,
        };
        match &c.metadata {
            None => format!("{}/0/0", code),
            Some(m) => format!("{}/{}/{}", code, m.len(), m.values().first().map(|s| s.len()).unwrap_or(0)),
        }
    }
    fn show_cds(l: &SVec<CountryData>) -> String {
        sep("+", &l.iter().map(|c| Self::show_cd(&c)).collect::<Vec<_>>())
    }
}
impl IrsSim {
    /// ~70 % operations that the current state accepts, ~30 % arbitrary ones
    fn gen(&self, rng: &mut Rng) -> String {
        let e = &self.e;
        let has = |a: u32| q::<Address>(e, &self.c, "stored_identity", args(e, [v(e, self.accts.a(a))])).is_some();
        let rec = |a: u32| q::<Option<Address>>(e, &self.c, "get_recovered_to", args(e, [v(e, self.accts.a(a))])).unwrap().is_some();
        let ncd = |a: u32| q::<SVec<CountryData>>(e, &self.c, "get_country_entries", args(e, [v(e, self.accts.a(a))])).unwrap().len();
        let reg: Vec<u32> = (0..self.na).filter(|a| has(*a)).collect();
        let free: Vec<u32> = (0..self.na).filter(|a| !has(*a) && !rec(*a)).collect();
        let valid = rng.chance(70);
        let cdg = |rng: &mut Rng, valid: bool| -> String {
            match if valid { 9 } else { rng.below(10) } {
                0 => format!("{}/11/1", rng.below(900)),
                1 => format!("{}/1/101", rng.below(900)),
                2 => format!("{}/10/100", rng.below(900)),
                _ => if rng.chance(15) { format!("{}/{}/{}", rng.below(900), rng.range(1, 10), rng.range(0, 100)) } else { format!("{}/0/0", rng.below(900)) },
            }
        };
        let any = |rng: &mut Rng| rng.below(self.na as u64) as u32;
        let pick_reg = |rng: &mut Rng| if valid && !reg.is_empty() { *rng.pick(&reg) } else { any(rng) };
        let pick_free = |rng: &mut Rng| if valid && !free.is_empty() { *rng.pick(&free) } else { any(rng) };
        let r = rng.below(100);
        if r < 22 || (valid && reg.is_empty()) {
            let n = if valid { *rng.pick(&[1u64, 1, 2, 3, 14, 15]) } else { *rng.pick(&[0u64, 1, 2, 15, 16]) };
            let cs: Vec<String> = (0..n).map(|_| cdg(rng, valid)).collect();
            format!("irs add a={} id={} ty={} cs={}", pick_free(rng), rng.below(3), rng.below(2), sep(",", &cs))
        } else if r < 30 {
            format!("irs modify a={} id={}", pick_reg(rng), rng.below(3))
        } else if r < 40 {
            format!("irs remove a={}", pick_reg(rng))
        } else if r < 58 {
            format!("irs recover old={} new={}", pick_reg(rng), pick_free(rng))
        } else if r < 74 {
            let a = pick_reg(rng);
            let room = 15u64.saturating_sub(ncd(a) as u64);
            let n = if valid { if room == 0 { 1 } else { *rng.pick(&[1, 1, 2, room]) }.min(room.max(1)) } else { *rng.pick(&[0u64, room + 1, 1]) };
            let cs: Vec<String> = (0..n).map(|_| cdg(rng, valid)).collect();
            format!("irs add_countries a={} cs={}", a, sep(",", &cs))
        } else if r < 87 {
            let a = pick_reg(rng);
            let n = ncd(a) as u64;
            let i = if valid && n > 0 { rng.below(n) } else { n + rng.below(2) };
            format!("irs modify_country a={} i={} c={}", a, i, cdg(rng, valid))
        } else {
            let a = pick_reg(rng);
            let n = ncd(a) as u64;
            let mid = rng.below(n.max(1));
            let i = if valid && n > 0 { *rng.pick(&[0, n - 1, mid]) } else { n + rng.below(2) };
            format!("irs delete_country a={} i={}", a, i)
        }
    }
}
impl Reg for IrsSim {
    fn host(&self) -> &Env {
        &self.e
    }
    fn exec(&mut self, ws: &[&str]) -> (bool, String) {
        let e = &self.e;
        let a = |k: &str| v(e, self.accts.a(kvn(ws, k)));
        let r = match ws[1] {
            "add" => {
                let ty = if kvn(ws, "ty") == 0 { IdentityType::Individual } else { IdentityType::Organization };
                run(e, &self.c, "add_identity", args(e, [a("a"), v(e, self.idents.a(kvn(ws, "id"))), v(e, ty), v(e, self.cds(ws))]))
            }
            "modify" => run(e, &self.c, "modify_identity", args(e, [a("a"), v(e, self.idents.a(kvn(ws, "id")))])),
            "remove" => run(e, &self.c, "remove_identity", args(e, [a("a")])),
            "recover" => run(e, &self.c, "recover_identity", args(e, [a("old"), a("new")])),
            "add_countries" => run(e, &self.c, "add_countries", args(e, [a("a"), v(e, self.cds(ws))])),
            "modify_country" => {
                run(e, &self.c, "modify_country", args(e, [a("a"), v(e, kvn(ws, "i")), v(e, self.cd(kv(ws, "c").unwrap()))]))
            }
            "delete_country" => run(e, &self.c, "delete_country", args(e, [a("a"), v(e, kvn(ws, "i"))])),
            _ => unreachable!(),
        };
        (r.is_some(), String::new())
    }
    fn state(&self, _ws: &[&str]) -> String {
        let e = &self.e;
        let c = &self.c;
        let (mut id, mut pr, mut ce, mut rt, mut cd) = (vec![], vec![], vec![], vec![], vec![]);
        for a in 0..self.na {
            let ad = self.accts.a(a);
            id.push(format!(
                "{}:{}",
                a,
                q::<Address>(e, c, "stored_identity", args(e, [v(e, ad)])).map(|x| self.idents.idx(&x)).unwrap_or("x".into())
            ));
            pr.push(match q::<IdentityProfile>(e, c, "get_identity_profile", args(e, [v(e, ad)])) {
                Some(p) => format!(
                    "{}:{}:{}",
                    a,
                    if p.identity_type == IdentityType::Individual { 0 } else { 1 },
                    Self::show_cds(&p.countries)
                ),
                None => format!("{}:x", a),
            });
            let entries: SVec<CountryData> = q(e, c, "get_country_entries", args(e, [v(e, ad)])).unwrap();
            ce.push(format!("{}:{}", a, Self::show_cds(&entries)));
            rt.push(format!(
                "{}:{}",
                a,
                q::<Option<Address>>(e, c, "get_recovered_to", args(e, [v(e, ad)])).unwrap().map(|x| self.accts.idx(&x)).unwrap_or("x".into())
            ));
            let per: Vec<String> = (0..=entries.len())
                .map(|i| q::<CountryData>(e, c, "get_country_data", args(e, [v(e, ad), v(e, i)])).map(|x| Self::show_cd(&x)).unwrap_or("x".into()))
                .collect();
            cd.push(format!("{}:{}", a, sep("+", &per)));
        }
        format!("ID={} PR={} CE={} RT={} CD={}", sep(",", &id), sep(",", &pr), sep(",", &ce), sep(",", &rt), sep(",", &cd))
    }
}

fn irs_scenarios(t: &mut Trace, rng: &mut Rng, thorough: bool) {
    long_env(true);
    t.seq("irs long idle 1 31 100 days na=4");
    let mut s = IrsSim::new(4);
    let c15i: Vec<String> = (0..15).map(|i| format!("{}/0/0", 200 + i)).collect();
    idle_history(
        t,
        "irs",
        &mut s,
        &[
            "irs add a=0 id=0 ty=0 cs=1/0/0".to_string(),
            "irs recover old=0 new=1".to_string(),
            format!("irs add a=2 id=1 ty=1 cs={}", c15i.join(",")),
            "irs add a=3 id=2 ty=0 cs=1/0/0".to_string(),
            "irs remove a=3".to_string(),
        ],
        &|_| {
            strs(&[
                "irs add a=0 id=2 ty=0 cs=1/0/0",
                "irs recover old=2 new=0",
                "irs add a=1 id=2 ty=0 cs=1/0/0",
                "irs add_countries a=2 cs=9/0/0",
                "irs remove a=3",
                "irs modify a=1 id=2",
                "irs delete_country a=2 i=0",
                "irs add_countries a=2 cs=9/0/0",
            ])
        },
    );
    long_env(false);
    t.seq("irs directed recovery, re-registration, country limits na=4");
    let mut s = IrsSim::new(4);
    let c15: Vec<String> = (0..15).map(|i| format!("{}/0/0", 100 + i)).collect();
    let c16: Vec<String> = (0..16).map(|i| format!("{}/0/0", 100 + i)).collect();
    for op in [
        "irs remove a=0".to_string(),
        "irs modify a=0 id=1".to_string(),
        "irs recover old=0 new=1".to_string(),
        "irs add a=0 id=0 ty=0 cs=-".to_string(),
        format!("irs add a=0 id=0 ty=0 cs={}", c16.join(",")),
        format!("irs add a=0 id=0 ty=1 cs={}", c15.join(",")),
        "irs add_countries a=0 cs=7/0/0".to_string(),
        "irs delete_country a=0 i=15".to_string(),
        "irs delete_country a=0 i=14".to_string(),
        "irs add_countries a=0 cs=7/0/0,8/0/0".to_string(),
        "irs add_countries a=0 cs=7/0/0".to_string(),
        "irs add a=0 id=1 ty=0 cs=1/0/0".to_string(),
        "irs add a=1 id=1 ty=0 cs=840/10/100".to_string(),
        "irs add a=2 id=1 ty=0 cs=840/11/5".to_string(),
        "irs add a=2 id=1 ty=0 cs=840/2/101".to_string(),
        "irs recover old=0 new=1".to_string(),
        "irs recover old=0 new=0".to_string(),
        "irs recover old=0 new=2".to_string(),
        "irs add a=0 id=2 ty=0 cs=1/0/0".to_string(),
        "irs recover old=1 new=0".to_string(),
        "irs recover old=2 new=3".to_string(),
        "irs modify a=3 id=2".to_string(),
        "irs remove a=3".to_string(),
        "irs add a=2 id=2 ty=0 cs=1/0/0".to_string(),
        "irs add a=3 id=2 ty=0 cs=1/0/0,2/1/1".to_string(),
        "irs add_countries a=3 cs=5/11/1".to_string(),
        "irs add_countries a=3 cs=5/1/101".to_string(),
        "irs add_countries a=3 cs=5/10/100".to_string(),
        "irs modify_country a=3 i=0 c=6/1/101".to_string(),
        "irs modify_country a=3 i=0 c=6/10/100".to_string(),
        "irs delete_country a=3 i=2".to_string(),
        "irs modify_country a=3 i=1 c=9/0/0".to_string(),
        "irs modify_country a=3 i=2 c=9/0/0".to_string(),
        "irs modify_country a=3 i=0 c=9/11/0".to_string(),
        "irs delete_country a=3 i=0".to_string(),
        "irs delete_country a=3 i=0".to_string(),
        "irs remove a=1".to_string(),
        "irs add a=1 id=0 ty=0 cs=5/0/0".to_string(),
    ] {
        drive(t, &mut s, &op);
    }
    let nseq = if thorough { 200 } else { 20 };
    for k in 0..nseq {
        plan_idle(rng, thorough, k as u64);
        t.seq(&format!("irs rand k={} na=4", k));
        let mut s = IrsSim::new(4);
        for _ in 0..40 {
            let op = s.gen(rng);
            drive(t, &mut s, &op);
        }
    }
    if thorough {
        let alphabet: Vec<String> = [
            "irs add a=0 id=0 ty=0 cs=1/0/0",
            "irs add a=1 id=1 ty=0 cs=2/0/0",
            "irs remove a=0",
            "irs remove a=1",
            "irs recover old=0 new=1",
            "irs recover old=1 new=0",
            "irs recover old=1 new=2",
            "irs modify a=1 id=2",
        ]
        .iter()
        .map(|x| x.to_string())
        .collect();
        exhaustive(t, "irs exhaustive na=3", &alphabet, 5, &mut || Box::new(IrsSim::new(3)));
    }
}

// ------------------------------------------------------------------------------------------
// claims
// ------------------------------------------------------------------------------------------
struct ClaimsSim {
    e: Env,
    c: Address,
    iss: Book,
    ids: HashMap<[u8; 32], (u32, u32)>,
}
impl ClaimsSim {
    fn new() -> ClaimsSim {
        let e = env();
        let c = e.register(ClaimsC, ());
        let iss = Book::from((0..3).map(|_| e.register(MockIssuer, ())).collect());
        let mut ids = HashMap::new();
        for i in 0..3u32 {
            for t in 0..4u32 {
                let id: BytesN<32> = q(&e, &c, "claim_id", args(&e, [v(&e, iss.a(i)), v(&e, t)])).unwrap();
                ids.insert(id.to_array(), (i, t));
            }
        }
        assert!(ids.len() == 12, "claim ids collide");
        ClaimsSim { e, c, iss, ids }
    }
    fn id_of(&self, i: u32, t: u32) -> BytesN<32> {
        let (k, _) = self.ids.iter().find(|(_, v)| **v == (i, t)).unwrap();
        BytesN::from_array(&self.e, k)
    }
    fn show_id(&self, id: &BytesN<32>) -> String {
        self.ids.get(&id.to_array()).map(|(i, t)| format!("{}.{}", i, t)).unwrap_or("?".into())
    }
}
impl Reg for ClaimsSim {
    fn host(&self) -> &Env {
        &self.e
    }
    fn idle_extra(&self) -> &'static str {
        "ret=- "
    }
    fn exec(&mut self, ws: &[&str]) -> (bool, String) {
        let e = &self.e;
        match ws[1] {
            "add" => {
                let uri = SString::from_str(e, &format!("u{}", kvn(ws, "u")));
                let r = run(
                    e,
                    &self.c,
                    "add_claim",
                    args(e, [v(e, kvn(ws, "t")), v(e, kvn(ws, "sc")), v(e, self.iss.a(kvn(ws, "i"))), v(e, bytes_of(e, kvn(ws, "sg"))), v(e, bytes_of(e, kvn(ws, "d"))), v(e, uri)]),
                );
                match r {
                    Some(val) => (true, format!("ret={} ", self.show_id(&BytesN::<32>::try_from_val(e, &val).unwrap()))),
                    None => (false, "ret=- ".into()),
                }
            }
            "remove" => (run(e, &self.c, "remove_claim", args(e, [v(e, self.id_of(kvn(ws, "i"), kvn(ws, "t")))])).is_some(), "ret=- ".into()),
            "remove_raw" => (run(e, &self.c, "remove_claim", args(e, [v(e, bn32(e, kvn(ws, "x")))])).is_some(), "ret=- ".into()),
            _ => unreachable!(),
        }
    }
    fn state(&self, _ws: &[&str]) -> String {
        let e = &self.e;
        let mut cs = vec![];
        for i in 0..3u32 {
            for t in 0..4u32 {
                if let Some(c) = q::<Claim>(e, &self.c, "get_claim", args(e, [v(e, self.id_of(i, t))])) {
                    let uri = c.uri.to_string();
                    cs.push(format!(
                        "{}.{}:{}.{}.{}.{}.{}.{}",
                        i,
                        t,
                        c.topic,
                        c.scheme,
                        self.iss.idx(&c.issuer),
                        bytes_num(&c.signature),
                        bytes_num(&c.data),
                        uri.trim_start_matches('u')
                    ));
                }
            }
        }
        let bt: Vec<String> = (0..4u32)
            .map(|t| {
                let l: SVec<BytesN<32>> = q(e, &self.c, "get_claim_ids_by_topic", args(e, [v(e, t)])).unwrap();
                format!("{}:{}", t, sep("+", &l.iter().map(|id| self.show_id(&id)).collect::<Vec<_>>()))
            })
            .collect();
        format!("C={} BT={}", sep(",", &cs), sep(",", &bt))
    }
}

fn claims_scenarios(t: &mut Trace, rng: &mut Rng, thorough: bool) {
    long_env(true);
    t.seq("claims long idle 1 31 100 days");
    let mut s = ClaimsSim::new();
    idle_history(
        t,
        "claims",
        &mut s,
        &strs(&["claims add t=0 sc=1 i=0 sg=5 d=6 u=1", "claims add t=0 sc=1 i=1 sg=5 d=6 u=1", "claims add t=1 sc=1 i=0 sg=5 d=6 u=1", "claims remove i=1 t=0"]),
        &|_| {
            strs(&[
                "claims remove i=1 t=0",
                "claims add t=0 sc=2 i=0 sg=7 d=8 u=2",
                "claims add t=2 sc=2 i=0 sg=7 d=0 u=2",
                "claims remove i=0 t=1",
                "claims add t=1 sc=1 i=0 sg=5 d=6 u=1",
            ])
        },
    );
    long_env(false);
    t.seq("claims directed add, update in place, remove first last only, re-add");
    let mut s = ClaimsSim::new();
    for op in [
        "claims remove i=0 t=0",
        "claims remove_raw x=77",
        "claims add t=0 sc=1 i=0 sg=5 d=0 u=1",
        "claims add t=0 sc=1 i=0 sg=5 d=6 u=1",
        "claims add t=0 sc=2 i=0 sg=7 d=8 u=2",
        "claims add t=0 sc=1 i=1 sg=5 d=6 u=1",
        "claims add t=0 sc=1 i=2 sg=5 d=6 u=1",
        "claims add t=1 sc=1 i=0 sg=5 d=6 u=1",
        "claims remove i=0 t=0",
        "claims remove i=0 t=0",
        "claims remove i=2 t=0",
        "claims add t=0 sc=1 i=0 sg=5 d=6 u=1",
        "claims remove i=1 t=0",
        "claims remove i=0 t=0",
        "claims remove i=0 t=1",
        "claims add t=3 sc=9 i=2 sg=1 d=1 u=0",
    ] {
        drive(t, &mut s, op);
    }
    let nseq = if thorough { 200 } else { 20 };
    for k in 0..nseq {
        plan_idle(rng, thorough, k as u64);
        t.seq(&format!("claims rand k={}", k));
        let mut s = ClaimsSim::new();
        for _ in 0..40 {
            let op = if rng.chance(55) {
                format!(
                    "claims add t={} sc={} i={} sg={} d={} u={}",
                    rng.below(4),
                    rng.range(1, 3),
                    rng.below(3),
                    rng.below(50),
                    if rng.chance(10) { 0 } else { rng.range(1, 50) },
                    rng.below(5)
                )
            } else if rng.chance(92) {
                format!("claims remove i={} t={}", rng.below(3), rng.below(4))
            } else {
                format!("claims remove_raw x={}", rng.below(1000))
            };
            drive(t, &mut s, &op);
        }
    }
    if thorough {
        let alphabet: Vec<String> = ["claims add t=0 sc=1 i=0 sg=1 d=1 u=1", "claims add t=0 sc=1 i=1 sg=1 d=1 u=1", "claims add t=1 sc=1 i=0 sg=2 d=2 u=2", "claims add t=0 sc=2 i=0 sg=3 d=3 u=3", "claims remove i=0 t=0", "claims remove i=1 t=0", "claims remove i=0 t=1"]
            .iter()
            .map(|x| x.to_string())
            .collect();
        exhaustive(t, "claims exhaustive", &alphabet, 5, &mut || Box::new(ClaimsSim::new()));
    }
}

// ------------------------------------------------------------------------------------------
// hooks
// ------------------------------------------------------------------------------------------
struct HooksSim {
    e: Env,
    c: Address,
    mods: Book,
    nm: u32,
}
fn hook(h: u32) -> ComplianceHook {
    match h {
        0 => ComplianceHook::Transferred,
        1 => ComplianceHook::Created,
        2 => ComplianceHook::Destroyed,
        3 => ComplianceHook::CanTransfer,
        _ => ComplianceHook::CanCreate,
    }
}
impl HooksSim {
    fn new(nm: u32) -> HooksSim {
        let e = env();
        let c = e.register(HooksC, ());
        let mods = Book::new(&e, nm as usize);
        HooksSim { e, c, mods, nm }
    }
}
impl Reg for HooksSim {
    fn host(&self) -> &Env {
        &self.e
    }
    fn exec(&mut self, ws: &[&str]) -> (bool, String) {
        let e = &self.e;
        let a = args(e, [v(e, hook(kvn(ws, "h"))), v(e, self.mods.a(kvn(ws, "m")))]);
        let f = if ws[1] == "add" { "add_module_to" } else { "remove_module_from" };
        (run(e, &self.c, f, a).is_some(), String::new())
    }
    fn state(&self, _ws: &[&str]) -> String {
        let e = &self.e;
        let mut hs = vec![];
        let mut reg = vec![];
        for h in 0..5u32 {
            let l: SVec<Address> = q(e, &self.c, "get_modules_for_hook", args(e, [v(e, hook(h))])).unwrap();
            hs.push(format!("{}:{}", h, sep(",", &l.iter().map(|a| self.mods.idx(&a)).collect::<Vec<_>>())));
            for m in 0..self.nm {
                reg.push(q::<bool>(e, &self.c, "is_module_registered", args(e, [v(e, hook(h)), v(e, self.mods.a(m))])).unwrap());
            }
        }
        format!("H={} reg={}", sep(";", &hs), bits(&reg))
    }
}

fn hooks_scenarios(t: &mut Trace, rng: &mut Rng, thorough: bool) {
    long_env(true);
    t.seq("hooks long idle 1 31 100 days nm=22");
    let mut s = HooksSim::new(22);
    let mut build: Vec<String> = (0..20u32).map(|m| format!("hooks add h=3 m={}", m)).collect();
    build.extend(strs(&["hooks add h=1 m=0", "hooks remove h=1 m=0"]));
    idle_history(t, "hooks", &mut s, &build, &|_| {
        strs(&["hooks add h=3 m=20", "hooks add h=3 m=0", "hooks remove h=1 m=0", "hooks remove h=3 m=5", "hooks add h=3 m=5"])
    });
    long_env(false);
    t.seq("hooks directed 20 modules per hook then the 21st nm=22");
    let mut s = HooksSim::new(22);
    drive(t, &mut s, "hooks remove h=0 m=0");
    for m in 0..21u32 {
        drive(t, &mut s, &format!("hooks add h=3 m={}", m));
    }
    for op in ["hooks add h=3 m=5", "hooks add h=4 m=20", "hooks remove h=3 m=0", "hooks remove h=3 m=0", "hooks add h=3 m=20", "hooks add h=3 m=21", "hooks remove h=3 m=19", "hooks remove h=3 m=20", "hooks add h=3 m=0", "hooks add h=3 m=19"] {
        drive(t, &mut s, op);
    }
    let nseq = if thorough { 150 } else { 14 };
    for k in 0..nseq {
        plan_idle(rng, thorough, k as u64);
        t.seq(&format!("hooks rand k={} nm=4", k));
        let mut s = HooksSim::new(4);
        for _ in 0..40 {
            let op = format!("hooks {} h={} m={}", if rng.chance(55) { "add" } else { "remove" }, rng.below(3), rng.below(4));
            drive(t, &mut s, &op);
        }
    }
    if thorough {
        let alphabet: Vec<String> = ["hooks add h=0 m=0", "hooks add h=0 m=1", "hooks add h=0 m=2", "hooks add h=1 m=0", "hooks remove h=0 m=0", "hooks remove h=0 m=1", "hooks remove h=0 m=2", "hooks remove h=1 m=0"]
            .iter()
            .map(|x| x.to_string())
            .collect();
        exhaustive(t, "hooks exhaustive nm=3", &alphabet, 5, &mut || Box::new(HooksSim::new(3)));
    }
}

// ------------------------------------------------------------------------------------------
// rules: the real multisig smart-account example
// ------------------------------------------------------------------------------------------
struct RulesSim {
    e: Env,
    c: Address,
    signers: Vec<Signer>,
    pols: Book,
    ctxs: Vec<ContextRuleType>,
    adds: u32,
}
impl RulesSim {
    fn new(s0: &[u32], p0: &[u32]) -> RulesSim {
        let e = env();
        // 7 policy contracts, indexed in Address order (= the iteration order of a Map<Address, _>)
        let mut pa: Vec<Address> = (0..7).map(|_| e.register(PolicyC, ())).collect();
        pa.sort();
        let pols = Book::from(pa);
        run(&e, pols.a(5), "set_mode", args(&e, [v(&e, 1u32)])).unwrap();
        run(&e, pols.a(6), "set_mode", args(&e, [v(&e, 2u32)])).unwrap();
        let verifier = Address::generate(&e);
        let mut signers: Vec<Signer> = (0..16).map(|_| Signer::Delegated(Address::generate(&e))).collect();
        signers.push(Signer::External(verifier.clone(), Bytes::from_array(&e, &[1, 2, 3])));
        signers.push(Signer::External(verifier, Bytes::from_array(&e, &[1, 2, 4])));
        let ctxs = vec![
            ContextRuleType::Default,
            ContextRuleType::CallContract(Address::generate(&e)),
            ContextRuleType::CallContract(Address::generate(&e)),
            ContextRuleType::CreateContract(BytesN::from_array(&e, &[7u8; 32])),
        ];
        let sv: SVec<Signer> = SVec::from_slice(&e, &s0.iter().map(|i| signers[*i as usize].clone()).collect::<Vec<_>>());
        let mut pm: Map<Address, Val> = Map::new(&e);
        for p in p0 {
            pm.set(pols.a(*p).clone(), ().into_val(&e));
        }
        let c = e.register(account::MultisigContract, (sv, pm));
        RulesSim { e, c, signers, pols, ctxs, adds: 1 }
    }
    fn signer_idx(&self, s: &Signer) -> String {
        self.signers.iter().position(|x| x == s).map(|i| i.to_string()).unwrap_or("?".into())
    }
    fn ctx_idx(&self, c: &ContextRuleType) -> String {
        self.ctxs.iter().position(|x| x == c).map(|i| i.to_string()).unwrap_or("?".into())
    }
    fn vu(ws: &[&str]) -> Option<u32> {
        kv(ws, "vu").and_then(|x| x.parse().ok())
    }
    fn name(e: &Env, n: u32) -> SString {
        SString::from_str(e, &format!("n{}", n))
    }
    fn show_rule(&self, r: &ContextRule) -> String {
        let nm = r.name.to_string();
        let nm = if nm == "multisig" { "0".to_string() } else { nm.trim_start_matches('n').to_string() };
        format!(
            "{}:{}:{}:{}:{}:{}",
            r.id,
            self.ctx_idx(&r.context_type),
            nm,
            r.valid_until.map(|x| x.to_string()).unwrap_or("none".into()),
            sep(",", &r.signers.iter().map(|s| self.signer_idx(&s)).collect::<Vec<_>>()),
            sep(",", &r.policies.iter().map(|p| self.pols.idx(&p)).collect::<Vec<_>>())
        )
    }
    /// (number of `Fingerprint` entries in the account's storage, the stored fingerprint hashes)
    fn stored_fingerprints(&self) -> Vec<[u8; 32]> {
        let snap = self.e.to_ledger_snapshot();
        let me = sc_address(&self.c);
        let mut out = vec![];
        let seq = self.e.ledger().sequence();
        for (k, (_, live_until)) in snap.ledger_entries.iter() {
            // an entry past its live-until ledger is gone for the contract
            if live_until.map(|l| l < seq).unwrap_or(false) {
                continue;
            }
            if let xdr::LedgerKey::ContractData(cd) = k.as_ref() {
                if cd.contract != me {
                    continue;
                }
                if let xdr::ScVal::Vec(Some(items)) = &cd.key {
                    if let (Some(xdr::ScVal::Symbol(s)), Some(xdr::ScVal::Bytes(b))) = (items.get(0), items.get(1)) {
                        if s.to_utf8_string_lossy() == "Fingerprint" && b.len() == 32 {
                            let mut a = [0u8; 32];
                            a.copy_from_slice(b.as_slice());
                            out.push(a);
                        }
                    }
                }
            }
        }
        out
    }
    /// the fingerprint the library computes for a rule: sha256(type XDR || sorted signers XDR || sorted policies XDR)
    fn fingerprint(&self, r: &ContextRule) -> [u8; 32] {
        use soroban_sdk::xdr::ToXdr;
        let e = &self.e;
        let mut ss: Vec<Signer> = r.signers.iter().collect();
        ss.sort();
        let mut ps: Vec<Address> = r.policies.iter().collect();
        ps.sort();
        let mut data = r.context_type.clone().to_xdr(e);
        data.append(&SVec::from_slice(e, &ss).to_xdr(e));
        data.append(&SVec::from_slice(e, &ps).to_xdr(e));
        e.crypto().sha256(&data).to_bytes().to_array()
    }
}
impl Reg for RulesSim {
    fn host(&self) -> &Env {
        &self.e
    }
    fn idle_extra(&self) -> &'static str {
        "ret=- "
    }
    fn exec(&mut self, ws: &[&str]) -> (bool, String) {
        let e = &self.e;
        let id = kvn(ws, "id");
        let sg = |i: u32| self.signers[i as usize].clone();
        let r = match ws[1] {
            "add" => {
                let sv: SVec<Signer> = SVec::from_slice(e, &kvl(ws, "sg").iter().map(|i| sg(*i)).collect::<Vec<_>>());
                let mut pm: Map<Address, Val> = Map::new(e);
                for p in kvl(ws, "ps") {
                    pm.set(self.pols.a(p).clone(), ().into_val(e));
                }
                let r = run(
                    e,
                    &self.c,
                    "add_context_rule",
                    args(e, [v(e, self.ctxs[kvn(ws, "c") as usize].clone()), v(e, Self::name(e, kvn(ws, "n"))), v(e, Self::vu(ws)), v(e, sv), v(e, pm)]),
                );
                return match r {
                    Some(val) => {
                        self.adds += 1;
                        (true, format!("ret={} ", ContextRule::try_from_val(e, &val).unwrap().id))
                    }
                    None => (false, "ret=- ".into()),
                };
            }
            "rename" => run(e, &self.c, "update_context_rule_name", args(e, [v(e, id), v(e, Self::name(e, kvn(ws, "n")))])),
            "revalid" => run(e, &self.c, "update_context_rule_valid_until", args(e, [v(e, id), v(e, Self::vu(ws))])),
            "remove" => run(e, &self.c, "remove_context_rule", args(e, [v(e, id)])),
            "add_signer" => run(e, &self.c, "add_signer", args(e, [v(e, id), v(e, sg(kvn(ws, "sg")))])),
            "remove_signer" => run(e, &self.c, "remove_signer", args(e, [v(e, id), v(e, sg(kvn(ws, "sg")))])),
            "add_policy" => run(e, &self.c, "add_policy", args(e, [v(e, id), v(e, self.pols.a(kvn(ws, "p"))), ().into_val(e)])),
            "remove_policy" => run(e, &self.c, "remove_policy", args(e, [v(e, id), v(e, self.pols.a(kvn(ws, "p")))])),
            _ => unreachable!(),
        };
        (r.is_some(), "ret=- ".into())
    }
    fn state(&self, _ws: &[&str]) -> String {
        let e = &self.e;
        let n: u32 = q(e, &self.c, "get_context_rules_count", args(e, [])).unwrap();
        let mut live = vec![];
        for id in 0..=self.adds {
            if let Some(r) = q::<ContextRule>(e, &self.c, "get_context_rule", args(e, [v(e, id)])) {
                live.push(r);
            }
        }
        let tt: Vec<String> = (0..4usize)
            .map(|c| match q::<SVec<ContextRule>>(e, &self.c, "get_context_rules", args(e, [v(e, self.ctxs[c].clone())])) {
                Some(l) => format!("{}:{}", c, sep(",", &l.iter().map(|r| r.id.to_string()).collect::<Vec<_>>())),
                None => format!("{}:x", c),
            })
            .collect();
        let stored = self.stored_fingerprints();
        let fps: Vec<[u8; 32]> = live.iter().map(|r| self.fingerprint(r)).collect();
        let mut distinct = fps.clone();
        distinct.sort();
        distinct.dedup();
        let fpok = fps.iter().all(|f| stored.contains(f));
        format!(
            "n={} R={} T={} nfp={} fpd={} fpok={}",
            n,
            sep(";", &live.iter().map(|r| self.show_rule(r)).collect::<Vec<_>>()),
            sep(";", &tt),
            stored.len(),
            distinct.len(),
            if fpok { 1 } else { 0 }
        )
    }
}

fn rules_scenarios(t: &mut Trace, rng: &mut Rng, thorough: bool) {
    long_env(true);
    t.seq("rules long idle 1 31 100 days now=100 s0=0 p0=-");
    let mut s = RulesSim::new(&[0], &[]);
    // ids 1..12, then id 13 (expires at ledger 150), id 2 removed, id 14 added: 14 rules
    let mut build: Vec<String> = (1..13u32).map(|k| format!("rules add c={} n={} vu=none sg={} ps=-", k % 4, k, k)).collect();
    build.extend(strs(&["rules add c=1 n=30 vu=150 sg=16 ps=0", "rules remove id=2", "rules add c=2 n=31 vu=none sg=2 ps=-"]));
    idle_history(t, "rules", &mut s, &build, &|gap| {
        vec![
            "rules add c=1 n=40 vu=none sg=1 ps=-".to_string(), // the fingerprint of rule 1
            "rules add c=1 n=40 vu=none sg=16 ps=0".to_string(), // the fingerprint of rule 13
            "rules add c=3 n=41 vu=none sg=17 ps=-".to_string(), // the 15th rule: id 15 + gap
            "rules add c=3 n=42 vu=none sg=16,17 ps=-".to_string(), // the 16th
            "rules add_signer id=1 sg=1".to_string(),
            "rules revalid id=13 vu=150".to_string(),
            "rules remove id=2".to_string(),
            format!("rules remove id={}", 15 + gap),
        ]
    });
    long_env(false);
    t.seq("rules directed 15 rules then the 16th, ids never reused now=100 s0=0 p0=-");
    let mut s = RulesSim::new(&[0], &[]);
    for k in 1..16u32 {
        drive(t, &mut s, &format!("rules add c={} n={} vu=none sg={} ps=-", k % 4, k, k));
    }
    for op in [
        "rules remove id=3",
        "rules remove id=3",
        "rules add c=3 n=20 vu=100 sg=3 ps=-",
        "rules add c=3 n=21 vu=100 sg=4 ps=-",
        "rules remove id=15",
        "rules add c=3 n=22 vu=101 sg=3 ps=-",
        "rules add c=3 n=22 vu=101 sg=3,1 ps=-",
        "rules remove id=0",
        "rules add c=0 n=23 vu=none sg=0 ps=-",
    ] {
        drive(t, &mut s, op);
    }
    t.seq("rules directed signer and policy limits, duplicates, fingerprints now=100 s0=0,1 p0=0");
    let mut s = RulesSim::new(&[0, 1], &[0]);
    for op in [
        "rules add c=0 n=1 vu=none sg=1,0 ps=0",
        "rules add c=1 n=1 vu=none sg=1,0 ps=0",
        "rules add c=1 n=2 vu=none sg=0,1 ps=0",
        "rules add c=1 n=2 vu=99 sg=2 ps=-",
        "rules add c=1 n=2 vu=none sg=2,2 ps=-",
        "rules add c=1 n=2 vu=none sg=- ps=-",
        "rules add c=1 n=2 vu=none sg=- ps=6",
        "rules add c=1 n=2 vu=none sg=- ps=5",
        "rules add c=2 n=3 vu=none sg=0,1,2,3,4,5,6,7,8,9,10,11,12,13,14,15 ps=-",
        "rules add c=2 n=3 vu=none sg=0,1,2,3,4,5,6,7,8,9,10,11,12,13,14 ps=-",
        "rules add_signer id=3 sg=15",
        "rules remove_signer id=3 sg=14",
        "rules add_signer id=3 sg=15",
        "rules add_signer id=3 sg=15",
        "rules add_signer id=3 sg=16",
        "rules add c=2 n=4 vu=none sg=16 ps=0,1,2,3,4,5",
        "rules add c=2 n=4 vu=none sg=16 ps=0,1,2,3,4",
        "rules add_policy id=4 p=5",
        "rules remove_policy id=4 p=0",
        "rules add_policy id=4 p=5",
        "rules add_policy id=4 p=5",
        "rules add_policy id=4 p=6",
        "rules remove_policy id=4 p=5",
        "rules remove_policy id=4 p=5",
        "rules remove id=2",
        "rules remove_signer id=1 sg=1",
        "rules remove_signer id=0 sg=1",
        "rules add_signer id=0 sg=1",
        "rules remove_policy id=0 p=0",
        "rules add c=0 n=5 vu=none sg=0,1 ps=-",
        "rules rename id=0 n=9",
        "rules rename id=7 n=9",
        "rules revalid id=0 vu=99",
        "rules revalid id=0 vu=100",
        "rules revalid id=0 vu=none",
        "rules remove_signer id=0 sg=0",
        "rules remove_signer id=0 sg=1",
        "rules add_policy id=0 p=1",
        "rules remove_signer id=0 sg=1",
        "rules remove_policy id=0 p=1",
    ] {
        drive(t, &mut s, op);
    }
    let nseq = if thorough { 200 } else { 16 };
    for k in 0..nseq {
        plan_idle(rng, thorough, k as u64);
        t.seq(&format!("rules rand k={} now=100 s0=0 p0=-", k));
        let mut s = RulesSim::new(&[0], &[]);
        let mut next_name = 1;
        for _ in 0..40 {
            let r = rng.below(100);
            let id = rng.below(s.adds as u64 + 1);
            let sub = |rng: &mut Rng, n: u64, p: u64| -> Vec<u32> {
                let mut l: Vec<u32> = (0..n as u32).filter(|_| rng.chance(p)).collect();
                if rng.chance(40) {
                    l.reverse();
                }
                if rng.chance(4) && !l.is_empty() {
                    l.push(l[0]);
                }
                l
            };
            let op = if r < 30 {
                next_name += 1;
                let vu = match rng.below(6) {
                    0 => "99".to_string(),
                    1 => "100".to_string(),
                    2 => "101".to_string(),
                    _ => "none".to_string(),
                };
                format!("rules add c={} n={} vu={} sg={} ps={}", rng.below(3), next_name, vu, lst(&sub(rng, 3, 45)), lst(&sub(rng, 3, 25)))
            } else if r < 42 {
                format!("rules remove id={}", id)
            } else if r < 56 {
                format!("rules add_signer id={} sg={}", id, rng.below(3))
            } else if r < 70 {
                format!("rules remove_signer id={} sg={}", id, rng.below(3))
            } else if r < 80 {
                format!("rules add_policy id={} p={}", id, *rng.pick(&[0u32, 1, 2, 5, 6]))
            } else if r < 90 {
                format!("rules remove_policy id={} p={}", id, *rng.pick(&[0u32, 1, 2, 5]))
            } else if r < 95 {
                next_name += 1;
                format!("rules rename id={} n={}", id, next_name)
            } else {
                format!("rules revalid id={} vu={}", id, *rng.pick(&["none", "99", "100", "500"]))
            };
            drive(t, &mut s, &op);
        }
    }
    if thorough {
        let alphabet: Vec<String> = [
            "rules add c=0 n=1 vu=none sg=0,1 ps=-",
            "rules add c=0 n=2 vu=none sg=1 ps=-",
            "rules add c=1 n=3 vu=none sg=0 ps=-",
            "rules remove id=0",
            "rules remove id=1",
            "rules add_signer id=0 sg=1",
            "rules add_signer id=1 sg=0",
            "rules remove_signer id=1 sg=0",
            "rules remove_signer id=0 sg=0",
        ]
        .iter()
        .map(|x| x.to_string())
        .collect();
        exhaustive(t, "rules exhaustive now=100 s0=0 p0=-", &alphabet, 5, &mut || Box::new(RulesSim::new(&[0], &[])));
    }
}

/// "long idle" history: build the state, then three gaps of 1, 31 and 100 days during which the
/// contract is not touched; around each gap every getter is read (`idle days=0` right before,
/// `idle days=n` right after) and the operations that the persisted data must still refuse
/// (duplicate, absent, past a limit, recovered account) or allow are retried.
fn idle_history(t: &mut Trace, reg: &str, s: &mut dyn Reg, build: &[String], retry: &dyn Fn(usize) -> Vec<String>) {
    for op in build {
        drive(t, s, op);
    }
    for (gap, days) in [1u32, 31, 100].iter().enumerate() {
        drive(t, s, &format!("{} idle days=0", reg));
        drive(t, s, &format!("{} idle days={}", reg, days));
        for op in retry(gap) {
            drive(t, s, &op);
        }
    }
    drive(t, s, &format!("{} idle days=0", reg));
}
fn strs(xs: &[&str]) -> Vec<String> {
    xs.iter().map(|x| x.to_string()).collect()
}

/// the slow from-empty limit histories run in one shard of a thorough run only
fn first_shard() -> bool {
    seed_from_env() % arg_u64("--xshards", 1) == 0
}

/// every sequence of `len` ops over `alphabet`, each from a fresh registry
fn exhaustive(t: &mut Trace, label: &str, alphabet: &[String], len: usize, fresh: &mut dyn FnMut() -> Box<dyn Reg>) {
    long_env(false);
    let n = alphabet.len();
    let total = n.pow(len as u32);
    // the shards of a thorough run (seeds base + 7919 k) split the space between them
    let parts = arg_u64("--xshards", 1) as usize;
    let mine = (seed_from_env() % parts as u64) as usize;
    for code in (0..total).filter(|c| c % parts == mine) {
        t.seq(&format!("{} code={}", label, code));
        let mut s = fresh();
        let mut c = code;
        for _ in 0..len {
            drive(t, s.as_mut(), &alphabet[c % n]);
            c /= n;
        }
    }
}

fn main() {
    let mut t = Trace::from_args();
    let seed = seed_from_env();
    let thorough = arg_str("--tier").as_deref() == Some("thorough");
    let only = arg_str("--only");
    let mut rng = Rng::new(seed);
    let want = |name: &str| only.as_deref().map(|o| o.split(',').any(|x| x == name)).unwrap_or(true);
    if want("keys") {
        keys_scenarios(&mut t, &mut rng, thorough);
    }
    if want("topics") {
        topics_scenarios(&mut t, &mut rng, thorough);
    }
    if want("binder") {
        binder_scenarios(&mut t, &mut rng, thorough);
    }
    if want("rules") {
        rules_scenarios(&mut t, &mut rng, thorough);
    }
    if want("docs") {
        docs_scenarios(&mut t, &mut rng, thorough);
    }
    if want("irs") {
        irs_scenarios(&mut t, &mut rng, thorough);
    }
    if want("claims") {
        claims_scenarios(&mut t, &mut rng, thorough);
    }
    if want("hooks") {
        hooks_scenarios(&mut t, &mut rng, thorough);
    }
    t.finish();
}
