//! C13 correspondence: voting power = delegated balances, now and at every past ledger.
//!
//! Three real contracts, compiled from /repo's working tree and driven through real
//! invocations in the native Soroban host:
//!   * `ex`  — examples/fungible-votes (`#[path]`-included source; owner-gated mint, no burn);
//!   * `fvb` — a harness contract over the library's `FungibleVotes` (open mint, burn,
//!             burn_from) that also exposes `num_checkpoints` / `get_voting_units`;
//!   * `nft` — a harness contract over the library's `NonFungibleVotes` (mint,
//!             sequential_mint, transfers, burns, approvals) with the same extra getters.
//! After EVERY step: every current getter for every account, the rejection of current /
//! future ledgers, and `get_votes_at_checkpoint` / `get_total_supply_at_checkpoint` for every
//! account at every ledger of the window (all ledgers since the start of the sequence, plus
//! ledger 0 and the ledger before the start).
use ozharness::*;
use soroban_sdk::{contract, contractimpl, Address, Env, IntoVal, MuxedAddress, Val};
use stellar_governance::votes::{self as lib_votes, Votes};
use stellar_tokens::fungible::{burnable::FungibleBurnable, votes::FungibleVotes, FungibleToken};
use stellar_tokens::non_fungible::{burnable::NonFungibleBurnable, votes::NonFungibleVotes, NonFungibleToken};

#[path = "/repo/examples/fungible-votes/src/contract.rs"]
#[allow(dead_code)]
mod fv_example;

// ------------------------------------------------------------------ harness contracts
mod fvb_contract {
    use super::*;
    #[contract]
    pub struct Fvb;

    #[contractimpl]
    impl Fvb {
        pub fn mint(e: &Env, to: Address, amount: i128) {
            FungibleVotes::mint(e, &to, amount);
        }
        pub fn num_checkpoints(e: &Env, account: Address) -> u32 {
            lib_votes::num_checkpoints(e, &account)
        }
        pub fn voting_units(e: &Env, account: Address) -> u128 {
            lib_votes::get_voting_units(e, &account)
        }
    }

    #[contractimpl(contracttrait)]
    impl FungibleToken for Fvb {
        type ContractType = FungibleVotes;
    }

    #[contractimpl(contracttrait)]
    impl FungibleBurnable for Fvb {
        fn burn(e: &Env, from: Address, amount: i128) {
            FungibleVotes::burn(e, &from, amount);
        }
        fn burn_from(e: &Env, spender: Address, from: Address, amount: i128) {
            FungibleVotes::burn_from(e, &spender, &from, amount);
        }
    }

    #[contractimpl(contracttrait)]
    impl Votes for Fvb {}
}

mod nft_contract {
    use super::*;
    #[contract]
    pub struct Nfv;

    #[contractimpl]
    impl Nfv {
        pub fn mint(e: &Env, to: Address, token_id: u32) {
            NonFungibleVotes::mint(e, &to, token_id);
        }
        pub fn sequential_mint(e: &Env, to: Address) -> u32 {
            NonFungibleVotes::sequential_mint(e, &to)
        }
        pub fn num_checkpoints(e: &Env, account: Address) -> u32 {
            lib_votes::num_checkpoints(e, &account)
        }
        pub fn voting_units(e: &Env, account: Address) -> u128 {
            lib_votes::get_voting_units(e, &account)
        }
    }

    #[contractimpl(contracttrait)]
    impl NonFungibleToken for Nfv {
        type ContractType = NonFungibleVotes;
    }

    #[contractimpl(contracttrait)]
    impl NonFungibleBurnable for Nfv {}

    #[contractimpl(contracttrait)]
    impl Votes for Nfv {}
}

const N: usize = 5; // accounts 0..4; index 5 = owner of the example contract
const OWNER: usize = 5;
const IDS: u32 = 8; // token ids 0..7 are observed
const MAX_TTL: u32 = 200_000;

#[derive(Clone, Copy, PartialEq)]
enum Kind {
    Ex,
    Fvb,
    Nft,
}

impl Kind {
    fn name(self) -> &'static str {
        match self {
            Kind::Ex => "ex",
            Kind::Fvb => "fvb",
            Kind::Nft => "nft",
        }
    }
}

struct Sim {
    e: Env,
    u: Universe,
    c: Address,
    kind: Kind,
    now: u32,
    start: u32,
    min_temp: u32,
    /// every history query through a real invocation (otherwise: boundary ledgers through
    /// real invocations, the rest of the window through the library function inside the
    /// contract's frame)
    all_real: bool,
    /// `max_entry_ttl` of the host (`min_persistent_entry_ttl` = this - 1)
    max_ttl: u32,
    /// long-idle mode: the window is sampled, `sticky` ledgers are re-queried for ever
    long: bool,
    sticky: Vec<u32>,
}

/// ledgers per day; `max_entry_ttl` of the long-idle sequences (about one year)
const DAY: u32 = 17_280;
const LONG_TTL: u32 = 6_312_000;

impl Sim {
    fn new(kind: Kind, min_temp: u32, start: u32, all_real: bool) -> Sim {
        Sim::with_ttl(kind, min_temp, start, all_real, MAX_TTL)
    }
    fn with_ttl(kind: Kind, min_temp: u32, start: u32, all_real: bool, max_ttl: u32) -> Sim {
        let e = new_env(start, min_temp, max_ttl);
        // two of the accounts are ACCOUNT addresses (G...), the only kind that can be the target of a
        // multiplexed `MuxedAddress`; `transfer` to them is mostly sent to a muxed destination
        let mut u = Universe::new(&e, 0);
        for i in 0..N + 1 {
            if i == 1 || i == 3 {
                u.push(<MuxedAddress as soroban_sdk::testutils::MuxedAddress>::generate(&e).address());
            } else {
                u.push(<Address as soroban_sdk::testutils::Address>::generate(&e));
            }
        }
        // account 4 IS the votes-tracking token contract itself (registered at that address): it
        // can hold tokens, be delegated to and delegate like any other account
        let at = u.a(4).clone();
        let c = match kind {
            Kind::Ex => e.register_at(&at, fv_example::ExampleContract, (u.a(OWNER).clone(),)),
            Kind::Fvb => e.register_at(&at, fvb_contract::Fvb, ()),
            Kind::Nft => e.register_at(&at, nft_contract::Nfv, ()),
        };
        Sim { e, u, c, kind, now: start, start, min_temp, all_real, max_ttl, long: max_ttl != MAX_TTL, sticky: vec![] }
    }
    fn ad(&self, i: usize) -> Val {
        self.u.a(i).into_val(&self.e)
    }
    fn q_u128(&self, f: &str, a: soroban_sdk::Vec<Val>) -> Option<u128> {
        query::<u128>(&self.e, &self.c, f, a)
    }
    /// every getter may fail (a vanished storage entry makes the library panic): `None`
    fn bal_opt(&self, i: usize) -> Option<i128> {
        match self.kind {
            Kind::Nft => query::<u32>(&self.e, &self.c, "balance", args(&self.e, [self.ad(i)])).map(|x| x as i128),
            _ => query::<i128>(&self.e, &self.c, "balance", args(&self.e, [self.ad(i)])),
        }
    }
    fn bal(&self, i: usize) -> i128 {
        self.bal_opt(i).unwrap_or(0)
    }
    fn votes(&self, i: usize) -> Option<u128> {
        self.q_u128("get_votes", args(&self.e, [self.ad(i)]))
    }
    fn delegate_opt(&self, i: usize) -> Option<Option<usize>> {
        let d: Option<Option<Address>> = query(&self.e, &self.c, "get_delegate", args(&self.e, [self.ad(i)]));
        d.map(|d| d.map(|a| self.u.index_of(&a).unwrap_or(99)))
    }
    fn delegate_of(&self, i: usize) -> Option<usize> {
        self.delegate_opt(i).unwrap_or(None)
    }
    fn votes_at(&self, i: usize, q: u32) -> Option<u128> {
        self.q_u128("get_votes_at_checkpoint", args(&self.e, [self.ad(i), v(&self.e, q)]))
    }
    fn total_at(&self, q: u32) -> Option<u128> {
        self.q_u128("get_total_supply_at_checkpoint", args(&self.e, [v(&self.e, q)]))
    }
    fn owner_of(&self, id: u32) -> Option<usize> {
        let a: Option<Address> = query(&self.e, &self.c, "owner_of", args(&self.e, [v(&self.e, id)]));
        a.map(|a| self.u.index_of(&a).unwrap_or(99))
    }
    /// ledgers queried after this step
    fn window(&self) -> Vec<u32> {
        let mut q: Vec<u32> = vec![];
        if self.now > 0 {
            q.push(0);
        }
        if self.start >= 1 && self.start - 1 < self.now {
            q.push(self.start - 1);
        }
        if self.long {
            // sampled: the first ledgers of the sequence, the remembered ones, the latest ones
            for l in self.start..self.now.min(self.start + 24) {
                q.push(l);
            }
            q.extend(self.sticky.iter().filter(|l| **l < self.now));
            for l in self.start.max(self.now.saturating_sub(6))..self.now {
                q.push(l);
            }
        } else {
            let lo = self.start.max(self.now.saturating_sub(80));
            for l in lo..self.now {
                q.push(l);
            }
        }
        q.sort();
        q.dedup();
        q
    }
    fn state(&self, q: &[u32]) -> String {
        let e = &self.e;
        let opt = |x: Option<usize>| x.map(|i| i.to_string()).unwrap_or("x".into());
        // a getter that fails is printed as `E` (the model never prints it: diff + monitor)
        fn show<T: std::fmt::Display>(x: Option<T>) -> String {
            x.map(|v| v.to_string()).unwrap_or("E".into())
        }
        let bals: Vec<String> = (0..N).map(|i| show(self.bal_opt(i))).collect();
        let votes: Vec<String> = (0..N).map(|i| show(self.votes(i))).collect();
        let dels: Vec<String> = (0..N).map(|i| self.delegate_opt(i).map(opt).unwrap_or("E".into())).collect();
        let ts = show(self.q_u128("get_total_supply", args(e, [])));
        let (units, ncp) = if self.kind == Kind::Ex {
            ("-".to_string(), "-".to_string())
        } else {
            let un: Vec<String> = (0..N).map(|i| show(self.q_u128("voting_units", args(e, [self.ad(i)])))).collect();
            let nc: Vec<String> =
                (0..N).map(|i| show(query::<u32>(e, &self.c, "num_checkpoints", args(e, [self.ad(i)])))).collect();
            (un.join(","), nc.join(","))
        };
        let own = if self.kind == Kind::Nft {
            (0..IDS).map(|id| opt(self.owner_of(id))).collect::<Vec<_>>().join(",")
        } else {
            "-".to_string()
        };
        let tsup = if self.kind == Kind::Nft {
            "-".to_string()
        } else {
            show(query::<i128>(e, &self.c, "total_supply", args(e, [])))
        };
        // the current and future ledgers must be refused
        let mut fut = vec![];
        for (k, l) in [self.now, self.now.saturating_add(1), u32::MAX].iter().enumerate() {
            let a = (self.now as usize + k) % N;
            if let Some(x) = self.votes_at(a, *l) {
                fut.push(format!("v{}@{}={}", a, l, x));
            }
            if let Some(x) = self.total_at(*l) {
                fut.push(format!("t@{}={}", l, x));
            }
        }
        let fut = if fut.is_empty() { "rej".to_string() } else { format!("acc:{}", fut.join("+")) };
        // history
        let boundary: Vec<u32> = {
            let mut b = vec![];
            if let (Some(f), Some(l)) = (q.first(), q.last()) {
                b.extend([*f, *l]);
            }
            b.extend(q.iter().filter(|l| **l <= self.start + 1 || **l + 2 >= self.now).cloned());
            b
        };
        // (a library panic inside the frame, e.g. a vanished checkpoint: fall back to real
        // invocations for the whole window, which report the failing queries one by one)
        let bulk: Option<Vec<(u32, Vec<u128>)>> = if self.all_real {
            None
        } else {
            let addrs: Vec<Address> = (0..N).map(|i| self.u.a(i).clone()).collect();
            catch(|| {
                e.as_contract(&self.c, || {
                    q.iter()
                        .map(|l| {
                            let mut row: Vec<u128> =
                                addrs.iter().map(|a| lib_votes::get_votes_at_checkpoint(e, a, *l)).collect();
                            row.push(lib_votes::get_total_supply_at_checkpoint(e, *l));
                            (*l, row)
                        })
                        .collect()
                })
            })
        };
        let all_real = bulk.is_none();
        let bulk = bulk.unwrap_or_default();
        let mut hist = vec![];
        for (k, l) in q.iter().enumerate() {
            let real = all_real || boundary.contains(l);
            let row: Vec<String> = if real {
                let mut r: Vec<String> =
                    (0..N).map(|i| self.votes_at(i, *l).map(|x| x.to_string()).unwrap_or("E".into())).collect();
                r.push(self.total_at(*l).map(|x| x.to_string()).unwrap_or("E".into()));
                if !all_real {
                    // the entry point and the library function must agree
                    let b: Vec<String> = bulk[k].1.iter().map(|x| x.to_string()).collect();
                    if b != r {
                        r.push(format!("bulk-differs:{}", b.join("/")));
                    }
                }
                r
            } else {
                bulk[k].1.iter().map(|x| x.to_string()).collect()
            };
            hist.push(format!("{}:{}", l, row.join("/")));
        }
        format!(
            "now={} bal={} units={} del={} votes={} ncp={} ts={} tsup={} own={} fut={} hist={}",
            self.now,
            bals.join(","),
            units,
            dels.join(","),
            votes.join(","),
            ncp,
            ts,
            tsup,
            own,
            fut,
            if hist.is_empty() { "-".to_string() } else { hist.join(";") }
        )
    }
    /// one operation: `a` = addresses, `amt` = amount (fungible), `id` = token id, `lu` = live-until
    fn exec(&mut self, t: &mut Trace, op: &str, a: &[usize], amt: i128, id: u32, lu: u32, auth: &[usize]) {
        let e = &self.e;
        let (func, argv): (&str, soroban_sdk::Vec<Val>) = match (self.kind, op) {
            (Kind::Nft, "mint") => ("mint", args(e, [self.ad(a[0]), v(e, id)])),
            (Kind::Nft, "seq_mint") => ("sequential_mint", args(e, [self.ad(a[0])])),
            (Kind::Nft, "transfer") => ("transfer", args(e, [self.ad(a[0]), self.ad(a[1]), v(e, id)])),
            (Kind::Nft, "transfer_from") => {
                ("transfer_from", args(e, [self.ad(a[0]), self.ad(a[1]), self.ad(a[2]), v(e, id)]))
            }
            (Kind::Nft, "burn") => ("burn", args(e, [self.ad(a[0]), v(e, id)])),
            (Kind::Nft, "burn_from") => ("burn_from", args(e, [self.ad(a[0]), self.ad(a[1]), v(e, id)])),
            (Kind::Nft, "approve") => ("approve", args(e, [self.ad(a[0]), self.ad(a[1]), v(e, id), v(e, lu)])),
            (Kind::Nft, "approve_all") => ("approve_for_all", args(e, [self.ad(a[0]), self.ad(a[1]), v(e, lu)])),
            (_, "mint") => ("mint", args(e, [self.ad(a[0]), v(e, amt)])),
            (_, "transfer") => {
                // the entry point takes a `MuxedAddress`: a destination carrying a mux id must be
                // credited (tokens AND voting units) exactly like the plain address
                let muxed = (a[1] == 1 || a[1] == 3) && (amt.unsigned_abs() + self.now as u128) % 4 != 0;
                let to: MuxedAddress = if muxed {
                    let id = [1u64, 77, u64::MAX, 1 << 40][(amt.unsigned_abs() % 4) as usize];
                    <MuxedAddress as soroban_sdk::testutils::MuxedAddress>::new(self.u.a(a[1]).clone(), id)
                } else {
                    self.u.a(a[1]).clone().into()
                };
                ("transfer", args(e, [self.ad(a[0]), v(e, to), v(e, amt)]))
            }
            (_, "transfer_from") => ("transfer_from", args(e, [self.ad(a[0]), self.ad(a[1]), self.ad(a[2]), v(e, amt)])),
            (_, "approve") => ("approve", args(e, [self.ad(a[0]), self.ad(a[1]), v(e, amt), v(e, lu)])),
            (_, "burn") => ("burn", args(e, [self.ad(a[0]), v(e, amt)])),
            (_, "burn_from") => ("burn_from", args(e, [self.ad(a[0]), self.ad(a[1]), v(e, amt)])),
            (_, "delegate") => ("delegate", args(e, [self.ad(a[0]), self.ad(a[1])])),
            _ => unreachable!("{}", op),
        };
        let q = self.window();
        // ACCOUNT addresses (indices 1 and 3) and the token contract itself (index 4) cannot be mocked
        // individually by the test host: when
        // one of them signs and the principal of the call (always the first address) is among the
        // signers, everybody authorizes (recording mode, the op line then lists every address); otherwise
        // the account signers are dropped
        let mut auth: Vec<usize> = auth.to_vec();
        let has_acct = auth.iter().any(|&i| i == 1 || i == 3 || i == 4);
        let all_auth = has_acct && !a.is_empty() && auth.contains(&a[0]);
        if has_acct && !all_auth {
            auth.retain(|&i| i != 1 && i != 3 && i != 4);
        }
        if all_auth {
            // recording mode: EVERY address authorizes, and the op line says so
            auth = (0..self.u.len()).collect();
        }
        let auth = &auth[..];
        t.op(&format!("votes {} a={} amt={} id={} lu={} auth={} q={}", op, join(a), amt, id, lu, join(auth), join(&q)));
        let signers: Vec<&Address> = auth.iter().map(|&i| self.u.a(i)).collect();
        let r = if all_auth { call_all_auth(e, &self.c, func, argv) } else { call(e, &self.c, func, argv, &signers) };
        let tag = if r.is_some() { "ok" } else { "err" };
        if self.long && r.is_some() && self.sticky.len() < 48 && !self.sticky.contains(&self.now) {
            // a ledger with activity (a checkpoint ledger): remembered and re-queried for ever
            self.sticky.push(self.now);
        }
        let st = self.state(&q);
        t.obs(&format!("{} {}", tag, st));
    }
    fn advance(&mut self, t: &mut Trace, n: u32) {
        if self.long && n > 24 && self.sticky.len() < 90 {
            // sample the gap: its first ledgers, the middle, its last ledgers
            let p = self.now;
            for l in [p, p + 1, p + n / 3, p + n / 2, p + n - 2, p + n - 1] {
                if !self.sticky.contains(&l) {
                    self.sticky.push(l);
                }
            }
        }
        self.now += n;
        set_ledger(&self.e, self.now, self.min_temp, self.max_ttl);
        let q = self.window();
        t.op(&format!("votes advance n={} q={}", n, join(&q)));
        let st = self.state(&q);
        t.obs(&format!("ok {}", st));
    }
    fn label(&self, what: &str) -> String {
        format!("{} kind={} min_temp={} start={} max_ttl={}", what, self.kind.name(), self.min_temp, self.start, self.max_ttl)
    }
}

// ------------------------------------------------------------------ directed scenarios

fn directed(t: &mut Trace) {
    for kind in [Kind::Ex, Kind::Fvb] {
        let own: Vec<usize> = if kind == Kind::Ex { vec![OWNER] } else { vec![] };
        let mut s = Sim::new(kind, 1, 100, true);
        t.seq(&s.label("directed delegation with zero balance, self-transfer, full-balance transfer, several ops per ledger, gaps"));
        s.exec(t, "delegate", &[0, 1], 0, 0, 0, &[0]); // zero balance
        s.exec(t, "delegate", &[0, 1], 0, 0, 0, &[0]); // SameDelegate
        s.exec(t, "mint", &[0], 1000, 0, 0, &own);
        s.exec(t, "mint", &[0], 1000, 0, 0, &[0]); // ex: not the owner
        s.exec(t, "transfer", &[0, 0], 1000, 0, 0, &[0]); // self, full balance
        s.exec(t, "transfer", &[0, 2], 400, 0, 0, &[0]);
        s.exec(t, "transfer", &[0, 2], 0, 0, 0, &[0]);
        s.exec(t, "transfer", &[0, 2], -1, 0, 0, &[0]);
        s.advance(t, 1);
        s.exec(t, "delegate", &[2, 2], 0, 0, 0, &[2]); // self-delegation
        s.exec(t, "delegate", &[2, 2], 0, 0, 0, &[0]); // wrong signer
        s.exec(t, "delegate", &[2, 3], 0, 0, 0, &[3]); // delegatee signs: not enough
        s.exec(t, "delegate", &[2, 3], 0, 0, 0, &[2, 3]); // re-delegation in the same ledger
        s.exec(t, "delegate", &[2, 2], 0, 0, 0, &[2]); // and back
        s.advance(t, 5);
        s.exec(t, "transfer", &[0, 2], 600, 0, 0, &[0]); // full balance, both delegated
        s.exec(t, "delegate", &[0, 2], 0, 0, 0, &[0]); // re-delegate with zero balance
        s.advance(t, 1);
        s.exec(t, "approve", &[2, 4], 500, 0, 200, &[2]);
        s.exec(t, "transfer_from", &[4, 2, 0], 300, 0, 0, &[4]);
        s.exec(t, "transfer_from", &[4, 2, 2], 100, 0, 0, &[4]); // from == to
        s.exec(t, "transfer_from", &[4, 2, 0], 300, 0, 0, &[2]);
        if kind == Kind::Fvb {
            s.exec(t, "burn", &[2], 700, 0, 0, &[2]); // full balance
            s.exec(t, "burn", &[2], 1, 0, 0, &[2]);
            s.exec(t, "burn_from", &[4, 2], 1, 0, 0, &[4]);
            s.exec(t, "mint", &[2], i128::MAX, 0, 0, &[]);
            s.exec(t, "mint", &[2], i128::MAX - 1000, 0, 0, &[]);
            s.exec(t, "mint", &[3], 1, 0, 0, &[]);
        }
        s.advance(t, 30);
        s.exec(t, "delegate", &[0, 0], 0, 0, 0, &[0]);
        s.advance(t, 2);
        s.advance(t, 0);
        // many checkpoints: one per ledger, then the search has something to do
        let mut s = Sim::new(kind, 16, 2, false);
        t.seq(&s.label("directed one checkpoint per ledger, odd and even counts"));
        s.exec(t, "mint", &[0], 10_000, 0, 0, &own);
        s.exec(t, "delegate", &[0, 1], 0, 0, 0, &[0]);
        s.exec(t, "delegate", &[3, 1], 0, 0, 0, &[3]);
        for k in 0..12u32 {
            s.advance(t, 1 + (k % 3));
            s.exec(t, "transfer", &[0, 3 + (k as usize % 2)], 100 + k as i128, 0, 0, &[0]);
            if k % 4 == 1 {
                s.exec(t, "transfer", &[3, 0], 50, 0, 0, &[3]);
            }
        }
        s.advance(t, 1);
    }
    directed_zero_refund(t);
    directed_long_idle(t);
    let mut s = Sim::new(Kind::Nft, 1, 100, true);
    t.seq(&s.label("directed nft mint, sequential mint, transfers, approvals, burns, delegation"));
    s.exec(t, "delegate", &[0, 1], 0, 0, 0, &[0]);
    s.exec(t, "mint", &[0], 0, 7, 0, &[]);
    s.exec(t, "seq_mint", &[0], 0, 0, 0, &[]);
    s.exec(t, "seq_mint", &[2], 0, 0, 0, &[]);
    s.exec(t, "transfer", &[0, 0], 0, 7, 0, &[0]); // self
    s.exec(t, "transfer", &[0, 2], 0, 7, 0, &[0]);
    s.exec(t, "transfer", &[0, 2], 0, 7, 0, &[0]); // not the owner any more
    s.advance(t, 2);
    s.exec(t, "delegate", &[2, 2], 0, 0, 0, &[2]);
    s.exec(t, "approve", &[0, 3], 0, 0, 150, &[0]);
    s.exec(t, "transfer_from", &[3, 0, 2], 0, 0, 0, &[3]);
    s.exec(t, "transfer_from", &[3, 2, 0], 0, 0, 0, &[3]); // approval was cleared
    s.exec(t, "approve_all", &[2, 4], 0, 0, 103, &[2]);
    s.exec(t, "burn_from", &[4, 2], 0, 1, 0, &[4]);
    s.advance(t, 2);
    s.exec(t, "burn_from", &[4, 2], 0, 0, 0, &[4]); // operator approval expired at 103
    s.exec(t, "burn", &[2], 0, 7, 0, &[2]);
    s.exec(t, "burn", &[2], 0, 7, 0, &[2]);
    s.exec(t, "mint", &[1], 0, 0, 0, &[]); // id 0 exists: the library does not check
    s.advance(t, 3);
    s.exec(t, "delegate", &[1, 0], 0, 0, 0, &[1]);
    s.advance(t, 1);
}

/// accounts whose units drop to zero (the `VotingUnits` entry is removed) and are funded again
/// later: the delegation must survive, `get_delegate` is observed after every call
fn directed_zero_refund(t: &mut Trace) {
    for kind in [Kind::Ex, Kind::Fvb] {
        let own: Vec<usize> = if kind == Kind::Ex { vec![OWNER] } else { vec![] };
        let mut s = Sim::new(kind, 16, 3, true);
        t.seq(&s.label("directed units reach zero and are re-funded, delegation kept"));
        s.exec(t, "delegate", &[0, 1], 0, 0, 0, &[0]);
        s.exec(t, "delegate", &[2, 2], 0, 0, 0, &[2]);
        s.exec(t, "mint", &[0], 500, 0, 0, &own);
        s.advance(t, 2);
        s.exec(t, "transfer", &[0, 2], 500, 0, 0, &[0]); // 0 -> zero units
        s.exec(t, "transfer", &[0, 2], 1, 0, 0, &[0]); // nothing left
        s.advance(t, 1);
        s.exec(t, "transfer", &[2, 0], 200, 0, 0, &[2]); // re-funded: votes go to 1 again
        s.exec(t, "transfer", &[2, 3], 300, 0, 0, &[2]); // 2 -> zero, 3 undelegated
        s.advance(t, 3);
        s.exec(t, "mint", &[2], 7, 0, 0, &own); // re-funded by mint
        s.exec(t, "delegate", &[3, 2], 0, 0, 0, &[3]);
        s.exec(t, "transfer", &[3, 3], 300, 0, 0, &[3]);
        s.exec(t, "transfer", &[3, 0], 300, 0, 0, &[3]); // 3 -> zero while delegating
        s.advance(t, 1);
        s.exec(t, "delegate", &[3, 3], 0, 0, 0, &[3]); // re-delegate at zero units
        s.exec(t, "transfer", &[0, 3], 500, 0, 0, &[0]);
        if kind == Kind::Fvb {
            s.exec(t, "burn", &[3], 500, 0, 0, &[3]); // zero by burn
            s.exec(t, "mint", &[3], 40, 0, 0, &[]);
            s.exec(t, "burn", &[2], 7, 0, 0, &[2]);
        }
        s.advance(t, 2);
    }
    let mut s = Sim::new(Kind::Nft, 16, 3, true);
    t.seq(&s.label("directed nft units reach zero and are re-funded, delegation kept"));
    s.exec(t, "delegate", &[0, 1], 0, 0, 0, &[0]);
    s.exec(t, "mint", &[0], 0, 4, 0, &[]);
    s.advance(t, 1);
    s.exec(t, "transfer", &[0, 2], 0, 4, 0, &[0]); // 0 -> zero
    s.advance(t, 2);
    s.exec(t, "transfer", &[2, 0], 0, 4, 0, &[2]); // re-funded
    s.exec(t, "burn", &[0], 0, 4, 0, &[0]); // zero by burn
    s.advance(t, 1);
    s.exec(t, "seq_mint", &[0], 0, 0, 0, &[]);
    s.advance(t, 1);
}

/// activity, then 1 day / 31 days / 100 days without touching the contract, old ledgers queried
/// again after every gap and after further activity
fn directed_long_idle(t: &mut Trace) {
    for kind in [Kind::Ex, Kind::Fvb, Kind::Nft] {
        let own: Vec<usize> = if kind == Kind::Ex { vec![OWNER] } else { vec![] };
        let nft = kind == Kind::Nft;
        let mut s = Sim::with_ttl(kind, 16, 100, kind == Kind::Fvb, LONG_TTL);
        t.seq(&s.label("directed long idle 1 / 31 / 100 days"));
        let mut next_id = 0u32;
        let mut fund = |s: &mut Sim, t: &mut Trace, to: usize, amt: i128| {
            if nft {
                s.exec(t, "mint", &[to], 0, next_id, 0, &[]);
                next_id += 1;
            } else {
                s.exec(t, "mint", &[to], amt, 0, 0, &own);
            }
        };
        let mv = |s: &mut Sim, t: &mut Trace, f: usize, to: usize, amt: i128, id: u32| {
            s.exec(t, "transfer", &[f, to], if nft { 0 } else { amt }, if nft { id } else { 0 }, 0, &[f]);
        };
        s.exec(t, "delegate", &[0, 1], 0, 0, 0, &[0]);
        fund(&mut s, t, 0, 1000); // id 0
        fund(&mut s, t, 2, 300); // id 1
        s.advance(t, 1);
        s.exec(t, "delegate", &[2, 2], 0, 0, 0, &[2]);
        s.advance(t, 2);
        fund(&mut s, t, 0, 50); // id 2
        mv(&mut s, t, 0, 3, 400, 0);
        s.advance(t, 1);
        s.exec(t, "delegate", &[3, 1], 0, 0, 0, &[3]);
        s.advance(t, DAY); // one day of silence
        s.advance(t, 0);
        mv(&mut s, t, 2, 4, 300, 1); // 2 -> zero units
        s.exec(t, "delegate", &[4, 0], 0, 0, 0, &[4]);
        s.advance(t, 31 * DAY); // longer than the 30-day extension of the votes module
        s.advance(t, 0);
        mv(&mut s, t, 4, 2, 100, 1); // 2 re-funded: still delegating to itself
        fund(&mut s, t, 1, 5);
        s.advance(t, 3);
        s.advance(t, 100 * DAY);
        s.advance(t, 0);
        s.exec(t, "delegate", &[0, 0], 0, 0, 0, &[0]);
        mv(&mut s, t, 0, 2, 1, 2);
        s.advance(t, 1);
    }
}

// ------------------------------------------------------------------ generators

fn gen_auth(rng: &mut Rng, right: &[usize], a: &[usize]) -> Vec<usize> {
    let mut r: Vec<usize> = if rng.chance(86) {
        let mut r = right.to_vec();
        if rng.chance(12) {
            r.push(rng.below(N as u64) as usize);
        }
        r
    } else if rng.chance(50) {
        a.iter().filter(|x| !right.contains(x)).cloned().collect()
    } else {
        (0..=N).filter(|_| rng.chance(35)).collect()
    };
    r.sort();
    r.dedup();
    r
}

/// amount for a movement out of a balance `bal` (limited by `cap`, e.g. the allowance)
fn pick_amount(rng: &mut Rng, bal: i128, cap: i128) -> i128 {
    let lim = bal.min(cap);
    match rng.below(38) {
        0 => 0,
        1 => 1,
        2 => -1,
        3 | 4 => lim,                // everything
        5 => lim.saturating_add(1), // one too many
        6 => (lim - 1).max(0),
        7 => lim / 2,
        8 => cap,
        9 => i128::MAX,
        10 => i128::MAX - bal,
        11 => rng.i128_any(),
        12 => rng.i128_nonneg() >> 70,
        _ => {
            if lim > 0 {
                1 + (rng.below(lim.min(2000) as u64) as i128)
            } else {
                rng.range(1, 500) as i128
            }
        }
    }
}

/// `long`: a "long idle" sequence on a host with a one-year `max_entry_ttl`: a few ledgers of
/// activity, then 1 day, 31 days and 100 days without any access to the contract, with more
/// activity (and the same old ledgers queried again) after each gap
fn random_sequence(t: &mut Trace, rng: &mut Rng, k: u64, seed: u64, kind: Kind, len: u64, long: bool) {
    let min_temp = if rng.chance(50) { 1 } else { 16 };
    let start = *rng.pick(&[0u32, 0, 1, 2, 3, 100, 5000]);
    let all_real = rng.chance(20);
    let mut s = Sim::with_ttl(kind, min_temp, start, all_real, if long { LONG_TTL } else { MAX_TTL });
    t.seq(&s.label(&format!("{} k={} seed={}", if long { "long-idle" } else { "rand" }, k, seed)));
    let mut gaps: Vec<(u64, u32)> = if long {
        let mut g = vec![DAY, 31 * DAY, 100 * DAY];
        if rng.chance(30) {
            g.swap(0, 1);
        }
        if rng.chance(20) {
            g[2] = 31 * DAY + rng.below(1000) as u32;
        }
        vec![(len / 4, g[0]), (len / 2, g[1]), (3 * len / 4, g[2])]
    } else {
        vec![]
    };
    let p = |rng: &mut Rng| rng.below(N as u64) as usize;
    let own: Vec<usize> = if kind == Kind::Ex { vec![OWNER] } else { vec![] };
    // some sequences move the ledger after almost every op (many checkpoints), others rarely
    let adv_pct = *rng.pick(&[8u64, 20, 45]);
    // total small-step ledger movement: the window covers every ledger (per phase when `long`)
    let mut budget: u32 = if long { 20 } else { 75 };
    let mut pairs: Vec<(usize, usize)> = vec![]; // (owner, spender/operator) approvals made so far
    let mut tok_appr: Vec<(usize, u32)> = vec![]; // (approved, token id)
    for step in 0..len {
        if let Some(pos) = gaps.iter().position(|(at, _)| *at == step) {
            let (_, n) = gaps.remove(pos);
            s.advance(t, n);
            budget = 20;
            continue;
        }
        if rng.chance(adv_pct) {
            let n = (*rng.pick(&[0u32, 1, 1, 1, 1, 2, 2, 3, 5, 9])).min(budget);
            budget -= n;
            s.advance(t, n);
            continue;
        }
        let r = rng.below(100);
        if r < 24 {
            // delegation
            let a = p(rng);
            let cur = s.delegate_of(a);
            let d = match rng.below(12) {
                0 | 1 => a,                         // self
                2 => cur.unwrap_or(a).min(N - 1), // same as now: refused
                _ => p(rng),
            };
            let auth = gen_auth(rng, &[a], &[a, d]);
            s.exec(t, "delegate", &[a, d], 0, 0, 0, &auth);
            continue;
        }
        if kind == Kind::Nft {
            let existing: Vec<u32> = (0..IDS).filter(|id| s.owner_of(*id).is_some()).collect();
            let id = if !existing.is_empty() && rng.chance(80) { *rng.pick(&existing) } else { rng.below(IDS as u64) as u32 };
            let owner = s.owner_of(id).filter(|o| *o < N);
            let lu = match rng.below(10) {
                0 => 0,
                1 => s.now.saturating_sub(1),
                2 => s.now,
                3 => s.now + 1,
                4 => s.now + s.max_ttl - 1,
                5 => s.now + s.max_ttl,
                _ => s.now + 1 + rng.below(30) as u32,
            };
            let from = if rng.chance(88) { owner.unwrap_or_else(|| p(rng)) } else { p(rng) };
            // a spender that plausibly holds an approval
            let spender = |rng: &mut Rng| -> usize {
                let cands: Vec<usize> = pairs
                    .iter()
                    .filter(|(o, _)| *o == from)
                    .map(|(_, x)| *x)
                    .chain(tok_appr.iter().filter(|(_, i)| *i == id).map(|(x, _)| *x))
                    .collect();
                if !cands.is_empty() && rng.chance(75) {
                    *rng.pick(&cands)
                } else if rng.chance(25) {
                    from
                } else {
                    rng.below(N as u64) as usize
                }
            };
            match r {
                24..=36 => s.exec(t, "mint", &[p(rng)], 0, rng.below(IDS as u64) as u32, 0, &[]),
                37..=44 => s.exec(t, "seq_mint", &[p(rng)], 0, 0, 0, &[]),
                45..=60 => {
                    let to = if rng.chance(12) { from } else { p(rng) };
                    let auth = gen_auth(rng, &[from], &[from, to]);
                    s.exec(t, "transfer", &[from, to], 0, id, 0, &auth)
                }
                61..=71 => {
                    let sp = spender(rng);
                    let to = if rng.chance(10) { from } else { p(rng) };
                    let auth = gen_auth(rng, &[sp], &[sp, from, to]);
                    s.exec(t, "transfer_from", &[sp, from, to], 0, id, 0, &auth)
                }
                72..=77 => {
                    let auth = gen_auth(rng, &[from], &[from]);
                    s.exec(t, "burn", &[from], 0, id, 0, &auth)
                }
                78..=83 => {
                    let sp = spender(rng);
                    let auth = gen_auth(rng, &[sp], &[sp, from]);
                    s.exec(t, "burn_from", &[sp, from], 0, id, 0, &auth)
                }
                84..=92 => {
                    let b = p(rng);
                    let auth = gen_auth(rng, &[from], &[from, b]);
                    tok_appr.push((b, id));
                    s.exec(t, "approve", &[from, b], 0, id, lu, &auth)
                }
                _ => {
                    let (o, op) = (p(rng), p(rng));
                    let auth = gen_auth(rng, &[o], &[o, op]);
                    pairs.push((o, op));
                    s.exec(t, "approve_all", &[o, op], 0, 0, lu, &auth)
                }
            }
            continue;
        }
        // fungible flavours: prefer a source that holds something
        let holders: Vec<usize> = (0..N).filter(|i| s.bal(*i) > 0).collect();
        let f = if !holders.is_empty() && rng.chance(85) { *rng.pick(&holders) } else { p(rng) };
        let bal = s.bal(f);
        let allowance = |s: &Sim, o: usize, sp: usize| -> i128 { query(&s.e, &s.c, "allowance", args(&s.e, [s.ad(o), s.ad(sp)])).unwrap_or(0) };
        let spender = |rng: &mut Rng| -> usize {
            let cands: Vec<usize> = pairs.iter().filter(|(o, _)| *o == f).map(|(_, x)| *x).collect();
            if !cands.is_empty() && rng.chance(80) {
                *rng.pick(&cands)
            } else {
                rng.below(N as u64) as usize
            }
        };
        // the example contract has no burn entry points: exercise that rarely
        let r = if kind == Kind::Ex && r >= 85 && rng.chance(90) { 43 + rng.below(42) } else { r };
        match r {
            24..=42 => {
                let to = p(rng);
                let amt = if rng.chance(75) { rng.range(1, 2000) as i128 } else { pick_amount(rng, i128::MAX - s.bal(to), i128::MAX) };
                let auth = if kind == Kind::Ex { gen_auth(rng, &own, &[to]) } else { gen_auth(rng, &[], &[to]) };
                s.exec(t, "mint", &[to], amt, 0, 0, &auth)
            }
            43..=62 => {
                let to = if rng.chance(12) { f } else { p(rng) };
                let amt = pick_amount(rng, bal, i128::MAX);
                let auth = gen_auth(rng, &[f], &[f, to]);
                s.exec(t, "transfer", &[f, to], amt, 0, 0, &auth)
            }
            63..=72 => {
                let sp = spender(rng);
                let to = if rng.chance(10) { f } else { p(rng) };
                let amt = pick_amount(rng, bal, allowance(&s, f, sp));
                let auth = gen_auth(rng, &[sp], &[sp, f, to]);
                s.exec(t, "transfer_from", &[sp, f, to], amt, 0, 0, &auth)
            }
            73..=84 => {
                let sp = p(rng);
                let lu = match rng.below(8) {
                    0 => s.now.saturating_sub(1),
                    1 => s.now,
                    2 => s.now + s.max_ttl,
                    _ => s.now + 1 + rng.below(40) as u32,
                };
                let amt = if rng.chance(70) { rng.range(1, 3000) as i128 } else { pick_amount(rng, bal, i128::MAX) };
                let auth = gen_auth(rng, &[f], &[f, sp]);
                pairs.push((f, sp));
                s.exec(t, "approve", &[f, sp], amt, 0, lu, &auth)
            }
            85..=92 => {
                let amt = pick_amount(rng, bal, i128::MAX);
                let auth = gen_auth(rng, &[f], &[f]);
                s.exec(t, "burn", &[f], amt, 0, 0, &auth) // `ex` has no such entry point: err
            }
            _ => {
                let sp = spender(rng);
                let amt = pick_amount(rng, bal, allowance(&s, f, sp));
                let auth = gen_auth(rng, &[sp], &[sp, f]);
                s.exec(t, "burn_from", &[sp, f], amt, 0, 0, &auth)
            }
        }
    }
    // close the last ledger so that its final values become history too
    s.advance(t, 1);
}

fn main() {
    let mut t = Trace::from_args();
    let seed = seed_from_env();
    let thorough = arg_str("--tier").as_deref() == Some("thorough");
    let nseq = arg_u64("--seqs", if thorough { 400 } else { 120 });
    let nlong = arg_u64("--long-seqs", if thorough { 45 } else { 9 });
    let len = arg_u64("--len", 40);
    let mut rng = Rng::new(seed);
    if arg_str("--directed").as_deref() != Some("off") {
        directed(&mut t);
    }
    for k in 0..nseq {
        let kind = match k % 3 {
            0 => Kind::Ex,
            1 => Kind::Fvb,
            _ => Kind::Nft,
        };
        random_sequence(&mut t, &mut rng, k, seed, kind, len, false);
    }
    for k in 0..nlong {
        let kind = match k % 3 {
            0 => Kind::Fvb,
            1 => Kind::Nft,
            _ => Kind::Ex,
        };
        random_sequence(&mut t, &mut rng, k, seed, kind, len, true);
    }
    t.finish();
}
