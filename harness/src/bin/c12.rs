//! C12 correspondence: the real mul-div / Wad functions of the working tree, in-process.
use ozharness::*;
use soroban_sdk::{Env, I256};
use stellar_contract_utils::math::{
    checked_mul_div_i128, checked_mul_div_i256, mul_div_i128, mul_div_i256, wad::Wad, Rounding,
};

fn rounding(i: usize) -> (Rounding, &'static str) {
    match i {
        0 => (Rounding::Floor, "floor"),
        1 => (Rounding::Ceil, "ceil"),
        _ => (Rounding::Truncate, "trunc"),
    }
}

fn lattice() -> Vec<i128> {
    let mut v: Vec<i128> = vec![0, 1, -1, 2, -2, 3, -3, 7, -7, 10, -10];
    for b in [1i128 << 63, 1i128 << 64, 1i128 << 126, 1_000_000_000_000_000_000, 3_037_000_499, 13_043_817_825_332_782_212] {
        for d in [-1i128, 0, 1] {
            v.push(b + d);
            v.push(-(b + d));
        }
    }
    v.extend([i128::MIN, i128::MIN + 1, i128::MIN + 2, i128::MAX, i128::MAX - 1, i128::MAX - 2, i128::MAX / 2, i128::MAX / 2 + 1, i128::MIN / 2, i128::MIN / 2 - 1]);
    v.sort();
    v.dedup();
    v
}

fn i256_of(e: &Env, hi: i128, lo: u128) -> I256 {
    I256::from_parts(e, (hi >> 64) as i64, hi as u64, (lo >> 64) as u64, lo as u64)
}

fn i256_to_string(v: &I256) -> String {
    // decimal rendering via repeated division is slow; use be bytes -> big decimal by hand
    let bytes = v.to_be_bytes();
    let mut b = [0u8; 32];
    bytes.copy_into_slice(&mut b);
    let neg = b[0] & 0x80 != 0;
    let mut mag = b;
    if neg {
        // two's complement negate
        let mut carry = 1u16;
        for i in (0..32).rev() {
            let x = (!mag[i]) as u16 + carry;
            mag[i] = x as u8;
            carry = x >> 8;
        }
    }
    // base-256 -> decimal
    let mut digits: Vec<u8> = vec![];
    let mut cur = mag.to_vec();
    while cur.iter().any(|&x| x != 0) {
        let mut rem = 0u32;
        for x in cur.iter_mut() {
            let acc = (rem << 8) | *x as u32;
            *x = (acc / 10) as u8;
            rem = acc % 10;
        }
        digits.push(b'0' + rem as u8);
    }
    if digits.is_empty() {
        return "0".into();
    }
    digits.reverse();
    let s = String::from_utf8(digits).unwrap();
    if neg {
        format!("-{}", s)
    } else {
        s
    }
}

fn show_opt(r: Option<Option<String>>) -> String {
    match r {
        None => "panic".into(),
        Some(None) => "none".into(),
        Some(Some(v)) => format!("ok {}", v),
    }
}

fn do128(t: &mut Trace, x: i128, y: i128, d: i128) {
    for ri in 0..3 {
        let (_, rn) = rounding(ri);
        t.op(&format!("md128 v=plain r={} x={} y={} d={}", rn, x, y, d));
        let r = catch(|| {
            let e = Env::default();
            mul_div_i128(&e, x, y, d, rounding(ri).0)
        });
        t.obs(&show_opt(r.map(|v| Some(v.to_string()))));
        t.op(&format!("md128 v=checked r={} x={} y={} d={}", rn, x, y, d));
        let r = catch(|| {
            let e = Env::default();
            checked_mul_div_i128(&e, x, y, d, rounding(ri).0)
        });
        t.obs(&show_opt(r.map(|o| o.map(|v| v.to_string()))));
    }
}

fn do256(t: &mut Trace, x: (i128, u128), y: (i128, u128), d: (i128, u128)) {
    let e0 = Env::default();
    let xs = i256_to_string(&i256_of(&e0, x.0, x.1));
    let ys = i256_to_string(&i256_of(&e0, y.0, y.1));
    let ds = i256_to_string(&i256_of(&e0, d.0, d.1));
    for ri in 0..3 {
        let (_, rn) = rounding(ri);
        t.op(&format!("md256 v=plain r={} x={} y={} d={}", rn, xs, ys, ds));
        let r = catch(|| {
            let e = Env::default();
            let v = mul_div_i256(&e, i256_of(&e, x.0, x.1), i256_of(&e, y.0, y.1), i256_of(&e, d.0, d.1), rounding(ri).0);
            i256_to_string(&v)
        });
        t.obs(&show_opt(r.map(Some)));
        t.op(&format!("md256 v=checked r={} x={} y={} d={}", rn, xs, ys, ds));
        let r = catch(|| {
            let e = Env::default();
            checked_mul_div_i256(&e, i256_of(&e, x.0, x.1), i256_of(&e, y.0, y.1), i256_of(&e, d.0, d.1), rounding(ri).0)
                .map(|v| i256_to_string(&v))
        });
        t.obs(&show_opt(r));
    }
}

fn wad_ops(t: &mut Trace, a: i128, b: i128) {
    let e = Env::default();
    t.op(&format!("wad f=mul a={} b={}", a, b));
    let r = catch(|| Wad::from_raw(a).checked_mul(&e, Wad::from_raw(b)).map(|w| w.raw().to_string()));
    t.obs(&show_opt(r));
    t.op(&format!("wad f=div a={} b={}", a, b));
    let r = catch(|| Wad::from_raw(a).checked_div(&e, Wad::from_raw(b)).map(|w| w.raw().to_string()));
    t.obs(&show_opt(r));
    t.op(&format!("wad f=ratio a={} b={}", a, b));
    let r = catch(|| {
        let e = Env::default();
        Wad::from_ratio(&e, a, b).raw().to_string()
    });
    t.obs(&show_opt(r.map(Some)));
    t.op(&format!("wad f=mulint a={} b={}", a, b));
    let r = catch(|| Wad::from_raw(a).checked_mul_int(b).map(|w| w.raw().to_string()));
    t.obs(&show_opt(r));
    t.op(&format!("wad f=divint a={} b={}", a, b));
    let r = catch(|| Wad::from_raw(a).checked_div_int(b).map(|w| w.raw().to_string()));
    t.obs(&show_opt(r));
    t.op(&format!("wad f=add a={} b={}", a, b));
    let r = catch(|| Wad::from_raw(a).checked_add(Wad::from_raw(b)).map(|w| w.raw().to_string()));
    t.obs(&show_opt(r));
    t.op(&format!("wad f=sub a={} b={}", a, b));
    let r = catch(|| Wad::from_raw(a).checked_sub(Wad::from_raw(b)).map(|w| w.raw().to_string()));
    t.obs(&show_opt(r));
    t.op(&format!("wad f=fromint a={} b=0", a));
    let r = catch(|| {
        let e = Env::default();
        Wad::from_integer(&e, a).raw().to_string()
    });
    t.obs(&show_opt(r.map(Some)));
}

fn wad_pow(t: &mut Trace, a: i128, n: u32) {
    let e = Env::default();
    t.op(&format!("wad f=cpow a={} b={}", a, n));
    let r = catch(|| Wad::from_raw(a).checked_pow(&e, n).map(|w| w.raw().to_string()));
    t.obs(&show_opt(r));
    t.op(&format!("wad f=pow a={} b={}", a, n));
    let r = catch(|| {
        let e = Env::default();
        Wad::from_raw(a).pow(&e, n).raw().to_string()
    });
    t.obs(&show_opt(r.map(Some)));
}

fn main() {
    let mut t = Trace::from_args();
    let seed = seed_from_env();
    let tier_thorough = arg_str("--tier").as_deref() == Some("thorough");
    let n_random = arg_u64("--n", if tier_thorough { 60000 } else { 6000 });
    let mut rng = Rng::new(seed);
    let lat = lattice();
    let shard = arg_u64("--shard", 0);

    // 1. boundary lattice: full cube in the thorough tier, a seeded third of it in quick
    t.seq("lattice128");
    for &x in &lat {
        for &y in &lat {
            for &d in &lat {
                if (tier_thorough && shard == 0) || rng.below(6) == 0 || d == 0 || d == -1 {
                    do128(&mut t, x, y, d);
                }
            }
        }
    }
    // 2. random triples stratified by bit length; a share engineered so that the quotient
    //    sits at the i128 boundary (phantom overflow that must succeed / must fail)
    t.seq("random128");
    for i in 0..n_random {
        let (x, y, d) = match i % 4 {
            0 => (rng.i128_any(), rng.i128_any(), rng.i128_any()),
            1 => {
                // d divides close to x*y / MAX
                let x = rng.i128_any();
                let y = rng.i128_any();
                let d = if x != 0 && y != 0 {
                    let bits = 256 - 2 - (x.unsigned_abs().leading_zeros() + y.unsigned_abs().leading_zeros()) as i32;
                    let shift = (bits - 127).clamp(0, 126) as u32;
                    let base = 1i128 << shift;
                    base.wrapping_add(rng.range(-2, 2) as i128) * if rng.chance(50) { -1 } else { 1 }
                } else {
                    rng.i128_any()
                };
                (x, y, d)
            }
            2 => {
                // x = k*d (+-1) so remainders hit 0 / +-1
                let d = *rng.pick(&lat);
                let k = rng.i128_any() >> 64;
                let x = k.wrapping_mul(if d == 0 { 1 } else { d >> 64 | 1 });
                (x.wrapping_add(rng.range(-1, 1) as i128), *rng.pick(&lat), d)
            }
            _ => (*rng.pick(&lat), rng.i128_any(), *rng.pick(&lat)),
        };
        do128(&mut t, x, y, d);
    }
    // 3. I256
    t.seq("i256");
    let n256 = n_random / 6;
    for i in 0..n256 {
        let small = |rng: &mut Rng| -> (i128, u128) {
            let v = rng.i128_any();
            (if v < 0 { -1 } else { 0 }, v as u128)
        };
        let wide = |rng: &mut Rng| -> (i128, u128) { (rng.i128_any() >> rng.below(127), rng.u128()) };
        let (x, y, d) = match i % 3 {
            0 => (small(&mut rng), small(&mut rng), small(&mut rng)),
            1 => (wide(&mut rng), small(&mut rng), wide(&mut rng)),
            _ => (wide(&mut rng), wide(&mut rng), wide(&mut rng)),
        };
        do256(&mut t, x, y, d);
    }
    // boundary lattice of 256-bit values (hi, lo): 0, ±1, ±2, ±10^18, ±2^64, ±2^127, ±2^128, MIN, MAX and
    // neighbours, as x, y and d (equal operands, zero operands and a zero denominator included)
    {
        let lat256: [(i128, u128); 17] = [
            (0, 0), (0, 1), (-1, u128::MAX), (0, 2), (-1, u128::MAX - 1),
            (0, 1_000_000_000_000_000_000), (-1, (-1_000_000_000_000_000_000i128) as u128),
            (0, 1 << 64), (0, 1 << 127), (-1, 1 << 127), (1, 0), (-1, 0),
            (i128::MAX, u128::MAX), (i128::MAX, u128::MAX - 1), (i128::MIN, 0), (i128::MIN, 1), (0, 3),
        ];
        for &x in &lat256 {
            for &y in &lat256 {
                for &d in &lat256 {
                    if tier_thorough || rng.below(5) == 0 || d == (0, 0) || y == d || x == d {
                        do256(&mut t, x, y, d);
                    }
                }
            }
        }
    }
    for &(x, y, d) in &[((i128::MIN, 0u128), (0i128, 1u128), (-1i128, u128::MAX)), ((0, 0), (0, 5), (0, 0)), ((i128::MAX, u128::MAX), (0, 1), (0, 1)), ((i128::MAX, u128::MAX), (0, 2), (0, 2))] {
        do256(&mut t, x, y, d);
    }
    // 4. Wad
    t.seq("wad");
    let mut wl: Vec<i128> = lat.iter().cloned().filter(|v| v.unsigned_abs() < 8 || v.unsigned_abs() > 1 << 60).collect();
    {
        // whole and near-whole Wad values (k * 10^18 and neighbours): the operands for which a
        // "whole number" shortcut and the general rescaling path must agree, including MIN / -1.0
        let scale = 1_000_000_000_000_000_000i128;
        let kmax = i128::MAX / scale;
        for k in [1i128, 2, 3, 10, 1_000_000, kmax - 1, kmax] {
            for sgn in [1i128, -1] {
                for off in [-1i128, 0, 1] {
                    let v = sgn * k * scale + off;
                    if !wl.contains(&v) {
                        wl.push(v);
                    }
                }
            }
        }
        wl.push(scale / 2);
        wl.push(-scale / 2);
    }
    for &a in &wl {
        for &b in &wl {
            wad_ops(&mut t, a, b);
        }
    }
    for _ in 0..n_random / 4 {
        wad_ops(&mut t, rng.i128_any(), rng.i128_any());
    }
    let scale = 1_000_000_000_000_000_000i128;
    // every exponent up to 140 (the overflow boundary of each base lies in there: 2.0^67 fits, 2.0^68 does not), then the
    // large ones; bases around 1, 2 (2.004 / 2.005: the last bases whose 67th power fits / does not fit), 3, 4, 7, 10
    for &a in &[0, 1, -1, scale, -scale, 2 * scale, -2 * scale, scale + 1, scale - 1, scale / 2, -scale / 2, 3 * scale / 2, -3 * scale / 2,
                2 * scale + 1, 2 * scale - 1, 2_004 * (scale / 1000), 2_005 * (scale / 1000), -2_004 * (scale / 1000), 3 * scale, -3 * scale,
                4 * scale, 7 * scale, -7 * scale, 10 * scale, -10 * scale, 1_001 * (scale / 1000), 999 * (scale / 1000),
                1_000_000 * scale, i128::MAX, i128::MIN, 1 << 100] {
        for n in (0..=140).chain([255, 256, 1000, 65535, 1 << 20, u32::MAX - 1, u32::MAX]) {
            wad_pow(&mut t, a, n);
        }
    }
    for _ in 0..n_random / 10 {
        let a = match rng.below(3) {
            0 => scale + rng.range(-1_000_000, 1_000_000) as i128 * 1_000_000_000,
            1 => rng.i128_any() >> rng.below(100),
            _ => rng.range(-50, 50) as i128 * scale / 7,
        };
        let n = match rng.below(3) {
            0 => rng.below(12) as u32,
            1 => rng.below(300) as u32,
            _ => rng.next() as u32,
        };
        wad_pow(&mut t, a, n);
    }
    t.finish();
}
