//! C09 correspondence: the real `examples/timelock-controller` contract (compiled from /repo's
//! working tree), driven in the native Soroban host
//!  * end-to-end with real authorization entries (`set_auths`): the controller's own address as
//!    credential with an arbitrary `Vec<OperationMeta>` signature payload, ordinary accounts as
//!    always-approving custom-account contracts that sign exactly the invocations listed in the
//!    op line;
//!  * and by calling `__check_auth` directly (`try_invoke_contract_check_auth`) with crafted
//!    descriptor vectors and context vectors.
//! Ids on the wire are symbolic as in c08 (`o<k>`, `z`, `r<n>`).
use ozharness::*;
use soroban_sdk::{
    auth::{Context, ContractContext, ContractExecutable, CreateContractHostFnContext},
    testutils::BytesN as _,
    xdr, Address, BytesN, Env, IntoVal, Symbol, TryFromVal, Val, Vec as SVec,
};

#[allow(dead_code)]
#[path = "/repo/examples/timelock-controller/src/contract.rs"]
mod tlc;
use tlc::{OperationMeta, TimelockController};

mod contracts {
    use soroban_sdk::{auth::{Context, CustomAccountInterface}, contract, contractimpl, contracttype, crypto::Hash, Env, Vec};

    /// an ordinary account: a custom account that approves whatever its entries cover
    #[contract]
    pub struct Acct;

    #[contractimpl]
    impl CustomAccountInterface for Acct {
        type Error = soroban_sdk::Error;
        type Signature = ();
        fn __check_auth(_e: Env, _p: Hash<32>, _s: (), _c: Vec<Context>) -> Result<(), soroban_sdk::Error> {
            Ok(())
        }
    }

    #[contracttype]
    pub enum TK {
        Count,
        Last,
    }

    /// counting target
    #[contract]
    pub struct Target;

    #[contractimpl]
    impl Target {
        pub fn bump(e: &Env, x: u32) -> u32 {
            Self::rec(e, 10, x)
        }
        pub fn poke(e: &Env, x: u32) -> u32 {
            Self::rec(e, 11, x)
        }
        pub fn fail(e: &Env, x: u32) -> u32 {
            Self::rec(e, 12, x);
            panic!("target refuses")
        }
        fn rec(e: &Env, f: u32, x: u32) -> u32 {
            let c: u32 = e.storage().instance().get(&TK::Count).unwrap_or(0) + 1;
            e.storage().instance().set(&TK::Count, &c);
            e.storage().instance().set(&TK::Last, &(f, x));
            c
        }
        pub fn calls(e: &Env) -> (u32, Option<(u32, u32)>) {
            (e.storage().instance().get(&TK::Count).unwrap_or(0), e.storage().instance().get(&TK::Last))
        }
    }
}
use contracts::{Acct, Target};

/// max_entry_ttl of the host (about one year of ledgers): persistent / instance entries of the
/// unmodified code stay live across the long idle gaps (min_persistent_entry_ttl = this - 1)
const MAX_TTL: u32 = 6_312_000;
const DAY: u32 = 17_280;
const NACC: usize = 5; // accounts 1..=5; address 0 is the controller, 9 the target
const ROLES: [&str; 4] = ["proposer", "executor", "canceller", "other"];

fn fn_name(f: u32) -> &'static str {
    match f {
        0 => "update_delay",
        1 => "grant_role",
        2 => "revoke_role",
        3 => "transfer_admin_role",
        4 => "renounce_admin",
        5 => "set_role_admin",
        6 => "renounce_role",
        10 => "bump",
        11 => "poke",
        12 => "fail",
        13 => "get_min_delay",
        _ => "nope",
    }
}

#[derive(Clone, PartialEq, Debug)]
enum IdRef {
    Zero,
    Raw(u32),
    Op(usize),
}
impl IdRef {
    fn show(&self) -> String {
        match self {
            IdRef::Zero => "z".into(),
            IdRef::Raw(n) => format!("r{}", n),
            IdRef::Op(k) => format!("o{}", k),
        }
    }
}

/// a typed argument value
#[derive(Clone, PartialEq, Debug)]
enum Arg {
    U(u32),
    A(usize),
    S(usize),
}
fn show_args(a: &[Arg]) -> String {
    if a.is_empty() {
        return "-".into();
    }
    a.iter()
        .map(|x| match x {
            Arg::U(n) => format!("u{}", n),
            Arg::A(i) => format!("a{}", i),
            Arg::S(r) => format!("s{}", r),
        })
        .collect::<Vec<_>>()
        .join(".")
}

#[derive(Clone, PartialEq, Debug)]
struct OpDef {
    t: usize,
    f: u32,
    a: Vec<Arg>,
    p: IdRef,
    s: u32,
}

#[derive(Clone, Debug)]
struct MetaD {
    p: IdRef,
    s: u32,
    e: Option<usize>,
}
fn show_sig(sig: &Option<Vec<MetaD>>) -> String {
    match sig {
        None => "none".into(),
        Some(v) if v.is_empty() => "e".into(),
        Some(v) => v
            .iter()
            .map(|m| format!("{}:{}:{}", m.p.show(), m.s, m.e.map(|x| x.to_string()).unwrap_or("-".into())))
            .collect::<Vec<_>>()
            .join(";"),
    }
}

#[derive(Clone, Debug)]
enum Tok {
    Call(usize),        // account i signs the top-level invocation
    Exec(usize, usize), // account i signs the execute tuple of context/descriptor j
}
fn show_toks(t: &[Tok]) -> String {
    if t.is_empty() {
        return "-".into();
    }
    t.iter()
        .map(|x| match x {
            Tok::Call(i) => format!("c{}", i),
            Tok::Exec(i, j) => format!("x{}@{}", i, j),
        })
        .collect::<Vec<_>>()
        .join(",")
}

#[derive(Clone, Debug)]
enum Ctx {
    Def(usize),                   // the call (target, fn, args) of definition k
    Lit(usize, u32, Vec<Arg>),    // an explicit call
    Create,                       // a create-contract context
}
fn show_ctxs(c: &[Ctx]) -> String {
    if c.is_empty() {
        return "e".into();
    }
    c.iter()
        .map(|x| match x {
            Ctx::Def(k) => format!("k{}", k),
            Ctx::Lit(t, f, a) => format!("c:{}:{}:{}", t, f, show_args(a)),
            Ctx::Create => "create".into(),
        })
        .collect::<Vec<_>>()
        .join(";")
}

struct Sim {
    /// kinds of UNDECODABLE elements the next signature payload is made of instead of descriptors
    /// (0 = a u32, 1 = void, 2 = a symbol, 3 = an address, 4 = a vector): the line carries `junk=`; to the
    /// model and the monitor such a payload holds no descriptor at all (`sig=e`)
    junk: Vec<u32>,
    e: Env,
    ctl: Address,
    accts: Vec<Address>, // index 1..=NACC at [i-1]
    target: Address,
    defs: Vec<OpDef>,
    hashes: Vec<BytesN<32>>,
    now: u32,
    nonce: i64,
}

fn lit(e: &Env, n: u32) -> BytesN<32> {
    let mut b = [0u8; 32];
    b[28..32].copy_from_slice(&n.to_be_bytes());
    BytesN::from_array(e, &b)
}

fn scval(e: &Env, v: &Val) -> xdr::ScVal {
    xdr::ScVal::try_from_val(e, v).expect("scval")
}

impl Sim {
    fn new(start: u32, min_delay: u32, proposers: &[usize], executors: &[usize], admin: Option<usize>) -> Sim {
        let e = new_env(start, 16, MAX_TTL);
        let accts: Vec<Address> = (0..NACC).map(|_| e.register(Acct, ())).collect();
        let target = e.register(Target, ());
        let pv: SVec<Address> = SVec::from_iter(&e, proposers.iter().map(|&i| accts[i - 1].clone()));
        let ev: SVec<Address> = SVec::from_iter(&e, executors.iter().map(|&i| accts[i - 1].clone()));
        let ad: Option<Address> = admin.map(|i| accts[i - 1].clone());
        let ctl = e.register(TimelockController, (min_delay, pv, ev, ad));
        Sim { junk: vec![], e, ctl, accts, target, defs: vec![], hashes: vec![], now: start, nonce: 1 }
    }
    fn addr(&self, i: usize) -> Address {
        match i {
            0 => self.ctl.clone(),
            9 => self.target.clone(),
            i if i >= 1 && i <= NACC => self.accts[i - 1].clone(),
            _ => self.accts[0].clone(),
        }
    }
    fn addr_index(&self, a: &Address) -> String {
        if *a == self.ctl {
            return "0".into();
        }
        if *a == self.target {
            return "9".into();
        }
        match self.accts.iter().position(|x| x == a) {
            Some(p) => (p + 1).to_string(),
            None => "?".into(),
        }
    }
    fn id(&self, r: &IdRef) -> BytesN<32> {
        match r {
            IdRef::Zero => lit(&self.e, 0),
            IdRef::Raw(n) => lit(&self.e, *n),
            IdRef::Op(k) => self.hashes[*k].clone(),
        }
    }
    fn val(&self, a: &Arg) -> Val {
        let e = &self.e;
        match a {
            Arg::U(n) => (*n).into_val(e),
            Arg::A(i) => self.addr(*i).into_val(e),
            Arg::S(r) => Symbol::new(e, ROLES[*r]).into_val(e),
        }
    }
    fn vals(&self, a: &[Arg]) -> SVec<Val> {
        let mut v: SVec<Val> = SVec::new(&self.e);
        for x in a {
            v.push_back(self.val(x));
        }
        v
    }
    fn op_args(&self, d: &OpDef) -> [Val; 5] {
        let e = &self.e;
        [
            self.addr(d.t).into_val(e),
            Symbol::new(e, fn_name(d.f)).into_val(e),
            self.vals(&d.a).into_val(e),
            self.id(&d.p).into_val(e),
            lit(e, d.s).into_val(e),
        ]
    }
    fn meta(&self, m: &MetaD) -> OperationMeta {
        OperationMeta { predecessor: self.id(&m.p), salt: lit(&self.e, m.s), executor: m.e.map(|i| self.addr(i)) }
    }
    fn junk_suffix(&self) -> String {
        if self.junk.is_empty() { String::new() } else { format!(" junk={}", join(&self.junk)) }
    }
    fn sig_val(&self, metas: &[MetaD]) -> Val {
        if !self.junk.is_empty() {
            // a payload whose elements do not decode as `OperationMeta` (a host vector is typed element by
            // element only when it is read)
            let e = &self.e;
            let mut v: SVec<Val> = SVec::new(e);
            for k in &self.junk {
                v.push_back(match k {
                    0 => 7u32.into_val(e),
                    1 => ().into_val(e),
                    2 => Symbol::new(e, "meta").into_val(e),
                    3 => self.addr(3).into_val(e),
                    _ => SVec::<u32>::from_array(e, [1, 2, 3]).into_val(e),
                });
            }
            return v.into_val(e);
        }
        let mut v: SVec<OperationMeta> = SVec::new(&self.e);
        for m in metas {
            v.push_back(self.meta(m));
        }
        v.into_val(&self.e)
    }

    // ---- observation ----------------------------------------------------------------------
    fn state(&self) -> String {
        let e = &self.e;
        e.set_auths(&[]);
        let q = |f: &str, a: SVec<Val>| -> Option<Val> {
            catch(|| e.try_invoke_contract::<Val, soroban_sdk::Error>(&self.ctl, &Symbol::new(e, f), a)).and_then(|r| match r {
                Ok(Ok(v)) => Some(v),
                _ => None,
            })
        };
        let min: Option<u32> = q("get_min_delay", args(e, [])).and_then(|v| u32::try_from_val(e, &v).ok());
        let admin: Option<Address> = q("get_admin", args(e, [])).and_then(|v| Option::<Address>::try_from_val(e, &v).ok()).flatten();
        let mut roles = vec![];
        for r in 0..4 {
            let mut members = vec![];
            for i in 0..=NACC {
                let h: Option<u32> = q("has_role", args(e, [self.addr(i).into_val(e), Symbol::new(e, ROLES[r]).into_val(e)]))
                    .and_then(|v| Option::<u32>::try_from_val(e, &v).ok())
                    .flatten();
                if h.is_some() {
                    members.push(i);
                }
            }
            roles.push(if members.is_empty() { "-".to_string() } else { members.iter().map(|x| x.to_string()).collect::<Vec<_>>().join(".") });
        }
        let mut radm = vec![];
        for r in 0..4 {
            let ra: Option<Symbol> = q("get_role_admin", args(e, [Symbol::new(e, ROLES[r]).into_val(e)]))
                .and_then(|v| Option::<Symbol>::try_from_val(e, &v).ok())
                .flatten();
            radm.push(match ra {
                Some(sym) => (0..4).find(|&i| Symbol::new(e, ROLES[i]) == sym).map(|i| i.to_string()).unwrap_or("?".into()),
                None => "-".to_string(),
            });
        }
        let mut st = vec![];
        for k in 0..self.defs.len() {
            let id: Val = self.hashes[k].clone().into_val(e);
            let s: u32 = q("get_operation_state", args(e, [id])).and_then(|v| tlc_state(e, &v)).unwrap_or(9);
            let l: u32 = q("get_operation_ledger", args(e, [id])).and_then(|v| u32::try_from_val(e, &v).ok()).unwrap_or(0);
            let mut c = ["U", "W", "R", "D"].get(s as usize).copied().unwrap_or("?");
            // the four boolean views of the controller must say what the state says (Unset: none,
            // Waiting: exists + pending, Ready: + ready, Done: exists + done); `X` = they do not
            let view = |f: &str| -> Option<bool> { q(f, args(e, [id])).and_then(|v| bool::try_from_val(e, &v).ok()) };
            let views = [view("operation_exists"), view("is_operation_pending"), view("is_operation_ready"), view("is_operation_done")];
            let want: [bool; 4] = match s {
                0 => [false, false, false, false],
                1 => [true, true, false, false],
                2 => [true, true, true, false],
                3 => [true, false, false, true],
                _ => [false; 4],
            };
            if s <= 3 && views.iter().zip(want.iter()).any(|(g, w)| *g != Some(*w)) {
                c = "X";
            }
            st.push(format!("{}:{}", c, l));
        }
        let (c, last): (u32, Option<(u32, u32)>) = q_target(e, &self.target);
        let calls = match last {
            Some((f, x)) => format!("{}:{}:{}", c, f, x),
            None => format!("{}:-:-", c),
        };
        format!(
            "now={} min={} admin={} roles={} radm={} st={} calls={}",
            self.now,
            min.map(|m| m.to_string()).unwrap_or("-".into()),
            admin.map(|a| self.addr_index(&a)).unwrap_or("-".into()),
            roles.join("/"),
            radm.join("/"),
            if st.is_empty() { "-".into() } else { st.join(",") },
            calls
        )
    }
    fn obs(&self, t: &mut Trace, ok: bool, extra: &str) {
        let st = self.state();
        t.obs(&format!("{}{} {}", if ok { "ok" } else { "err" }, extra, st));
    }

    // ---- authorization entries ---------------------------------------------------------------
    fn invocation(&self, contract: &Address, func: &str, a: &SVec<Val>) -> xdr::SorobanAuthorizedInvocation {
        let e = &self.e;
        let argv: Vec<xdr::ScVal> = a.iter().map(|v| scval(e, &v)).collect();
        xdr::SorobanAuthorizedInvocation {
            function: xdr::SorobanAuthorizedFunction::ContractFn(xdr::InvokeContractArgs {
                contract_address: sc_address(contract),
                function_name: xdr::ScSymbol(func.try_into().unwrap()),
                args: argv.try_into().unwrap(),
            }),
            sub_invocations: Default::default(),
        }
    }
    fn entry(&mut self, who: &Address, signature: xdr::ScVal, inv: xdr::SorobanAuthorizedInvocation) -> xdr::SorobanAuthorizationEntry {
        self.nonce += 1;
        xdr::SorobanAuthorizationEntry {
            credentials: xdr::SorobanCredentials::Address(xdr::SorobanAddressCredentials {
                address: sc_address(who),
                nonce: self.nonce,
                signature_expiration_ledger: self.now + 100,
                signature,
            }),
            root_invocation: inv,
        }
    }
    /// the `("execute_op", contract, fn, args, predecessor, salt)` tuple `__check_auth` asks the
    /// executor to authorize, for a call `(fn, args)` on the controller and descriptor `m`
    fn exec_tuple(&self, t: usize, f: u32, a: &[Arg], m: &MetaD) -> SVec<Val> {
        let e = &self.e;
        (Symbol::new(e, "execute_op"), self.addr(t), Symbol::new(e, fn_name(f)), self.vals(a), self.id(&m.p), lit(e, m.s)).into_val(e)
    }
    /// authorization entries for an invocation `func(argv)` of the controller: the controller's own
    /// entry when a signature payload is given, plus what the listed accounts sign
    fn entries(&mut self, func: &str, argv: &SVec<Val>, sig: &Option<Vec<MetaD>>, toks: &[Tok], calls: &[(usize, u32, Vec<Arg>)]) -> Vec<xdr::SorobanAuthorizationEntry> {
        let mut out = vec![];
        let ctl = self.ctl.clone();
        if let Some(metas) = sig {
            let sv = scval(&self.e, &self.sig_val(metas));
            let inv = self.invocation(&ctl, func, argv);
            out.push(self.entry(&ctl, sv, inv));
        }
        let metas: Vec<MetaD> = sig.clone().unwrap_or_default();
        for tk in toks {
            match tk {
                Tok::Call(i) => {
                    let inv = self.invocation(&ctl, func, argv);
                    let a = self.addr(*i);
                    out.push(self.entry(&a, xdr::ScVal::Void, inv));
                }
                Tok::Exec(i, j) => {
                    if let (Some((t, f, a)), Some(m)) = (calls.get(*j), metas.get(*j)) {
                        let tuple = self.exec_tuple(*t, *f, a, m);
                        let inv = self.invocation(&ctl, "__check_auth", &tuple);
                        let ad = self.addr(*i);
                        out.push(self.entry(&ad, xdr::ScVal::Void, inv));
                    }
                }
            }
        }
        out
    }
    fn invoke(&mut self, func: &str, argv: SVec<Val>, sig: &Option<Vec<MetaD>>, toks: &[Tok], call: Option<(u32, Vec<Arg>)>) -> bool {
        let calls: Vec<(usize, u32, Vec<Arg>)> = call.map(|(f, a)| vec![(0usize, f, a)]).unwrap_or_default();
        let entries = self.entries(func, &argv, sig, toks, &calls);
        self.e.set_auths(&entries);
        let e = &self.e;
        let r = catch(|| e.try_invoke_contract::<Val, soroban_sdk::Error>(&self.ctl, &Symbol::new(e, func), argv));
        matches!(r, Some(Ok(Ok(_))))
    }

    // ---- operations ----------------------------------------------------------------------------
    fn def(&mut self, t: &mut Trace, d: OpDef) -> usize {
        let k = self.defs.len();
        let a5 = self.op_args(&d);
        self.e.set_auths(&[]);
        let h: BytesN<32> = {
            let e = &self.e;
            let v = e.invoke_contract::<BytesN<32>>(&self.ctl, &Symbol::new(e, "hash_operation"), args(e, a5));
            v
        };
        let eq: Vec<usize> = (0..k).filter(|&j| self.hashes[j] == h).collect();
        t.op(&format!("tc def k={} t={} f={} a={} p={} s={}", k, d.t, d.f, show_args(&d.a), d.p.show(), d.s));
        self.defs.push(d);
        self.hashes.push(h);
        self.obs(t, true, &format!(" eq={}", join(&eq)));
        k
    }
    fn sched(&mut self, t: &mut Trace, k: usize, d: u32, by: usize, toks: &[Tok]) -> bool {
        t.op(&format!("tc sched k={} d={} by={} auth={}", k, d, by, show_toks(toks)));
        let a5 = self.op_args(&self.defs[k]);
        let argv = args(&self.e, [a5[0], a5[1], a5[2], a5[3], a5[4], v(&self.e, d), self.addr(by).into_val(&self.e)]);
        let ok = self.invoke("schedule_op", argv, &None, toks, None);
        self.obs(t, ok, "");
        ok
    }
    fn cancel(&mut self, t: &mut Trace, r: &IdRef, by: usize, toks: &[Tok]) -> bool {
        t.op(&format!("tc cancel i={} by={} auth={}", r.show(), by, show_toks(toks)));
        let argv = args(&self.e, [self.id(r).into_val(&self.e), self.addr(by).into_val(&self.e)]);
        let ok = self.invoke("cancel_op", argv, &None, toks, None);
        self.obs(t, ok, "");
        ok
    }
    fn callok(&self, k: usize) -> bool {
        let d = &self.defs[k];
        d.t == 9 && (d.f == 10 || d.f == 11) && d.a.len() == 1 && matches!(d.a[0], Arg::U(_))
    }
    fn exec(&mut self, t: &mut Trace, k: usize, ex: Option<usize>, toks: &[Tok]) -> bool {
        t.op(&format!("tc exec k={} ex={} callok={} auth={}", k, ex.map(|x| x.to_string()).unwrap_or("-".into()), self.callok(k) as u8, show_toks(toks)));
        let a5 = self.op_args(&self.defs[k]);
        let exv: Option<Address> = ex.map(|i| self.addr(i));
        let argv = args(&self.e, [a5[0], a5[1], a5[2], a5[3], a5[4], exv.into_val(&self.e)]);
        let ok = self.invoke("execute_op", argv, &None, toks, None);
        self.obs(t, ok, "");
        ok
    }
    /// an admin-only entry point called directly: `f` with arguments `a`
    fn admin(&mut self, t: &mut Trace, f: u32, a: &[Arg], sig: &Option<Vec<MetaD>>, toks: &[Tok]) -> bool {
        let line = match f {
            0 => format!("tc update a={}", show_args(a)),
            1 => format!("tc grant a={}", show_args(a)),
            2 => format!("tc revoke a={}", show_args(a)),
            3 => format!("tc transfer a={}", show_args(a)),
            5 => format!("tc setradm a={}", show_args(a)),
            6 => format!("tc renrole a={}", show_args(a)),
            _ => format!("tc renounce a={}", show_args(a)),
        };
        t.op(&format!("{} sig={} auth={}{}", line, show_sig(sig), show_toks(toks), self.junk_suffix()));
        let argv = self.vals(a);
        let ok = self.invoke(fn_name(f), argv, sig, toks, Some((f, a.to_vec())));
        self.obs(t, ok, "");
        ok
    }
    fn accept(&mut self, t: &mut Trace, toks: &[Tok]) -> bool {
        t.op(&format!("tc accept auth={}", show_toks(toks)));
        let ok = self.invoke("accept_admin_transfer", args(&self.e, []), &None, toks, None);
        self.obs(t, ok, "");
        ok
    }
    fn ctx_call(&self, c: &Ctx) -> Option<(usize, u32, Vec<Arg>)> {
        match c {
            Ctx::Def(k) => self.defs.get(*k).map(|d| (d.t, d.f, d.a.clone())),
            Ctx::Lit(t, f, a) => Some((*t, *f, a.clone())),
            Ctx::Create => None,
        }
    }
    /// `__check_auth` called directly with a crafted payload
    fn check(&mut self, t: &mut Trace, metas: &[MetaD], ctxs: &[Ctx], toks: &[Tok]) -> bool {
        t.op(&format!("tc check metas={} ctxs={} auth={}{}", show_sig(&Some(metas.to_vec())), show_ctxs(ctxs), show_toks(toks), self.junk_suffix()));
        let calls: Vec<(usize, u32, Vec<Arg>)> = ctxs.iter().map(|c| self.ctx_call(c).unwrap_or((8, 99, vec![]))).collect();
        // only the executors' entries: `__check_auth` itself is invoked by hand
        let only_exec: Vec<Tok> = toks.iter().filter(|x| matches!(x, Tok::Exec(..))).cloned().collect();
        let entries = self.entries("__check_auth", &SVec::new(&self.e), &None, &only_exec, &calls);
        // the executor entries need the descriptors: rebuild with them
        let entries = if only_exec.is_empty() { entries } else { self.exec_entries(metas, &calls, &only_exec) };
        self.e.set_auths(&entries);
        let e = &self.e;
        let mut cv: SVec<Context> = SVec::new(e);
        for c in ctxs {
            cv.push_back(match self.ctx_call(c) {
                Some((tg, f, a)) => Context::Contract(ContractContext { contract: self.addr(tg), fn_name: Symbol::new(e, fn_name(f)), args: self.vals(&a) }),
                None => Context::CreateContractHostFn(CreateContractHostFnContext { executable: ContractExecutable::Wasm(lit(e, 5)), salt: lit(e, 6) }),
            });
        }
        let sv = self.sig_val(metas);
        let payload = BytesN::<32>::random(e);
        let r = catch(|| e.try_invoke_contract_check_auth::<soroban_sdk::Error>(&self.ctl, &payload, sv, &cv));
        let ok = matches!(r, Some(Ok(())));
        self.obs(t, ok, "");
        ok
    }
    fn exec_entries(&mut self, metas: &[MetaD], calls: &[(usize, u32, Vec<Arg>)], toks: &[Tok]) -> Vec<xdr::SorobanAuthorizationEntry> {
        let mut out = vec![];
        let ctl = self.ctl.clone();
        for tk in toks {
            if let Tok::Exec(i, j) = tk {
                if let (Some((t, f, a)), Some(m)) = (calls.get(*j), metas.get(*j)) {
                    let tuple = self.exec_tuple(*t, *f, a, m);
                    let inv = self.invocation(&ctl, "__check_auth", &tuple);
                    let ad = self.addr(*i);
                    out.push(self.entry(&ad, xdr::ScVal::Void, inv));
                }
            }
        }
        out
    }
    fn advance(&mut self, t: &mut Trace, n: u32) {
        t.op(&format!("tc advance n={}", n));
        self.now += n;
        set_ledger(&self.e, self.now, 16, MAX_TTL);
        self.obs(t, true, "");
    }

    // ---- queries used by the generator -----------------------------------------------------------
    fn ledger_of(&self, k: usize) -> u32 {
        let e = &self.e;
        e.set_auths(&[]);
        e.invoke_contract::<u32>(&self.ctl, &Symbol::new(e, "get_operation_ledger"), args(e, [self.hashes[k].clone().into_val(e)]))
    }
    /// ready now and not blocked by its predecessor
    fn executable(&self, k: usize) -> bool {
        let l = self.ledger_of(k);
        l >= 2 && l <= self.now
            && match &self.defs[k].p {
                IdRef::Zero => true,
                IdRef::Raw(_) => false,
                IdRef::Op(p) => self.ledger_of(*p) == 1,
            }
    }
    fn min_delay(&self) -> u32 {
        let e = &self.e;
        e.set_auths(&[]);
        e.invoke_contract::<u32>(&self.ctl, &Symbol::new(e, "get_min_delay"), args(e, []))
    }
    fn members(&self, r: usize) -> Vec<usize> {
        let e = &self.e;
        e.set_auths(&[]);
        (0..=NACC)
            .filter(|&i| {
                e.invoke_contract::<Option<u32>>(&self.ctl, &Symbol::new(e, "has_role"), args(e, [self.addr(i).into_val(e), Symbol::new(e, ROLES[r]).into_val(e)])).is_some()
            })
            .collect()
    }
    fn role_admin(&self, r: usize) -> Option<usize> {
        let e = &self.e;
        e.set_auths(&[]);
        let ra = e.invoke_contract::<Option<Symbol>>(&self.ctl, &Symbol::new(e, "get_role_admin"), args(e, [Symbol::new(e, ROLES[r]).into_val(e)]));
        ra.and_then(|sym| (0..4).find(|&i| Symbol::new(e, ROLES[i]) == sym))
    }
    fn admin_idx(&self) -> Option<usize> {
        let e = &self.e;
        e.set_auths(&[]);
        let a = e.invoke_contract::<Option<Address>>(&self.ctl, &Symbol::new(e, "get_admin"), args(e, []));
        a.and_then(|a| self.addr_index(&a).parse().ok())
    }
}

fn tlc_state(e: &Env, v: &Val) -> Option<u32> {
    use stellar_governance::timelock::OperationState as S;
    S::try_from_val(e, v).ok().map(|s| s as u32)
}

fn q_target(e: &Env, target: &Address) -> (u32, Option<(u32, u32)>) {
    e.invoke_contract::<(u32, Option<(u32, u32)>)>(target, &Symbol::new(e, "calls"), args(e, []))
}

fn od(t: usize, f: u32, a: &[Arg], p: IdRef, s: u32) -> OpDef {
    OpDef { t, f, a: a.to_vec(), p, s }
}
fn md(p: IdRef, s: u32, e: Option<usize>) -> MetaD {
    MetaD { p, s, e }
}

fn directed(t: &mut Trace) {
    use Arg::*;
    use IdRef::*;
    // ---------------------------------------------------------------------------------------
    t.seq("directed short payloads, no executors start=100 min=5 prop=1 exec=- admin=-");
    let mut s = Sim::new(100, 5, &[1], &[], None);
    let upd = s.def(t, od(0, 0, &[U(42)], Zero, 0)); // update_delay(42), never scheduled
    let g = s.def(t, od(0, 1, &[A(3), S(0), A(0)], Zero, 0)); // grant_role(3, proposer, self)
    // an empty descriptor vector for a call that was never scheduled
    s.admin(t, 0, &[U(42)], &Some(vec![]), &[]);
    s.admin(t, 0, &[U(42)], &None, &[]);
    s.admin(t, 1, &[A(3), S(0), A(0)], &Some(vec![]), &[]);
    s.admin(t, 2, &[A(1), S(0), A(0)], &Some(vec![]), &[]);
    s.admin(t, 3, &[A(4), U(5000)], &Some(vec![]), &[]);
    // the remaining admin-only entry points, called by anybody / nobody without a payload
    s.admin(t, 5, &[S(3), S(0)], &None, &[]);
    s.admin(t, 5, &[S(3), S(0)], &Some(vec![]), &[Tok::Call(3)]);
    s.admin(t, 4, &[], &Some(vec![]), &[]);
    s.admin(t, 4, &[], &None, &[Tok::Call(3)]);
    s.admin(t, 4, &[], &None, &[]);
    s.check(t, &[], &[Ctx::Def(upd)], &[]);
    s.check(t, &[], &[Ctx::Def(upd), Ctx::Def(g)], &[]);
    s.check(t, &[], &[], &[]);
    // descriptor for a call that is not scheduled
    s.admin(t, 0, &[U(42)], &Some(vec![md(Zero, 0, None)]), &[]);
    // the honest path
    s.sched(t, upd, 5, 1, &[Tok::Call(1)]);
    s.sched(t, g, 6, 1, &[Tok::Call(1)]);
    s.admin(t, 0, &[U(42)], &Some(vec![md(Zero, 0, None)]), &[]); // waiting
    s.advance(t, 5);
    s.admin(t, 0, &[U(42)], &Some(vec![md(Zero, 1, None)]), &[]); // wrong salt
    s.admin(t, 0, &[U(42)], &Some(vec![md(Raw(1), 0, None)]), &[]); // wrong predecessor
    s.admin(t, 0, &[U(43)], &Some(vec![md(Zero, 0, None)]), &[]); // other argument
    s.admin(t, 0, &[U(42)], &Some(vec![md(Zero, 0, None), md(Zero, 0, None)]), &[]); // one descriptor too many
    s.check(t, &[md(Zero, 0, None)], &[Ctx::Def(upd), Ctx::Def(g)], &[]); // short: second context uncovered
    // the SAME function and arguments as the ready self-operation, but on another contract (a child the
    // controller administers): the controller's own operation is no licence for it
    s.check(t, &[md(Zero, 0, None)], &[Ctx::Lit(9, 0, vec![U(42)])], &[]);
    s.check(t, &[md(Zero, 0, None)], &[Ctx::Lit(3, 0, vec![U(42)])], &[]);
    s.admin(t, 0, &[U(42)], &Some(vec![md(Zero, 0, None)]), &[]); // ready: consumed
    s.admin(t, 0, &[U(42)], &Some(vec![md(Zero, 0, None)]), &[]); // done: never again
    s.advance(t, 1);
    s.check(t, &[md(Zero, 0, None)], &[Ctx::Def(g)], &[]); // direct: consumed
    s.admin(t, 1, &[A(3), S(0), A(0)], &Some(vec![md(Zero, 0, None)]), &[]); // already consumed by hand
    // a ready operation on ANOTHER contract is no licence
    let ext = s.def(t, od(9, 10, &[U(1)], Zero, 0));
    s.sched(t, ext, 42, 1, &[Tok::Call(1)]);
    s.advance(t, 42);
    s.check(t, &[md(Zero, 0, None)], &[Ctx::Def(ext)], &[]);
    s.check(t, &[md(Zero, 0, None)], &[Ctx::Create], &[]);
    s.exec(t, ext, None, &[]);
    // ---------------------------------------------------------------------------------------
    // payloads whose elements are not operation descriptors (one per context, so the length matches): nothing
    // decodes, nothing may be authorized - with nothing scheduled, while the operation waits, when it is ready
    t.seq("directed undecodable descriptors start=100 min=5 prop=1 exec=- admin=-");
    let mut s = Sim::new(100, 5, &[1], &[], None);
    let upd = s.def(t, od(0, 0, &[U(0)], Zero, 0));
    let g = s.def(t, od(0, 1, &[A(3), S(0), A(0)], Zero, 0));
    for round in 0..3 {
        for k in 0..5u32 {
            s.junk = vec![k];
            s.admin(t, 0, &[U(0)], &Some(vec![]), &[]);
            s.admin(t, 1, &[A(3), S(0), A(0)], &Some(vec![]), &[]);
            s.admin(t, 3, &[A(4), U(5000)], &Some(vec![]), &[]);
            s.check(t, &[], &[Ctx::Def(upd)], &[]);
            s.junk = vec![k, (k + 1) % 5];
            s.check(t, &[], &[Ctx::Def(upd), Ctx::Def(g)], &[]);
            s.admin(t, 0, &[U(0)], &Some(vec![]), &[]); // one element too many
            s.junk = vec![];
        }
        match round {
            0 => {
                s.sched(t, upd, 5, 1, &[Tok::Call(1)]);
                s.sched(t, g, 5, 1, &[Tok::Call(1)]);
            }
            1 => s.advance(t, 5),
            _ => {}
        }
    }
    s.admin(t, 0, &[U(0)], &Some(vec![md(Zero, 0, None)]), &[]); // the honest call still works
    // ---------------------------------------------------------------------------------------
    // an open admin-transfer offer of a self-administered controller can be withdrawn (live_until = 0) only
    // through the timelock, like every other admin call: not by a stranger, not with an empty payload
    t.seq("directed withdrawal of an admin offer start=100 min=3 prop=1 exec=- admin=-");
    let mut s = Sim::new(100, 3, &[1], &[], None);
    let offer = s.def(t, od(0, 3, &[A(4), U(5000)], Zero, 0));
    let wd = s.def(t, od(0, 3, &[A(4), U(0)], Zero, 0));
    s.sched(t, offer, 3, 1, &[Tok::Call(1)]);
    s.advance(t, 3);
    s.admin(t, 3, &[A(4), U(5000)], &Some(vec![md(Zero, 0, None)]), &[]); // the offer, through the timelock
    s.admin(t, 3, &[A(4), U(0)], &None, &[]); // nobody
    s.admin(t, 3, &[A(4), U(0)], &None, &[Tok::Call(3)]); // a stranger
    s.admin(t, 3, &[A(4), U(0)], &None, &[Tok::Call(4)]); // the invitee
    s.admin(t, 3, &[A(4), U(0)], &Some(vec![]), &[]); // empty payload
    s.admin(t, 3, &[A(4), U(0)], &Some(vec![md(Zero, 0, None)]), &[]); // not scheduled
    s.sched(t, wd, 3, 1, &[Tok::Call(1)]);
    s.admin(t, 3, &[A(4), U(0)], &Some(vec![md(Zero, 0, None)]), &[]); // waiting
    s.advance(t, 3);
    s.admin(t, 3, &[A(4), U(0)], &None, &[Tok::Call(3)]);
    s.admin(t, 3, &[A(4), U(0)], &Some(vec![md(Zero, 0, None)]), &[]); // ready: withdrawn
    s.accept(t, &[Tok::Call(4)]); // nothing to accept any more
    // ---------------------------------------------------------------------------------------
    // predecessor links THROUGH the controller's own schedule_op / execute_op / hash_operation, with a
    // predecessor that differs from the salt (both are 32-byte strings): the successor waits for the
    // predecessor, an unknown or cancelled predecessor blocks for ever
    t.seq("directed predecessor links through the controller start=100 min=0 prop=1 exec=- admin=-");
    let mut s = Sim::new(100, 0, &[1], &[], None);
    let pa = s.def(t, od(9, 10, &[U(1)], Zero, 5));
    let pb = s.def(t, od(9, 10, &[U(2)], Op(pa), 0)); // needs pa; salt 0
    let pc = s.def(t, od(9, 10, &[U(3)], Raw(7), 0)); // names an id nobody scheduled
    let pd = s.def(t, od(9, 10, &[U(4)], Op(pb), 6)); // needs pb
    for k in [pa, pb, pc, pd] {
        s.sched(t, k, 0, 1, &[Tok::Call(1)]);
    }
    s.advance(t, 1);
    s.exec(t, pb, None, &[]); // pa not done
    s.exec(t, pd, None, &[]); // pb not done
    s.exec(t, pc, None, &[]); // never
    s.exec(t, pa, None, &[]);
    s.exec(t, pd, None, &[]); // still not: pb
    s.exec(t, pb, None, &[]);
    s.exec(t, pb, None, &[]); // once
    s.exec(t, pd, None, &[]);
    s.exec(t, pc, None, &[]); // never
    // ---------------------------------------------------------------------------------------
    t.seq("directed executors configured start=50 min=0 prop=1.2 exec=3.4 admin=-");
    let mut s = Sim::new(50, 0, &[1, 2], &[3, 4], None);
    let u1 = s.def(t, od(0, 0, &[U(7)], Zero, 1));
    let u2 = s.def(t, od(0, 0, &[U(8)], Op(u1), 1)); // needs u1
    let rv = s.def(t, od(0, 2, &[A(4), S(1), A(0)], Zero, 0)); // revoke executor 4
    let ext = s.def(t, od(9, 10, &[U(3)], Zero, 0)); // external target
    s.admin(t, 0, &[U(7)], &Some(vec![]), &[]); // empty payload skips the executor check too
    s.admin(t, 0, &[U(7)], &Some(vec![]), &[Tok::Call(3)]);
    s.sched(t, u1, 0, 5, &[Tok::Call(5)]); // not a proposer
    s.sched(t, u1, 0, 1, &[Tok::Call(2)]); // proposer did not sign
    s.sched(t, u1, 0, 1, &[Tok::Call(1)]);
    s.sched(t, u2, 0, 2, &[Tok::Call(2)]);
    s.sched(t, rv, 0, 2, &[Tok::Call(2)]);
    s.sched(t, ext, 0, 2, &[Tok::Call(2)]);
    s.admin(t, 0, &[U(7)], &Some(vec![md(Zero, 1, None)]), &[]); // no executor named
    s.admin(t, 0, &[U(7)], &Some(vec![md(Zero, 1, Some(1))]), &[Tok::Exec(1, 0)]); // not an executor
    s.admin(t, 0, &[U(7)], &Some(vec![md(Zero, 1, Some(3))]), &[]); // executor did not sign
    s.admin(t, 0, &[U(7)], &Some(vec![md(Zero, 1, Some(3))]), &[Tok::Exec(4, 0)]); // the other one signed
    s.admin(t, 0, &[U(7)], &Some(vec![md(Zero, 1, Some(3))]), &[Tok::Call(3)]); // signed the wrong thing
    s.admin(t, 0, &[U(8)], &Some(vec![md(Op(u1), 1, Some(3))]), &[Tok::Exec(3, 0)]); // predecessor not done
    // same function / arguments / descriptor as the ready u1, on another contract, executor signing for either
    s.check(t, &[md(Zero, 1, Some(3))], &[Ctx::Lit(9, 0, vec![U(7)])], &[Tok::Exec(3, 0)]);
    s.admin(t, 0, &[U(7)], &Some(vec![md(Zero, 1, Some(3))]), &[Tok::Exec(3, 0)]);
    s.admin(t, 0, &[U(8)], &Some(vec![md(Op(u1), 1, Some(4))]), &[Tok::Exec(4, 0)]);
    s.exec(t, ext, Some(3), &[]); // executor did not sign
    s.exec(t, ext, None, &[]);
    s.exec(t, ext, Some(1), &[Tok::Call(1)]);
    s.exec(t, ext, Some(4), &[Tok::Call(4)]);
    s.admin(t, 2, &[A(4), S(1), A(0)], &Some(vec![md(Zero, 0, Some(4))]), &[Tok::Exec(4, 0)]); // 4 revokes itself
    s.cancel(t, &Op(u1), 1, &[Tok::Call(1)]); // done
    // contexts that are not calls on the controller
    let o2 = s.def(t, od(9, 10, &[U(4)], Zero, 0));
    s.sched(t, o2, 8, 1, &[Tok::Call(1)]);
    s.advance(t, 8);
    s.check(t, &[md(Zero, 0, Some(3))], &[Ctx::Def(o2)], &[Tok::Exec(3, 0)]); // ready, but a call on another contract
    s.check(t, &[md(Zero, 0, Some(3))], &[Ctx::Create], &[]);
    s.check(t, &[], &[Ctx::Create], &[]);
    s.cancel(t, &Op(o2), 3, &[Tok::Call(3)]); // executors are no cancellers
    s.cancel(t, &Op(o2), 2, &[Tok::Call(2)]);
    // ---------------------------------------------------------------------------------------
    // batches: every context of one payload needs its OWN executor authorization, also when the
    // same executor is named for several of them
    t.seq("directed batched contexts same executor start=50 min=0 prop=1 exec=3.4 admin=-");
    let mut s = Sim::new(50, 0, &[1], &[3, 4], None);
    let b1 = s.def(t, od(0, 0, &[U(11)], Zero, 1));
    let b2 = s.def(t, od(0, 0, &[U(12)], Zero, 2));
    let b3 = s.def(t, od(0, 0, &[U(13)], Zero, 3));
    let b4 = s.def(t, od(0, 0, &[U(14)], Zero, 4));
    for k in [b1, b2, b3, b4] {
        s.sched(t, k, 0, 1, &[Tok::Call(1)]);
    }
    // executor 3 signed for the first context only / the second only / neither; executor 4 signed the second
    s.check(t, &[md(Zero, 1, Some(3)), md(Zero, 2, Some(3))], &[Ctx::Def(b1), Ctx::Def(b2)], &[Tok::Exec(3, 0)]);
    s.check(t, &[md(Zero, 1, Some(3)), md(Zero, 2, Some(3))], &[Ctx::Def(b1), Ctx::Def(b2)], &[Tok::Exec(3, 1)]);
    s.check(t, &[md(Zero, 1, Some(3)), md(Zero, 2, Some(3))], &[Ctx::Def(b1), Ctx::Def(b2)], &[]);
    s.check(t, &[md(Zero, 1, Some(3)), md(Zero, 2, Some(3))], &[Ctx::Def(b1), Ctx::Def(b2)], &[Tok::Exec(3, 0), Tok::Exec(4, 1)]);
    // both signed: both consumed
    s.check(t, &[md(Zero, 1, Some(3)), md(Zero, 2, Some(3))], &[Ctx::Def(b1), Ctx::Def(b2)], &[Tok::Exec(3, 0), Tok::Exec(3, 1)]);
    // different executors on one payload, the second one missing
    s.check(t, &[md(Zero, 3, Some(3)), md(Zero, 4, Some(4))], &[Ctx::Def(b3), Ctx::Def(b4)], &[Tok::Exec(3, 0)]);
    s.check(t, &[md(Zero, 3, Some(3)), md(Zero, 4, Some(4))], &[Ctx::Def(b3), Ctx::Def(b4)], &[Tok::Exec(3, 0), Tok::Exec(4, 1)]);
    // ---------------------------------------------------------------------------------------
    t.seq("directed admin handover start=1000 min=2 prop=1 exec=- admin=-");
    let mut s = Sim::new(1000, 2, &[1], &[], None);
    let tr = s.def(t, od(0, 3, &[A(5), U(90_000)], Zero, 0));
    let up = s.def(t, od(0, 0, &[U(0)], Zero, 0));
    s.admin(t, 3, &[A(5), U(90_000)], &Some(vec![]), &[]);
    s.accept(t, &[Tok::Call(5)]);
    s.sched(t, tr, 2, 1, &[Tok::Call(1)]);
    s.sched(t, up, 2, 1, &[Tok::Call(1)]);
    s.advance(t, 2);
    s.admin(t, 3, &[A(5), U(90_000)], &Some(vec![md(Zero, 0, None)]), &[]);
    s.accept(t, &[Tok::Call(4)]);
    s.accept(t, &[Tok::Call(5)]);
    // account 5 is the admin now: no timelock for it, and the controller's payloads are useless
    s.admin(t, 0, &[U(0)], &Some(vec![md(Zero, 0, None)]), &[]);
    s.admin(t, 0, &[U(9)], &None, &[Tok::Call(4)]);
    s.admin(t, 0, &[U(9)], &None, &[Tok::Call(5)]);
    s.admin(t, 1, &[A(2), S(1), A(5)], &None, &[Tok::Call(5)]);
    s.admin(t, 4, &[], &None, &[Tok::Call(5)]);
    s.admin(t, 0, &[U(1)], &None, &[Tok::Call(5)]);
    // ---------------------------------------------------------------------------------------
    // delays whose sum with the current ledger reaches or leaves the u32 range: the ready ledger
    // saturates at u32::MAX, the operation is Waiting, and the admin call made at once is refused
    for (start, execs) in [(1000u32, vec![]), (7u32, vec![3usize])] {
        t.seq(&format!("directed huge delays start={} min=100 prop=1 exec={} admin=-", start, show_list(&execs)));
        let mut s = Sim::new(start, 100, &[1], &execs, None);
        let ex = execs.first().copied();
        let xt: Vec<Tok> = ex.map(|x| vec![Tok::Exec(x, 0)]).unwrap_or_default();
        let wrap = u32::MAX - start + 1; // 2^32 - now
        let delays = [u32::MAX - 500, u32::MAX, u32::MAX - start, wrap, wrap + 1, wrap + 2, wrap - 2, wrap + start / 2, wrap + (start - 1).min(400)];
        for (i, d) in delays.iter().enumerate() {
            let k = s.def(t, od(0, 0, &[U(0)], Zero, i as u32)); // update_delay(0), one salt per delay
            s.sched(t, k, *d, 1, &[Tok::Call(1)]);
            s.admin(t, 0, &[U(0)], &Some(vec![md(Zero, i as u32, ex)]), &xt);
            s.check(t, &[md(Zero, i as u32, ex)], &[Ctx::Def(k)], &xt);
        }
        let g = s.def(t, od(0, 1, &[A(2), S(0), A(0)], Zero, 0)); // grant_role(2, proposer)
        s.sched(t, g, wrap + 5, 1, &[Tok::Call(1)]);
        s.admin(t, 1, &[A(2), S(0), A(0)], &Some(vec![md(Zero, 0, ex)]), &xt);
        let tr = s.def(t, od(0, 3, &[A(5), U(start + 50_000)], Zero, 0)); // transfer_admin_role
        s.sched(t, tr, u32::MAX, 1, &[Tok::Call(1)]);
        s.admin(t, 3, &[A(5), U(start + 50_000)], &Some(vec![md(Zero, 0, ex)]), &xt);
        s.advance(t, 100);
        s.admin(t, 0, &[U(0)], &Some(vec![md(Zero, 3, ex)]), &xt); // still waiting after the minimum delay
        // the ordinary path still works next to them
        let okk = s.def(t, od(0, 0, &[U(1)], Zero, 0));
        s.sched(t, okk, 100, 1, &[Tok::Call(1)]);
        s.advance(t, 99);
        s.admin(t, 0, &[U(1)], &Some(vec![md(Zero, 0, ex)]), &xt);
        s.advance(t, 1);
        s.admin(t, 0, &[U(1)], &Some(vec![md(Zero, 0, ex)]), &xt);
        s.cancel(t, &Op(0), 1, &[Tok::Call(1)]);
    }
    // ---------------------------------------------------------------------------------------
    // long idle gaps (1, 31, 100 days, nothing touched in between): operations, minimum delay,
    // roles and admin must still be there; Done for ever, Waiting until the delay is over
    t.seq("directed long idle gaps of 1, 31 and 100 days start=1000 min=10 prop=1 exec=3 admin=-");
    let mut s = Sim::new(1000, 10, &[1], &[3], None);
    let u1 = s.def(t, od(0, 0, &[U(20)], Zero, 0)); // update_delay(20): consumed before the gaps
    let u2 = s.def(t, od(0, 0, &[U(30)], Zero, 1)); // update_delay(30): 40 days of delay
    let g = s.def(t, od(0, 1, &[A(2), S(0), A(0)], Zero, 0)); // grant proposer to 2: Ready, left alone
    let x = s.def(t, od(9, 10, &[U(5)], Zero, 0)); // external call: executed before the gaps
    let c = s.def(t, od(0, 0, &[U(99)], Zero, 2)); // cancelled before the gaps
    let late = s.def(t, od(9, 11, &[U(6)], Zero, 0)); // scheduled after the gaps by the new proposer
    for k in [u1, g, x, c] {
        s.sched(t, k, 10, 1, &[Tok::Call(1)]);
    }
    s.sched(t, u2, 40 * DAY, 1, &[Tok::Call(1)]);
    s.advance(t, 10);
    s.admin(t, 0, &[U(20)], &Some(vec![md(Zero, 0, Some(3))]), &[Tok::Exec(3, 0)]);
    s.exec(t, x, Some(3), &[Tok::Call(3)]);
    s.cancel(t, &Op(c), 1, &[Tok::Call(1)]);
    for gap in [DAY, 31 * DAY, 100 * DAY] {
        s.advance(t, gap); // nothing touched in between
        // Done is for ever
        s.admin(t, 0, &[U(20)], &Some(vec![md(Zero, 0, Some(3))]), &[Tok::Exec(3, 0)]);
        s.exec(t, x, Some(3), &[Tok::Call(3)]);
        s.sched(t, u1, 20, 1, &[Tok::Call(1)]);
        s.cancel(t, &Op(u1), 1, &[Tok::Call(1)]);
        // the self-admin call still needs a ready operation and a real payload
        s.admin(t, 0, &[U(99)], &Some(vec![md(Zero, 2, Some(3))]), &[Tok::Exec(3, 0)]); // cancelled
        s.admin(t, 0, &[U(30)], &Some(vec![]), &[]);
        s.admin(t, 0, &[U(30)], &None, &[Tok::Call(1)]);
        // the roles are still the roles
        s.sched(t, late, 20, 2, &[Tok::Call(2)]); // 2 is not a proposer yet
        s.exec(t, u2, Some(1), &[Tok::Call(1)]); // 1 is no executor
        s.cancel(t, &Op(g), 3, &[Tok::Call(3)]); // 3 is no canceller
        // Waiting until the 40 days are over, then consumable exactly once
        s.admin(t, 0, &[U(30)], &Some(vec![md(Zero, 1, Some(3))]), &[Tok::Exec(3, 0)]);
        s.admin(t, 0, &[U(30)], &Some(vec![md(Zero, 1, Some(3))]), &[Tok::Exec(3, 0)]);
    }
    s.admin(t, 1, &[A(2), S(0), A(0)], &Some(vec![md(Zero, 0, Some(3))]), &[Tok::Exec(3, 0)]); // Ready since 132 days
    s.sched(t, late, 29, 2, &[Tok::Call(2)]); // the minimum delay is 30 now
    s.sched(t, late, 30, 2, &[Tok::Call(2)]);
    s.advance(t, 30);
    s.exec(t, late, Some(3), &[Tok::Call(3)]);
    // ---------------------------------------------------------------------------------------
    // the rest of the AccessControl surface: set_role_admin (admin-only, timelocked), grants and
    // revokes by holders of a role's admin role (their own signature, no timelock), renounce_role
    t.seq("directed role admins and renounce_role start=200 min=3 prop=1 exec=- admin=-");
    let mut s = Sim::new(200, 3, &[1], &[], None);
    let sra = s.def(t, od(0, 5, &[S(0), S(3)], Zero, 0)); // set_role_admin(proposer, other)
    let g4 = s.def(t, od(0, 1, &[A(4), S(3), A(0)], Zero, 0)); // grant_role(4, other) by the controller
    let rs = s.def(t, od(0, 6, &[S(3), A(0)], Zero, 0)); // renounce_role(other) by the controller (holds nothing)
    // nobody gets these through without the timelock
    s.admin(t, 5, &[S(0), S(3)], &Some(vec![]), &[]);
    s.admin(t, 5, &[S(0), S(3)], &None, &[Tok::Call(1)]);
    s.admin(t, 1, &[A(5), S(0), A(4)], &None, &[Tok::Call(4)]); // 4 holds nothing yet
    s.sched(t, sra, 3, 1, &[Tok::Call(1)]);
    s.sched(t, g4, 3, 1, &[Tok::Call(1)]);
    s.sched(t, rs, 3, 1, &[Tok::Call(1)]);
    s.admin(t, 5, &[S(0), S(3)], &Some(vec![md(Zero, 0, None)]), &[]); // waiting
    s.advance(t, 3);
    s.admin(t, 5, &[S(0), S(2)], &Some(vec![md(Zero, 0, None)]), &[]); // other arguments than scheduled
    s.admin(t, 5, &[S(0), S(3)], &Some(vec![md(Zero, 0, None)]), &[]);
    s.admin(t, 5, &[S(0), S(3)], &Some(vec![md(Zero, 0, None)]), &[]); // consumed
    s.admin(t, 1, &[A(5), S(0), A(4)], &None, &[Tok::Call(4)]); // the admin role is set, but 4 does not hold it yet
    s.admin(t, 1, &[A(2), S(0), A(1)], &None, &[Tok::Call(1)]); // 1 holds `proposer` itself, not its admin role
    s.admin(t, 2, &[A(1), S(0), A(1)], &None, &[Tok::Call(1)]);
    s.admin(t, 1, &[A(4), S(3), A(0)], &Some(vec![md(Zero, 0, None)]), &[]);
    s.admin(t, 6, &[S(3), A(0)], &Some(vec![md(Zero, 0, None)]), &[]); // the controller holds no role: refused, nothing consumed
    // 4 holds `other` = the admin role of `proposer`: every authorization subset
    for toks in [vec![], vec![Tok::Call(5)], vec![Tok::Call(1), Tok::Call(5)], vec![Tok::Call(4)]] {
        s.admin(t, 1, &[A(5), S(0), A(4)], &None, &toks);
    }
    s.admin(t, 1, &[A(5), S(0), A(4)], &None, &[Tok::Call(4), Tok::Call(5)]); // already a member: accepted, no change
    s.admin(t, 1, &[A(5), S(2), A(4)], &None, &[Tok::Call(4)]); // `canceller` has no admin role
    s.admin(t, 1, &[A(5), S(3), A(4)], &None, &[Tok::Call(4)]); // nor has `other` itself
    s.admin(t, 1, &[A(2), S(0), A(5)], &None, &[Tok::Call(5)]); // 5 is a proposer, not a holder of `other`
    s.admin(t, 1, &[A(2), S(0), A(4)], &Some(vec![]), &[]); // an empty payload of the controller is no signature of 4
    s.sched(t, rs, 3, 5, &[Tok::Call(5)]); // already scheduled; 5 is a proposer now
    for toks in [vec![], vec![Tok::Call(1)], vec![Tok::Call(4)]] {
        s.admin(t, 2, &[A(1), S(0), A(4)], &None, &toks); // 4 revokes proposer 1
    }
    s.admin(t, 2, &[A(1), S(0), A(4)], &None, &[Tok::Call(4)]); // not held any more
    s.sched(t, g4, 3, 1, &[Tok::Call(1)]); // 1 is no proposer any more (and g4 is done)
    // renounce_role: only the holder itself, with its own signature
    for toks in [vec![], vec![Tok::Call(4)], vec![Tok::Call(5)]] {
        s.admin(t, 6, &[S(0), A(5)], &None, &toks);
    }
    s.admin(t, 6, &[S(0), A(5)], &None, &[Tok::Call(5)]); // not held any more
    s.admin(t, 6, &[S(1), A(4)], &None, &[Tok::Call(4)]); // never held
    s.admin(t, 6, &[S(3), A(4)], &None, &[Tok::Call(4)]); // 4 gives up the admin role ...
    s.admin(t, 1, &[A(5), S(0), A(4)], &None, &[Tok::Call(4)]); // ... and can grant no more
    // ---------------------------------------------------------------------------------------
    t.seq("directed external admin from the start start=10 min=1 prop=2 exec=1 admin=4");
    let mut s = Sim::new(10, 1, &[2], &[1], Some(4));
    s.admin(t, 0, &[U(3)], &Some(vec![]), &[]);
    s.admin(t, 0, &[U(3)], &None, &[]);
    s.admin(t, 0, &[U(3)], &None, &[Tok::Call(4)]);
    s.admin(t, 1, &[A(3), S(2), A(4)], &None, &[Tok::Call(4)]);
    s.admin(t, 1, &[A(3), S(2), A(3)], &None, &[Tok::Call(3)]);
    s.admin(t, 2, &[A(3), S(2), A(4)], &None, &[Tok::Call(4)]);
    s.admin(t, 2, &[A(3), S(2), A(4)], &None, &[Tok::Call(4)]);
}

struct Cfg {
    proposers: Vec<usize>,
    executors: Vec<usize>,
    admin: Option<usize>,
}

fn show_list(v: &[usize]) -> String {
    if v.is_empty() {
        "-".into()
    } else {
        v.iter().map(|x| x.to_string()).collect::<Vec<_>>().join(".")
    }
}

fn gen_defs(rng: &mut Rng, s: &mut Sim, t: &mut Trace, cfg: &Cfg) {
    use Arg::*;
    use IdRef::*;
    let n = 6 + rng.below(3) as usize;
    let caller = cfg.admin.unwrap_or(0);
    while s.defs.len() < n {
        let k = s.defs.len();
        let pred = match rng.below(10) {
            0 | 1 if k > 0 => Op(rng.below(k as u64) as usize),
            2 => Raw(1),
            _ => Zero,
        };
        let salt = rng.below(2) as u32;
        let acct = 1 + rng.below(NACC as u64) as usize;
        let d = match rng.below(12) {
            0 | 1 | 2 | 3 => od(0, 0, &[U(rng.below(4) as u32)], pred, salt),
            4 | 5 => od(0, 1, &[A(acct), S(if rng.chance(35) { 3 } else { rng.below(3) as usize }), A(caller)], pred, salt),
            6 => od(0, 2, &[A(acct), S(rng.below(3) as usize), A(caller)], pred, salt),
            7 if rng.chance(50) => od(0, 3, &[A(acct), U(s.now + 100_000)], pred, salt),
            7 => od(0, 5, &[S(rng.below(3) as usize), S(3)], pred, salt),
            8 | 11 => od(9, 10 + rng.below(3) as u32, &[U(rng.below(3) as u32)], pred, salt),
            9 if k > 0 => s.defs[rng.below(k as u64) as usize].clone(), // duplicate tuple
            10 if k > 0 => {
                let p = s.defs[rng.below(k as u64) as usize].clone();
                OpDef { s: p.s + 1, ..p }
            }
            _ => od(0, 0, &[U(rng.below(4) as u32)], pred, salt),
        };
        s.def(t, d);
    }
}

/// tokens for an ordinary account: the right one mostly, sometimes somebody else or nobody
fn plain_toks(rng: &mut Rng, who: usize) -> Vec<Tok> {
    match rng.below(10) {
        0 => vec![],
        1 => vec![Tok::Call(1 + rng.below(NACC as u64) as usize)],
        _ => vec![Tok::Call(who)],
    }
}

/// a signature payload for calling definition `k` directly: mostly the right descriptor,
/// otherwise one of the perturbations the property speaks about
fn gen_sig(rng: &mut Rng, s: &Sim, k: usize) -> (Option<Vec<MetaD>>, Vec<Tok>) {
    let d = s.defs[k].clone();
    let execs = s.members(1);
    let ex = if execs.is_empty() { if rng.chance(10) { Some(1 + rng.below(NACC as u64) as usize) } else { None } } else { Some(*rng.pick(&execs)) };
    let right = md(d.p.clone(), d.s, ex);
    let mut toks = match ex {
        Some(x) => vec![Tok::Exec(x, 0)],
        None => vec![],
    };
    let sig = match rng.below(20) {
        0 => None,
        1 | 2 => Some(vec![]),
        3 => Some(vec![md(d.p.clone(), d.s + 1, ex)]),
        4 => Some(vec![md(if d.p == IdRef::Zero { IdRef::Raw(1) } else { IdRef::Zero }, d.s, ex)]),
        5 => Some(vec![right.clone(), right.clone()]),
        6 => {
            // wrong executor: somebody without the role, or nobody
            let other = (1..=NACC).find(|i| !execs.contains(i));
            let e2 = if rng.chance(50) { other } else { None };
            toks = e2.map(|x| vec![Tok::Exec(x, 0)]).unwrap_or_default();
            Some(vec![md(d.p.clone(), d.s, e2)])
        }
        7 => {
            toks = vec![]; // executor named but did not sign
            Some(vec![right.clone()])
        }
        8 => {
            toks = ex.map(|x| vec![Tok::Call(x)]).unwrap_or_default(); // signed the call, not the tuple
            Some(vec![right.clone()])
        }
        _ => Some(vec![right.clone()]),
    };
    (sig, toks)
}

fn main() {
    let mut t = Trace::from_args();
    let seed = seed_from_env();
    let thorough = arg_str("--tier").as_deref() == Some("thorough");
    let nseq = arg_u64("--seqs", if thorough { 400 } else { 220 });
    let len = arg_u64("--len", 45);
    let mut rng = Rng::new(seed);
    directed(&mut t);
    for kseq in 0..nseq {
        // one sequence in eight is a "long idle" one: delays of days, gaps of 1 / 31 / 100 days
        let long = kseq % 8 == 5;
        let start = *rng.pick(&[2u32, 100, 5000]);
        let mut proposers = vec![1usize];
        if rng.chance(40) {
            proposers.push(2);
        }
        let executors: Vec<usize> = match rng.below(3) {
            0 => vec![],
            1 => vec![3],
            _ => vec![3, 4],
        };
        let admin = if rng.chance(15) { Some(5usize) } else { None };
        let min = *rng.pick(&[0u32, 0, 1, 3]);
        let cfg = Cfg { proposers: proposers.clone(), executors: executors.clone(), admin };
        t.seq(&format!(
            "rand{} k={} seed={} start={} min={} prop={} exec={} admin={}",
            if long { " long idle" } else { "" },
            kseq,
            seed,
            start,
            min,
            show_list(&proposers),
            show_list(&executors),
            admin.map(|x| x.to_string()).unwrap_or("-".into())
        ));
        let mut s = Sim::new(start, min, &proposers, &executors, admin);
        gen_defs(&mut rng, &mut s, &mut t, &cfg);
        let n = s.defs.len();
        for _ in 0..len {
            let r = rng.below(100);
            let k = rng.below(n as u64) as usize;
            if r < 22 {
                // schedule
                let unset: Vec<usize> = (0..n).filter(|&j| s.ledger_of(j) == 0).collect();
                let k = if !unset.is_empty() && rng.chance(80) { *rng.pick(&unset) } else { k };
                let props = s.members(0);
                let by = if !props.is_empty() && rng.chance(85) { *rng.pick(&props) } else { 1 + rng.below(NACC as u64) as usize };
                let m = s.min_delay();
                let wrap = (u32::MAX - s.now).wrapping_add(1); // 2^32 - now: the first delay whose sum leaves u32
                let d = match rng.below(16) {
                    0 => m.saturating_sub(1),
                    1 => m.saturating_add(1),
                    2 => m.saturating_add(rng.below(4) as u32),
                    // the saturating ready ledger: sums at and just beyond u32::MAX
                    3 => u32::MAX,
                    4 => u32::MAX - s.now,
                    5 => wrap,
                    6 => wrap.saturating_add(1),
                    7 => wrap.saturating_add(1 + rng.below(s.now.min(50) as u64) as u32),
                    8 => wrap.saturating_sub(2),
                    _ => m,
                };
                let d = if long && rng.chance(30) { *rng.pick(&[DAY, 30 * DAY, 40 * DAY, 95 * DAY]) } else { d };
                let huge = d > u32::MAX / 2;
                let toks = if huge { vec![Tok::Call(by)] } else { plain_toks(&mut rng, by) };
                let ok = s.sched(&mut t, k, d, by, &toks);
                if ok && huge && s.defs[k].t == 0 && s.admin_idx() == Some(0) {
                    // ... and at once the admin call itself, with the controller's own credential and
                    // the right descriptor: the delay has not elapsed
                    let dd = s.defs[k].clone();
                    let execs = s.members(1);
                    let ex = execs.first().copied();
                    let toks = ex.map(|x| vec![Tok::Exec(x, 0)]).unwrap_or_default();
                    s.admin(&mut t, dd.f, &dd.a, &Some(vec![md(dd.p.clone(), dd.s, ex)]), &toks);
                    if rng.chance(50) {
                        s.check(&mut t, &[md(dd.p.clone(), dd.s, ex)], &[Ctx::Def(k)], &toks);
                    }
                }
            } else if r < 52 {
                // an admin-only entry point called directly with the controller's own credential
                let selfops: Vec<usize> = (0..n).filter(|&j| s.defs[j].t == 0).collect();
                let ready: Vec<usize> = selfops.iter().copied().filter(|&j| s.executable(j)).collect();
                let k = if !ready.is_empty() && rng.chance(75) { *rng.pick(&ready) } else if !selfops.is_empty() { *rng.pick(&selfops) } else { k };
                if s.defs[k].t != 0 {
                    continue;
                }
                let d = s.defs[k].clone();
                match s.admin_idx() {
                    Some(0) => {
                        if rng.chance(10) {
                            // somebody else tries, with his own signature and no payload (or an empty one)
                            let who = 1 + rng.below(NACC as u64) as usize;
                            let mut args = d.a.clone();
                            if (d.f == 1 || d.f == 2) && args.len() == 3 {
                                args[2] = Arg::A(who);
                            }
                            let sig = if rng.chance(50) { None } else { Some(vec![]) };
                            s.admin(&mut t, d.f, &args, &sig, &[Tok::Call(who)]);
                        } else {
                            let (sig, toks) = gen_sig(&mut rng, &s, k);
                            s.admin(&mut t, d.f, &d.a, &sig, &toks);
                        }
                    }
                    Some(a) => {
                        // an external admin: its own signature is what counts
                        let toks = plain_toks(&mut rng, a);
                        let sig = if rng.chance(20) { Some(vec![]) } else { None };
                        // grant/revoke name the caller: use the admin
                        let mut args = d.a.clone();
                        if (d.f == 1 || d.f == 2) && args.len() == 3 && rng.chance(85) {
                            args[2] = Arg::A(a);
                        }
                        s.admin(&mut t, d.f, &args, &sig, &toks);
                    }
                    None => {
                        s.admin(&mut t, d.f, &d.a, &Some(vec![]), &[]);
                    }
                }
            } else if r < 66 {
                // `__check_auth` by hand: |metas| x |contexts| in {0..3}^2
                if !(0..n).any(|j| s.defs[j].t == 0 && s.executable(j)) && rng.chance(70) {
                    // nothing to consume: schedule one or two unblocked self-operations and wait
                    let props = s.members(0);
                    let cands: Vec<usize> = (0..n).filter(|&j| s.defs[j].t == 0 && s.ledger_of(j) == 0 && s.defs[j].p == IdRef::Zero).collect();
                    if let (Some(&by), false) = (props.first(), cands.is_empty()) {
                        let m = s.min_delay();
                        for &j in cands.iter().take(1 + rng.below(2) as usize) {
                            s.sched(&mut t, j, m, by, &[Tok::Call(by)]);
                        }
                        s.advance(&mut t, m);
                    }
                }
                let execs = s.members(1);
                let mut ctxs = vec![];
                let mut metas = vec![];
                let mut toks = vec![];
                let ready: Vec<usize> = (0..n).filter(|&j| { let l = s.ledger_of(j); l >= 2 && l <= s.now }).collect();
                let mut ready_self: Vec<usize> = vec![];
                for &j in ready.iter() {
                    // distinct operation ids only (a duplicate tuple is the same operation)
                    if s.defs[j].t == 0 && s.executable(j) && !ready_self.iter().any(|&i| s.hashes[i] == s.hashes[j]) {
                        ready_self.push(j);
                    }
                }
                if !ready_self.is_empty() && rng.chance(55) {
                    // well-formed: one matching descriptor per context, each for a distinct ready operation
                    let cnt = (1 + rng.below(3) as usize).min(ready_self.len());
                    for j in 0..cnt {
                        let k = ready_self[j];
                        let d = &s.defs[k];
                        let ex = if execs.is_empty() { None } else { Some(*rng.pick(&execs)) };
                        if let Some(x) = ex {
                            toks.push(Tok::Exec(x, j));
                        }
                        ctxs.push(Ctx::Def(k));
                        metas.push(md(d.p.clone(), d.s, ex));
                    }
                    // ... and then perhaps one of the malformations
                    match rng.below(12) {
                        0 => { metas.pop(); }
                        1 => { metas.clear(); }
                        2 => { ctxs.pop(); }
                        3 => { metas[0].s += 1; }
                        4 => { ctxs[0] = Ctx::Create; }
                        5 => { ctxs.push(Ctx::Lit(9, 10, vec![Arg::U(1)])); }
                        6 => { toks.clear(); }
                        7 => { let m0 = metas[0].clone(); metas.push(m0); }
                        8 => {
                            // the first context re-targeted: same function and arguments, ANOTHER contract
                            let d0 = &s.defs[ready_self[0]];
                            ctxs[0] = Ctx::Lit(*rng.pick(&[9usize, 3, 1]), d0.f, d0.a.clone());
                        }
                        _ => {}
                    }
                } else {
                    let nm = rng.below(4) as usize;
                    let nc = rng.below(4) as usize;
                    for j in 0..nc.max(nm) {
                        let k = if !ready.is_empty() && rng.chance(75) { *rng.pick(&ready) } else { rng.below(n as u64) as usize };
                        if j < nc {
                            ctxs.push(match rng.below(12) {
                                0 => Ctx::Create,
                                1 => Ctx::Lit(9, 10, vec![Arg::U(1)]),
                                2 => Ctx::Lit(0, 13, vec![]),
                                _ => Ctx::Def(k),
                            });
                        }
                        if j < nm {
                            let d = &s.defs[k];
                            let ex = if execs.is_empty() { None } else { Some(*rng.pick(&execs)) };
                            if let Some(x) = ex {
                                if rng.chance(85) {
                                    toks.push(Tok::Exec(x, j));
                                }
                            }
                            metas.push(if rng.chance(88) { md(d.p.clone(), d.s, ex) } else { md(IdRef::Zero, d.s + 1, ex) });
                        }
                    }
                }
                s.check(&mut t, &metas, &ctxs, &toks);
            } else if r < 74 {
                // execute_op (external targets mostly)
                let ext: Vec<usize> = (0..n).filter(|&j| s.defs[j].t == 9).collect();
                let ext_ready: Vec<usize> = ext.iter().copied().filter(|&j| s.executable(j)).collect();
                let k = if !ext_ready.is_empty() && rng.chance(80) { *rng.pick(&ext_ready) } else if !ext.is_empty() && rng.chance(70) { *rng.pick(&ext) } else { k };
                let execs = s.members(1);
                let ex = if execs.is_empty() { if rng.chance(20) { Some(1 + rng.below(NACC as u64) as usize) } else { None } } else if rng.chance(85) { Some(*rng.pick(&execs)) } else { Some(1 + rng.below(NACC as u64) as usize) };
                let toks = match ex {
                    Some(x) => plain_toks(&mut rng, x),
                    None => vec![],
                };
                s.exec(&mut t, k, ex, &toks);
            } else if r < 82 {
                let pending: Vec<usize> = (0..n).filter(|&j| s.ledger_of(j) >= 2).collect();
                let target = if !pending.is_empty() && rng.chance(75) { IdRef::Op(*rng.pick(&pending)) } else if rng.chance(20) { IdRef::Zero } else { IdRef::Op(k) };
                let canc = s.members(2);
                let by = if !canc.is_empty() && rng.chance(85) { *rng.pick(&canc) } else { 1 + rng.below(NACC as u64) as usize };
                let toks = plain_toks(&mut rng, by);
                s.cancel(&mut t, &target, by, &toks);
            } else if r < 84 {
                let who = 1 + rng.below(NACC as u64) as usize;
                s.accept(&mut t, &[Tok::Call(who)]);
            } else if r < 90 {
                // grant / revoke / renounce_role by an ordinary caller: a holder of the role's admin
                // role mostly, with any subset of signatures
                let role = rng.below(4) as usize;
                let holders = s.role_admin(role).map(|ar| s.members(ar)).unwrap_or_default();
                let caller = if !holders.is_empty() && rng.chance(70) { *rng.pick(&holders) } else { 1 + rng.below(NACC as u64) as usize };
                let acct = 1 + rng.below(NACC as u64) as usize;
                let mut toks = vec![];
                for i in 1..=NACC {
                    if (i == caller && rng.chance(75)) || (i != caller && rng.chance(12)) {
                        toks.push(Tok::Call(i));
                    }
                }
                let sig = if rng.chance(15) { Some(vec![]) } else { None };
                match rng.below(5) {
                    0 | 1 => s.admin(&mut t, 1, &[Arg::A(acct), Arg::S(role), Arg::A(caller)], &sig, &toks),
                    2 => {
                        let mem = s.members(role);
                        let acct = if !mem.is_empty() && rng.chance(70) { *rng.pick(&mem) } else { acct };
                        s.admin(&mut t, 2, &[Arg::A(acct), Arg::S(role), Arg::A(caller)], &sig, &toks)
                    }
                    _ => {
                        let mem = s.members(role);
                        let who = if !mem.is_empty() && rng.chance(60) { *rng.pick(&mem) } else { caller };
                        let toks = if rng.chance(70) { vec![Tok::Call(who)] } else { toks };
                        s.admin(&mut t, 6, &[Arg::S(role), Arg::A(who)], &sig, &toks)
                    }
                };
            } else {
                let waiting: Vec<u32> = (0..n).map(|j| s.ledger_of(j)).filter(|&l| l > s.now && (l - s.now) < (if long { 4_000_000 } else { 100 })).collect();
                let nn = if !waiting.is_empty() && rng.chance(70) {
                    let l = *rng.pick(&waiting);
                    (l - s.now + rng.below(3) as u32).saturating_sub(1)
                } else {
                    *rng.pick(&[0u32, 1, 1, 2, 5])
                };
                let nn = if long && rng.chance(45) { *rng.pick(&[DAY, 31 * DAY, 100 * DAY]) } else { nn };
                if s.now as u64 + nn as u64 > 5_500_000 {
                    continue;
                }
                s.advance(&mut t, nn);
            }
        }
    }
    t.finish();
}
