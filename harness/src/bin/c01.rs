//! C01 / C02 correspondence: the library's fungible `Base` token (+ burnable) behind a
//! thin harness contract, driven through real invocations in the native Soroban host with
//! exact authorization subsets, arbitrary amounts and ledger movement.
use ozharness::*;
use soroban_sdk::{contract, contractimpl, Address, Env, IntoVal, MuxedAddress, String as SString, Val};

// the example contracts of the working tree, compiled with the tree's macros
#[allow(dead_code, unused_imports)]
#[path = "/repo/examples/fungible-allowlist/src/contract.rs"]
mod ex_allowlist;
#[allow(dead_code, unused_imports)]
#[path = "/repo/examples/fungible-blocklist/src/contract.rs"]
mod ex_blocklist;
#[allow(dead_code, unused_imports)]
#[path = "/repo/examples/fungible-pausable/src/contract.rs"]
mod ex_pausable;
#[allow(dead_code, unused_imports)]
#[path = "/repo/examples/fungible-votes/src/contract.rs"]
mod ex_votes;
#[allow(dead_code, unused_imports)]
#[path = "/repo/examples/fungible-capped/src/contract.rs"]
mod ex_capped;
use stellar_tokens::fungible::{burnable::FungibleBurnable, Base, FungibleToken};

#[contract]
pub struct Tok;

#[contractimpl]
impl Tok {
    pub fn mint(e: &Env, to: Address, amount: i128) {
        Base::mint(e, &to, amount);
    }
}

#[contractimpl(contracttrait)]
impl FungibleToken for Tok {
    type ContractType = Base;
}

#[contractimpl(contracttrait)]
impl FungibleBurnable for Tok {}

/// The LIBRARY types of the flavours with every entry point they define routed through them
/// (the example contracts expose no burn for votes / block-list and no mint for the lists):
/// `FungibleVotes::{mint, burn, burn_from}`, `AllowList::{burn, burn_from}`,
/// `BlockList::{burn, burn_from}` + the `ContractType` dispatch for the rest. Gates open.
mod libflavors {
    use soroban_sdk::{contract, contractimpl, Address, Env, MuxedAddress, String as SString};
    use stellar_governance::votes::Votes;
    use stellar_tokens::fungible::{
        allowlist::AllowList, blocklist::BlockList, burnable::FungibleBurnable, votes::FungibleVotes, Base, FungibleToken,
    };

    #[contract]
    pub struct VotesLib;
    #[contractimpl]
    impl VotesLib {
        pub fn mint(e: &Env, to: Address, amount: i128) {
            FungibleVotes::mint(e, &to, amount);
        }
    }
    #[contractimpl(contracttrait)]
    impl FungibleToken for VotesLib {
        type ContractType = FungibleVotes;
    }
    #[contractimpl(contracttrait)]
    impl Votes for VotesLib {}
    #[contractimpl(contracttrait)]
    impl FungibleBurnable for VotesLib {
        fn burn(e: &Env, from: Address, amount: i128) {
            FungibleVotes::burn(e, &from, amount);
        }
        fn burn_from(e: &Env, spender: Address, from: Address, amount: i128) {
            FungibleVotes::burn_from(e, &spender, &from, amount);
        }
    }

    #[contract]
    pub struct AllowLib;
    #[contractimpl]
    impl AllowLib {
        pub fn mint(e: &Env, to: Address, amount: i128) {
            Base::mint(e, &to, amount);
        }
        pub fn allow(e: &Env, user: Address) {
            AllowList::allow_user(e, &user);
        }
        pub fn disallow(e: &Env, user: Address) {
            AllowList::disallow_user(e, &user);
        }
    }
    #[contractimpl(contracttrait)]
    impl FungibleToken for AllowLib {
        type ContractType = AllowList;
    }
    #[contractimpl(contracttrait)]
    impl FungibleBurnable for AllowLib {
        fn burn(e: &Env, from: Address, amount: i128) {
            AllowList::burn(e, &from, amount);
        }
        fn burn_from(e: &Env, spender: Address, from: Address, amount: i128) {
            AllowList::burn_from(e, &spender, &from, amount);
        }
    }

    #[contract]
    pub struct BlockLib;
    #[contractimpl]
    impl BlockLib {
        pub fn mint(e: &Env, to: Address, amount: i128) {
            Base::mint(e, &to, amount);
        }
        pub fn block(e: &Env, user: Address) {
            BlockList::block_user(e, &user);
        }
        pub fn unblock(e: &Env, user: Address) {
            BlockList::unblock_user(e, &user);
        }
    }
    #[contractimpl(contracttrait)]
    impl FungibleToken for BlockLib {
        type ContractType = BlockList;
    }
    #[contractimpl(contracttrait)]
    impl FungibleBurnable for BlockLib {
        fn burn(e: &Env, from: Address, amount: i128) {
            BlockList::burn(e, &from, amount);
        }
        fn burn_from(e: &Env, spender: Address, from: Address, amount: i128) {
            BlockList::burn_from(e, &spender, &from, amount);
        }
    }
    #[allow(dead_code)]
    fn _unused(_: MuxedAddress, _: SString) {}
}

const N: usize = 5;
const MAX_TTL: u32 = 200_000;

#[derive(Clone, Copy, PartialEq, Debug)]
enum Flavor {
    Base,
    AllowList,
    BlockList,
    Pausable,
    Votes,
    Capped,
    VotesLib,
    AllowLib,
    BlockLib,
}

struct Sim {
    e: Env,
    u: Universe,
    tok: Address,
    now: u32,
    min_temp: u32,
    flavor: Flavor,
    /// who must authorize `mint` (index), if anybody
    mint_auth: Option<usize>,
    /// the host's max_entry_ttl of this sequence
    max_ttl: u32,
}

impl Sim {
    fn new(min_temp: u32, start: u32) -> Sim {
        Self::new_ttl(min_temp, start, MAX_TTL)
    }
    fn new_ttl(min_temp: u32, start: u32, max_ttl: u32) -> Sim {
        let e = new_env(start, min_temp, max_ttl);
        let tok = e.register(Tok, ());
        let u = Universe::new(&e, N);
        Sim { e, u, tok, now: start, min_temp, flavor: Flavor::Base, mint_auth: None, max_ttl }
    }
    /// One of the example contracts with all its gates open (everybody allowed, nobody
    /// blocked, not paused, cap = i128::MAX), so that it must behave exactly like `Base`.
    /// Returns the initial supply minted by the constructor to account 0.
    fn new_flavor(t: &mut Trace, flavor: Flavor, min_temp: u32, start: u32, initial: i128) -> Sim {
        Self::new_flavor_ttl(t, flavor, min_temp, start, initial, MAX_TTL)
    }
    fn new_flavor_ttl(t: &mut Trace, flavor: Flavor, min_temp: u32, start: u32, initial: i128, max_ttl: u32) -> Sim {
        let e = new_env(start, min_temp, max_ttl);
        let u = Universe::new(&e, N);
        let name = SString::from_str(&e, "T");
        let sym = SString::from_str(&e, "T");
        let a0 = u.a(0).clone();
        let mut mint_auth = None;
        let tok = match flavor {
            Flavor::AllowList => e.register(ex_allowlist::ExampleContract, (name, sym, a0.clone(), a0.clone(), initial)),
            Flavor::BlockList => e.register(ex_blocklist::ExampleContract, (name, sym, a0.clone(), a0.clone(), initial)),
            Flavor::Pausable => {
                mint_auth = Some(0);
                e.register(ex_pausable::ExampleContract, (name, sym, a0.clone(), initial))
            }
            Flavor::Votes => {
                mint_auth = Some(0);
                e.register(ex_votes::ExampleContract, (a0.clone(),))
            }
            Flavor::Capped => e.register(ex_capped::ExampleContract, (i128::MAX,)),
            Flavor::Base => e.register(Tok, ()),
            Flavor::VotesLib => e.register(libflavors::VotesLib, ()),
            Flavor::AllowLib => e.register(libflavors::AllowLib, ()),
            Flavor::BlockLib => e.register(libflavors::BlockLib, ()),
        };
        let mut s = Sim { e, u, tok, now: start, min_temp, flavor, mint_auth, max_ttl };
        // the token events the CONSTRUCTOR really emitted (role / list / ownership events dropped)
        let ctor_ev: Vec<String> = s.events().split(';').filter(|x| !x.starts_with("other:") && *x != "-").map(|x| x.to_string()).collect();
        let ctor_ev = if ctor_ev.is_empty() { "-".to_string() } else { ctor_ev.join(";") };
        if flavor == Flavor::AllowLib {
            for i in 0..N {
                let r = call(&s.e, &s.tok, "allow", args(&s.e, [v(&s.e, s.u.a(i))]), &[]);
                assert!(r.is_some(), "allow failed");
            }
        }
        if flavor == Flavor::AllowList {
            for i in 0..N {
                let r = call(&s.e, &s.tok, "allow_user", args(&s.e, [v(&s.e, s.u.a(i)), v(&s.e, s.u.a(0))]), &[s.u.a(0)]);
                assert!(r.is_some(), "allow_user failed");
            }
        }
        // the constructor's mint of the initial supply, presented as a mint op
        if matches!(flavor, Flavor::AllowList | Flavor::BlockList | Flavor::Pausable) {
            t.op(&format!("fungible mint a=0 amt={} lu=0 auth=-", initial));
            let st = s.state();
            t.obs(&format!("ok {} now={} ev={} dem=-", st, s.now, ctor_ev));
        }
        s.now = start;
        s
    }
    fn supports(&self, kind: &str) -> bool {
        match self.flavor {
            Flavor::Base | Flavor::Pausable | Flavor::VotesLib | Flavor::AllowLib | Flavor::BlockLib => true,
            Flavor::AllowList => kind != "mint",
            Flavor::BlockList => !matches!(kind, "mint" | "burn" | "burn_from"),
            Flavor::Votes | Flavor::Capped => !matches!(kind, "burn" | "burn_from"),
        }
    }
    /// getters; a getter that traps is shown as `?` (the monitor then flags the observation)
    fn bal_opt(&self, i: usize) -> Option<i128> {
        query(&self.e, &self.tok, "balance", args(&self.e, [v(&self.e, self.u.a(i))]))
    }
    fn bal(&self, i: usize) -> i128 {
        self.bal_opt(i).unwrap_or(0)
    }
    fn allowance_opt(&self, o: usize, s: usize) -> Option<i128> {
        query(&self.e, &self.tok, "allowance", args(&self.e, [v(&self.e, self.u.a(o)), v(&self.e, self.u.a(s))]))
    }
    fn allowance(&self, o: usize, s: usize) -> i128 {
        self.allowance_opt(o, s).unwrap_or(0)
    }
    fn supply_opt(&self) -> Option<i128> {
        query(&self.e, &self.tok, "total_supply", args(&self.e, []))
    }
    fn supply(&self) -> i128 {
        self.supply_opt().unwrap_or(0)
    }
    fn state(&self) -> String {
        let sh = |x: Option<i128>| x.map(|v| v.to_string()).unwrap_or_else(|| "?".to_string());
        let bals: Vec<String> = (0..N).map(|i| sh(self.bal_opt(i))).collect();
        let mut al = vec![];
        for o in 0..N {
            for s in 0..N {
                match self.allowance_opt(o, s) {
                    Some(0) => {}
                    a => al.push(format!("{}:{}:{}", o, s, sh(a))),
                }
            }
        }
        format!("sup={} bal={} allow={}", sh(self.supply_opt()), bals.join(","), if al.is_empty() { "-".into() } else { al.join(";") })
    }
    fn events(&self) -> String {
        let evs = last_events(&self.e);
        let mut out = vec![];
        for ev in evs {
            let amt = ev_field(&ev.data, "amount").and_then(sc_i128).map(|x| x.to_string()).unwrap_or("?".into());
            match ev.name.as_str() {
                "mint" => out.push(format!("mint:{}:{}", ev_addr(&self.u, ev.topics.get(0)), amt)),
                "burn" => out.push(format!("burn:{}:{}", ev_addr(&self.u, ev.topics.get(0)), amt)),
                "transfer" => out.push(format!("transfer:{}:{}:{}", ev_addr(&self.u, ev.topics.get(0)), ev_addr(&self.u, ev.topics.get(1)), amt)),
                "approve" => out.push(format!(
                    "approve:{}:{}:{}:{}",
                    ev_addr(&self.u, ev.topics.get(0)),
                    ev_addr(&self.u, ev.topics.get(1)),
                    amt,
                    ev_field(&ev.data, "live_until_ledger").and_then(sc_u32).map(|x| x.to_string()).unwrap_or("?".into())
                )),
                other => out.push(format!("other:{}", other)),
            }
        }
        if out.is_empty() {
            "-".into()
        } else {
            out.join(";")
        }
    }
    /// run one op line, return the observation
    fn exec(&mut self, t: &mut Trace, kind: &str, a: &[usize], amount: i128, lu: u32, auth: &[usize]) {
        let e = &self.e;
        let ad = |i: usize| -> Val { self.u.a(i).into_val(e) };
        let (func, argv): (&str, soroban_sdk::Vec<Val>) = match kind {
            "mint" => ("mint", args(e, [ad(a[0]), v(e, amount)])),
            "transfer" => {
                let to: MuxedAddress = self.u.a(a[1]).clone().into();
                ("transfer", args(e, [ad(a[0]), v(e, to), v(e, amount)]))
            }
            "transfer_from" => ("transfer_from", args(e, [ad(a[0]), ad(a[1]), ad(a[2]), v(e, amount)])),
            "approve" => ("approve", args(e, [ad(a[0]), ad(a[1]), v(e, amount), v(e, lu)])),
            "burn" => ("burn", args(e, [ad(a[0]), v(e, amount)])),
            "burn_from" => ("burn_from", args(e, [ad(a[0]), ad(a[1]), v(e, amount)])),
            _ => unreachable!(),
        };
        let mauth = match (kind, self.mint_auth) {
            ("mint", Some(m)) => format!(" mauth={}", m),
            _ => String::new(),
        };
        t.op(&format!("fungible {} a={} amt={} lu={} auth={}{}", kind, join(a), amount, lu, join(auth), mauth));
        let signers: Vec<&Address> = auth.iter().map(|&i| self.u.a(i)).collect();
        let r = call(e, &self.tok, func, argv, &signers);
        let (tag, evs, dem) = match r {
            Some(_) => {
                let dem = demanded(e, &self.u);
                ("ok", self.events(), join(&dem))
            }
            None => ("err", "-".to_string(), "-".to_string()),
        };
        let st = self.state();
        t.obs(&format!("{} {} now={} ev={} dem={}", tag, st, self.now, evs, dem));
    }
    /// Closes the flavour's gate on account `i` (block / disallow / pause), observes every getter while it is
    /// closed, and opens it again. To the model both steps are `advance n=0`: gating moves no token, so balances,
    /// allowances and the supply must read exactly as before, and the supply must still be the sum of the balances.
    fn gate_probe(&mut self, t: &mut Trace, i: usize) {
        let e = &self.e;
        let ai = v(e, self.u.a(i));
        let a0 = v(e, self.u.a(0));
        let (close, open, cargs, signer): (&str, &str, Vec<Val>, bool) = match self.flavor {
            Flavor::BlockList => ("block_user", "unblock_user", vec![ai, a0], true),
            Flavor::AllowList => ("disallow_user", "allow_user", vec![ai, a0], true),
            Flavor::Pausable => ("pause", "unpause", vec![a0], true),
            Flavor::BlockLib => ("block", "unblock", vec![ai], false),
            Flavor::AllowLib => ("disallow", "allow", vec![ai], false),
            _ => return,
        };
        let signers: Vec<&Address> = if signer { vec![self.u.a(0)] } else { vec![] };
        for f in [close, open] {
            let mut av = soroban_sdk::Vec::new(e);
            for x in cargs.iter() {
                av.push_back(*x);
            }
            let r = call(e, &self.tok, f, av, &signers);
            assert!(r.is_some(), "gate call {} failed", f);
            t.op("fungible advance n=0");
            let st = self.state();
            t.obs(&format!("ok {} now={} ev=- dem=-", st, self.now));
        }
    }
    fn advance(&mut self, t: &mut Trace, n: u32) {
        self.now += n;
        set_ledger(&self.e, self.now, self.min_temp, self.max_ttl);
        t.op(&format!("fungible advance n={}", n));
        let st = self.state();
        t.obs(&format!("ok {} now={} ev=- dem=-", st, self.now));
    }
}

fn pick_amount(rng: &mut Rng, sim: &Sim, from: Option<usize>, spender: Option<usize>) -> i128 {
    let bal = from.map(|f| sim.bal(f)).unwrap_or(0);
    let sup = sim.supply();
    let allow = match (from, spender) {
        (Some(f), Some(s)) => sim.allowance(f, s),
        _ => 0,
    };
    match rng.below(22) {
        0 => 0,
        1 => 1,
        2 => -1,
        3 => bal,
        4 => bal.saturating_add(1),
        5 => (bal - 1).max(0),
        6 => allow,
        7 => allow.saturating_add(1),
        8 => (allow - 1).max(0),
        9 => i128::MAX,
        10 => i128::MAX - sup,
        11 => (i128::MAX - sup).saturating_add(1),
        12 => i128::MIN,
        13 => rng.i128_any(),
        14 => bal / 2,
        15 => allow.min(bal),
        16 => rng.i128_nonneg() >> 64,
        _ => rng.range(1, 1000) as i128,
    }
}

fn right_auth(kind: &str, a: &[usize], mint_auth: Option<usize>) -> Vec<usize> {
    match kind {
        "mint" => mint_auth.into_iter().collect(),
        _ => vec![a[0]],
    }
}

fn gen_auth(rng: &mut Rng, kind: &str, a: &[usize], auth_focus: bool, mint_auth: Option<usize>) -> Vec<usize> {
    let right = right_auth(kind, a, mint_auth);
    let p = if auth_focus { 55 } else { 80 };
    if rng.chance(p) {
        let mut r = right;
        if rng.chance(15) {
            r.push(rng.below(N as u64) as usize); // a stranger signing too changes nothing
        }
        r.sort();
        r.dedup();
        r
    } else {
        // an arbitrary subset, biased to "everyone but the right one"
        let mut r: Vec<usize> = vec![];
        if rng.chance(50) {
            for x in a.iter() {
                if !right.contains(x) {
                    r.push(*x);
                }
            }
        } else {
            for i in 0..N {
                if rng.chance(35) {
                    r.push(i);
                }
            }
        }
        r.sort();
        r.dedup();
        r
    }
}

/// Long idle periods: persistent data (balances, supply) must survive months without any
/// access; only allowances are time-bounded. One-year max_entry_ttl so that the unmodified
/// code's persistent entries stay live over the horizon.
fn scenario_long_idle(t: &mut Trace) {
    const DAY: u32 = 17_280;
    const YEAR_TTL: u32 = 6_312_000;
    for flavor in [Flavor::Base, Flavor::Votes, Flavor::Capped] {
        t.seq(&format!("directed long idle min_temp=16 start=100 max_ttl={} flavor={:?}", YEAR_TTL, flavor));
        let mut s = if flavor == Flavor::Base { Sim::new_ttl(16, 100, YEAR_TTL) } else { Sim::new_flavor_ttl(t, flavor, 16, 100, 0, YEAR_TTL) };
        let ma: Vec<usize> = s.mint_auth.into_iter().collect();
        s.exec(t, "mint", &[0], 1000, 0, &ma);
        s.exec(t, "mint", &[1], 50, 0, &ma);
        s.exec(t, "transfer", &[0, 2], 300, 0, &[0]);
        s.exec(t, "approve", &[0, 3], 200, 100 + 40 * DAY, &[0]);
        s.exec(t, "approve", &[2, 3], 70, 150, &[2]);
        s.advance(t, DAY);
        s.exec(t, "transfer_from", &[3, 0, 4], 20, 0, &[3]);
        s.exec(t, "transfer_from", &[3, 2, 4], 1, 0, &[3]);
        s.advance(t, 31 * DAY);
        s.exec(t, "transfer", &[1, 4], 50, 0, &[1]);
        s.exec(t, "transfer_from", &[3, 0, 4], 20, 0, &[3]);
        s.advance(t, 100 * DAY);
        s.exec(t, "transfer", &[2, 0], 300, 0, &[2]);
        s.exec(t, "transfer_from", &[3, 0, 4], 20, 0, &[3]);
        s.exec(t, "mint", &[4], 5, 0, &ma);
        s.exec(t, "transfer", &[4, 1], 95, 0, &[4]);
        s.exec(t, "transfer", &[4, 1], 1, 0, &[4]);
    }
}

/// every entry point of the LIBRARY flavour types, including the burns the examples do not expose
fn scenario_lib_flavors(t: &mut Trace) {
    for flavor in [Flavor::VotesLib, Flavor::AllowLib, Flavor::BlockLib] {
        t.seq(&format!("directed library flavour min_temp=1 start=100 flavor={:?}", flavor));
        let mut s = Sim::new_flavor(t, flavor, 1, 100, 0);
        s.exec(t, "mint", &[0], 1000, 0, &[]);
        s.exec(t, "mint", &[1], 0, 0, &[]);
        s.exec(t, "transfer", &[0, 1], 250, 0, &[0]);
        s.exec(t, "transfer", &[0, 0], 10, 0, &[0]);
        s.exec(t, "approve", &[0, 2], 400, 150, &[0]);
        s.exec(t, "transfer_from", &[2, 0, 3], 100, 0, &[2]);
        s.exec(t, "burn_from", &[2, 0], 120, 0, &[2]);
        s.exec(t, "burn_from", &[2, 0], 120, 0, &[0]);
        s.exec(t, "burn_from", &[2, 0], 180, 0, &[2]);
        s.exec(t, "burn_from", &[2, 0], 1, 0, &[2]);
        s.exec(t, "burn", &[1], 50, 0, &[1]);
        s.exec(t, "burn", &[1], 201, 0, &[1]);
        s.exec(t, "burn", &[3], 0, 0, &[3]);
        s.exec(t, "approve", &[1, 1], 30, 150, &[1]);
        s.exec(t, "burn_from", &[1, 1], 30, 0, &[1]);
        s.gate_probe(t, 0);
        s.gate_probe(t, 3);
        s.advance(t, 60);
        s.exec(t, "transfer_from", &[2, 0, 3], 1, 0, &[2]);
        s.exec(t, "mint", &[4], i128::MAX, 0, &[]);
        s.exec(t, "mint", &[4], i128::MAX - 600, 0, &[]);
    }
}

fn scenario_directed(t: &mut Trace) {
    // hand-written regression histories; run first on every invocation
    t.seq("directed self-transfer, zero, overflow boundary, expiry min_temp=1 start=100");
    let mut s = Sim::new(1, 100);
    s.exec(t, "mint", &[0], 1000, 0, &[]);
    s.exec(t, "transfer", &[0, 0], 1000, 0, &[0]);
    s.exec(t, "transfer", &[0, 0], 1001, 0, &[0]);
    s.exec(t, "transfer", &[0, 1], 0, 0, &[0]);
    s.exec(t, "transfer", &[0, 1], 400, 0, &[1]);
    s.exec(t, "transfer", &[0, 1], 400, 0, &[0]);
    s.exec(t, "mint", &[2], i128::MAX - 1000, 0, &[]);
    s.exec(t, "mint", &[2], 1, 0, &[]);
    s.exec(t, "mint", &[3], i128::MAX, 0, &[]);
    s.exec(t, "burn", &[2], i128::MAX - 1000, 0, &[2]);
    s.exec(t, "approve", &[0, 4], 300, 110, &[0]);
    s.exec(t, "approve", &[0, 4], 300, 110, &[4]);
    s.exec(t, "transfer_from", &[4, 0, 3], 100, 0, &[4]);
    s.exec(t, "transfer_from", &[4, 0, 3], 100, 0, &[0]);
    s.exec(t, "transfer_from", &[4, 0, 3], 201, 0, &[4]);
    s.advance(t, 10);
    s.exec(t, "burn_from", &[4, 0], 50, 0, &[4]);
    s.advance(t, 1);
    s.exec(t, "burn_from", &[4, 0], 50, 0, &[4]);
    s.exec(t, "approve", &[0, 4], 5, 110, &[0]);
    s.exec(t, "approve", &[0, 4], 0, 110, &[0]);
    s.exec(t, "approve", &[0, 4], 5, 111 + MAX_TTL - 1, &[0]);
    s.exec(t, "approve", &[0, 4], 5, 111 + MAX_TTL - 2, &[0]);
    s.exec(t, "approve", &[0, 4], -1, 500, &[0]);
    // replaced by a shorter-lived approval: the storage entry outlives it
    t.seq("directed allowance replaced by shorter-lived one min_temp=16 start=100");
    let mut s = Sim::new(16, 100);
    s.exec(t, "mint", &[0], 1000, 0, &[]);
    s.exec(t, "approve", &[0, 1], 500, 5000, &[0]);
    s.exec(t, "approve", &[0, 1], 400, 120, &[0]);
    s.advance(t, 20);
    s.exec(t, "transfer_from", &[1, 0, 2], 10, 0, &[1]);
    s.advance(t, 1);
    s.exec(t, "transfer_from", &[1, 0, 2], 10, 0, &[1]);
    s.exec(t, "approve", &[0, 1], 7, 121, &[0]);
    s.exec(t, "transfer_from", &[1, 0, 2], 7, 0, &[1]);
    s.exec(t, "transfer_from", &[1, 0, 2], 1, 0, &[1]);
}

fn main() {
    let mut t = Trace::from_args();
    let seed = seed_from_env();
    let thorough = arg_str("--tier").as_deref() == Some("thorough");
    let auth_focus = arg_str("--focus").as_deref() == Some("auth");
    let nseq = arg_u64("--seqs", if thorough { 1500 } else { 220 });
    let len = arg_u64("--len", 45);
    let mut rng = Rng::new(seed);
    scenario_long_idle(&mut t);
    scenario_directed(&mut t);
    if std::env::args().any(|a| a == "--flavors") {
        scenario_lib_flavors(&mut t);
    }
    let flavors = std::env::args().any(|a| a == "--flavors");
    for k in 0..nseq {
        let min_temp = if rng.chance(50) { 1 } else { 16 };
        let start = *rng.pick(&[2u32, 100, 5000]);
        // with --flavors every other sequence runs one of the example contracts with its
        // gates open (must behave exactly like Base)
        let flavor = if flavors && k % 2 == 1 {
            *rng.pick(&[Flavor::AllowList, Flavor::BlockList, Flavor::Pausable, Flavor::Votes, Flavor::Capped,
                        Flavor::VotesLib, Flavor::AllowLib, Flavor::BlockLib])
        } else {
            Flavor::Base
        };
        t.seq(&format!("rand k={} seed={} min_temp={} start={} flavor={:?}", k, seed, min_temp, start, flavor));
        let mut s = if flavor == Flavor::Base {
            Sim::new(min_temp, start)
        } else {
            let initial = *rng.pick(&[0i128, 1000, 1_000_000_000_000, i128::MAX - 5]);
            Sim::new_flavor(&mut t, flavor, min_temp, start, initial)
        };
        // ledgers worth visiting: expiry boundaries of approvals made so far
        let mut marks: Vec<u32> = vec![];
        for _ in 0..len {
            let r = rng.below(100);
            if r < 12 {
                // move the ledger: to just before / at / after a remembered live_until
                let n = if !marks.is_empty() && rng.chance(60) {
                    let m = *rng.pick(&marks);
                    let target = (m as i64 + rng.range(-1, 1)).max(s.now as i64) as u32;
                    target - s.now
                } else {
                    *rng.pick(&[0u32, 1, 2, 15, 16, 17, 100])
                };
                if s.now as u64 + (n as u64) < 60_000 {
                    s.advance(&mut t, n);
                }
                continue;
            }
            if r < 15 && flavor != Flavor::Base {
                let i = rng.below(N as u64) as usize;
                s.gate_probe(&mut t, i);
                continue;
            }
            let kind = if r < 30 {
                "mint"
            } else if r < 48 {
                "transfer"
            } else if r < 64 {
                "transfer_from"
            } else if r < 80 {
                "approve"
            } else if r < 90 {
                "burn"
            } else {
                "burn_from"
            };
            if !s.supports(kind) {
                continue;
            }
            let p = |rng: &mut Rng| rng.below(N as u64) as usize;
            let (a, amount, lu): (Vec<usize>, i128, u32) = match kind {
                "mint" => (vec![p(&mut rng)], pick_amount(&mut rng, &s, None, None), 0),
                "transfer" => {
                    let f = p(&mut rng);
                    let to = if rng.chance(12) { f } else { p(&mut rng) };
                    (vec![f, to], pick_amount(&mut rng, &s, Some(f), None), 0)
                }
                "transfer_from" => {
                    let (sp, f) = (p(&mut rng), p(&mut rng));
                    let to = if rng.chance(10) { f } else { p(&mut rng) };
                    (vec![sp, f, to], pick_amount(&mut rng, &s, Some(f), Some(sp)), 0)
                }
                "approve" => {
                    let (o, sp) = (p(&mut rng), p(&mut rng));
                    let maxl = s.now + MAX_TTL - 1;
                    let lu = match rng.below(12) {
                        0 => 0,
                        1 => s.now.saturating_sub(1),
                        2 => s.now,
                        3 => s.now + 1,
                        4 => maxl,
                        5 => maxl + 1,
                        6 => u32::MAX,
                        7 => s.now + 15,
                        8 => s.now + 16,
                        _ => s.now + rng.below(300) as u32,
                    };
                    if lu >= s.now && lu < 70_000 {
                        marks.push(lu);
                    }
                    (vec![o, sp], pick_amount(&mut rng, &s, Some(o), Some(sp)), lu)
                }
                "burn" => {
                    let f = p(&mut rng);
                    (vec![f], pick_amount(&mut rng, &s, Some(f), None), 0)
                }
                _ => {
                    let (sp, f) = (p(&mut rng), p(&mut rng));
                    (vec![sp, f], pick_amount(&mut rng, &s, Some(f), Some(sp)), 0)
                }
            };
            let auth = gen_auth(&mut rng, kind, &a, auth_focus, s.mint_auth);
            s.exec(&mut t, kind, &a, amount, lu, &auth);
        }
    }
    t.finish();
}
