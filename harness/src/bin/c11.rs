//! C11 correspondence: an NFT moves only by its owner, its approved account or a live operator.
//! The three example contracts (+ the explicit-id harness contract) are driven with exact
//! authorization subsets by owner, approved account, operator, former owner, former approved
//! account and strangers, with the ledger placed just before / at / after each approval's
//! `live_until_ledger`, revocations (`live_until_ledger = 0`) and `min_temp_entry_ttl ∈ {1, 16}`.
use ozharness::*;

#[path = "../nft_sim.rs"]
mod nft_sim;
use nft_sim::*;

struct Gen {
    s: Sim,
    next: u32,
    /// accounts that owned / were approved for a token at some time
    former_owner: Vec<(u32, usize)>,
    former_approved: Vec<(u32, usize)>,
    /// (owner, operator) pairs ever granted
    operators: Vec<(usize, usize)>,
    /// ledgers worth visiting (live_until of approvals)
    marks: Vec<u32>,
    /// tokens with an approval history (observed after every op)
    watched: Vec<u32>,
}

impl Gen {
    fn new(fl: Flavour, min_temp: u32, start: u32) -> Gen {
        Gen { s: Sim::new(fl, min_temp, start), next: 0, former_owner: vec![], former_approved: vec![], operators: vec![], marks: vec![], watched: vec![] }
    }
    fn new_long(fl: Flavour, min_temp: u32, start: u32) -> Gen {
        let mut g = Gen::new(fl, min_temp, start);
        g.s = Sim::with_ttl(fl, min_temp, start, MAX_TTL_LONG);
        g
    }
    fn q(&self) -> Vec<(u32, u32)> {
        let mut r = vec![(0, self.next + 1)];
        for &w in &self.watched {
            r.push((w, w));
        }
        merge_ranges(r)
    }
    fn qa(&self, id: u32) -> Vec<u32> {
        let mut v = vec![id];
        for &w in self.watched.iter().rev().take(7) {
            v.push(w);
        }
        v.sort();
        v.dedup();
        v
    }
    fn watch(&mut self, id: u32) {
        self.watched.retain(|&x| x != id);
        self.watched.push(id);
        if self.watched.len() > 12 {
            self.watched.remove(0);
        }
    }
    fn run(&mut self, t: &mut Trace, kind: &str, a: &[usize], id: u32, n: u32, lu: u32, auth: &[usize]) -> bool {
        // the access-control example has no sequential mint: the next fresh id is minted explicitly
        let (kind, id) = if self.s.fl == Flavour::Acx && kind == "mint" { ("mint_id", self.next) } else { (kind, id) };
        let names_id = matches!(kind, "mint_id" | "transfer" | "transfer_from" | "approve" | "burn" | "burn_from");
        // remember who owned / was approved before the op, for "former" actors
        let (before_owner, before_appr) = if names_id { (self.s.owner_of(id), self.s.get_approved(id)) } else { (None, None) };
        if names_id {
            self.watch(id);
        }
        let q = self.q();
        let qa = self.qa(id);
        let (ok, ret) = self.s.exec(t, kind, a, id, n, lu, auth, &q, &qa);
        if ok {
            match kind {
                "mint" => {
                    self.next = ret.unwrap() + 1;
                }
                "mint_id" if self.s.fl == Flavour::Acx => {
                    self.next = self.next.max(id + 1);
                }
                "batch_mint" => {
                    self.next = ret.unwrap() + 1;
                }
                "transfer" | "transfer_from" | "burn" | "burn_from" => {
                    if let Some(o) = before_owner {
                        self.former_owner.push((id, o));
                    }
                    if let Some(p) = before_appr {
                        self.former_approved.push((id, p));
                    }
                }
                "approve" => {
                    if let Some(p) = before_appr {
                        self.former_approved.push((id, p));
                    }
                    if lu >= self.s.now && lu < 60_000 {
                        self.marks.push(lu);
                    }
                }
                "approve_for_all" => {
                    self.operators.push((a[0], a[1]));
                    if lu >= self.s.now && lu < 60_000 {
                        self.marks.push(lu);
                    }
                }
                _ => {}
            }
        }
        ok
    }
    fn advance(&mut self, t: &mut Trace, n: u32) {
        let q = self.q();
        let qa = self.qa(0);
        self.s.advance(t, n, &q, &qa);
    }
}

fn person(rng: &mut Rng) -> usize {
    rng.below(N as u64) as usize
}

fn pick_lu(rng: &mut Rng, now: u32) -> u32 {
    let maxl = now + MAX_TTL - 1;
    match rng.below(20) {
        0 | 1 => 0,
        2 => now.saturating_sub(1),
        3 => now,
        4 => now + 1,
        5 => maxl,
        6 => maxl + 1,
        7 => u32::MAX,
        8 => now + 15,
        9 => now + 16,
        _ => now + rng.below(60) as u32,
    }
}

/// the actors that matter for token `id`
struct Cast {
    owner: Option<usize>,
    approved: Option<usize>,
    operators: Vec<usize>,
    former_owner: Vec<usize>,
    former_approved: Vec<usize>,
}

fn cast(g: &Gen, id: u32) -> Cast {
    let owner = g.s.owner_of(id).filter(|&o| o < N);
    let approved = g.s.get_approved(id).filter(|&o| o < N);
    let operators = match owner {
        Some(o) => g.operators.iter().filter(|(x, _)| *x == o).map(|(_, p)| *p).collect(),
        None => vec![],
    };
    Cast {
        owner,
        approved,
        operators,
        former_owner: g.former_owner.iter().filter(|(t, _)| *t == id).map(|(_, p)| *p).collect(),
        former_approved: g.former_approved.iter().filter(|(t, _)| *t == id).map(|(_, p)| *p).collect(),
    }
}

/// somebody to act as spender / approver: owner, approved, operator, former owner, former
/// approved, operator of a former owner, stranger
fn actor(rng: &mut Rng, g: &Gen, c: &Cast) -> usize {
    let pick = |rng: &mut Rng, v: &Vec<usize>| -> Option<usize> { if v.is_empty() { None } else { Some(*rng.pick(v)) } };
    let r = match rng.below(14) {
        0 | 1 => c.owner,
        2 | 3 | 4 => c.approved,
        5 | 6 | 7 => pick(rng, &c.operators),
        8 => pick(rng, &c.former_owner),
        9 | 10 => pick(rng, &c.former_approved),
        11 => {
            // an operator of somebody who is not the current owner
            let others: Vec<usize> = g.operators.iter().filter(|(o, _)| Some(*o) != c.owner).map(|(_, p)| *p).collect();
            pick(rng, &others)
        }
        _ => None,
    };
    r.unwrap_or_else(|| person(rng))
}

/// an exact authorization subset for an op whose rightful signer is `right`
fn auth_subset(rng: &mut Rng, right: usize, c: &Cast, others: &[usize]) -> Vec<usize> {
    let mut v: Vec<usize> = match rng.below(20) {
        0..=11 => vec![right],
        12 => vec![],
        13 => c.owner.into_iter().filter(|&o| o != right).collect(), // the owner instead of the spender
        14 => others.iter().cloned().filter(|&o| o != right).collect(), // everyone named but the right one
        15 => (0..N).filter(|&i| i != right).collect(),
        16 => vec![right, person(rng)],
        17 => c.approved.into_iter().chain(c.operators.iter().cloned()).filter(|&o| o != right).collect(),
        _ => (0..N).filter(|_| rng.chance(40)).collect(),
    };
    v.sort();
    v.dedup();
    v
}

fn gen_op(t: &mut Trace, rng: &mut Rng, g: &mut Gen) {
    let r = rng.below(100);
    if r < 10 {
        let n = if !g.marks.is_empty() && rng.chance(70) {
            let m = *rng.pick(&g.marks);
            let target = (m as i64 + rng.range(-1, 1)).max(g.s.now as i64) as u32;
            target - g.s.now
        } else {
            *rng.pick(&[0u32, 1, 2, 15, 16, 17])
        };
        if g.s.now as u64 + (n as u64) < 60_000 {
            g.advance(t, n);
        }
        return;
    }
    if r < 13 {
        let to = person(rng);
        match g.s.fl {
            Flavour::Cons => {
                let n = 1 + rng.below(6) as u32;
                g.run(t, "batch_mint", &[to], 0, n, 0, &[]);
            }
            _ => {
                g.run(t, "mint", &[to], 0, 0, 0, &[]);
            }
        }
        return;
    }
    // a token: mostly an existing one, biased to watched ones
    let id = if !g.watched.is_empty() && rng.chance(55) {
        *rng.pick(&g.watched)
    } else if rng.chance(92) {
        rng.below(g.next.max(1) as u64) as u32
    } else {
        g.next + rng.below(2) as u32
    };
    let c = cast(g, id);
    let owner = c.owner.unwrap_or_else(|| person(rng));
    if r < 37 && c.owner.is_some() && rng.chance(50) {
        // a valid approval by the owner or one of its operators, living a little while
        let approver = if !c.operators.is_empty() && rng.chance(30) { *rng.pick(&c.operators) } else { owner };
        let approved = person(rng);
        let lu = g.s.now + rng.below(40) as u32;
        g.run(t, "approve", &[approver, approved], id, 0, lu, &[approver]);
    } else if r < 37 {
        // approve: approver is the owner / an operator / somebody without the right
        let approver = if rng.chance(65) { owner } else { actor(rng, g, &c) };
        let approved = person(rng);
        let lu = pick_lu(rng, g.s.now);
        let auth = auth_subset(rng, approver, &c, &[approver, approved]);
        g.run(t, "approve", &[approver, approved], id, 0, lu, &auth);
    } else if r < 49 && rng.chance(50) {
        let p = person(rng);
        let lu = g.s.now + rng.below(40) as u32;
        g.run(t, "approve_for_all", &[owner, p], 0, 0, lu, &[owner]);
    } else if r < 49 {
        let o = if rng.chance(75) { owner } else { person(rng) };
        let p = person(rng);
        let lu = pick_lu(rng, g.s.now);
        let auth = auth_subset(rng, o, &c, &[o, p]);
        g.run(t, "approve_for_all", &[o, p], 0, 0, lu, &auth);
    } else if r < 75 {
        // half of the attempts are built to be valid delegated moves (live approval / operator)
        let delegates: Vec<usize> = c.approved.iter().cloned().chain(c.operators.iter().cloned()).collect();
        if !delegates.is_empty() && c.owner.is_some() && rng.chance(65) {
            let sp = *rng.pick(&delegates);
            let to = person(rng);
            let auth = if rng.chance(85) { vec![sp] } else { auth_subset(rng, sp, &c, &[sp, owner, to]) };
            if rng.chance(80) {
                g.run(t, "transfer_from", &[sp, owner, to], id, 0, 0, &auth);
            } else {
                g.run(t, "burn_from", &[sp, owner], id, 0, 0, &auth);
            }
            return;
        }
        let sp = actor(rng, g, &c);
        let frm = if rng.chance(85) {
            owner
        } else if !c.former_owner.is_empty() {
            *rng.pick(&c.former_owner)
        } else {
            person(rng)
        };
        let to = if rng.chance(10) { frm } else { person(rng) };
        let auth = auth_subset(rng, sp, &c, &[sp, frm, to]);
        g.run(t, "transfer_from", &[sp, frm, to], id, 0, 0, &auth);
    } else if r < 83 {
        let sp = actor(rng, g, &c);
        let frm = if rng.chance(85) { owner } else { person(rng) };
        let auth = auth_subset(rng, sp, &c, &[sp, frm]);
        g.run(t, "burn_from", &[sp, frm], id, 0, 0, &auth);
    } else if r < 95 {
        let frm = if rng.chance(80) { owner } else { actor(rng, g, &c) };
        let to = if rng.chance(10) { frm } else { person(rng) };
        let auth = auth_subset(rng, frm, &c, &[frm, to]);
        g.run(t, "transfer", &[frm, to], id, 0, 0, &auth);
    } else {
        let frm = if rng.chance(80) { owner } else { actor(rng, g, &c) };
        let auth = auth_subset(rng, frm, &c, &[frm]);
        g.run(t, "burn", &[frm], id, 0, 0, &auth);
    }
}

fn setup(t: &mut Trace, rng: &mut Rng, g: &mut Gen) {
    match g.s.fl {
        Flavour::Cons => {
            let a = person(rng);
            let b = person(rng);
            g.run(t, "batch_mint", &[a], 0, 3 + rng.below(8) as u32, 0, &[]);
            g.run(t, "batch_mint", &[b], 0, 2 + rng.below(5) as u32, 0, &[]);
        }
        _ => {
            for _ in 0..(3 + rng.below(4)) {
                let to = person(rng);
                g.run(t, "mint", &[to], 0, 0, 0, &[]);
            }
        }
    }
}

/// a token held by the NFT contract's own address: nobody can sign for that address from outside, so the token
/// stays put whoever signs (seed C11-r11-1: `transfer` skipped `require_auth` for the contract's own address)
fn directed_self(t: &mut Trace, fl: Flavour, min_temp: u32) {
    let mut g = Gen::new(fl, min_temp, 100);
    t.seq(&g.s.label("directed token held by the contract's own address"));
    if fl == Flavour::Cons {
        g.run(t, "batch_mint", &[0], 0, 3, 0, &[]);
    } else {
        for _ in 0..3 {
            g.run(t, "mint", &[0], 0, 0, 0, &[]);
        }
    }
    g.run(t, "transfer", &[0, SELF], 1, 0, 0, &[0]); // sent to the contract
    g.run(t, "transfer", &[SELF, 4], 1, 0, 0, &[]);
    g.run(t, "transfer", &[SELF, 4], 1, 0, 0, &[4]);
    g.run(t, "transfer", &[SELF, 0], 1, 0, 0, &[0]);
    g.run(t, "transfer_from", &[4, SELF, 4], 1, 0, 0, &[4]);
    g.run(t, "approve", &[SELF, 4], 1, 0, 200, &[4]);
    g.run(t, "transfer_from", &[4, SELF, 4], 1, 0, 0, &[4]);
    if fl != Flavour::Acx {
        g.run(t, "burn", &[SELF], 1, 0, 0, &[4]);
    }
    g.run(t, "transfer", &[0, 3], 0, 0, 0, &[0]); // everybody else's tokens move as before
}

/// actors: 0 owner, 1 approved, 2 operator, 3 new owner, 4 stranger, 5 second approved
fn directed_for(t: &mut Trace, fl: Flavour, min_temp: u32) {
    let mut g = Gen::new(fl, min_temp, 100);
    t.seq(&g.s.label("directed approvals: expiry, revoke, carry-over, operator scope"));
    if fl == Flavour::Cons {
        g.run(t, "batch_mint", &[0], 0, 6, 0, &[]);
    } else {
        for _ in 0..6 {
            g.run(t, "mint", &[0], 0, 0, 0, &[]);
        }
    }
    // approval live exactly until ledger 110
    g.run(t, "approve", &[0, 1], 2, 0, 110, &[1]); // approved account cannot approve itself
    g.run(t, "approve", &[0, 1], 2, 0, 110, &[]);
    g.run(t, "approve", &[0, 1], 2, 0, 110, &[0]);
    g.run(t, "transfer_from", &[1, 0, 3], 2, 0, 0, &[0]); // the owner's signature does not help the spender
    g.run(t, "transfer_from", &[4, 0, 3], 2, 0, 0, &[4]); // stranger
    g.run(t, "transfer_from", &[1, 0, 3], 3, 0, 0, &[1]); // approved for another token only
    g.advance(t, 10); // ledger 110 = live_until
    g.run(t, "transfer_from", &[1, 0, 3], 2, 0, 0, &[1]); // still live: moves, approval cleared
    g.run(t, "transfer_from", &[1, 3, 4], 2, 0, 0, &[1]); // approval did not carry over to the new owner
    g.run(t, "transfer_from", &[0, 3, 0], 2, 0, 0, &[0]); // former owner
    g.run(t, "approve", &[0, 1], 2, 0, 200, &[0]); // former owner cannot approve any more
    // expiry: approve until 112, act at 113
    g.run(t, "approve", &[0, 1], 1, 0, 112, &[0]);
    g.advance(t, 2);
    g.advance(t, 1); // 113
    g.run(t, "transfer_from", &[1, 0, 3], 1, 0, 0, &[1]);
    g.run(t, "burn_from", &[1, 0], 1, 0, 0, &[1]);
    // re-approve with a longer, then a SHORTER live_until (the storage entry keeps its ttl)
    g.run(t, "approve", &[0, 1], 1, 0, 5000, &[0]);
    g.run(t, "approve", &[0, 5], 1, 0, 115, &[0]);
    g.run(t, "transfer_from", &[1, 0, 3], 1, 0, 0, &[1]); // replaced: 1 is the former approved
    g.advance(t, 3); // 116
    g.run(t, "transfer_from", &[5, 0, 3], 1, 0, 0, &[5]); // expired by its own live_until
    // revoke
    g.run(t, "approve", &[0, 1], 0, 0, 300, &[0]);
    g.run(t, "approve", &[0, 1], 0, 0, 0, &[0]);
    g.run(t, "transfer_from", &[1, 0, 3], 0, 0, 0, &[1]);
    // operators: scope, expiry, revoke
    g.run(t, "approve_for_all", &[0, 2], 0, 0, 130, &[2]);
    g.run(t, "approve_for_all", &[0, 2], 0, 0, 130, &[0]);
    g.run(t, "transfer_from", &[2, 3, 4], 2, 0, 0, &[2]); // token of another owner
    g.run(t, "approve", &[2, 5], 4, 0, 140, &[2]); // the operator may approve for the owner
    g.run(t, "transfer_from", &[5, 0, 3], 4, 0, 0, &[5]);
    g.run(t, "transfer_from", &[2, 0, 3], 5, 0, 0, &[2]); // the operator itself moves a token
    g.run(t, "transfer_from", &[2, 3, 4], 5, 0, 0, &[2]); // …but not once it belongs to somebody else
    g.advance(t, 14); // 130
    g.run(t, "burn_from", &[2, 0], 0, 0, 0, &[2]); // live at 130
    g.advance(t, 1); // 131
    g.run(t, "transfer_from", &[2, 0, 3], 1, 0, 0, &[2]); // expired
    g.run(t, "approve", &[2, 5], 1, 0, 200, &[2]); // expired operator cannot approve
    g.run(t, "approve_for_all", &[0, 2], 0, 0, 400, &[0]);
    g.run(t, "approve_for_all", &[0, 2], 0, 0, 0, &[0]); // revoke
    g.run(t, "transfer_from", &[2, 0, 3], 1, 0, 0, &[2]);
    // limits of live_until
    g.run(t, "approve", &[0, 1], 1, 0, g.s.now - 1, &[0]);
    g.run(t, "approve", &[0, 1], 1, 0, g.s.now + MAX_TTL - 1, &[0]);
    g.run(t, "approve", &[0, 1], 1, 0, g.s.now + MAX_TTL, &[0]);
    g.run(t, "approve_for_all", &[0, 1], 0, 0, g.s.now + MAX_TTL, &[0]);
    g.run(t, "approve_for_all", &[0, 1], 0, 0, g.s.now - 1, &[0]);
    // burn clears the approval; a burned token cannot be approved
    g.run(t, "approve", &[0, 1], 1, 0, 1000, &[0]);
    g.run(t, "burn", &[0], 1, 0, 0, &[0]);
    g.run(t, "approve", &[0, 1], 1, 0, 1000, &[0]);
    g.run(t, "transfer_from", &[1, 0, 3], 1, 0, 0, &[1]);
}

/// long horizon (max_entry_ttl about a year): approvals and operators granted for 40 / 120 days
/// stay usable over idle gaps of 1 and 31 days and are dead after 100 more days; ownership is
/// untouched by the gaps; ids minted afterwards are new
fn directed_long(t: &mut Trace, fl: Flavour, min_temp: u32) {
    let day = LEDGERS_PER_DAY;
    let mut g = Gen::new_long(fl, min_temp, 100);
    t.seq(&g.s.label("directed long idle approvals 1d 31d 100d"));
    if fl == Flavour::Cons {
        g.run(t, "batch_mint", &[0], 0, 6, 0, &[]);
    } else {
        for _ in 0..6 {
            g.run(t, "mint", &[0], 0, 0, 0, &[]);
        }
    }
    g.run(t, "approve", &[0, 1], 2, 0, 100 + 40 * day, &[0]);
    g.run(t, "approve", &[0, 5], 3, 0, 110, &[0]);
    g.run(t, "approve", &[0, 4], 4, 0, 100 + 32 * day, &[0]); // ends exactly at the second observation
    g.run(t, "approve_for_all", &[0, 2], 0, 0, 100 + 120 * day, &[0]);
    g.run(t, "burn", &[0], 5, 0, 0, &[0]);
    g.advance(t, day); // day 1
    g.run(t, "transfer_from", &[5, 0, 3], 3, 0, 0, &[5]); // the short approval is long gone
    g.advance(t, 31 * day); // day 32
    g.run(t, "transfer_from", &[4, 0, 3], 4, 0, 0, &[4]); // live_until == now: still live
    g.run(t, "transfer_from", &[1, 0, 3], 2, 0, 0, &[1]); // 40-day approval still live
    g.run(t, "transfer_from", &[1, 3, 4], 2, 0, 0, &[1]); // …and consumed
    g.run(t, "transfer_from", &[2, 0, 3], 0, 0, 0, &[2]); // 120-day operator live
    g.advance(t, 100 * day); // day 132
    g.run(t, "transfer_from", &[2, 0, 3], 1, 0, 0, &[2]); // operator expired
    g.run(t, "approve", &[2, 5], 1, 0, g.s.now + 10, &[2]);
    g.run(t, "transfer", &[0, 3], 1, 0, 0, &[0]); // the owner still owns it
    g.run(t, "transfer", &[0, 3], 5, 0, 0, &[0]); // the burned token stays burned
    if fl == Flavour::Cons {
        g.run(t, "batch_mint", &[4], 0, 2, 0, &[]);
    } else {
        g.run(t, "mint", &[4], 0, 0, 0, &[]);
    }
    g.run(t, "approve", &[0, 1], 3, 0, g.s.now + MAX_TTL_LONG - 1, &[0]);
    g.run(t, "approve", &[0, 1], 3, 0, g.s.now + MAX_TTL_LONG, &[0]);
}

fn main() {
    let mut t = Trace::from_args();
    let seed = seed_from_env();
    let thorough = arg_str("--tier").as_deref() == Some("thorough");
    let nseq = arg_u64("--seqs", if thorough { 700 } else { 160 });
    let len = arg_u64("--len", 45);
    let mut rng = Rng::new(seed);
    for fl in [Flavour::Seq, Flavour::Enum, Flavour::Cons] {
        directed_for(&mut t, fl, 1);
    }
    directed_for(&mut t, Flavour::Cons, 16);
    directed_for(&mut t, Flavour::Exp, 16);
    directed_for(&mut t, Flavour::Acx, 1);
    directed_for(&mut t, Flavour::Acx, 16);
    for fl in [Flavour::Seq, Flavour::Enum, Flavour::Cons] {
        directed_long(&mut t, fl, 1);
    }
    directed_long(&mut t, Flavour::Cons, 16);
    for fl in [Flavour::Seq, Flavour::Enum, Flavour::Cons, Flavour::Exp] {
        directed_self(&mut t, fl, 1);
    }
    for k in 0..nseq {
        let mut fl = match rng.below(10) {
            0 | 1 | 2 => Flavour::Seq,
            3 | 4 | 5 => Flavour::Enum,
            6 => if rng.chance(50) { Flavour::Exp } else { Flavour::Acx },
            _ => Flavour::Cons,
        };
        match arg_str("--only").as_deref() {
            Some("seq") => fl = Flavour::Seq,
            Some("exp") => fl = Flavour::Exp,
            Some("enum") => fl = Flavour::Enum,
            Some("cons") => fl = Flavour::Cons,
            _ => {}
        }
        let min_temp = if rng.chance(50) { 1 } else { 16 };
        let start = *rng.pick(&[2u32, 100, 5000]);
        let mut g = Gen::new(fl, min_temp, start);
        t.seq(&g.s.label(&format!("rand k={} seed={}", k, seed)));
        setup(&mut t, &mut rng, &mut g);
        for _ in 0..len {
            gen_op(&mut t, &mut rng, &mut g);
        }
    }
    t.finish();
}
