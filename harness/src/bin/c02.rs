//! C02 correspondence (authorization / allowance focus; derived from c01.rs): the library's
//! fungible `Base` token (+ burnable) behind a thin harness contract, driven through real
//! invocations in the native Soroban host. On top of c01's generator:
//!  * authorization probing: before an op is run with its chosen signer set, it is (often)
//!    run with EVERY subset of the involved addresses that lacks the required signer (all of
//!    them must be rejected and change nothing), and sometimes with everybody but the
//!    required signer;
//!  * allowances re-approved with shorter / longer / already-passed live_until, zero amounts;
//!  * ledger movement to live_until-1 / live_until / live_until+1 of every approval made,
//!    to the storage TTL of the entry (live_until of an OLDER approval, now+min_temp-1) and
//!    beyond it, and long jumps;
//!  * spends of allowance, allowance+1, allowance-1, the whole balance, 0;
//!  * "special" principals in the account universe (n=7 in the sequence labels): index 5 is
//!    the token contract's OWN address (it can never sign: `mock_auths` would register a mock
//!    account contract over the token, so 5 is filtered out of every signer set and an op
//!    whose required signer is 5 must always be rejected), index 6 is another registered
//!    contract (a second token instance) acting as an ordinary holder/spender; both are
//!    minted to and named as from / owner / spender / to; owner == spender is generated
//!    with extra weight.
use ozharness::*;
use soroban_sdk::{contract, contractimpl, Address, Env, IntoVal, MuxedAddress, String as SString, Val};

// the example contracts of the working tree, compiled with the tree's macros
#[allow(dead_code, unused_imports)]
#[path = "/repo/examples/fungible-allowlist/src/contract.rs"]
mod ex_allowlist;
#[allow(dead_code, unused_imports)]
#[path = "/repo/examples/fungible-blocklist/src/contract.rs"]
mod ex_blocklist;
#[allow(dead_code, unused_imports)]
#[path = "/repo/examples/fungible-pausable/src/contract.rs"]
mod ex_pausable;
#[allow(dead_code, unused_imports)]
#[path = "/repo/examples/fungible-votes/src/contract.rs"]
mod ex_votes;
#[allow(dead_code, unused_imports)]
#[path = "/repo/examples/fungible-capped/src/contract.rs"]
mod ex_capped;
use stellar_tokens::fungible::{burnable::FungibleBurnable, Base, FungibleToken};

#[contract]
pub struct Tok;

#[contractimpl]
impl Tok {
    pub fn mint(e: &Env, to: Address, amount: i128) {
        Base::mint(e, &to, amount);
    }
}

#[contractimpl(contracttrait)]
impl FungibleToken for Tok {
    type ContractType = Base;
}

#[contractimpl(contracttrait)]
impl FungibleBurnable for Tok {}

/// plain generated accounts 0..NA
/// The LIBRARY types of the flavours with every entry point they define routed through them
/// (the example contracts expose no burn for votes / block-list and no mint for the lists):
/// `FungibleVotes::{mint, burn, burn_from}`, `AllowList::{burn, burn_from}`,
/// `BlockList::{burn, burn_from}` + the `ContractType` dispatch for the rest. Gates open.
mod libflavors {
    use soroban_sdk::{contract, contractimpl, Address, Env, MuxedAddress, String as SString};
    use stellar_governance::votes::Votes;
    use stellar_tokens::fungible::{
        allowlist::AllowList, blocklist::BlockList, burnable::FungibleBurnable, votes::FungibleVotes, Base, FungibleToken,
    };

    #[contract]
    pub struct VotesLib;
    #[contractimpl]
    impl VotesLib {
        pub fn mint(e: &Env, to: Address, amount: i128) {
            FungibleVotes::mint(e, &to, amount);
        }
    }
    #[contractimpl(contracttrait)]
    impl FungibleToken for VotesLib {
        type ContractType = FungibleVotes;
    }
    #[contractimpl(contracttrait)]
    impl Votes for VotesLib {}
    #[contractimpl(contracttrait)]
    impl FungibleBurnable for VotesLib {
        fn burn(e: &Env, from: Address, amount: i128) {
            FungibleVotes::burn(e, &from, amount);
        }
        fn burn_from(e: &Env, spender: Address, from: Address, amount: i128) {
            FungibleVotes::burn_from(e, &spender, &from, amount);
        }
    }

    #[contract]
    pub struct AllowLib;
    #[contractimpl]
    impl AllowLib {
        pub fn mint(e: &Env, to: Address, amount: i128) {
            Base::mint(e, &to, amount);
        }
        pub fn allow(e: &Env, user: Address) {
            AllowList::allow_user(e, &user);
        }
        pub fn disallow(e: &Env, user: Address) {
            AllowList::disallow_user(e, &user);
        }
    }
    #[contractimpl(contracttrait)]
    impl FungibleToken for AllowLib {
        type ContractType = AllowList;
    }
    #[contractimpl(contracttrait)]
    impl FungibleBurnable for AllowLib {
        fn burn(e: &Env, from: Address, amount: i128) {
            AllowList::burn(e, &from, amount);
        }
        fn burn_from(e: &Env, spender: Address, from: Address, amount: i128) {
            AllowList::burn_from(e, &spender, &from, amount);
        }
    }

    #[contract]
    pub struct BlockLib;
    #[contractimpl]
    impl BlockLib {
        pub fn mint(e: &Env, to: Address, amount: i128) {
            Base::mint(e, &to, amount);
        }
        pub fn block(e: &Env, user: Address) {
            BlockList::block_user(e, &user);
        }
        pub fn unblock(e: &Env, user: Address) {
            BlockList::unblock_user(e, &user);
        }
    }
    #[contractimpl(contracttrait)]
    impl FungibleToken for BlockLib {
        type ContractType = BlockList;
    }
    #[contractimpl(contracttrait)]
    impl FungibleBurnable for BlockLib {
        fn burn(e: &Env, from: Address, amount: i128) {
            BlockList::burn(e, &from, amount);
        }
        fn burn_from(e: &Env, spender: Address, from: Address, amount: i128) {
            BlockList::burn_from(e, &spender, &from, amount);
        }
    }
    /// the RWA flavour (`ContractType = RWA`) with every gate open: an identity verifier and a compliance
    /// contract that accept everything, never paused, nothing frozen — it must then behave exactly like
    /// `Base` for `transfer` / `transfer_from` / `approve` (the holder-initiated movements of C02)
    #[contract]
    pub struct PassIdv;
    #[contractimpl]
    impl PassIdv {
        pub fn verify_identity(_e: &Env, _account: Address) {}
    }
    #[contract]
    pub struct PassCompliance;
    #[contractimpl]
    impl PassCompliance {
        pub fn can_transfer(_e: &Env, _from: Address, _to: Address, _amount: i128, _token: Address) -> bool {
            true
        }
        pub fn can_create(_e: &Env, _to: Address, _amount: i128, _token: Address) -> bool {
            true
        }
        pub fn transferred(_e: &Env, _from: Address, _to: Address, _amount: i128, _token: Address) {}
        pub fn created(_e: &Env, _to: Address, _amount: i128, _token: Address) {}
        pub fn destroyed(_e: &Env, _from: Address, _amount: i128, _token: Address) {}
    }
    #[contract]
    pub struct RwaLib;
    #[contractimpl]
    impl RwaLib {
        pub fn __constructor(e: &Env, idv: Address, compliance: Address) {
            stellar_tokens::rwa::RWA::set_identity_verifier(e, &idv);
            stellar_tokens::rwa::RWA::set_compliance(e, &compliance);
        }
        pub fn mint(e: &Env, to: Address, amount: i128) {
            Base::mint(e, &to, amount);
        }
    }
    #[contractimpl(contracttrait)]
    impl FungibleToken for RwaLib {
        type ContractType = stellar_tokens::rwa::RWA;
    }
    // the holder-facing burns through the DEFAULT methods of the trait (the RWA type has a supervisory `burn` of
    // its own, without authorization: the defaults must never dispatch to it)
    #[contractimpl(contracttrait)]
    impl FungibleBurnable for RwaLib {}
    #[allow(dead_code)]
    fn _unused(_: MuxedAddress, _: SString) {}
}

const NA: usize = 5;
/// the token contract's own address (never a signer)
const SELF: usize = 5;
/// another registered contract (a second instance of the harness token) as a holder
const OTHER: usize = 6;
/// size of the observed universe; printed as `n=7` in every sequence label
const N: usize = 7;
const MAX_TTL: u32 = 200_000;

fn seq(t: &mut Trace, label: &str) {
    t.seq(&format!("{} n={}", label, N));
}

#[derive(Clone, Copy, PartialEq, Debug)]
enum Flavor {
    Base,
    AllowList,
    BlockList,
    Pausable,
    Votes,
    Capped,
    VotesLib,
    AllowLib,
    BlockLib,
    RwaLib,
}

struct Sim {
    e: Env,
    u: Universe,
    tok: Address,
    now: u32,
    min_temp: u32,
    flavor: Flavor,
    /// who must authorize `mint` (index), if anybody
    mint_auth: Option<usize>,
    /// the host's max_entry_ttl of this sequence
    max_ttl: u32,
}

impl Sim {
    fn new(min_temp: u32, start: u32) -> Sim {
        Self::new_ttl(min_temp, start, MAX_TTL)
    }
    fn new_ttl(min_temp: u32, start: u32, max_ttl: u32) -> Sim {
        let e = new_env(start, min_temp, max_ttl);
        let tok = e.register(Tok, ());
        let mut u = Universe::new(&e, NA);
        assert_eq!(u.push(tok.clone()), SELF);
        let other = e.register(Tok, ());
        assert_eq!(u.push(other), OTHER);
        Sim { e, u, tok, now: start, min_temp, flavor: Flavor::Base, mint_auth: None, max_ttl }
    }
    /// One of the example contracts with all its gates open (everybody allowed, nobody
    /// blocked, not paused, cap = i128::MAX), so that it must behave exactly like `Base`.
    /// Returns the initial supply minted by the constructor to account 0.
    fn new_flavor(t: &mut Trace, flavor: Flavor, min_temp: u32, start: u32, initial: i128) -> Sim {
        Self::new_flavor_ttl(t, flavor, min_temp, start, initial, MAX_TTL)
    }
    fn new_flavor_ttl(t: &mut Trace, flavor: Flavor, min_temp: u32, start: u32, initial: i128, max_ttl: u32) -> Sim {
        let e = new_env(start, min_temp, max_ttl);
        let mut u = Universe::new(&e, NA);
        let name = SString::from_str(&e, "T");
        let sym = SString::from_str(&e, "T");
        let a0 = u.a(0).clone();
        let mut mint_auth = None;
        // (registered BEFORE the token so that the host's last-invocation events are the token constructor's)
        let other = e.register(Tok, ());
        let tok = match flavor {
            Flavor::AllowList => e.register(ex_allowlist::ExampleContract, (name, sym, a0.clone(), a0.clone(), initial)),
            Flavor::BlockList => e.register(ex_blocklist::ExampleContract, (name, sym, a0.clone(), a0.clone(), initial)),
            Flavor::Pausable => {
                mint_auth = Some(0);
                e.register(ex_pausable::ExampleContract, (name, sym, a0.clone(), initial))
            }
            Flavor::Votes => {
                mint_auth = Some(0);
                e.register(ex_votes::ExampleContract, (a0.clone(),))
            }
            Flavor::Capped => e.register(ex_capped::ExampleContract, (i128::MAX,)),
            Flavor::Base => e.register(Tok, ()),
            Flavor::VotesLib => e.register(libflavors::VotesLib, ()),
            Flavor::AllowLib => e.register(libflavors::AllowLib, ()),
            Flavor::BlockLib => e.register(libflavors::BlockLib, ()),
            Flavor::RwaLib => {
                let idv = e.register(libflavors::PassIdv, ());
                let comp = e.register(libflavors::PassCompliance, ());
                e.register(libflavors::RwaLib, (idv, comp))
            }
        };
        assert_eq!(u.push(tok.clone()), SELF);
        assert_eq!(u.push(other), OTHER);
        let mut s = Sim { e, u, tok, now: start, min_temp, flavor, mint_auth, max_ttl };
        // the token events the CONSTRUCTOR really emitted (role / list / ownership events dropped)
        let ctor_ev: Vec<String> = s.events().split(';').filter(|x| !x.starts_with("other:") && *x != "-").map(|x| x.to_string()).collect();
        let ctor_ev = if ctor_ev.is_empty() { "-".to_string() } else { ctor_ev.join(";") };
        if flavor == Flavor::AllowLib {
            for i in 0..N {
                let r = call(&s.e, &s.tok, "allow", args(&s.e, [v(&s.e, s.u.a(i))]), &[]);
                assert!(r.is_some(), "allow failed");
            }
        }
        if flavor == Flavor::AllowList {
            for i in 0..N {
                let r = call(&s.e, &s.tok, "allow_user", args(&s.e, [v(&s.e, s.u.a(i)), v(&s.e, s.u.a(0))]), &[s.u.a(0)]);
                assert!(r.is_some(), "allow_user failed");
            }
        }
        // the constructor's mint of the initial supply, presented as a mint op
        if matches!(flavor, Flavor::AllowList | Flavor::BlockList | Flavor::Pausable) {
            t.op(&format!("fungible mint a=0 amt={} lu=0 auth=-", initial));
            let st = s.state();
            t.obs(&format!("ok {} now={} ev={} dem=-", st, s.now, ctor_ev));
        }
        s.now = start;
        s
    }
    fn supports(&self, kind: &str) -> bool {
        match self.flavor {
            Flavor::Base | Flavor::Pausable | Flavor::VotesLib | Flavor::AllowLib | Flavor::BlockLib | Flavor::RwaLib => true,
            Flavor::AllowList => kind != "mint",
            Flavor::BlockList => !matches!(kind, "mint" | "burn" | "burn_from"),
            Flavor::Votes | Flavor::Capped => !matches!(kind, "burn" | "burn_from"),
        }
    }
    /// getters; a getter that traps is shown as `?` (the monitor then flags the observation)
    fn bal_opt(&self, i: usize) -> Option<i128> {
        query(&self.e, &self.tok, "balance", args(&self.e, [v(&self.e, self.u.a(i))]))
    }
    fn bal(&self, i: usize) -> i128 {
        self.bal_opt(i).unwrap_or(0)
    }
    fn allowance_opt(&self, o: usize, s: usize) -> Option<i128> {
        query(&self.e, &self.tok, "allowance", args(&self.e, [v(&self.e, self.u.a(o)), v(&self.e, self.u.a(s))]))
    }
    fn allowance(&self, o: usize, s: usize) -> i128 {
        self.allowance_opt(o, s).unwrap_or(0)
    }
    fn supply_opt(&self) -> Option<i128> {
        query(&self.e, &self.tok, "total_supply", args(&self.e, []))
    }
    fn supply(&self) -> i128 {
        self.supply_opt().unwrap_or(0)
    }
    fn state(&self) -> String {
        let sh = |x: Option<i128>| x.map(|v| v.to_string()).unwrap_or_else(|| "?".to_string());
        let bals: Vec<String> = (0..N).map(|i| sh(self.bal_opt(i))).collect();
        let mut al = vec![];
        for o in 0..N {
            for s in 0..N {
                match self.allowance_opt(o, s) {
                    Some(0) => {}
                    a => al.push(format!("{}:{}:{}", o, s, sh(a))),
                }
            }
        }
        format!("sup={} bal={} allow={}", sh(self.supply_opt()), bals.join(","), if al.is_empty() { "-".into() } else { al.join(";") })
    }
    fn events(&self) -> String {
        let evs = last_events(&self.e);
        let mut out = vec![];
        for ev in evs {
            let amt = ev_field(&ev.data, "amount").and_then(sc_i128).map(|x| x.to_string()).unwrap_or("?".into());
            match ev.name.as_str() {
                "mint" => out.push(format!("mint:{}:{}", ev_addr(&self.u, ev.topics.get(0)), amt)),
                "burn" => out.push(format!("burn:{}:{}", ev_addr(&self.u, ev.topics.get(0)), amt)),
                "transfer" => out.push(format!("transfer:{}:{}:{}", ev_addr(&self.u, ev.topics.get(0)), ev_addr(&self.u, ev.topics.get(1)), amt)),
                "approve" => out.push(format!(
                    "approve:{}:{}:{}:{}",
                    ev_addr(&self.u, ev.topics.get(0)),
                    ev_addr(&self.u, ev.topics.get(1)),
                    amt,
                    ev_field(&ev.data, "live_until_ledger").and_then(sc_u32).map(|x| x.to_string()).unwrap_or("?".into())
                )),
                other => out.push(format!("other:{}", other)),
            }
        }
        if out.is_empty() {
            "-".into()
        } else {
            out.join(";")
        }
    }
    /// run one op line, return the observation
    fn exec(&mut self, t: &mut Trace, kind: &str, a: &[usize], amount: i128, lu: u32, auth: &[usize]) {
        // the token's own address can never be among the signers (mock_auths would replace
        // the token contract by a mock account contract)
        let auth: Vec<usize> = auth.iter().copied().filter(|x| *x != SELF).collect();
        let auth = &auth[..];
        let e = &self.e;
        let ad = |i: usize| -> Val { self.u.a(i).into_val(e) };
        let (func, argv): (&str, soroban_sdk::Vec<Val>) = match kind {
            "mint" => ("mint", args(e, [ad(a[0]), v(e, amount)])),
            "transfer" => {
                let to: MuxedAddress = self.u.a(a[1]).clone().into();
                ("transfer", args(e, [ad(a[0]), v(e, to), v(e, amount)]))
            }
            "transfer_from" => ("transfer_from", args(e, [ad(a[0]), ad(a[1]), ad(a[2]), v(e, amount)])),
            "approve" => ("approve", args(e, [ad(a[0]), ad(a[1]), v(e, amount), v(e, lu)])),
            "burn" => ("burn", args(e, [ad(a[0]), v(e, amount)])),
            "burn_from" => ("burn_from", args(e, [ad(a[0]), ad(a[1]), v(e, amount)])),
            _ => unreachable!(),
        };
        let mauth = match (kind, self.mint_auth) {
            ("mint", Some(m)) => format!(" mauth={}", m),
            _ => String::new(),
        };
        t.op(&format!("fungible {} a={} amt={} lu={} auth={}{}", kind, join(a), amount, lu, join(auth), mauth));
        let signers: Vec<&Address> = auth.iter().map(|&i| self.u.a(i)).collect();
        let r = call(e, &self.tok, func, argv, &signers);
        let (tag, evs, dem) = match r {
            Some(_) => {
                let dem = demanded(e, &self.u);
                ("ok", self.events(), join(&dem))
            }
            None => ("err", "-".to_string(), "-".to_string()),
        };
        let st = self.state();
        t.obs(&format!("{} {} now={} ev={} dem={}", tag, st, self.now, evs, dem));
    }
    /// Closes the flavour's gate on account `i` (block / disallow / pause), observes every getter while it is
    /// closed, and opens it again. To the model both steps are `advance n=0`: gating moves no token, so balances,
    /// allowances and the supply must read exactly as before, and the supply must still be the sum of the balances.
    fn gate_probe(&mut self, t: &mut Trace, i: usize) {
        let e = &self.e;
        let ai = v(e, self.u.a(i));
        let a0 = v(e, self.u.a(0));
        let (close, open, cargs, signer): (&str, &str, Vec<Val>, bool) = match self.flavor {
            Flavor::BlockList => ("block_user", "unblock_user", vec![ai, a0], true),
            Flavor::AllowList => ("disallow_user", "allow_user", vec![ai, a0], true),
            Flavor::Pausable => ("pause", "unpause", vec![a0], true),
            Flavor::BlockLib => ("block", "unblock", vec![ai], false),
            Flavor::AllowLib => ("disallow", "allow", vec![ai], false),
            _ => return,
        };
        let signers: Vec<&Address> = if signer { vec![self.u.a(0)] } else { vec![] };
        for f in [close, open] {
            let mut av = soroban_sdk::Vec::new(e);
            for x in cargs.iter() {
                av.push_back(*x);
            }
            let r = call(e, &self.tok, f, av, &signers);
            assert!(r.is_some(), "gate call {} failed", f);
            t.op("fungible advance n=0");
            let st = self.state();
            t.obs(&format!("ok {} now={} ev=- dem=-", st, self.now));
        }
    }
    fn advance(&mut self, t: &mut Trace, n: u32) {
        self.now += n;
        set_ledger(&self.e, self.now, self.min_temp, self.max_ttl);
        t.op(&format!("fungible advance n={}", n));
        let st = self.state();
        t.obs(&format!("ok {} now={} ev=- dem=-", st, self.now));
    }
}

fn pick_amount(rng: &mut Rng, sim: &Sim, from: Option<usize>, spender: Option<usize>) -> i128 {
    let bal = from.map(|f| sim.bal(f)).unwrap_or(0);
    let sup = sim.supply();
    let allow = match (from, spender) {
        (Some(f), Some(s)) => sim.allowance(f, s),
        _ => 0,
    };
    match rng.below(22) {
        0 => 0,
        1 => 1,
        2 => -1,
        3 => bal,
        4 => bal.saturating_add(1),
        5 => (bal - 1).max(0),
        6 => allow,
        7 => allow.saturating_add(1),
        8 => (allow - 1).max(0),
        9 => i128::MAX,
        10 => i128::MAX - sup,
        11 => (i128::MAX - sup).saturating_add(1),
        12 => i128::MIN,
        13 => rng.i128_any(),
        14 => bal / 2,
        15 => allow.min(bal),
        16 => rng.i128_nonneg() >> 64,
        17 => allow / 2,
        18 => allow.min(bal),
        _ => rng.range(1, 1000) as i128,
    }
}

/// amount for a spend: mostly something the current allowance and balance cover
fn pick_spend(rng: &mut Rng, sim: &Sim, f: usize, sp: usize) -> i128 {
    let allow = sim.allowance(f, sp);
    let bal = sim.bal(f);
    let m = allow.min(bal);
    if m > 0 && rng.chance(65) {
        match rng.below(7) {
            0 => m,
            1 => 1,
            2 => (m / 2).max(1),
            3 => (m - 1).max(1),
            4 => allow, // may exceed the balance
            5 => rng.range(1, (m.min(1_000_000)) as i64) as i128,
            _ => (m / 3).max(1),
        }
    } else {
        let x = pick_amount(rng, sim, Some(f), Some(sp));
        if x == 0 && rng.chance(70) {
            rng.range(1, 1000) as i128
        } else {
            x
        }
    }
}

/// amount for an approval: mostly something the owner could actually pay
fn pick_approve(rng: &mut Rng, sim: &Sim, o: usize, sp: usize) -> i128 {
    let bal = sim.bal(o);
    if rng.chance(60) {
        match rng.below(5) {
            0 => bal,
            1 => (bal / 2).max(1),
            2 => bal.saturating_add(10),
            3 => rng.range(1, 1000) as i128,
            _ => (bal / 4).max(2),
        }
    } else if rng.chance(20) {
        0
    } else {
        pick_amount(rng, sim, Some(o), Some(sp))
    }
}

fn right_auth(kind: &str, a: &[usize], mint_auth: Option<usize>) -> Vec<usize> {
    match kind {
        "mint" => mint_auth.into_iter().collect(),
        _ => vec![a[0]],
    }
}

fn gen_auth(rng: &mut Rng, kind: &str, a: &[usize], auth_focus: bool, mint_auth: Option<usize>) -> Vec<usize> {
    let right = right_auth(kind, a, mint_auth);
    let p = if auth_focus { 55 } else { 80 };
    if rng.chance(p) {
        let mut r = right;
        if rng.chance(15) {
            r.push(rng.below(N as u64) as usize); // a stranger signing too changes nothing
        }
        r.sort();
        r.dedup();
        r
    } else {
        // an arbitrary subset, biased to "everyone but the right one"
        let mut r: Vec<usize> = vec![];
        if rng.chance(50) {
            for x in a.iter() {
                if !right.contains(x) {
                    r.push(*x);
                }
            }
        } else {
            for i in 0..N {
                if rng.chance(35) {
                    r.push(i);
                }
            }
        }
        r.sort();
        r.dedup();
        r
    }
}

/// every entry point of the LIBRARY flavour types, including the burns the examples do not expose:
/// allowance-based burns need a live, sufficient allowance and spend exactly the amount
fn scenario_lib_flavors(t: &mut Trace) {
    for flavor in [Flavor::VotesLib, Flavor::AllowLib, Flavor::BlockLib, Flavor::RwaLib] {
        seq(t, &format!("directed library flavour min_temp=1 start=100 flavor={:?}", flavor));
        let mut s = Sim::new_flavor(t, flavor, 1, 100, 0);
        s.exec(t, "mint", &[0], 1000, 0, &[]);
        s.exec(t, "transfer", &[0, 1], 250, 0, &[0]);
        if s.supports("burn") { s.exec(t, "burn_from", &[2, 0], 10, 0, &[2]); }          // no allowance at all
        s.exec(t, "approve", &[0, 2], 400, 150, &[0]);
        s.exec(t, "transfer_from", &[2, 0, 3], 100, 0, &[2]);
        // a live allowance of spender 2 does not help anybody else: a third party, the owner or nobody signing
        s.exec(t, "transfer_from", &[2, 0, 3], 10, 0, &[4]);
        s.exec(t, "transfer_from", &[2, 0, 4], 10, 0, &[4]);
        s.exec(t, "transfer_from", &[2, 0, 3], 10, 0, &[0]);
        s.exec(t, "transfer_from", &[2, 0, 3], 10, 0, &[]);
        if s.supports("burn") { s.exec(t, "burn_from", &[2, 0], 120, 0, &[2]); }
        if s.supports("burn") { s.exec(t, "burn_from", &[2, 0], 120, 0, &[0]); }         // the owner signs, not the spender
        if s.supports("burn") { s.exec(t, "burn_from", &[2, 0], 181, 0, &[2]); }         // one more than the allowance left
        if s.supports("burn") { s.exec(t, "burn_from", &[2, 0], 180, 0, &[2]); }
        if s.supports("burn") { s.exec(t, "burn_from", &[2, 0], 1, 0, &[2]); }           // allowance used up
        if s.supports("burn") { s.exec(t, "burn", &[1], 50, 0, &[1]); }
        if s.supports("burn") { s.exec(t, "burn", &[1], 50, 0, &[0]); }
        s.exec(t, "approve", &[1, 3], 30, 110, &[1]);
        // closing the gate on the owner / the spender of a live allowance moves no allowance: every getter reads as before
        s.gate_probe(t, 1);
        s.gate_probe(t, 3);
        s.gate_probe(t, 2);
        s.advance(t, 11);
        if s.supports("burn") { s.exec(t, "burn_from", &[3, 1], 30, 0, &[3]); }          // expired
        s.exec(t, "transfer_from", &[3, 1, 0], 1, 0, &[3]);
    }
}

fn scenario_directed(t: &mut Trace) {
    // hand-written regression histories; run first on every invocation
    seq(t, "directed self-transfer, zero, overflow boundary, expiry min_temp=1 start=100");
    let mut s = Sim::new(1, 100);
    s.exec(t, "mint", &[0], 1000, 0, &[]);
    s.exec(t, "transfer", &[0, 0], 1000, 0, &[0]);
    s.exec(t, "transfer", &[0, 0], 1001, 0, &[0]);
    s.exec(t, "transfer", &[0, 1], 0, 0, &[0]);
    s.exec(t, "transfer", &[0, 1], 400, 0, &[1]);
    s.exec(t, "transfer", &[0, 1], 400, 0, &[0]);
    s.exec(t, "mint", &[2], i128::MAX - 1000, 0, &[]);
    s.exec(t, "mint", &[2], 1, 0, &[]);
    s.exec(t, "mint", &[3], i128::MAX, 0, &[]);
    s.exec(t, "burn", &[2], i128::MAX - 1000, 0, &[2]);
    s.exec(t, "approve", &[0, 4], 300, 110, &[0]);
    s.exec(t, "approve", &[0, 4], 300, 110, &[4]);
    s.exec(t, "transfer_from", &[4, 0, 3], 100, 0, &[4]);
    s.exec(t, "transfer_from", &[4, 0, 3], 100, 0, &[0]);
    s.exec(t, "transfer_from", &[4, 0, 3], 201, 0, &[4]);
    s.advance(t, 10);
    s.exec(t, "burn_from", &[4, 0], 50, 0, &[4]);
    s.advance(t, 1);
    s.exec(t, "burn_from", &[4, 0], 50, 0, &[4]);
    s.exec(t, "approve", &[0, 4], 5, 110, &[0]);
    s.exec(t, "approve", &[0, 4], 0, 110, &[0]);
    s.exec(t, "approve", &[0, 4], 5, 111 + MAX_TTL - 1, &[0]);
    s.exec(t, "approve", &[0, 4], 5, 111 + MAX_TTL - 2, &[0]);
    s.exec(t, "approve", &[0, 4], -1, 500, &[0]);
    // replaced by a shorter-lived approval: the storage entry outlives it
    seq(t, "directed allowance replaced by shorter-lived one min_temp=16 start=100");
    let mut s = Sim::new(16, 100);
    s.exec(t, "mint", &[0], 1000, 0, &[]);
    s.exec(t, "approve", &[0, 1], 500, 5000, &[0]);
    s.exec(t, "approve", &[0, 1], 400, 120, &[0]);
    s.advance(t, 20);
    s.exec(t, "transfer_from", &[1, 0, 2], 10, 0, &[1]);
    s.advance(t, 1);
    s.exec(t, "transfer_from", &[1, 0, 2], 10, 0, &[1]);
    s.exec(t, "transfer_from", &[1, 0, 2], 390, 0, &[1]); // exactly what the expired entry still holds
    s.exec(t, "burn_from", &[1, 0], 390, 0, &[1]);
    s.exec(t, "approve", &[0, 1], 7, 121, &[0]);
    s.exec(t, "transfer_from", &[1, 0, 2], 7, 0, &[1]);
    s.exec(t, "transfer_from", &[1, 0, 2], 1, 0, &[1]);
    // ledger 0: an allowance granted AT ledger 0 until ledger 0 is spendable at ledger 0 only; the storage
    // entry lives on for min_temp_entry_ttl ledgers
    for min_temp in [16u32, 1] {
        seq(t, &format!("directed allowance at ledger zero min_temp={} start=0", min_temp));
        let mut s = Sim::new(min_temp, 0);
        s.exec(t, "mint", &[0], 1000, 0, &[]);
        s.exec(t, "approve", &[0, 1], 300, 0, &[0]);
        s.exec(t, "transfer_from", &[1, 0, 2], 10, 0, &[1]);
        s.advance(t, 1);
        s.exec(t, "transfer_from", &[1, 0, 2], 10, 0, &[1]); // expired: live_until 0 < 1
        s.exec(t, "burn_from", &[1, 0], 10, 0, &[1]);
        s.advance(t, 10);
        s.exec(t, "transfer_from", &[1, 0, 2], 1, 0, &[1]);
        s.exec(t, "approve", &[0, 1], 5, 11, &[0]);
        s.exec(t, "transfer_from", &[1, 0, 2], 5, 0, &[1]);
        s.advance(t, 1);
        s.exec(t, "transfer_from", &[1, 0, 2], 1, 0, &[1]);
    }
    scenario_c02(t);
    scenario_special(t);
    scenario_long_idle(t);
}

/// Long idle periods with NO access in between (one-year max_entry_ttl for these sequences
/// only): holder balances are persistent and must not move across a gap; allowances are
/// temporary and must be usable up to and including their live_until_ledger (40 / 90 / 200
/// days ahead), worth zero after it, also when live_until falls inside a gap.
fn scenario_long_idle(t: &mut Trace) {
    const DAY: u32 = 17_280;
    const YEAR_TTL: u32 = 6_312_000;
    const START: u32 = 100;
    for flavor in [Flavor::Base, Flavor::Votes, Flavor::Capped] {
        seq(t, &format!("directed long idle min_temp=16 start={} max_ttl={} flavor={:?}", START, YEAR_TTL, flavor));
        let mut s = if flavor == Flavor::Base { Sim::new_ttl(16, START, YEAR_TTL) } else { Sim::new_flavor_ttl(t, flavor, 16, START, 0, YEAR_TTL) };
        let ma: Vec<usize> = s.mint_auth.into_iter().collect();
        s.exec(t, "mint", &[0], 1000, 0, &ma);
        s.exec(t, "mint", &[1], 50, 0, &ma);
        s.exec(t, "mint", &[SELF], 77, 0, &ma);
        s.exec(t, "mint", &[OTHER], 40, 0, &ma);
        s.exec(t, "transfer", &[0, 2], 300, 0, &[0]);
        s.exec(t, "approve", &[0, 3], 200, START + 40 * DAY, &[0]);
        s.exec(t, "approve", &[0, 4], 300, START + 90 * DAY, &[0]);
        s.exec(t, "approve", &[2, 3], 150, START + 200 * DAY, &[2]);
        s.exec(t, "approve", &[OTHER, 3], 40, START + 200 * DAY, &[OTHER]);
        s.exec(t, "approve", &[2, 1], 70, 150, &[2]); // expires inside the first gap
        s.exec(t, "approve", &[1, 4], 50, START + 20 * DAY, &[1]); // expires inside the 31-day gap
        s.exec(t, "approve", &[0, 1], 5, START + YEAR_TTL, &[0]); // one beyond the maximum: rejected
        s.exec(t, "approve", &[1, 0], 5, START + YEAR_TTL - 1, &[1]); // the maximum: accepted
        // 1 day idle
        s.advance(t, DAY);
        s.exec(t, "transfer_from", &[3, 0, 4], 20, 0, &[3]);
        s.exec(t, "transfer_from", &[1, 2, 4], 1, 0, &[1]);
        // 31 days idle
        s.advance(t, 31 * DAY);
        s.exec(t, "transfer_from", &[4, 1, 0], 10, 0, &[4]); // (1,4) expired on day 20
        s.exec(t, "transfer_from", &[3, 0, 4], 20, 0, &[3]); // 40-day allowance untouched for 31 days
        s.exec(t, "transfer_from", &[4, 0, 1], 100, 0, &[4]); // 90-day allowance never touched so far
        s.exec(t, "transfer", &[1, 4], 50, 0, &[1]); // a balance not accessed for 32 days
        s.exec(t, "transfer", &[SELF, 1], 1, 0, &[]); // contract-held tokens stay put
        // to exactly live_until of the 40-day allowance, then one past it
        s.advance(t, 8 * DAY);
        s.exec(t, "transfer_from", &[3, 0, 4], 20, 0, &[3]);
        s.advance(t, 1);
        s.exec(t, "transfer_from", &[3, 0, 4], 20, 0, &[3]);
        // 100 days idle: the 90-day allowance's live_until falls inside the gap
        s.advance(t, 100 * DAY);
        s.exec(t, "transfer_from", &[4, 0, 1], 100, 0, &[4]);
        s.exec(t, "transfer_from", &[3, 2, 4], 50, 0, &[3]); // 200-day allowance, first access on day 140
        s.exec(t, "transfer_from", &[3, OTHER, 4], 15, 0, &[3]);
        s.exec(t, "transfer", &[2, 0], 100, 0, &[2]);
        s.exec(t, "transfer", &[OTHER, 0], 5, 0, &[OTHER]);
        // to exactly live_until of the 200-day allowances, then one past it
        s.advance(t, 60 * DAY - 1);
        s.exec(t, "transfer_from", &[3, 2, 4], 60, 0, &[3]);
        s.exec(t, "transfer_from", &[3, OTHER, 4], 20, 0, &[3]);
        s.advance(t, 1);
        s.exec(t, "transfer_from", &[3, 2, 4], 40, 0, &[3]);
        s.exec(t, "transfer_from", &[3, OTHER, 4], 5, 0, &[3]);
        s.exec(t, "transfer_from", &[3, 2, 4], 0, 0, &[3]);
        // balances after 200 idle days are all still spendable by their holders
        s.exec(t, "transfer", &[0, 1], 1, 0, &[0]);
        s.exec(t, "transfer", &[4, 1], 1, 0, &[4]);
        s.exec(t, "mint", &[3], 5, 0, &ma);
        s.exec(t, "transfer", &[3, 1], 5, 0, &[3]);
        s.exec(t, "transfer", &[3, 1], 1, 0, &[3]);
    }
}

/// "special" principals: the token contract's own address as holder / owner / spender / to,
/// another registered contract as holder, owner == spender
fn scenario_special(t: &mut Trace) {
    for &min_temp in &[1u32, 16] {
        seq(t, &format!("directed tokens held at the token contract's own address min_temp={} start=100", min_temp));
        let mut s = Sim::new(min_temp, 100);
        s.exec(t, "mint", &[SELF], 1000, 0, &[]);
        s.exec(t, "mint", &[0], 1000, 0, &[]);
        s.exec(t, "transfer", &[0, SELF], 100, 0, &[0]); // sent to the contract by mistake
        let signer_sets: Vec<Vec<usize>> = vec![vec![], vec![0], vec![1], vec![0, 1], vec![OTHER], (0..NA).collect(), vec![0, 1, 2, 3, 4, OTHER]];
        for (kind, a, amt, lu) in [
            ("transfer", vec![SELF, 1], 10i128, 0u32),
            ("transfer", vec![SELF, SELF], 10, 0),
            ("transfer", vec![SELF, 1], 0, 0),
            ("burn", vec![SELF], 10, 0),
            ("approve", vec![SELF, 1], 500, 150),
            ("approve", vec![SELF, SELF], 500, 150),
            ("approve", vec![SELF, 1], 0, 150),
            ("transfer_from", vec![1, SELF, 2], 10, 0),
            ("burn_from", vec![1, SELF], 10, 0),
            ("transfer_from", vec![SELF, SELF, 2], 10, 0),
        ] {
            for sub in &signer_sets {
                s.exec(t, kind, &a, amt, lu, sub);
            }
        }
        // the contract's address as spender of somebody else's allowance: it cannot sign
        s.exec(t, "approve", &[0, SELF], 300, 150, &[0]);
        for sub in &signer_sets {
            s.exec(t, "transfer_from", &[SELF, 0, 2], 10, 0, sub);
            s.exec(t, "burn_from", &[SELF, 0], 10, 0, sub);
        }
        s.advance(t, 51);
        s.exec(t, "transfer", &[SELF, 1], 10, 0, &[]);
        s.exec(t, "transfer_from", &[SELF, 0, 2], 10, 0, &[0]);
        seq(t, &format!("directed another contract as holder, owner == spender min_temp={} start=100", min_temp));
        let mut s = Sim::new(min_temp, 100);
        s.exec(t, "mint", &[OTHER], 1000, 0, &[]);
        s.exec(t, "mint", &[2], 1000, 0, &[]);
        for sub in &signer_sets {
            s.exec(t, "transfer", &[OTHER, 1], 10, 0, sub);
            s.exec(t, "burn", &[OTHER], 10, 0, sub);
            s.exec(t, "approve", &[OTHER, 1], 100, 150, sub);
            s.exec(t, "approve", &[OTHER, OTHER], 100, 150, sub);
            s.exec(t, "transfer_from", &[1, OTHER, 2], 10, 0, sub);
            s.exec(t, "burn_from", &[OTHER, OTHER], 10, 0, sub);
            s.exec(t, "approve", &[2, 2], 100, 150, sub);
            s.exec(t, "transfer_from", &[2, 2, OTHER], 10, 0, sub);
            s.exec(t, "burn_from", &[2, 2], 10, 0, sub);
        }
        s.advance(t, 51);
        s.exec(t, "transfer_from", &[2, 2, OTHER], 10, 0, &[2]);
        s.exec(t, "transfer_from", &[1, OTHER, 2], 10, 0, &[1]);
    }
}

/// every subset of `universe` as a signer set
fn subsets(xs: &[usize]) -> Vec<Vec<usize>> {
    let mut d: Vec<usize> = xs.to_vec();
    d.sort();
    d.dedup();
    let mut out = vec![];
    for m in 0..(1u32 << d.len()) {
        let mut r = vec![];
        for (i, x) in d.iter().enumerate() {
            if m & (1 << i) != 0 {
                r.push(*x);
            }
        }
        out.push(r);
    }
    out
}

/// run `kind` under every signer subset of the involved addresses that does NOT contain
/// the required signer (plus "everybody else in the universe"): all must be rejected
fn probe_insufficient(s: &mut Sim, t: &mut Trace, kind: &str, a: &[usize], amount: i128, lu: u32) {
    if kind == "mint" {
        return;
    }
    let req = a[0];
    for sub in subsets(a) {
        if !sub.contains(&req) {
            s.exec(t, kind, a, amount, lu, &sub);
        }
    }
    let others: Vec<usize> = (0..N).filter(|x| *x != req).collect();
    s.exec(t, kind, a, amount, lu, &others);
}

fn scenario_c02(t: &mut Trace) {
    for &min_temp in &[1u32, 16] {
        // every entry point under every signer subset of the whole universe
        seq(t, &format!("directed every entry point x every signer subset min_temp={} start=100", min_temp));
        let mut s = Sim::new(min_temp, 100);
        s.exec(t, "mint", &[0], 1000, 0, &[]);
        s.exec(t, "mint", &[1], 1000, 0, &[]);
        s.exec(t, "approve", &[0, 1], 600, 150, &[0]);
        let all: Vec<usize> = (0..NA).collect();
        for (kind, a, amt, lu) in [
            ("transfer", vec![0usize, 2], 3i128, 0u32),
            ("burn", vec![0], 3, 0),
            ("transfer_from", vec![1, 0, 2], 3, 0),
            ("burn_from", vec![1, 0], 3, 0),
            ("approve", vec![0, 3], 3, 160),
        ] {
            for sub in subsets(&all) {
                s.exec(t, kind, &a, amt, lu, &sub);
            }
        }
        // expiry boundary of an allowance, with the storage entry dying at / after it
        seq(t, &format!("directed expiry boundary and storage ttl min_temp={} start=100", min_temp));
        let mut s = Sim::new(min_temp, 100);
        s.exec(t, "mint", &[0], 1000, 0, &[]);
        s.exec(t, "approve", &[0, 1], 100, 100, &[0]); // live_until == now
        s.exec(t, "transfer_from", &[1, 0, 2], 10, 0, &[1]);
        s.exec(t, "approve", &[0, 2], 50, 103, &[0]);
        s.exec(t, "approve", &[0, 3], 50, 99, &[0]); // already passed: rejected
        s.exec(t, "approve", &[0, 3], 0, 99, &[0]); // amount 0 may carry a passed ledger
        s.exec(t, "approve", &[0, 3], 0, 0, &[0]);
        s.advance(t, 1);
        s.exec(t, "transfer_from", &[1, 0, 2], 10, 0, &[1]); // (0,1) expired at 100
        s.exec(t, "transfer_from", &[1, 0, 2], 0, 0, &[1]);
        s.exec(t, "burn_from", &[2, 0], 10, 0, &[2]);
        s.advance(t, 2);
        s.exec(t, "burn_from", &[2, 0], 10, 0, &[2]); // now == 103 == live_until
        s.exec(t, "burn_from", &[2, 0], 31, 0, &[2]);
        s.exec(t, "burn_from", &[2, 0], 30, 0, &[2]); // down to 0 exactly
        s.exec(t, "burn_from", &[2, 0], 1, 0, &[2]);
        s.advance(t, 1);
        s.exec(t, "burn_from", &[2, 0], 0, 0, &[2]);
        s.exec(t, "approve", &[0, 2], 5, 104 + MAX_TTL - 1, &[0]);
        s.exec(t, "approve", &[0, 2], 5, 104 + MAX_TTL, &[0]);
        s.exec(t, "approve", &[0, 2], 0, 104 + MAX_TTL, &[0]);
        s.exec(t, "approve", &[0, 2], 0, u32::MAX, &[0]);
        s.exec(t, "approve", &[0, 2], i128::MAX, 104, &[0]);
        s.exec(t, "transfer_from", &[2, 0, 2], i128::MAX, 0, &[2]);
        s.exec(t, "transfer_from", &[2, 0, 2], 900, 0, &[2]);
        // long-lived approval replaced by a short one, by an expired-at-once zero, moved past
        // both the allowance expiry and the storage entry's lifetime, then approved afresh
        seq(t, &format!("directed replaced approvals and dead storage entries min_temp={} start=5000", min_temp));
        let mut s = Sim::new(min_temp, 5000);
        s.exec(t, "mint", &[3], 500, 0, &[]);
        s.exec(t, "approve", &[3, 4], 400, 5100, &[3]);
        s.exec(t, "approve", &[3, 4], 300, 5010, &[3]);
        s.exec(t, "transfer_from", &[4, 3, 0], 100, 0, &[4]);
        s.advance(t, 10);
        s.exec(t, "burn_from", &[4, 3], 50, 0, &[4]);
        s.advance(t, 1);
        s.exec(t, "burn_from", &[4, 3], 50, 0, &[4]); // expired, storage entry alive until 5100
        s.exec(t, "burn_from", &[4, 3], 150, 0, &[4]); // exactly the whole amount left in the dead entry (seed C02-r11-1)
        s.exec(t, "transfer_from", &[4, 3, 0], 150, 0, &[4]); // the twin path, same amount
        s.exec(t, "burn_from", &[4, 3], 50, 0, &[3]);
        s.exec(t, "approve", &[3, 4], 20, 5011, &[3]); // set on the live entry
        s.exec(t, "burn_from", &[4, 3], 20, 0, &[4]);
        s.exec(t, "burn_from", &[4, 3], 1, 0, &[4]);
        s.advance(t, 89);
        s.exec(t, "approve", &[3, 4], 7, 5100, &[3]); // at the entry's last live ledger
        s.advance(t, 1);
        s.exec(t, "transfer_from", &[4, 3, 1], 7, 0, &[4]); // past both
        s.advance(t, 40);
        s.exec(t, "approve", &[3, 4], 9, 5160, &[3]); // fresh entry
        s.advance(t, 19);
        s.exec(t, "transfer_from", &[4, 3, 1], 4, 0, &[4]);
        s.advance(t, 1);
        s.exec(t, "transfer_from", &[4, 3, 1], 4, 0, &[4]); // now == 5160
        s.advance(t, 1);
        s.exec(t, "transfer_from", &[4, 3, 1], 1, 0, &[4]);
        // owner == spender, from == to, spender == to
        s.exec(t, "approve", &[3, 3], 50, 5200, &[3]);
        s.exec(t, "transfer_from", &[3, 3, 3], 50, 0, &[3]);
        s.exec(t, "approve", &[3, 3], 50, 5200, &[3]);
        s.exec(t, "transfer_from", &[3, 3, 1], 20, 0, &[3]);
        s.exec(t, "burn_from", &[3, 3], 31, 0, &[3]);
        s.exec(t, "burn_from", &[3, 3], 30, 0, &[3]);
    }
}

fn main() {
    let mut t = Trace::from_args();
    let seed = seed_from_env();
    let thorough = arg_str("--tier").as_deref() == Some("thorough");
    let nseq = arg_u64("--seqs", if thorough { 900 } else { 130 });
    let len = arg_u64("--len", 40);
    let mut rng = Rng::new(seed);
    // `--no-directed`: generated sequences only (used to test the generator against mutants)
    if !std::env::args().any(|a| a == "--no-directed") {
        scenario_directed(&mut t);
        scenario_lib_flavors(&mut t);
    }
    for k in 0..nseq {
        let min_temp = if rng.chance(50) { 1 } else { 16 };
        let start = *rng.pick(&[2u32, 100, 5000]);
        // every third sequence runs one of the real example contracts (compiled from the
        // tree with the tree's macros) with its gates open: it must obey C02 exactly like Base
        let flavor = if k % 3 == 2 {
            *rng.pick(&[Flavor::AllowList, Flavor::BlockList, Flavor::Pausable, Flavor::Votes, Flavor::Capped,
                        Flavor::VotesLib, Flavor::AllowLib, Flavor::BlockLib, Flavor::RwaLib])
        } else {
            Flavor::Base
        };
        seq(&mut t, &format!("rand k={} seed={} min_temp={} start={} flavor={:?}", k, seed, min_temp, start, flavor));
        let mut s = if flavor == Flavor::Base {
            Sim::new(min_temp, start)
        } else {
            let initial = *rng.pick(&[0i128, 1000, 1_000_000_000_000]);
            Sim::new_flavor(&mut t, flavor, min_temp, start, initial)
        };
        // ledgers worth visiting: expiry boundaries of approvals made so far and the ledgers
        // at which their storage entries die
        let mut marks: Vec<u32> = vec![];
        // pairs approved so far (re-approved / spent with preference)
        let mut pairs: Vec<(usize, usize)> = vec![];
        // a funded start so that allowances can actually be spent
        if s.supports("mint") {
            for i in 0..N {
                if rng.chance(70) {
                    let amt = *rng.pick(&[1i128, 50, 1000, 1_000_000]);
                    let auth: Vec<usize> = s.mint_auth.into_iter().collect();
                    s.exec(&mut t, "mint", &[i], amt, 0, &auth);
                }
            }
        } else {
            // the constructor minted everything to account 0: spread it
            for i in 1..N {
                if rng.chance(70) {
                    let amt = s.bal(0) / 7;
                    s.exec(&mut t, "transfer", &[0, i], amt, 0, &[0]);
                }
            }
        }
        for _ in 0..len {
            let r = rng.below(100);
            if r < 16 {
                // move the ledger: to just before / at / after a remembered ledger
                let n = if !marks.is_empty() && rng.chance(70) {
                    let m = *rng.pick(&marks);
                    let target = (m as i64 + rng.range(-1, 1)).max(s.now as i64) as u32;
                    target - s.now
                } else {
                    *rng.pick(&[0u32, 1, 2, 14, 15, 16, 17, 100, 301, 5000])
                };
                if s.now as u64 + (n as u64) < 90_000 {
                    s.advance(&mut t, n);
                }
                continue;
            }
            if r < 19 && !matches!(s.flavor, Flavor::Base) {
                let i = rng.below(N as u64) as usize;
                s.gate_probe(&mut t, i);
                continue;
            }
            let kind = if r < 22 {
                "mint"
            } else if r < 34 {
                "transfer"
            } else if r < 58 {
                "transfer_from"
            } else if r < 80 {
                "approve"
            } else if r < 87 {
                "burn"
            } else {
                "burn_from"
            };
            if !s.supports(kind) {
                continue;
            }
            let p = |rng: &mut Rng| rng.below(N as u64) as usize;
            let (a, amount, lu): (Vec<usize>, i128, u32) = match kind {
                "mint" => (vec![p(&mut rng)], pick_amount(&mut rng, &s, None, None), 0),
                "transfer" => {
                    let f = p(&mut rng);
                    let to = if rng.chance(12) { f } else { p(&mut rng) };
                    (vec![f, to], pick_amount(&mut rng, &s, Some(f), None), 0)
                }
                "transfer_from" => {
                    let (f, sp) = if !pairs.is_empty() && rng.chance(75) { *rng.pick(&pairs) } else { (p(&mut rng), p(&mut rng)) };
                    let sp = if rng.chance(8) { f } else { sp };
                    let to = if rng.chance(10) { f } else { p(&mut rng) };
                    (vec![sp, f, to], pick_spend(&mut rng, &s, f, sp), 0)
                }
                "approve" => {
                    let (o, sp) = if !pairs.is_empty() && rng.chance(45) { *rng.pick(&pairs) } else { (p(&mut rng), p(&mut rng)) };
                    let sp = if rng.chance(8) { o } else { sp };
                    let maxl = s.now + MAX_TTL - 1;
                    let lu = match rng.below(16) {
                        0 => 0,
                        1 => s.now.saturating_sub(1),
                        2 => s.now,
                        3 => s.now + 1,
                        4 => maxl,
                        5 => maxl + 1,
                        6 => u32::MAX,
                        7 => s.now + 14,
                        8 => s.now + 15,
                        9 => s.now + 16,
                        10 => s.now + 2,
                        11 => s.now + 3,
                        _ => s.now + rng.below(300) as u32,
                    };
                    if lu >= s.now && lu < 80_000 {
                        marks.push(lu);
                        // a fresh storage entry would die here
                        marks.push(s.now + min_temp - 1);
                        marks.push(lu + min_temp);
                    }
                    if !pairs.contains(&(o, sp)) {
                        pairs.push((o, sp));
                    }
                    let amt = pick_approve(&mut rng, &s, o, sp);
                    (vec![o, sp], amt, lu)
                }
                "burn" => {
                    let f = p(&mut rng);
                    (vec![f], pick_amount(&mut rng, &s, Some(f), None), 0)
                }
                _ => {
                    let (f, sp) = if !pairs.is_empty() && rng.chance(75) { *rng.pick(&pairs) } else { (p(&mut rng), p(&mut rng)) };
                    let sp = if rng.chance(8) { f } else { sp };
                    (vec![sp, f], pick_spend(&mut rng, &s, f, sp), 0)
                }
            };
            if kind != "mint" && rng.chance(22) {
                t.count("probe:insufficient-subsets");
                probe_insufficient(&mut s, &mut t, kind, &a, amount, lu);
            }
            let spend = kind == "transfer_from" || kind == "burn_from";
            let auth = gen_auth(&mut rng, kind, &a, !spend, s.mint_auth);
            s.exec(&mut t, kind, &a, amount, lu, &auth);
        }
    }
    t.finish();
}
