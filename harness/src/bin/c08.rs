//! C08 correspondence: the library's timelock storage functions
//! (packages/governance/src/timelock/storage.rs) behind a pass-through contract, plus two
//! counting target contracts, driven through real invocations in the native Soroban host.
//!
//! Operation ids on the wire are symbolic: `o<k>` = `hash_operation` of the k-th defined
//! operation tuple, `z` = 32 zero bytes, `r<n>` = the 32-byte big-endian literal n. The real
//! 32-byte hashes stay inside this binary; a `def` line reports which earlier definitions
//! produced the same real hash (id-equality <=> tuple-equality is checked by the monitor).
use ozharness::*;
use soroban_sdk::{Address, BytesN, Env, IntoVal, Symbol, Val, Vec as SVec};

mod contracts {
    use soroban_sdk::{contract, contractimpl, contracttype, Address, BytesN, Env, Symbol, Val, Vec};
    use stellar_governance::timelock as tl;

    #[contract]
    pub struct TL;

    #[contractimpl]
    impl TL {
        pub fn set_min_delay(e: &Env, d: u32) {
            tl::set_min_delay(e, d)
        }
        pub fn get_min_delay(e: &Env) -> u32 {
            tl::get_min_delay(e)
        }
        pub fn schedule(e: &Env, target: Address, function: Symbol, args: Vec<Val>, predecessor: BytesN<32>, salt: BytesN<32>, delay: u32) -> BytesN<32> {
            tl::schedule_operation(e, &tl::Operation { target, function, args, predecessor, salt }, delay)
        }
        pub fn execute(e: &Env, target: Address, function: Symbol, args: Vec<Val>, predecessor: BytesN<32>, salt: BytesN<32>) -> Val {
            tl::execute_operation(e, &tl::Operation { target, function, args, predecessor, salt })
        }
        pub fn set_execute(e: &Env, target: Address, function: Symbol, args: Vec<Val>, predecessor: BytesN<32>, salt: BytesN<32>) {
            tl::set_execute_operation(e, &tl::Operation { target, function, args, predecessor, salt })
        }
        pub fn cancel(e: &Env, id: BytesN<32>) {
            tl::cancel_operation(e, &id)
        }
        pub fn hash(e: &Env, target: Address, function: Symbol, args: Vec<Val>, predecessor: BytesN<32>, salt: BytesN<32>) -> BytesN<32> {
            tl::hash_operation(e, &tl::Operation { target, function, args, predecessor, salt })
        }
        /// every getter of the subsystem for every id of the universe
        pub fn probe(e: &Env, ids: Vec<BytesN<32>>) -> Vec<(u32, u32, bool, bool, bool, bool)> {
            let mut out = Vec::new(e);
            for id in ids.iter() {
                out.push_back((
                    tl::get_operation_state(e, &id) as u32,
                    tl::get_operation_ledger(e, &id),
                    tl::operation_exists(e, &id),
                    tl::is_operation_pending(e, &id),
                    tl::is_operation_ready(e, &id),
                    tl::is_operation_done(e, &id),
                ));
            }
            out
        }
    }

    #[contracttype]
    pub enum TK {
        Count,
        Last,
    }

    /// counting target: remembers how often it was invoked and the last (function, argument)
    #[contract]
    pub struct Target;

    #[contractimpl]
    impl Target {
        pub fn bump(e: &Env, x: u32) -> u32 {
            Self::rec(e, 0, x)
        }
        pub fn poke(e: &Env, x: u32) -> u32 {
            Self::rec(e, 1, x)
        }
        pub fn fail(e: &Env, x: u32) -> u32 {
            Self::rec(e, 2, x);
            panic!("target refuses")
        }
        fn rec(e: &Env, f: u32, x: u32) -> u32 {
            let c: u32 = e.storage().instance().get(&TK::Count).unwrap_or(0) + 1;
            e.storage().instance().set(&TK::Count, &c);
            e.storage().instance().set(&TK::Last, &(f, x));
            c
        }
        pub fn calls(e: &Env) -> (u32, Option<(u32, u32)>) {
            (e.storage().instance().get(&TK::Count).unwrap_or(0), e.storage().instance().get(&TK::Last))
        }
    }

}
use contracts::{Target, TL};

/// max_entry_ttl of the host (about one year of ledgers): persistent / instance entries of the
/// unmodified code stay live across the long idle gaps (min_persistent_entry_ttl = this - 1).
const MAX_TTL: u32 = 6_312_000;
/// near the end of the u32 range `sequence + ttl` must not overflow: a short horizon there
const SHORT_TTL: u32 = 200_000;
const DAY: u32 = 17_280;
/// TIMELOCK_EXTEND_AMOUNT: beyond u32::MAX - this the host refuses `extend_ttl` (u32 overflow of
/// `sequence + extend_to`), i.e. every read of an existing operation entry fails.
const EXTEND: u32 = 518_400;
const HORIZON: u32 = u32::MAX - EXTEND;
const FNS: [&str; 3] = ["bump", "poke", "fail"];

#[derive(Clone, PartialEq, Debug)]
enum IdRef {
    Zero,
    Raw(u32),
    Op(usize),
}

impl IdRef {
    fn show(&self) -> String {
        match self {
            IdRef::Zero => "z".into(),
            IdRef::Raw(n) => format!("r{}", n),
            IdRef::Op(k) => format!("o{}", k),
        }
    }
}

#[derive(Clone, PartialEq, Debug)]
struct OpDef {
    t: usize,
    f: usize,
    a: Vec<u32>,
    p: IdRef,
    s: u32,
}

struct Sim {
    e: Env,
    tlc: Address,
    targets: Vec<Address>, // 0,1 = Target contracts, 2 = a plain account (not callable)
    defs: Vec<OpDef>,
    hashes: Vec<BytesN<32>>,
    now: u32,
    ttl: u32,
}

fn lit(e: &Env, n: u32) -> BytesN<32> {
    let mut b = [0u8; 32];
    b[28..32].copy_from_slice(&n.to_be_bytes());
    BytesN::from_array(e, &b)
}

impl Sim {
    fn new(start: u32) -> Sim {
        let ttl = if start > u32::MAX / 2 { SHORT_TTL } else { MAX_TTL };
        let e = new_env(start, 16, ttl);
        let tlc = e.register(TL, ());
        let t0 = e.register(Target, ());
        let t1 = e.register(Target, ());
        let u = Universe::new(&e, 1);
        Sim { e, tlc, targets: vec![t0, t1, u.a(0).clone()], defs: vec![], hashes: vec![], now: start, ttl }
    }
    fn id(&self, r: &IdRef) -> BytesN<32> {
        match r {
            IdRef::Zero => lit(&self.e, 0),
            IdRef::Raw(n) => lit(&self.e, *n),
            IdRef::Op(k) => self.hashes[*k].clone(),
        }
    }
    fn op_args(&self, d: &OpDef) -> [Val; 5] {
        let e = &self.e;
        let mut a: SVec<Val> = SVec::new(e);
        for x in d.a.iter() {
            a.push_back((*x).into_val(e));
        }
        [
            self.targets[d.t].clone().into_val(e),
            Symbol::new(e, FNS[d.f]).into_val(e),
            a.into_val(e),
            self.id(&d.p).into_val(e),
            lit(e, d.s).into_val(e),
        ]
    }
    fn universe(&self) -> Vec<IdRef> {
        let mut v: Vec<IdRef> = (0..self.defs.len()).map(IdRef::Op).collect();
        v.push(IdRef::Zero);
        v.push(IdRef::Raw(1));
        v
    }
    fn state(&self) -> String {
        let e = &self.e;
        let min: Option<u32> = query(e, &self.tlc, "get_min_delay", args(e, []));
        let mut ids: SVec<BytesN<32>> = SVec::new(e);
        for r in self.universe() {
            ids.push_back(self.id(&r));
        }
        let pr: SVec<(u32, u32, bool, bool, bool, bool)> = query(e, &self.tlc, "probe", args(e, [ids.into_val(e)])).expect("probe");
        let st: Vec<String> = pr
            .iter()
            .map(|(s, l, ex, pe, re, dn)| {
                let c = ["U", "W", "R", "D"].get(s as usize).copied().unwrap_or("?");
                format!("{}:{}:{}{}{}{}", c, l, ex as u8, pe as u8, re as u8, dn as u8)
            })
            .collect();
        let mut calls = vec![];
        for t in 0..2 {
            let (c, last): (u32, Option<(u32, u32)>) = query(e, &self.targets[t], "calls", args(e, [])).expect("calls");
            calls.push(match last {
                Some((f, x)) => format!("{}:{}:{}", c, f, x),
                None => format!("{}:-:-", c),
            });
        }
        format!("now={} min={} st={} calls={}", self.now, min.map(|m| m.to_string()).unwrap_or("-".into()), st.join(","), calls.join(","))
    }
    fn obs(&self, t: &mut Trace, ok: bool, extra: &str) {
        let st = self.state();
        t.obs(&format!("{}{} {}", if ok { "ok" } else { "err" }, extra, st));
    }
    fn def(&mut self, t: &mut Trace, d: OpDef) -> usize {
        let k = self.defs.len();
        let a5 = self.op_args(&d);
        let h: BytesN<32> = query(&self.e, &self.tlc, "hash", args(&self.e, a5)).expect("hash");
        let eq: Vec<usize> = (0..k).filter(|&j| self.hashes[j] == h).collect();
        t.op(&format!("tl def k={} t={} f={} a={} p={} s={}", k, d.t, d.f, join(&d.a).replace(',', "."), d.p.show(), d.s));
        self.defs.push(d);
        self.hashes.push(h);
        self.obs(t, true, &format!(" eq={}", join(&eq)));
        k
    }
    fn min(&mut self, t: &mut Trace, d: u32) {
        t.op(&format!("tl min d={}", d));
        let r = call(&self.e, &self.tlc, "set_min_delay", args(&self.e, [v(&self.e, d)]), &[]);
        self.obs(t, r.is_some(), "");
    }
    fn sched(&mut self, t: &mut Trace, k: usize, d: u32) -> bool {
        t.op(&format!("tl sched k={} d={}", k, d));
        let a5 = self.op_args(&self.defs[k]);
        let e = &self.e;
        let r = call(e, &self.tlc, "schedule", args(e, [a5[0], a5[1], a5[2], a5[3], a5[4], v(e, d)]), &[]);
        if let Some(val) = &r {
            // the returned id is the id of the tuple
            let got: BytesN<32> = val.into_val(e);
            assert!(got == self.hashes[k], "schedule returned a foreign id");
        }
        self.obs(t, r.is_some(), "");
        r.is_some()
    }
    fn callok(&self, k: usize) -> bool {
        let d = &self.defs[k];
        d.t < 2 && d.f < 2 && d.a.len() == 1
    }
    fn exec(&mut self, t: &mut Trace, k: usize, with_call: bool) -> bool {
        if with_call {
            t.op(&format!("tl exec k={} callok={}", k, self.callok(k) as u8));
        } else {
            t.op(&format!("tl setexec k={}", k));
        }
        let a5 = self.op_args(&self.defs[k]);
        let r = call(&self.e, &self.tlc, if with_call { "execute" } else { "set_execute" }, args(&self.e, a5), &[]);
        self.obs(t, r.is_some(), "");
        r.is_some()
    }
    fn cancel(&mut self, t: &mut Trace, r: &IdRef) -> bool {
        t.op(&format!("tl cancel i={}", r.show()));
        let res = call(&self.e, &self.tlc, "cancel", args(&self.e, [self.id(r).into_val(&self.e)]), &[]);
        self.obs(t, res.is_some(), "");
        res.is_some()
    }
    fn advance(&mut self, t: &mut Trace, n: u32) {
        t.op(&format!("tl advance n={}", n));
        if (self.now as u64) + (n as u64) > HORIZON as u64 {
            // outside the validated regime (see HORIZON): refuse, like the model's u32 guard
            self.obs(t, false, "");
            return;
        }
        self.now += n;
        set_ledger(&self.e, self.now, 16, self.ttl);
        self.obs(t, true, "");
    }
    /// ledger value of operation k as stored (0 unset, 1 done, else ready ledger)
    fn ledger_of(&self, k: usize) -> u32 {
        let e = &self.e;
        let mut ids: SVec<BytesN<32>> = SVec::new(e);
        ids.push_back(self.hashes[k].clone());
        let pr: SVec<(u32, u32, bool, bool, bool, bool)> = query(e, &self.tlc, "probe", args(e, [ids.into_val(e)])).expect("probe");
        pr.get(0).unwrap().1
    }
    fn min_delay(&self) -> Option<u32> {
        query(&self.e, &self.tlc, "get_min_delay", args(&self.e, []))
    }
}

fn od(t: usize, f: usize, a: &[u32], p: IdRef, s: u32) -> OpDef {
    OpDef { t, f, a: a.to_vec(), p, s }
}

fn directed(t: &mut Trace) {
    use IdRef::*;
    t.seq("directed delay boundary, done is final start=100");
    let mut s = Sim::new(100);
    let a = s.def(t, od(0, 0, &[7], Zero, 0));
    let b = s.def(t, od(0, 0, &[7], Zero, 1)); // other salt
    let c = s.def(t, od(0, 0, &[7], Zero, 0)); // same tuple as a
    s.sched(t, a, 0); // min delay not set
    s.min(t, 10);
    s.sched(t, a, 9);
    s.sched(t, a, 10);
    s.sched(t, a, 10); // already scheduled
    s.sched(t, c, 50); // same id
    s.sched(t, b, 11);
    s.exec(t, a, true); // waiting
    s.advance(t, 9);
    s.exec(t, a, true); // ready-1
    s.exec(t, a, false);
    s.advance(t, 1);
    s.exec(t, b, true); // b ready-1
    s.exec(t, a, true); // ready
    s.exec(t, a, true); // done: never again
    s.exec(t, c, false);
    s.cancel(t, &Op(a));
    s.sched(t, a, 10);
    s.sched(t, c, 1000);
    s.advance(t, 1);
    s.exec(t, b, false); // marks done without calling the target
    s.exec(t, b, true);
    s.cancel(t, &Op(b));
    s.cancel(t, &Zero);
    s.cancel(t, &Raw(1));

    t.seq("directed predecessors: unscheduled, cancelled, twin, done start=2");
    let mut s = Sim::new(2);
    let p = s.def(t, od(1, 1, &[3], Zero, 0));
    let q = s.def(t, od(1, 1, &[4], Op(p), 0)); // needs p
    let u = s.def(t, od(1, 1, &[5], Raw(1), 0)); // predecessor never schedulable
    let w = s.def(t, od(1, 1, &[3], Op(p), 0)); // twin of p whose predecessor is p itself ("self"-like)
    let x = s.def(t, od(1, 1, &[6], Op(q), 0)); // chain p <- q <- x
    s.min(t, 0);
    s.sched(t, q, 0);
    s.sched(t, u, 0);
    s.sched(t, w, 0);
    s.sched(t, x, 3);
    s.exec(t, q, true); // p unscheduled
    s.exec(t, u, true);
    s.exec(t, w, true);
    s.sched(t, p, 5);
    s.exec(t, q, true); // p waiting
    s.cancel(t, &Op(p));
    s.exec(t, q, true); // p cancelled
    s.sched(t, p, 0);
    s.exec(t, q, true); // p ready, not done
    s.exec(t, p, true);
    s.exec(t, x, true); // q not done, x waiting
    s.exec(t, q, true);
    s.exec(t, w, false);
    s.advance(t, 2);
    s.exec(t, x, true); // ready-1
    s.advance(t, 1);
    s.exec(t, x, true);
    s.exec(t, u, true); // still blocked for ever

    t.seq("directed cancel and reschedule, min delay changes, failing target start=5000");
    let mut s = Sim::new(5000);
    let a = s.def(t, od(0, 1, &[1], Zero, 9));
    let f = s.def(t, od(0, 2, &[1], Zero, 9)); // target function panics
    let g = s.def(t, od(0, 0, &[1, 2], Zero, 9)); // wrong arity
    let h = s.def(t, od(2, 0, &[1], Zero, 9)); // target is not a contract
    s.min(t, 10);
    s.sched(t, a, 10);
    s.min(t, 100);
    s.sched(t, f, 99);
    s.sched(t, f, 100);
    s.min(t, 0);
    s.sched(t, g, 0);
    s.sched(t, h, 1);
    s.cancel(t, &Op(g)); // cancel while ready
    s.exec(t, g, true);
    s.sched(t, g, 0);
    s.advance(t, 10);
    s.cancel(t, &Op(a)); // ready, cancelled
    s.exec(t, a, true);
    s.sched(t, a, 4);
    s.advance(t, 4);
    s.exec(t, a, true);
    s.exec(t, g, true); // arity mismatch: whole call fails, g stays ready
    s.exec(t, h, true);
    s.exec(t, g, false);
    s.advance(t, 86);
    s.exec(t, f, true); // target panics: rolled back, f stays ready
    s.exec(t, f, false);
    s.exec(t, f, true);

    long_idle_directed(t);

    t.seq(&format!("directed saturating ready ledger start={}", HORIZON - 100));
    let mut s = Sim::new(HORIZON - 100);
    let a = s.def(t, od(0, 0, &[1], Zero, 0));
    let b = s.def(t, od(0, 0, &[2], Zero, 0));
    let c = s.def(t, od(0, 0, &[3], Zero, 0));
    let d = s.def(t, od(0, 0, &[4], Zero, 0));
    s.min(t, 100);
    s.sched(t, a, u32::MAX); // saturates
    s.sched(t, b, EXTEND + 100); // exactly u32::MAX, no saturation
    s.sched(t, c, EXTEND + 101); // saturates by one
    s.sched(t, d, 100);
    s.advance(t, 99);
    s.exec(t, d, true);
    s.advance(t, 1);
    s.exec(t, a, true);
    s.exec(t, d, true);
    s.advance(t, 1); // beyond the horizon: refused by the harness
    s.cancel(t, &Op(a));
    s.min(t, u32::MAX);
    s.sched(t, a, u32::MAX - 1);
    s.sched(t, a, u32::MAX);
}

/// Long idle gaps: nothing is touched (no getter, no call) while the ledger moves by 1, 31 and 100
/// days; whatever was stored must still be there (Done for ever, Waiting until its delay has
/// elapsed and then Ready and executable exactly once, the minimum delay unchanged).
fn long_idle_directed(t: &mut Trace) {
    use IdRef::*;
    t.seq("directed long idle gaps of 1, 31 and 100 days start=1000");
    let mut s = Sim::new(1000);
    let a = s.def(t, od(0, 0, &[1], Zero, 0)); // executed before the gaps
    let b = s.def(t, od(0, 0, &[2], Zero, 0)); // cancelled before the gaps
    let c = s.def(t, od(0, 1, &[3], Zero, 0)); // 40 days of delay: Waiting across the first gaps
    let d = s.def(t, od(1, 0, &[4], Zero, 0)); // Ready, left alone
    let f = s.def(t, od(1, 1, &[5], Op(a), 0)); // needs a (Done)
    let g = s.def(t, od(1, 1, &[6], Zero, 0)); // marked done without a target call
    let u = s.def(t, od(1, 1, &[7], Zero, 0)); // never scheduled
    s.min(t, 10);
    for k in [a, b, d, f, g] {
        s.sched(t, k, 10);
    }
    s.sched(t, c, 40 * DAY);
    s.advance(t, 10);
    s.exec(t, a, true);
    s.exec(t, g, false);
    s.cancel(t, &Op(b));
    for gap in [DAY, 31 * DAY, 100 * DAY] {
        s.advance(t, gap); // nothing touched in between
        // Done is for ever
        s.exec(t, a, true);
        s.exec(t, g, false);
        s.cancel(t, &Op(a));
        s.sched(t, a, 10);
        s.sched(t, g, 40 * DAY);
        // Waiting until the 40 days are over, then executable exactly once
        s.exec(t, c, true);
        s.exec(t, c, true);
        s.exec(t, u, true);
    }
    s.exec(t, d, true); // Ready since 132 days
    s.exec(t, d, true);
    s.exec(t, f, true); // its predecessor was executed 132 days ago
    s.sched(t, b, 9); // the minimum delay is still 10
    s.sched(t, b, 10); // a cancelled operation may come back
    s.sched(t, u, 40 * DAY);
    s.advance(t, 40 * DAY - 1);
    s.exec(t, u, true);
    s.advance(t, 1);
    s.exec(t, u, true);
    s.cancel(t, &Op(u));
}

/// not part of the trace: beyond HORIZON the host refuses `extend_ttl` (u32 overflow), so every
/// call that reads an existing operation entry fails. Checked here so that the claim in the
/// notes stays true.
fn beyond_horizon_selfcheck(t: &mut Trace) {
    let mut quiet = Trace::to_path("/dev/null");
    let mut s = Sim::new(HORIZON - 1);
    let a = s.def(&mut quiet, od(0, 0, &[1], IdRef::Zero, 0));
    s.min(&mut quiet, 0);
    if !s.sched(&mut quiet, a, 0) {
        // the set-up itself does not work on this tree: nothing to learn here, the traced sequences decide
        t.count("selfcheck:beyond_horizon_setup_failed");
        return;
    }
    s.now += 2;
    set_ledger(&s.e, s.now, 16, s.ttl);
    let a5 = s.op_args(&s.defs[a]);
    let r = call(&s.e, &s.tlc, "execute", args(&s.e, a5), &[]);
    let c = call(&s.e, &s.tlc, "cancel", args(&s.e, [s.hashes[a].clone().into_val(&s.e)]), &[]);
    t.count(if r.is_none() && c.is_none() { "selfcheck:beyond_horizon_rejects" } else { "selfcheck:beyond_horizon_ACCEPTS" });
}

fn pick_delay(rng: &mut Rng, s: &Sim) -> u32 {
    let m = s.min_delay().unwrap_or(0);
    match rng.below(14) {
        0 => 0,
        1 => m.saturating_sub(1),
        2 | 3 | 4 | 5 => m,
        6 => m.saturating_add(1),
        7 => u32::MAX,
        8 => u32::MAX - s.now,
        9 => (u32::MAX - s.now).saturating_add(1),
        10 => (u32::MAX - s.now).saturating_sub(1),
        11 => m.saturating_add(rng.below(5) as u32),
        _ => rng.below(12) as u32,
    }
}

fn gen_defs(rng: &mut Rng, s: &mut Sim, t: &mut Trace) {
    use IdRef::*;
    let n = 5 + rng.below(3) as usize;
    let base = od(rng.below(2) as usize, rng.below(2) as usize, &[rng.below(4) as u32], Zero, rng.below(3) as u32);
    s.def(t, base.clone());
    while s.defs.len() < n {
        let k = s.defs.len();
        let j = rng.below(k as u64) as usize;
        let prev = s.defs[j].clone();
        let d = match rng.below(12) {
            // one field varied alone
            0 => OpDef { t: (prev.t + 1) % 3, ..prev },
            1 => OpDef { f: (prev.f + 1) % 3, ..prev },
            2 => {
                let mut a = prev.a.clone();
                if a.is_empty() || rng.chance(30) {
                    a.push(rng.below(4) as u32)
                } else if rng.chance(30) {
                    a.pop();
                } else {
                    a[0] += 1
                }
                OpDef { a, ..prev }
            }
            3 => OpDef { s: prev.s + 1, ..prev },
            4 => OpDef { p: if prev.p == Zero { Raw(1) } else { Zero }, ..prev },
            // exact duplicate
            5 => prev,
            // predecessor links: to an earlier op, to its own twin, to a chain
            6 | 7 | 8 => OpDef { p: Op(j), ..prev },
            9 => od(rng.below(2) as usize, rng.below(2) as usize, &[rng.below(4) as u32], Op(j), rng.below(3) as u32),
            10 => od(rng.below(3) as usize, rng.below(3) as usize, &[rng.below(4) as u32], Raw(1), 0),
            _ => od(rng.below(2) as usize, rng.below(2) as usize, &[rng.below(4) as u32], Zero, rng.below(3) as u32),
        };
        s.def(t, d);
    }
}

fn main() {
    let mut t = Trace::from_args();
    let seed = seed_from_env();
    let thorough = arg_str("--tier").as_deref() == Some("thorough");
    let nseq = arg_u64("--seqs", if thorough { 700 } else { 200 });
    let len = arg_u64("--len", 50);
    let mut rng = Rng::new(seed);
    directed(&mut t);
    beyond_horizon_selfcheck(&mut t);
    for kseq in 0..nseq {
        // one sequence in eight is a "long idle" one: delays of days, gaps of 1 / 31 / 100 days
        let long = kseq % 8 == 5;
        let start = if long { *rng.pick(&[2u32, 1000]) } else { *rng.pick(&[2u32, 2, 3, 100, 5000, HORIZON - 300, HORIZON - 40]) };
        let mut s = Sim::new(start);
        t.seq(&format!("rand{} k={} seed={} start={}", if long { " long idle" } else { "" }, kseq, seed, start));
        gen_defs(&mut rng, &mut s, &mut t);
        if rng.chance(90) {
            let m = *rng.pick(&[0u32, 0, 1, 2, 5, 10, 1000]);
            s.min(&mut t, m);
        }
        let n = s.defs.len();
        let mut moved: u64 = 0;
        for _ in 0..len {
            let mut r = rng.below(100);
            let k = rng.below(n as u64) as usize;
            if (30..55).contains(&r) && !(0..n).any(|j| { let l = s.ledger_of(j); l >= 2 && l <= s.now }) && rng.chance(75) {
                // nothing is ready: rather schedule something or let time pass
                r = if rng.chance(40) { 0 } else { 99 };
            }
            if r < 30 {
                // schedule: mostly something unset
                let unset: Vec<usize> = (0..n).filter(|&j| s.ledger_of(j) == 0).collect();
                let k = if !unset.is_empty() && rng.chance(75) { *rng.pick(&unset) } else { k };
                let d = if long && rng.chance(35) { *rng.pick(&[DAY, 30 * DAY, 40 * DAY, 90 * DAY]) } else { pick_delay(&mut rng, &s) };
                s.sched(&mut t, k, d);
            } else if r < 55 {
                // execute: mostly something executable (ready, predecessor zero or done), sometimes
                // something ready but blocked by its predecessor, sometimes anything
                let ready: Vec<usize> = (0..n).filter(|&j| { let l = s.ledger_of(j); l >= 2 && l <= s.now }).collect();
                let free: Vec<usize> = ready.iter().copied().filter(|&j| match &s.defs[j].p {
                    IdRef::Zero => true,
                    IdRef::Raw(_) => false,
                    IdRef::Op(p) => s.ledger_of(*p) == 1,
                }).collect();
                let k = if !free.is_empty() && rng.chance(65) {
                    *rng.pick(&free)
                } else if !ready.is_empty() && rng.chance(60) {
                    *rng.pick(&ready)
                } else {
                    k
                };
                let with_call = if s.callok(k) { rng.chance(75) } else { rng.chance(35) };
                s.exec(&mut t, k, with_call);
            } else if r < 67 {
                let pending: Vec<usize> = (0..n).filter(|&j| s.ledger_of(j) >= 2).collect();
                let target = if !pending.is_empty() && rng.chance(70) {
                    IdRef::Op(*rng.pick(&pending))
                } else {
                    match rng.below(6) {
                        0 => IdRef::Zero,
                        1 => IdRef::Raw(1),
                        _ => IdRef::Op(k),
                    }
                };
                s.cancel(&mut t, &target);
            } else if r < 74 {
                let m = match rng.below(8) {
                    0 => u32::MAX,
                    1 => 0,
                    2 => s.min_delay().unwrap_or(0).saturating_add(1),
                    3 => s.min_delay().unwrap_or(1).saturating_sub(1),
                    _ => rng.below(12) as u32,
                };
                s.min(&mut t, m);
            } else {
                // move the ledger: to just before / exactly at / after a ready ledger
                let waiting: Vec<u32> = (0..n).map(|j| s.ledger_of(j)).filter(|&l| l > s.now && (l - s.now) < (if long { 4_000_000 } else { 3000 })).collect();
                let nn = if !waiting.is_empty() && rng.chance(70) {
                    let l = *rng.pick(&waiting);
                    (l - s.now + rng.below(3) as u32).saturating_sub(1)
                } else {
                    *rng.pick(&[0u32, 1, 1, 2, 5, 10, 999])
                };
                let nn = if long && rng.chance(45) { *rng.pick(&[DAY, 31 * DAY, 100 * DAY]) } else { nn };
                if moved + (nn as u64) < (if long { 5_500_000 } else { 150_000 }) {
                    moved += nn as u64;
                    s.advance(&mut t, nn);
                }
            }
        }
    }
    t.finish();
}
