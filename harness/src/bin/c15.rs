//! C15 correspondence: the whole RWA identity-verification stack as harness contracts over the
//! library functions of /repo's working tree — claim-topics-and-issuers registry (x2), identity
//! registry storage, identity claims contracts, claim issuer contracts (Ed25519 / Secp256r1 /
//! Secp256k1, `is_claim_valid` composed from the helpers as claim_issuer/mod.rs documents) and the
//! identity verifier — driven in the native Soroban host with GENUINE signatures
//! (ed25519-dalek, p256, k256) over the exact message `build_claim_message` builds, and every
//! claim defect the property enumerates. The op line carries the signed tuple and a `ok` bit that
//! the harness computes independently with the Rust crypto crates.
use ozharness::*;
use sha2::Digest as _;
use soroban_sdk::{
    testutils::{Address as _, Ledger as _, LedgerInfo},
    xdr, Address, Bytes, BytesN, Env, IntoVal, String as SString, TryFromVal, Val, Vec as SVec,
};
use std::collections::HashMap;
use stellar_tokens::rwa::{claim_issuer::SigningKey, identity_claims::Claim};

use contracts::*;

// ------------------------------------------------------------------------------------------
// contracts
mod contracts {
use soroban_sdk::{contract, contractimpl, contracttype, panic_with_error, vec, Address, Bytes, BytesN, Env, Map, String as SString, Vec};
use stellar_tokens::rwa::{
    claim_issuer::{
        self as ci, ClaimIssuer, ClaimIssuerError, Ed25519Verifier, Secp256k1Verifier, Secp256r1Verifier,
        SignatureVerifier, SigningKey,
    },
    claim_topics_and_issuers::storage as cti,
    identity_claims::{self as ic, Claim},
    identity_registry_storage::{
        self as irs, CountryData, CountryRelation, IdentityType, IndividualCountryRelation,
    },
    identity_verifier::storage as iv,
};
// ------------------------------------------------------------------------------------------

#[contract]
pub struct RegC;

#[contractimpl]
impl RegC {
    pub fn add_claim_topic(e: &Env, t: u32) {
        cti::add_claim_topic(e, t)
    }
    pub fn remove_claim_topic(e: &Env, t: u32) {
        cti::remove_claim_topic(e, t)
    }
    pub fn add_trusted_issuer(e: &Env, i: Address, ts: Vec<u32>) {
        cti::add_trusted_issuer(e, &i, &ts)
    }
    pub fn remove_trusted_issuer(e: &Env, i: Address) {
        cti::remove_trusted_issuer(e, &i)
    }
    pub fn update_issuer_claim_topics(e: &Env, i: Address, ts: Vec<u32>) {
        cti::update_issuer_claim_topics(e, &i, &ts)
    }
    pub fn get_claim_topics(e: &Env) -> Vec<u32> {
        cti::get_claim_topics(e)
    }
    pub fn get_trusted_issuers(e: &Env) -> Vec<Address> {
        cti::get_trusted_issuers(e)
    }
    pub fn get_claim_topic_issuers(e: &Env, t: u32) -> Vec<Address> {
        cti::get_claim_topic_issuers(e, t)
    }
    pub fn get_trusted_issuer_claim_topics(e: &Env, i: Address) -> Vec<u32> {
        cti::get_trusted_issuer_claim_topics(e, &i)
    }
    pub fn get_claim_topics_and_issuers(e: &Env) -> Map<u32, Vec<Address>> {
        cti::get_claim_topics_and_issuers(e)
    }
    pub fn has_claim_topic(e: &Env, issuer: Address, claim_topic: u32) -> bool {
        cti::has_claim_topic(e, &issuer, claim_topic)
    }
    pub fn is_trusted_issuer(e: &Env, issuer: Address) -> bool {
        cti::is_trusted_issuer(e, &issuer)
    }
}

#[contract]
pub struct IrsC;

#[contractimpl]
impl IrsC {
    pub fn add_identity(e: &Env, account: Address, identity: Address) {
        let cd = CountryData {
            country: CountryRelation::Individual(IndividualCountryRelation::Residence(840)),
            metadata: None,
        };
        irs::add_identity(e, &account, &identity, IdentityType::Individual, &vec![e, cd]);
    }
    pub fn modify_identity(e: &Env, account: Address, identity: Address) {
        irs::modify_identity(e, &account, &identity)
    }
    pub fn remove_identity(e: &Env, account: Address) {
        irs::remove_identity(e, &account)
    }
    pub fn recover_identity(e: &Env, old: Address, new: Address) {
        irs::recover_identity(e, &old, &new)
    }
    pub fn stored_identity(e: &Env, account: Address) -> Address {
        irs::stored_identity(e, &account)
    }
    pub fn get_recovered_to(e: &Env, old: Address) -> Option<Address> {
        irs::get_recovered_to(e, &old)
    }
}

/// mirror of the library's (private) `ClaimsStorageKey`: same variant names, same encoding
#[contracttype]
pub enum ClaimsStorageKey {
    Claim(BytesN<32>),
    ClaimsByTopic(u32),
}

#[contract]
pub struct IdC;

#[contractimpl]
impl IdC {
    pub fn add_claim(e: &Env, topic: u32, scheme: u32, issuer: Address, signature: Bytes, data: Bytes, uri: SString) -> BytesN<32> {
        ic::add_claim(e, topic, scheme, &issuer, &signature, &data, &uri)
    }
    pub fn get_claim(e: &Env, claim_id: BytesN<32>) -> Claim {
        ic::get_claim(e, &claim_id)
    }
    pub fn get_claim_ids_by_topic(e: &Env, topic: u32) -> Vec<BytesN<32>> {
        ic::get_claim_ids_by_topic(e, topic)
    }
    pub fn remove_claim(e: &Env, claim_id: BytesN<32>) {
        ic::remove_claim(e, &claim_id)
    }
    /// an identity contract NOT built from `add_claim`: stores whatever it is given
    pub fn raw_put(e: &Env, id_issuer: Address, id_topic: u32, claim: Claim) {
        let id = ic::generate_claim_id(e, &id_issuer, id_topic);
        e.storage().persistent().set(&ClaimsStorageKey::Claim(id.clone()), &claim);
        let key = ClaimsStorageKey::ClaimsByTopic(id_topic);
        let mut ids: Vec<BytesN<32>> = e.storage().persistent().get(&key).unwrap_or_else(|| vec![e]);
        if !ids.contains(&id) {
            ids.push_back(id);
            e.storage().persistent().set(&key, &ids);
        }
    }
    pub fn raw_del(e: &Env, id_issuer: Address, id_topic: u32) {
        let id = ic::generate_claim_id(e, &id_issuer, id_topic);
        e.storage().persistent().remove(&ClaimsStorageKey::Claim(id.clone()));
        let key = ClaimsStorageKey::ClaimsByTopic(id_topic);
        let mut ids: Vec<BytesN<32>> = e.storage().persistent().get(&key).unwrap_or_else(|| vec![e]);
        if let Some(p) = ids.first_index_of(&id) {
            ids.remove(p);
            if ids.is_empty() {
                e.storage().persistent().remove(&key);
            } else {
                e.storage().persistent().set(&key, &ids);
            }
        }
    }
}

pub const ED25519: u32 = 101;
pub const SECP256R1: u32 = 102;
pub const SECP256K1: u32 = 103;
// a second scheme number per verifier (scheme numbers are the issuer's own business): lets ONE
// public key be a signing key under TWO schemes
pub const ED25519_B: u32 = 111;
pub const SECP256R1_B: u32 = 112;
pub const SECP256K1_B: u32 = 113;

#[contract]
pub struct BoolIssuer;

#[contractimpl]
impl BoolIssuer {
    /// same name and arguments as `ClaimIssuer::is_claim_valid`, but a `bool` result
    pub fn is_claim_valid(_e: &Env, _identity: Address, claim_topic: u32, _scheme: u32, _sig_data: Bytes, _claim_data: Bytes) -> bool {
        claim_topic % 2 == 1
    }
}

#[contract]
pub struct IssC;

/// the steps claim_issuer/mod.rs documents, for one verifier
fn check_with<Ver: SignatureVerifier>(
    e: &Env,
    identity: &Address,
    claim_topic: u32,
    scheme: u32,
    sig_data: &Bytes,
    claim_data: &Bytes,
    pk_of: impl Fn(&Ver::SignatureData) -> Bytes,
) {
    let signature_data = Ver::extract_signature_data(e, sig_data);
    if !ci::is_key_allowed_for_topic(e, &pk_of(&signature_data), scheme, claim_topic) {
        panic_with_error!(e, ClaimIssuerError::NotAllowed)
    }
    if ci::is_claim_expired(e, claim_data) {
        panic_with_error!(e, ClaimIssuerError::InvalidClaimDataExpiration)
    }
    let message = Ver::build_message(e, identity, claim_topic, claim_data);
    if ci::is_claim_revoked(e, identity, claim_topic, claim_data) {
        panic_with_error!(e, ClaimIssuerError::NotAllowed)
    }
    Ver::verify(e, &message, &signature_data)
}

#[contractimpl]
impl ClaimIssuer for IssC {
    fn is_claim_valid(e: &Env, identity: Address, claim_topic: u32, scheme: u32, sig_data: Bytes, claim_data: Bytes) {
        match scheme {
            ED25519 | ED25519_B => check_with::<Ed25519Verifier>(e, &identity, claim_topic, scheme, &sig_data, &claim_data, |d| d.public_key.clone().into()),
            SECP256R1 | SECP256R1_B => check_with::<Secp256r1Verifier>(e, &identity, claim_topic, scheme, &sig_data, &claim_data, |d| d.public_key.clone().into()),
            SECP256K1 | SECP256K1_B => check_with::<Secp256k1Verifier>(e, &identity, claim_topic, scheme, &sig_data, &claim_data, |d| d.public_key.clone().into()),
            _ => panic_with_error!(e, ClaimIssuerError::SigDataMismatch),
        }
    }
}

#[contractimpl]
impl IssC {
    pub fn allow_key(e: &Env, pk: Bytes, registry: Address, scheme: u32, topic: u32) {
        ci::allow_key(e, &pk, &registry, scheme, topic)
    }
    pub fn remove_key(e: &Env, pk: Bytes, registry: Address, scheme: u32, topic: u32) {
        ci::remove_key(e, &pk, &registry, scheme, topic)
    }
    pub fn invalidate(e: &Env, identity: Address, topic: u32) {
        ci::invalidate_claim_signatures(e, &identity, topic)
    }
    pub fn revoke(e: &Env, identity: Address, topic: u32, data: Bytes, revoked: bool) {
        ci::set_claim_revoked(e, &identity, topic, &data, revoked)
    }
    pub fn nonce(e: &Env, identity: Address, topic: u32) -> u32 {
        ci::get_current_nonce_for(e, &identity, topic)
    }
    pub fn keys_for_topic(e: &Env, topic: u32) -> Vec<SigningKey> {
        ci::get_keys_for_topic(e, topic)
    }
    pub fn registries(e: &Env, pk: Bytes, scheme: u32) -> Vec<Address> {
        ci::get_registries(e, &SigningKey { public_key: pk, scheme })
    }
    pub fn revoked(e: &Env, identity: Address, topic: u32, data: Bytes) -> bool {
        ci::is_claim_revoked(e, &identity, topic, &data)
    }
}

#[contract]
pub struct VerC;

#[contractimpl]
impl VerC {
    pub fn set_cti(e: &Env, a: Address) {
        iv::set_claim_topics_and_issuers(e, &a)
    }
    pub fn set_irs(e: &Env, a: Address) {
        iv::set_identity_registry_storage(e, &a)
    }
    pub fn cti(e: &Env) -> Address {
        iv::claim_topics_and_issuers(e)
    }
    pub fn irs(e: &Env) -> Address {
        iv::identity_registry_storage(e)
    }
    pub fn verify(e: &Env, account: Address) {
        iv::verify_identity(e, &account)
    }
}

}

// ------------------------------------------------------------------------------------------
// universe
// ------------------------------------------------------------------------------------------
// address indices: 0,1 registries; 2 identity registry storage; 3 verifier; 4,5,6 claim issuer
// contracts; 7 a contract answering is_claim_valid with a bool (not the interface); 8,9 identity contracts; 10 plain address; 11,12,13 accounts
const REGS: [usize; 2] = [0, 1];
const IRS: usize = 2;
const VER: usize = 3;
const ISSUERS: [usize; 3] = [4, 5, 6];
const ISSUER_CANDS: [usize; 5] = [4, 5, 6, 7, 8];
const IDS: [usize; 2] = [8, 9];
const ID_CANDS: [usize; 3] = [8, 9, 10];
const ACCOUNTS: [usize; 3] = [11, 12, 13];
const TOPICS: [u32; 4] = [1, 2, 3, 7];
const SCHEMES: [u32; 6] = [ED25519, SECP256R1, SECP256K1, ED25519_B, SECP256R1_B, SECP256K1_B];

/// the verifier a scheme number selects (0: none)
fn alg_of(scheme: u32) -> u32 {
    match scheme {
        ED25519 | ED25519_B => ED25519,
        SECP256R1 | SECP256R1_B => SECP256R1,
        SECP256K1 | SECP256K1_B => SECP256K1,
        _ => 0,
    }
}
const NET: [u8; 32] = [7u8; 32];
const OTHER_NET: [u8; 32] = [8u8; 32];
const TS0: u64 = 1_700_000_000;

enum Key {
    Ed(ed25519_dalek::SigningKey),
    R1(p256::ecdsa::SigningKey),
    K1(k256::ecdsa::SigningKey),
}

impl Key {
    fn scheme(&self) -> u32 {
        match self {
            Key::Ed(_) => ED25519,
            Key::R1(_) => SECP256R1,
            Key::K1(_) => SECP256K1,
        }
    }
    fn pk(&self) -> Vec<u8> {
        match self {
            Key::Ed(k) => k.verifying_key().to_bytes().to_vec(),
            Key::R1(k) => k.verifying_key().to_encoded_point(false).as_bytes().to_vec(),
            Key::K1(k) => k.verifying_key().to_encoded_point(false).as_bytes().to_vec(),
        }
    }
    /// signature part of `sig_data` (64 bytes, + 4 bytes recovery id for Secp256k1)
    fn sign(&self, msg: &[u8]) -> Vec<u8> {
        match self {
            Key::Ed(k) => {
                use ed25519_dalek::Signer;
                k.sign(msg).to_bytes().to_vec()
            }
            Key::R1(k) => {
                use p256::ecdsa::signature::hazmat::PrehashSigner;
                let d = sha2::Sha256::digest(msg);
                let s: p256::ecdsa::Signature = k.sign_prehash(&d).unwrap();
                s.normalize_s().unwrap_or(s).to_bytes().to_vec()
            }
            Key::K1(k) => {
                let d = sha3::Keccak256::digest(msg);
                let (s, r) = k.sign_prehash_recoverable(&d).unwrap();
                let mut v = s.to_bytes().to_vec();
                v.extend_from_slice(&(r.to_byte() as u32).to_be_bytes());
                v
            }
        }
    }
}

fn make_keys() -> Vec<Key> {
    // ids 1,2: Ed25519; 3,4: Secp256r1; 5,6: Secp256k1
    let b = |x: u8| -> [u8; 32] {
        let mut a = [x; 32];
        a[0] = 1;
        a
    };
    vec![
        Key::Ed(ed25519_dalek::SigningKey::from_bytes(&b(11))),
        Key::Ed(ed25519_dalek::SigningKey::from_bytes(&b(12))),
        Key::R1(p256::ecdsa::SigningKey::from_slice(&b(13)).unwrap()),
        Key::R1(p256::ecdsa::SigningKey::from_slice(&b(14)).unwrap()),
        Key::K1(k256::ecdsa::SigningKey::from_slice(&b(15)).unwrap()),
        Key::K1(k256::ecdsa::SigningKey::from_slice(&b(16)).unwrap()),
    ]
}

/// independent check with the Rust crypto crates: do the signature bytes verify under the
/// embedded public key, for the scheme's algorithm and hash, over `msg`?
fn crate_verifies(scheme: u32, pk: &[u8], sig: &[u8], msg: &[u8]) -> bool {
    match scheme {
        ED25519 => {
            let (Ok(pk), Ok(sg)): (Result<[u8; 32], _>, Result<[u8; 64], _>) = (pk.try_into(), sig.try_into()) else { return false };
            let Ok(vk) = ed25519_dalek::VerifyingKey::from_bytes(&pk) else { return false };
            vk.verify_strict(msg, &ed25519_dalek::Signature::from_bytes(&sg)).is_ok()
        }
        SECP256R1 => {
            use p256::ecdsa::signature::hazmat::PrehashVerifier;
            let Ok(vk) = p256::ecdsa::VerifyingKey::from_sec1_bytes(pk) else { return false };
            let Ok(sg) = p256::ecdsa::Signature::from_slice(sig) else { return false };
            if sg.normalize_s().is_some() {
                return false; // high S: the host refuses non-normalized signatures
            }
            vk.verify_prehash(&sha2::Sha256::digest(msg), &sg).is_ok()
        }
        SECP256K1 => {
            if sig.len() != 68 {
                return false;
            }
            let Ok(sg) = k256::ecdsa::Signature::from_slice(&sig[..64]) else { return false };
            if sg.normalize_s().is_some() {
                return false;
            }
            let rid = u32::from_be_bytes([sig[64], sig[65], sig[66], sig[67]]);
            if rid > 3 {
                return false;
            }
            let Some(rid) = k256::ecdsa::RecoveryId::from_byte(rid as u8) else { return false };
            match k256::ecdsa::VerifyingKey::recover_from_prehash(&sha3::Keccak256::digest(msg), &sg, rid) {
                Ok(vk) => vk.to_encoded_point(false).as_bytes() == pk,
                Err(_) => false,
            }
        }
        _ => false,
    }
}

fn addr_xdr(a: &Address) -> Vec<u8> {
    use xdr::WriteXdr;
    xdr::ScVal::Address(sc_address(a)).to_xdr(xdr::Limits::none()).unwrap()
}

fn hex(b: &[u8]) -> String {
    if b.is_empty() {
        return "-".into();
    }
    b.iter().map(|x| format!("{:02x}", x)).collect()
}

/// what was signed: (network 0 = this one / 1 = another, issuer, identity, topic, nonce, data)
#[derive(Clone)]
struct Signed {
    net: u8,
    iss: usize,
    id: usize,
    topic: u32,
    nonce: u32,
    data: Vec<u8>,
}

#[derive(Clone)]
struct ClaimSpec {
    topic: u32,
    scheme: u32,
    issuer: usize,
    sig_data: Vec<u8>,
    data: Vec<u8>,
    pk_id: u32,
    ok: bool,
    ns: u32, // the algorithm the signature bytes were produced and checked with
    sm: Signed,
    tag: u32,
}

struct Sim {
    e: Env,
    u: Universe,
    keys: Vec<Key>,
    ts: u64,
    seq: u32,
    tags: HashMap<(Vec<u8>, Vec<u8>), u32>,
    ids: HashMap<Vec<u8>, (usize, u32)>, // claim id -> (issuer index, topic)
    rv: Vec<(usize, usize, u32, Vec<u8>)>, // revocation triples seen in revoke op lines
    pool: Vec<Vec<u8>>,                    // claim data used so far
    accepted: Vec<(usize, ClaimSpec)>,     // claims an identity contract accepted (most recent last)
}

const SEQ0: u32 = 100;
const DAY: u32 = 17280; // ledgers
/// persistent entries of the unmodified code stay live over the whole horizon of a sequence
/// (the harness never moves further than `MAX_ADVANCE` ledgers in total)
const MAX_TTL: u32 = 6_312_000;
const MAX_ADVANCE: u32 = 5_000_000;

fn set_ledger_at(e: &Env, seq: u32, ts: u64) {
    e.ledger().set(LedgerInfo {
        timestamp: ts,
        protocol_version: 25,
        sequence_number: seq,
        network_id: NET,
        base_reserve: 10,
        min_temp_entry_ttl: 16,
        min_persistent_entry_ttl: MAX_TTL - 1,
        max_entry_ttl: MAX_TTL,
    });
}

impl Sim {
    fn new() -> Sim {
        let e = Env::default();
        set_ledger_at(&e, SEQ0, TS0);
        e.cost_estimate().budget().reset_unlimited();
        let mut u = Universe::new(&e, 0);
        u.push(e.register(RegC, ()));
        u.push(e.register(RegC, ()));
        u.push(e.register(IrsC, ()));
        u.push(e.register(VerC, ()));
        for _ in 0..3 {
            u.push(e.register(IssC, ()));
        }
        // index 7: an issuer that does NOT follow the ClaimIssuer interface — it answers with a `bool`
        // instead of returning unit / panicking. Whatever it answers, its claims never count.
        u.push(e.register(BoolIssuer, ()));
        for _ in 0..2 {
            u.push(e.register(IdC, ()));
        }
        for _ in 0..4 {
            u.push(Address::generate(&e));
        }
        let mut ids = HashMap::new();
        for &i in ISSUER_CANDS.iter() {
            for &t in TOPICS.iter() {
                // keccak256(issuer xdr ‖ topic), computed here, not by the library
                let mut d = addr_xdr(u.a(i));
                d.extend_from_slice(&t.to_be_bytes());
                ids.insert(sha3::Keccak256::digest(&d).to_vec(), (i, t));
            }
        }
        Sim { e, u, keys: make_keys(), ts: TS0, seq: SEQ0, tags: HashMap::new(), ids, rv: vec![], pool: vec![], accepted: vec![] }
    }
    fn a(&self, i: usize) -> Val {
        self.u.a(i).into_val(&self.e)
    }
    fn q<T: TryFromVal<Env, Val>>(&self, c: usize, f: &str, a: SVec<Val>) -> Option<T> {
        let r = call(&self.e, self.u.a(c), f, a, &[])?;
        T::try_from_val(&self.e, &r).ok()
    }
    fn idx(&self, a: &Address) -> String {
        self.u.index_of(a).map(|i| i.to_string()).unwrap_or("?".into())
    }
    fn addrs(&self, v: &SVec<Address>) -> String {
        let xs: Vec<String> = v.iter().map(|a| self.idx(&a)).collect();
        join(&xs)
    }
    fn pk_id(&self, pk: &[u8]) -> u32 {
        if pk.is_empty() {
            return 0;
        }
        self.keys.iter().position(|k| k.pk() == pk).map(|p| p as u32 + 1).unwrap_or(99)
    }
    fn pk_bytes(&self, id: u32) -> Vec<u8> {
        match id {
            0 => vec![],
            99 => vec![0x5a; 32],
            k => self.keys[(k - 1) as usize].pk(),
        }
    }
    fn claim_id(&self, i: usize, t: u32) -> BytesN<32> {
        let mut d = addr_xdr(self.u.a(i));
        d.extend_from_slice(&t.to_be_bytes());
        let h: [u8; 32] = sha3::Keccak256::digest(&d).into();
        BytesN::from_array(&self.e, &h)
    }
    fn nonce(&self, i: usize, d: usize, t: u32) -> u32 {
        self.q::<u32>(i, "nonce", args(&self.e, [self.a(d), v(&self.e, t)])).unwrap_or(0)
    }
    fn allowed_keys(&self, i: usize, t: u32) -> Vec<(u32, u32)> {
        match self.q::<SVec<SigningKey>>(i, "keys_for_topic", args(&self.e, [v(&self.e, t)])) {
            Some(ks) => ks.iter().map(|k| (self.pk_id(&k.public_key.iter().collect::<Vec<u8>>()), k.scheme)).collect(),
            None => vec![],
        }
    }
    fn tag_of(&mut self, sig: &[u8], data: &[u8]) -> u32 {
        let n = self.tags.len() as u32 + 1;
        *self.tags.entry((sig.to_vec(), data.to_vec())).or_insert(n)
    }
    fn msg_bytes(&self, s: &Signed) -> Vec<u8> {
        let mut m = if s.net == 0 { NET.to_vec() } else { OTHER_NET.to_vec() };
        m.extend(addr_xdr(self.u.a(s.iss)));
        m.extend(addr_xdr(self.u.a(s.id)));
        m.extend_from_slice(&s.topic.to_be_bytes());
        m.extend_from_slice(&s.nonce.to_be_bytes());
        m.extend_from_slice(&s.data);
        m
    }

    // ---- state dump ------------------------------------------------------------------
    fn dump_reg(&self, r: usize) -> String {
        let e = &self.e;
        let ts: String = self.q::<SVec<u32>>(r, "get_claim_topics", args(e, [])).map(|x| join(&x.iter().collect::<Vec<_>>())).unwrap_or("x".into());
        let is: String = self.q::<SVec<Address>>(r, "get_trusted_issuers", args(e, [])).map(|x| self.addrs(&x)).unwrap_or("x".into());
        let ti: Vec<String> = TOPICS
            .iter()
            .map(|&t| format!("{}:{}", t, self.q::<SVec<Address>>(r, "get_claim_topic_issuers", args(e, [v(e, t)])).map(|x| self.addrs(&x)).unwrap_or("x".into())))
            .collect();
        let it: Vec<String> = ISSUER_CANDS
            .iter()
            .map(|&i| {
                format!(
                    "{}:{}",
                    i,
                    self.q::<SVec<u32>>(r, "get_trusted_issuer_claim_topics", args(e, [self.a(i)])).map(|x| join(&x.iter().collect::<Vec<_>>())).unwrap_or("x".into())
                )
            })
            .collect();
        format!("T{}/I{}/{}/{}", ts, is, ti.join(";"), it.join(";"))
    }
    fn dump_irs(&self) -> String {
        let e = &self.e;
        let a: Vec<String> = ACCOUNTS
            .iter()
            .map(|&x| format!("{}:{}", x, self.q::<Address>(IRS, "stored_identity", args(e, [self.a(x)])).map(|d| self.idx(&d)).unwrap_or("x".into())))
            .collect();
        let b: Vec<String> = ACCOUNTS
            .iter()
            .map(|&x| {
                format!("{}:{}", x, self.q::<Option<Address>>(IRS, "get_recovered_to", args(e, [self.a(x)])).flatten().map(|d| self.idx(&d)).unwrap_or("x".into()))
            })
            .collect();
        format!("{}/{}", a.join(";"), b.join(";"))
    }
    fn dump_id(&self, d: usize) -> String {
        let e = &self.e;
        let by: Vec<String> = TOPICS
            .iter()
            .map(|&t| {
                let l: Vec<String> = self
                    .q::<SVec<BytesN<32>>>(d, "get_claim_ids_by_topic", args(e, [v(e, t)]))
                    .map(|x| x.iter().map(|id| self.ids.get(&id.to_array().to_vec()).map(|(i, t)| format!("{}.{}", i, t)).unwrap_or("?".into())).collect())
                    .unwrap_or(vec!["x".to_string()]);
                format!("{}:{}", t, join(&l))
            })
            .collect();
        let mut cl: Vec<String> = vec![];
        for &i in ISSUER_CANDS.iter() {
            for &t in TOPICS.iter() {
                if let Some(c) = self.q::<Claim>(d, "get_claim", args(e, [v(e, self.claim_id(i, t))])) {
                    let tag = self.tags.get(&(c.signature.iter().collect::<Vec<u8>>(), c.data.iter().collect::<Vec<u8>>())).copied().unwrap_or(0);
                    cl.push(format!("{}.{}={}.{}.{}.{}", i, t, c.topic, c.scheme, self.idx(&c.issuer), tag));
                }
            }
        }
        format!("{}/{}", by.join(";"), if cl.is_empty() { "-".into() } else { cl.join(";") })
    }
    fn dump_issuer(&self, i: usize) -> String {
        let e = &self.e;
        let ks: Vec<String> = TOPICS
            .iter()
            .map(|&t| {
                let l = match self.q::<SVec<SigningKey>>(i, "keys_for_topic", args(e, [v(e, t)])) {
                    Some(ks) => join(&ks.iter().map(|k| format!("{}.{}", self.pk_id(&k.public_key.iter().collect::<Vec<u8>>()), k.scheme)).collect::<Vec<_>>()),
                    None => "x".into(),
                };
                format!("{}:{}", t, l)
            })
            .collect();
        let mut ps: Vec<String> = vec![];
        for k in 1..=self.keys.len() as u32 {
            for &s in SCHEMES.iter() {
                let pk = Bytes::from_slice(e, &self.pk_bytes(k));
                if let Some(rs) = self.q::<SVec<Address>>(i, "registries", args(e, [v(e, pk), v(e, s)])) {
                    ps.push(format!("{}.{}:{}", k, s, self.addrs(&rs)));
                }
            }
        }
        let mut ns: Vec<String> = vec![];
        for &d in ID_CANDS.iter() {
            for &t in TOPICS.iter() {
                let n = self.nonce(i, d, t);
                if n != 0 {
                    ns.push(format!("{}.{}:{}", d, t, n));
                }
            }
        }
        let rv: Vec<String> = self
            .rv
            .iter()
            .filter(|(ii, _, _, _)| *ii == i)
            .map(|(_, d, t, data)| {
                let r = self.q::<bool>(i, "revoked", args(e, [self.a(*d), v(e, *t), v(e, Bytes::from_slice(e, data))])).unwrap_or(false);
                format!("{}.{}.{}:{}", d, t, hex(data), r as u8)
            })
            .collect();
        format!(
            "{}/{}/{}/{}",
            ks.join(";"),
            if ps.is_empty() { "-".into() } else { ps.join(";") },
            if ns.is_empty() { "-".into() } else { ns.join(";") },
            if rv.is_empty() { "-".into() } else { rv.join(";") }
        )
    }
    fn verify(&self, a: usize) -> bool {
        call(&self.e, self.u.a(VER), "verify", args(&self.e, [self.a(a)]), &[]).is_some()
    }
    fn dump(&self) -> String {
        let e = &self.e;
        let cti = self.q::<Address>(VER, "cti", args(e, [])).map(|a| self.idx(&a)).unwrap_or("x".into());
        let irs = self.q::<Address>(VER, "irs", args(e, [])).map(|a| self.idx(&a)).unwrap_or("x".into());
        let ver: Vec<u8> = ACCOUNTS.iter().map(|&a| self.verify(a) as u8).collect();
        let mut s = format!("ts={} cti={} virs={}", self.ts, cti, irs);
        for &r in REGS.iter() {
            s += &format!(" R{}={}", r, self.dump_reg(r));
        }
        s += &format!(" irs={}", self.dump_irs());
        for &d in IDS.iter() {
            s += &format!(" D{}={}", d, self.dump_id(d));
        }
        for &i in ISSUERS.iter() {
            s += &format!(" I{}={}", i, self.dump_issuer(i));
        }
        s += &format!(" ver={}", join(&ver));
        s
    }
    fn finish(&self, t: &mut Trace, line: String, ok: bool) {
        t.op(&line);
        t.obs(&format!("{} {}", if ok { "ok" } else { "err" }, self.dump()));
    }
    fn run(&mut self, t: &mut Trace, line: String, c: usize, f: &str, a: SVec<Val>) -> bool {
        let ok = call(&self.e, self.u.a(c), f, a, &[]).is_some();
        self.finish(t, line, ok);
        ok
    }

    // ---- operations ------------------------------------------------------------------
    fn add_topic(&mut self, t: &mut Trace, r: usize, topic: u32) -> bool {
        let a = args(&self.e, [v(&self.e, topic)]);
        self.run(t, format!("id add_topic r={} t={}", r, topic), r, "add_claim_topic", a)
    }
    fn remove_topic(&mut self, t: &mut Trace, r: usize, topic: u32) -> bool {
        let a = args(&self.e, [v(&self.e, topic)]);
        self.run(t, format!("id remove_topic r={} t={}", r, topic), r, "remove_claim_topic", a)
    }
    fn add_issuer(&mut self, t: &mut Trace, r: usize, i: usize, ts: &[u32]) -> bool {
        let a = args(&self.e, [self.a(i), v(&self.e, SVec::from_slice(&self.e, ts))]);
        self.run(t, format!("id add_issuer r={} i={} ts={}", r, i, join(ts)), r, "add_trusted_issuer", a)
    }
    fn remove_issuer(&mut self, t: &mut Trace, r: usize, i: usize) -> bool {
        let a = args(&self.e, [self.a(i)]);
        self.run(t, format!("id remove_issuer r={} i={}", r, i), r, "remove_trusted_issuer", a)
    }
    fn update_issuer(&mut self, t: &mut Trace, r: usize, i: usize, ts: &[u32]) -> bool {
        let a = args(&self.e, [self.a(i), v(&self.e, SVec::from_slice(&self.e, ts))]);
        self.run(t, format!("id update_issuer r={} i={} ts={}", r, i, join(ts)), r, "update_issuer_claim_topics", a)
    }
    fn irs_add(&mut self, t: &mut Trace, a: usize, d: usize) -> bool {
        let x = args(&self.e, [self.a(a), self.a(d)]);
        self.run(t, format!("id irs_add a={} d={}", a, d), IRS, "add_identity", x)
    }
    fn irs_modify(&mut self, t: &mut Trace, a: usize, d: usize) -> bool {
        let x = args(&self.e, [self.a(a), self.a(d)]);
        self.run(t, format!("id irs_modify a={} d={}", a, d), IRS, "modify_identity", x)
    }
    fn irs_remove(&mut self, t: &mut Trace, a: usize) -> bool {
        let x = args(&self.e, [self.a(a)]);
        self.run(t, format!("id irs_remove a={}", a), IRS, "remove_identity", x)
    }
    fn irs_recover(&mut self, t: &mut Trace, a: usize, b: usize) -> bool {
        let x = args(&self.e, [self.a(a), self.a(b)]);
        self.run(t, format!("id irs_recover a={} b={}", a, b), IRS, "recover_identity", x)
    }
    fn allow_key(&mut self, t: &mut Trace, i: usize, k: u32, s: u32, r: usize, topic: u32) -> bool {
        let e = &self.e;
        let x = args(e, [v(e, Bytes::from_slice(e, &self.pk_bytes(k))), self.a(r), v(e, s), v(e, topic)]);
        self.run(t, format!("id allow_key i={} k={} s={} r={} t={}", i, k, s, r, topic), i, "allow_key", x)
    }
    fn remove_key(&mut self, t: &mut Trace, i: usize, k: u32, s: u32, r: usize, topic: u32) -> bool {
        let e = &self.e;
        let x = args(e, [v(e, Bytes::from_slice(e, &self.pk_bytes(k))), self.a(r), v(e, s), v(e, topic)]);
        self.run(t, format!("id remove_key i={} k={} s={} r={} t={}", i, k, s, r, topic), i, "remove_key", x)
    }
    fn invalidate(&mut self, t: &mut Trace, i: usize, d: usize, topic: u32) -> bool {
        let x = args(&self.e, [self.a(d), v(&self.e, topic)]);
        self.run(t, format!("id invalidate i={} d={} t={}", i, d, topic), i, "invalidate", x)
    }
    fn revoke(&mut self, t: &mut Trace, i: usize, d: usize, topic: u32, data: &[u8], rvk: bool) -> bool {
        let e = &self.e;
        let x = args(e, [self.a(d), v(e, topic), v(e, Bytes::from_slice(e, data)), v(e, rvk)]);
        if !self.rv.iter().any(|(a, b, c, dd)| *a == i && *b == d && *c == topic && dd == data) && ISSUERS.contains(&i) {
            self.rv.push((i, d, topic, data.to_vec()));
        }
        self.run(t, format!("id revoke i={} d={} t={} data={} v={}", i, d, topic, hex(data), rvk as u8), i, "revoke", x)
    }
    fn set_cti(&mut self, t: &mut Trace, r: usize) -> bool {
        let x = args(&self.e, [self.a(r)]);
        self.run(t, format!("id set_cti r={}", r), VER, "set_cti", x)
    }
    fn set_irs(&mut self, t: &mut Trace) -> bool {
        let x = args(&self.e, [self.a(IRS)]);
        self.run(t, "id set_irs".to_string(), VER, "set_irs", x)
    }
    fn time(&mut self, t: &mut Trace, ts: u64) {
        self.ts = ts;
        set_ledger_at(&self.e, self.seq, ts);
        self.finish(t, format!("id time ts={}", ts), true);
    }
    /// `n` ledgers (5 s each) pass and nobody touches any entry
    fn advance(&mut self, t: &mut Trace, n: u32) {
        if self.seq - SEQ0 + n > MAX_ADVANCE {
            return;
        }
        self.seq += n;
        self.ts += 5 * n as u64;
        set_ledger_at(&self.e, self.seq, self.ts);
        self.finish(t, format!("id advance n={} ts={}", n, self.ts), true);
    }
    fn claim_fields(&self, c: &ClaimSpec) -> String {
        format!(
            "topic={} scheme={} iss={} sl={} pk={} ok={} ns={} sm={}:{}:{}:{}:{}:{} data={} tag={}",
            c.topic,
            c.scheme,
            c.issuer,
            c.sig_data.len(),
            c.pk_id,
            c.ok as u8,
            c.ns,
            c.sm.net,
            c.sm.iss,
            c.sm.id,
            c.sm.topic,
            c.sm.nonce,
            hex(&c.sm.data),
            hex(&c.data),
            c.tag
        )
    }
    fn add_claim(&mut self, t: &mut Trace, d: usize, c: &ClaimSpec) -> bool {
        let e = &self.e;
        let x = args(
            e,
            [v(e, c.topic), v(e, c.scheme), self.a(c.issuer), v(e, Bytes::from_slice(e, &c.sig_data)), v(e, Bytes::from_slice(e, &c.data)), v(e, SString::from_str(e, "u"))],
        );
        let ok = self.run(t, format!("id add_claim d={} {}", d, self.claim_fields(c)), d, "add_claim", x);
        if ok {
            self.accepted.push((d, c.clone()));
            if self.accepted.len() > 16 {
                self.accepted.remove(0);
            }
        }
        ok
    }
    fn raw_put(&mut self, t: &mut Trace, d: usize, ci_: usize, ct: u32, c: &ClaimSpec) -> bool {
        let e = &self.e;
        let claim = Claim {
            topic: c.topic,
            scheme: c.scheme,
            issuer: self.u.a(c.issuer).clone(),
            signature: Bytes::from_slice(e, &c.sig_data),
            data: Bytes::from_slice(e, &c.data),
            uri: SString::from_str(e, "u"),
        };
        let x = args(e, [self.a(ci_), v(e, ct), v(e, claim)]);
        self.run(t, format!("id raw_put d={} ci={} ct={} {}", d, ci_, ct, self.claim_fields(c)), d, "raw_put", x)
    }
    fn remove_claim(&mut self, t: &mut Trace, d: usize, ci_: usize, ct: u32) -> bool {
        let x = args(&self.e, [v(&self.e, self.claim_id(ci_, ct))]);
        self.run(t, format!("id remove_claim d={} ci={} ct={}", d, ci_, ct), d, "remove_claim", x)
    }
    fn raw_del(&mut self, t: &mut Trace, d: usize, ci_: usize, ct: u32) -> bool {
        let x = args(&self.e, [self.a(ci_), v(&self.e, ct)]);
        self.run(t, format!("id raw_del d={} ci={} ct={}", d, ci_, ct), d, "raw_del", x)
    }
    /// direct `is_claim_valid` on the issuer
    fn valid(&mut self, t: &mut Trace, d: usize, c: &ClaimSpec) -> bool {
        if c.issuer == 7 {
            // index 7 is the harness's NON-conforming issuer (answers with a bool): what its own
            // `is_claim_valid` returns is not a statement about the library; it is only ever reached
            // through `add_claim` / `verify_identity`, where its answer must never count
            return false;
        }
        let e = &self.e;
        let x = args(e, [self.a(d), v(e, c.topic), v(e, c.scheme), v(e, Bytes::from_slice(e, &c.sig_data)), v(e, Bytes::from_slice(e, &c.data))]);
        self.run(t, format!("id valid d={} {}", d, self.claim_fields(c)), c.issuer, "is_claim_valid", x)
    }
    fn verify_op(&mut self, t: &mut Trace, a: usize) -> bool {
        let x = args(&self.e, [self.a(a)]);
        self.run(t, format!("id verify a={}", a), VER, "verify", x)
    }

    // ---- claim construction ------------------------------------------------------------
    fn data_with(&self, valid_until: u64, payload: &[u8]) -> Vec<u8> {
        let mut d = (self.ts.saturating_sub(100)).to_be_bytes().to_vec();
        d.extend_from_slice(&valid_until.to_be_bytes());
        d.extend_from_slice(payload);
        d
    }
    /// a claim of issuer `i` about identity `d` for `topic`, signed by key `k` over `sm`;
    /// `mangle`: 0 none, 1 flip a signature byte, 2 flip a public-key byte, 3 truncate, 4 extend,
    /// 5 high-S / wrong recovery id, 6 embed another key's public key
    fn make_claim(&mut self, i: usize, topic: u32, scheme: u32, k: u32, data: Vec<u8>, sm: Signed, mangle: u32, rng: &mut Rng) -> ClaimSpec {
        let key = &self.keys[(k - 1) as usize];
        let msg = self.msg_bytes(&sm);
        let mut pk = key.pk();
        let mut sig = key.sign(&msg);
        match mangle {
            1 => {
                let p = rng.below(64) as usize;
                sig[p] ^= 1 << rng.below(8);
            }
            2 => {
                let p = rng.below(pk.len() as u64) as usize;
                pk[p] ^= 1 << rng.below(8);
            }
            5 => match key {
                Key::R1(_) => {
                    let s = p256::ecdsa::Signature::from_slice(&sig).unwrap();
                    let (r, sv) = (s.r(), s.s());
                    let hs = p256::ecdsa::Signature::from_scalars(*r, -*sv).unwrap();
                    sig = hs.to_bytes().to_vec();
                }
                Key::K1(_) => {
                    sig[67] = if rng.chance(50) { sig[67] ^ 1 } else { 4 + rng.below(3) as u8 };
                }
                Key::Ed(_) => {
                    sig[63] |= 0xf0; // s out of range
                }
            },
            6 => {
                let other = if k % 2 == 1 { k + 1 } else { k - 1 }; // the other key of the same scheme
                pk = self.keys[(other - 1) as usize].pk();
            }
            _ => {}
        }
        let ns = key.scheme();
        let ok = crate_verifies(ns, &pk, &sig, &msg);
        let pk_id = self.pk_id(&pk);
        let mut sig_data = pk.clone();
        sig_data.extend_from_slice(&sig);
        match mangle {
            3 => {
                sig_data.pop();
            }
            4 => sig_data.push(0),
            _ => {}
        }
        let tag = self.tag_of(&sig_data, &data);
        if !self.pool.contains(&data) {
            self.pool.push(data.clone());
        }
        ClaimSpec { topic, scheme, issuer: i, sig_data, data, pk_id, ok, ns, sm, tag }
    }
    /// the claim an honest issuer would produce now
    fn good_claim(&mut self, i: usize, d: usize, topic: u32, k: u32, valid_until: u64, payload: &[u8], rng: &mut Rng) -> ClaimSpec {
        let data = self.data_with(valid_until, payload);
        let nonce = self.nonce(i, d, topic);
        let sm = Signed { net: 0, iss: i, id: d, topic, nonce, data: data.clone() };
        let scheme = self.keys[(k - 1) as usize].scheme();
        self.make_claim(i, topic, scheme, k, data, sm, 0, rng)
    }
    /// the same, presented under scheme number `scheme`
    fn good_claim_as(&mut self, i: usize, d: usize, topic: u32, k: u32, scheme: u32, payload: &[u8], rng: &mut Rng) -> ClaimSpec {
        let mut c = self.good_claim(i, d, topic, k, self.ts + 5000, payload, rng);
        c.scheme = scheme;
        c
    }
}

// ------------------------------------------------------------------------------------------
// directed scenarios
// ------------------------------------------------------------------------------------------

fn setup_basic(s: &mut Sim, t: &mut Trace) {
    s.set_irs(t);
    s.set_cti(t, 0);
    s.irs_add(t, 11, 8);
    s.irs_add(t, 12, 9);
}

fn directed(t: &mut Trace, rng: &mut Rng) {
    // (1) the zero-issuer topic: required topic 7 without a trusted issuer, identity without claims
    t.seq("directed zero-issuer topic");
    let mut s = Sim::new();
    s.verify_op(t, 11); // nothing linked yet
    s.set_irs(t);
    s.verify_op(t, 11);
    s.set_cti(t, 0);
    s.verify_op(t, 11); // no identity stored
    s.irs_add(t, 11, 8);
    s.verify_op(t, 11); // no topic required: succeeds
    s.add_topic(t, 0, 7);
    s.verify_op(t, 11); // topic 7 required, no issuer, no claim: must fail
    s.irs_add(t, 12, 10); // identity address without a contract
    s.verify_op(t, 12);
    s.remove_topic(t, 0, 7);
    s.verify_op(t, 12); // nothing required: the identity contract is never asked

    // (1y) wallet recovery: the replaced account has NO registered identity any more; only the replacing
    // account is verified through the identity's claims (also along a chain of recoveries)
    {
        t.seq("directed recovered account is not verified");
        let mut s = Sim::new();
        setup_basic(&mut s, t);
        s.add_topic(t, 0, 1);
        s.add_issuer(t, 0, 4, &[1]);
        let sch = s.keys[0].scheme();
        s.allow_key(t, 4, 1, sch, 0, 1);
        let c0 = s.good_claim(4, 8, 1, 1, TS0 + 1000, b"kyc", rng);
        s.add_claim(t, 8, &c0);
        s.verify_op(t, 11);
        s.verify_op(t, 13);
        // the claim removed and issued again: it counts again
        s.remove_claim(t, 8, 4, 1);
        s.verify_op(t, 11);
        s.add_claim(t, 8, &c0);
        s.verify_op(t, 11);
        s.remove_claim(t, 8, 4, 1);
        s.remove_claim(t, 8, 4, 1); // nothing left to remove
        let c1 = s.good_claim(4, 8, 1, 1, TS0 + 2000, b"kyc2", rng);
        s.add_claim(t, 8, &c1);
        s.verify_op(t, 11);
        s.irs_recover(t, 11, 13); // account 11 (identity 8) replaced by account 13
        s.verify_op(t, 11); // replaced: no identity
        s.verify_op(t, 13);
        s.irs_recover(t, 13, 11); // 11 was itself recovered away: refused
        s.irs_remove(t, 12);
        s.irs_recover(t, 13, 12); // a chain 11 -> 13 -> 12
        s.verify_op(t, 11);
        s.verify_op(t, 13);
        s.verify_op(t, 12);
    }

    // (1z) revocation is per (identity, topic, data): byte-identical data under two topics and two
    // identities of one issuer, revoked and un-revoked independently of each other
    {
        t.seq("directed revocation is per identity, topic and data");
        let mut s = Sim::new();
        setup_basic(&mut s, t);
        s.add_topic(t, 0, 1);
        s.add_topic(t, 0, 2);
        s.add_issuer(t, 0, 4, &[1, 2]);
        let sch = s.keys[0].scheme();
        s.allow_key(t, 4, 1, sch, 0, 1);
        s.allow_key(t, 4, 1, sch, 0, 2);
        let a1 = s.good_claim(4, 8, 1, 1, TS0 + 1000, b"same", rng);
        let a2 = s.good_claim(4, 8, 2, 1, TS0 + 1000, b"same", rng);
        let b1 = s.good_claim(4, 9, 1, 1, TS0 + 1000, b"same", rng);
        let d0 = a1.data.clone();
        for (d, c) in [(8usize, &a1), (8, &a2), (9, &b1)] {
            s.valid(t, d, c);
            s.add_claim(t, d, c);
        }
        s.verify_op(t, 11);
        s.revoke(t, 4, 8, 1, &d0, true); // only (8, topic 1)
        for (d, c) in [(8usize, &a1), (8, &a2), (9, &b1)] {
            s.valid(t, d, c);
        }
        s.revoke(t, 4, 8, 2, &d0, true);
        s.revoke(t, 4, 9, 1, &d0, true);
        s.revoke(t, 4, 8, 1, &d0, false); // un-revoke only (8, topic 1): the other two stay revoked
        for (d, c) in [(8usize, &a1), (8, &a2), (9, &b1)] {
            s.valid(t, d, c);
        }
        s.verify_op(t, 11);
        s.verify_op(t, 12);
        s.revoke(t, 4, 8, 2, &d0, false);
        for (d, c) in [(8usize, &a1), (8, &a2), (9, &b1)] {
            s.valid(t, d, c);
        }
        s.verify_op(t, 11);
    }

    // (2) one issuer, one claim per scheme, every way to lose validity
    for (k, topic) in [(1u32, 1u32), (3, 2), (5, 7)] {
        t.seq(&format!("directed lifecycle key={} topic={}", k, topic));
        let mut s = Sim::new();
        setup_basic(&mut s, t);
        s.add_topic(t, 0, topic);
        s.add_issuer(t, 0, 4, &[topic]);
        let sch = s.keys[(k - 1) as usize].scheme();
        let c0 = s.good_claim(4, 8, topic, k, TS0 + 1000, b"kyc", rng);
        s.valid(t, 8, &c0); // key not allowed yet
        s.add_claim(t, 8, &c0);
        s.allow_key(t, 4, k, sch, 0, topic);
        s.valid(t, 8, &c0);
        s.valid(t, 9, &c0); // other identity
        s.add_claim(t, 9, &c0);
        s.add_claim(t, 8, &c0);
        s.verify_op(t, 11);
        s.verify_op(t, 12);
        // expiry boundary: valid while timestamp < valid_until
        s.time(t, TS0 + 999);
        s.time(t, TS0 + 1000);
        s.add_claim(t, 8, &c0); // the stored claim, byte for byte, after it expired: refused
        s.time(t, TS0 + 1001);
        s.time(t, TS0);
        // revocation and un-revocation
        let d0 = c0.data.clone();
        s.revoke(t, 4, 8, topic, &d0, true);
        s.add_claim(t, 8, &c0); // the stored claim resubmitted after its revocation: refused
        s.invalidate(t, 4, 8, topic); // the revocation survives the nonce bump
        s.add_claim(t, 8, &c0);
        let c1 = s.good_claim(4, 8, topic, k, TS0 + 1000, b"kyc", rng); // same data, new nonce
        s.valid(t, 8, &c1);
        s.revoke(t, 4, 8, topic, &d0, false);
        s.valid(t, 8, &c1);
        s.valid(t, 8, &c0); // signed before the bump
        s.verify_op(t, 11); // stored claim is pre-bump
        s.add_claim(t, 8, &c1);
        s.verify_op(t, 11);
        // key removal
        s.allow_key(t, 4, k, sch, 1, topic); // registry 1 does not know issuer 4
        s.remove_key(t, 4, k, sch, 0, topic);
        s.verify_op(t, 11);
        s.add_claim(t, 8, &c1); // the stored claim resubmitted after its key was removed: refused
        s.allow_key(t, 4, k, sch, 0, topic);
        // de-listing after signing
        s.remove_issuer(t, 0, 4);
        s.verify_op(t, 11);
        s.add_issuer(t, 0, 4, &[topic]);
        s.verify_op(t, 11);
        let other = if topic == 1 { 2 } else { 1 };
        s.add_topic(t, 0, other);
        s.update_issuer(t, 0, 4, &[other]); // still trusted, but not for `topic`
        s.verify_op(t, 11);
        s.update_issuer(t, 0, 4, &[other, topic]);
        s.verify_op(t, 11); // `other` has an issuer but no claim
        s.remove_topic(t, 0, other);
        s.verify_op(t, 11);
        s.remove_topic(t, 0, topic); // issuer 4 keeps an empty topic set
        s.add_topic(t, 0, topic); // re-added: no issuer
        s.verify_op(t, 11);
        s.update_issuer(t, 0, 4, &[topic]); // trusted for it again: the stored claim counts again
        s.verify_op(t, 11);
        // two more bumps: only a signature over nonce 3 is confirmed
        s.invalidate(t, 4, 8, topic);
        s.invalidate(t, 4, 8, topic);
        s.verify_op(t, 11);
        let c3 = s.good_claim(4, 8, topic, k, TS0 + 1000, b"kyc", rng);
        s.valid(t, 8, &c3);
        s.valid(t, 8, &c1);
        s.add_claim(t, 8, &c3);
        s.verify_op(t, 11);
        s.remove_claim(t, 8, 4, topic);
        s.remove_claim(t, 8, 4, topic);
    }

    // (3) several issuers for one topic, claim of the first invalid, of the last valid and vice versa
    t.seq("directed several issuers");
    let mut s = Sim::new();
    setup_basic(&mut s, t);
    s.add_topic(t, 0, 1);
    s.add_topic(t, 0, 2);
    s.add_issuer(t, 0, 4, &[1, 2]);
    s.add_issuer(t, 0, 5, &[1]);
    s.add_issuer(t, 0, 6, &[2, 1]);
    s.add_issuer(t, 0, 7, &[1]); // plain address as issuer
    s.allow_key(t, 4, 1, ED25519, 0, 1);
    s.allow_key(t, 5, 3, SECP256R1, 0, 1);
    s.allow_key(t, 6, 5, SECP256K1, 0, 1);
    s.allow_key(t, 6, 5, SECP256K1, 0, 2);
    s.allow_key(t, 4, 2, ED25519, 0, 2);
    let a = s.good_claim(4, 8, 1, 1, TS0 + 50, b"a", rng);
    let b = s.good_claim(5, 8, 1, 3, TS0 + 500, b"b", rng);
    let c = s.good_claim(6, 8, 1, 5, TS0 + 5000, b"c", rng);
    let c2 = s.good_claim(6, 8, 2, 5, TS0 + 5000, b"c", rng);
    s.add_claim(t, 8, &c2);
    s.verify_op(t, 11); // topic 1 unclaimed
    s.add_claim(t, 8, &c);
    s.verify_op(t, 11); // only the third issuer's claim
    s.add_claim(t, 8, &a);
    s.add_claim(t, 8, &b);
    s.time(t, TS0 + 50); // first expired
    s.time(t, TS0 + 500); // first two expired
    s.time(t, TS0 + 5000); // all expired
    s.time(t, TS0 + 40);
    s.remove_issuer(t, 0, 6); // topic 2 left with issuer 4 only, no claim from 4
    s.verify_op(t, 11);
    let a2 = s.good_claim(4, 8, 2, 2, TS0 + 5000, b"a2", rng);
    s.add_claim(t, 8, &a2);
    s.verify_op(t, 11);
    // a claim for another topic under the id of (issuer 5, topic 1)
    s.remove_issuer(t, 0, 4);
    s.verify_op(t, 11); // topic 2 now without issuer
    s.remove_topic(t, 0, 2);
    s.verify_op(t, 11); // b (issuer 5) valid
    s.raw_put(t, 8, 5, 1, &c2); // id (5,1) now holds a topic-2 claim of issuer 6
    s.verify_op(t, 11);
    s.raw_put(t, 8, 5, 1, &c); // id (5,1) holds issuer 6's topic-1 claim: wrong issuer
    s.verify_op(t, 11);
    s.raw_put(t, 8, 5, 1, &b);
    s.verify_op(t, 11);
    // issuer 5's genuine topic-1 claim, but the stored record names another topic / another issuer
    let mut lie = b.clone();
    lie.topic = 2;
    s.raw_put(t, 8, 5, 1, &lie);
    s.verify_op(t, 11);
    let mut lie = b.clone();
    lie.issuer = 6;
    s.raw_put(t, 8, 5, 1, &lie);
    s.verify_op(t, 11);
    s.raw_put(t, 8, 5, 1, &b);
    s.verify_op(t, 11);
    s.raw_del(t, 8, 5, 1);
    s.verify_op(t, 11);

    // a topic gained through update_issuer_claim_topics (in both address orders), then the issuer listed
    // BEFORE it is de-listed (removed / narrowed): its claim must stop counting at once
    for (hi, lo) in [(4usize, 5usize), (5, 4), (4, 6), (6, 4)] {
        for narrow in [false, true] {
            t.seq(&format!("directed topic gained by update, earlier issuer de-listed hi={} lo={} narrow={}", hi, lo, narrow));
            let mut s = Sim::new();
            setup_basic(&mut s, t);
            s.add_topic(t, 0, 1);
            s.add_topic(t, 0, 2);
            s.add_issuer(t, 0, hi, &[1, 2]);
            s.add_issuer(t, 0, lo, &[2]);
            s.update_issuer(t, 0, lo, &[2, 1]);
            s.allow_key(t, hi, 1, ED25519, 0, 1);
            let a = s.good_claim(hi, 8, 1, 1, TS0 + 5000, b"a", rng);
            s.add_claim(t, 8, &a);
            s.remove_topic(t, 0, 2);
            s.verify_op(t, 11); // hi's claim counts
            if narrow {
                s.update_issuer(t, 0, hi, &[2]);
            } else {
                s.remove_issuer(t, 0, hi);
            }
            s.verify_op(t, 11); // hi no longer trusted for topic 1
            s.allow_key(t, lo, 2, ED25519, 0, 1);
            let b = s.good_claim(lo, 8, 1, 2, TS0 + 5000, b"b", rng);
            s.add_claim(t, 8, &b);
            s.verify_op(t, 11); // lo's claim counts
            s.remove_issuer(t, 0, lo);
            s.verify_op(t, 11);
        }
    }

    // (3a') an issuer that answers is_claim_valid with a bool instead of returning unit / panicking
    // (index 7): a completed call is not a confirmation — its claims never count, whatever it answers
    t.seq("directed non-conforming issuer");
    let mut s = Sim::new();
    setup_basic(&mut s, t);
    s.add_topic(t, 0, 1);
    s.add_topic(t, 0, 2);
    s.add_issuer(t, 0, 7, &[1, 2]);
    s.add_issuer(t, 0, 4, &[2]);
    s.allow_key(t, 4, 1, ED25519, 0, 2);
    let g2 = s.good_claim(4, 8, 2, 1, TS0 + 5000, b"g2", rng);
    s.add_claim(t, 8, &g2);
    // claims naming issuer 7 for topic 1 (it answers `true`) and topic 2 (it answers `false`),
    // stored by an identity contract that does not ask the issuer
    let mut n1 = g2.clone();
    n1.issuer = 7;
    n1.topic = 1;
    s.raw_put(t, 8, 7, 1, &n1);
    s.verify_op(t, 11); // topic 1 has only the non-conforming issuer's claim
    let mut n2 = g2.clone();
    n2.issuer = 7;
    s.raw_put(t, 8, 7, 2, &n2);
    s.verify_op(t, 11);
    s.remove_topic(t, 0, 1);
    s.verify_op(t, 11); // topic 2 alone: issuer 4's genuine claim counts
    s.remove_issuer(t, 0, 4);
    s.verify_op(t, 11); // topic 2 with the non-conforming issuer only

    // (3b) narrowing: two required topics, each settled by its own issuer; an issuer loses one topic
    t.seq("directed narrowing");
    let mut s = Sim::new();
    setup_basic(&mut s, t);
    s.add_topic(t, 0, 1);
    s.add_topic(t, 0, 2);
    s.add_issuer(t, 0, 4, &[1, 2]);
    s.add_issuer(t, 0, 5, &[2]);
    s.allow_key(t, 4, 1, ED25519, 0, 1);
    s.allow_key(t, 5, 3, SECP256R1, 0, 2);
    let a1 = s.good_claim(4, 8, 1, 1, TS0 + 5000, b"n1", rng);
    let b2 = s.good_claim(5, 8, 2, 3, TS0 + 5000, b"n2", rng);
    s.add_claim(t, 8, &a1);
    s.add_claim(t, 8, &b2);
    s.verify_op(t, 11); // ok
    s.update_issuer(t, 0, 4, &[2]); // 4 no longer trusted for topic 1
    s.verify_op(t, 11); // must fail: nobody trusted for topic 1
    s.update_issuer(t, 0, 4, &[1]);
    s.verify_op(t, 11); // ok again
    s.update_issuer(t, 0, 5, &[1]); // 5 no longer trusted for topic 2
    s.verify_op(t, 11); // must fail
    s.update_issuer(t, 0, 5, &[2, 1]);
    s.verify_op(t, 11);
    s.remove_issuer(t, 0, 5);
    s.verify_op(t, 11);

    // (3b'') a held claim re-issued by the same issuer for the same topic under ANOTHER signature scheme (key
    // rotation): the stored record must be the new claim as a whole - with the old scheme kept next to the new
    // signature the issuer rejects it and a fully certified identity stops verifying (seed C15-r11-1)
    for (k_old, s_old, k_new, s_new) in [(1u32, ED25519, 3u32, SECP256R1), (3, SECP256R1, 5, SECP256K1), (5, SECP256K1, 1, ED25519), (1, ED25519, 1, ED25519_B)] {
        t.seq(&format!("directed claim re-issued under another scheme {}->{}", s_old, s_new));
        let mut s = Sim::new();
        setup_basic(&mut s, t);
        s.add_topic(t, 0, 1);
        s.add_issuer(t, 0, 4, &[1]);
        s.allow_key(t, 4, k_old, s_old, 0, 1);
        s.allow_key(t, 4, k_new, s_new, 0, 1);
        let old = s.good_claim_as(4, 8, 1, k_old, s_old, b"r1", rng);
        s.add_claim(t, 8, &old);
        s.verify_op(t, 11);
        let new = s.good_claim_as(4, 8, 1, k_new, s_new, b"r2", rng);
        s.add_claim(t, 8, &new); // replaces the record under the same claim id
        s.verify_op(t, 11); // still certified
        s.add_claim(t, 8, &old); // and back
        s.verify_op(t, 11);
    }

    // (3b') topic lists naming a topic twice (adjacent and apart) must be refused by add_trusted_issuer and
    // update_issuer_claim_topics: an issuer linked twice under a topic survives its own removal (seed C15-r11-2)
    for dup in [[1u32, 1, 1], [2, 1, 1], [1, 2, 1]] {
        t.seq(&format!("directed duplicate topic list {}", join(&dup)));
        let mut s = Sim::new();
        setup_basic(&mut s, t);
        s.add_topic(t, 0, 1);
        s.add_topic(t, 0, 2);
        s.add_issuer(t, 0, 4, &dup[1..]); // [1,1] / [1,1] / [2,1]
        s.add_issuer(t, 0, 4, &dup); // refused either way
        s.remove_topic(t, 0, 2); // only topic 1 stays required
        s.update_issuer(t, 0, 4, &[1]);
        s.allow_key(t, 4, 1, ED25519, 0, 1);
        let a1 = s.good_claim(4, 8, 1, 1, TS0 + 5000, b"d1", rng);
        s.add_claim(t, 8, &a1);
        s.verify_op(t, 11);
        s.remove_issuer(t, 0, 4);
        s.verify_op(t, 11); // a removed issuer's claim must not count
        s.add_topic(t, 0, 2);
        s.add_issuer(t, 0, 4, &[1]);
        s.update_issuer(t, 0, 4, &dup); // refused
        s.update_issuer(t, 0, 4, &dup[..2]); // [1,1] refused / [2,1] / [1,2] accepted
        s.allow_key(t, 4, 1, ED25519, 0, 1);
        s.add_claim(t, 8, &a1);
        s.verify_op(t, 11);
        s.update_issuer(t, 0, 4, &[2]);
        s.verify_op(t, 11);
        s.remove_issuer(t, 0, 4);
        s.verify_op(t, 11);
    }

    // (3c) ONE public key as a signing key under TWO scheme numbers, for the same and for different
    // topics; one (key, scheme) is removed: claims under the removed one must be refused, claims under
    // the kept one must still be confirmed. Both removal orders, all three verifiers.
    for (k, first_removed) in [(1u32, false), (1, true), (3, false), (5, false), (6, true)] {
        t.seq(&format!("directed one key two schemes key={} remove_first={}", k, first_removed));
        let mut s = Sim::new();
        setup_basic(&mut s, t);
        s.add_topic(t, 0, 1);
        s.add_topic(t, 0, 2);
        s.add_issuer(t, 0, 4, &[1, 2]);
        let a = s.keys[(k - 1) as usize].scheme();
        let b = a + 10;
        s.allow_key(t, 4, k, a, 0, 1); // Topics(1) = [(k,a)]
        s.allow_key(t, 4, k, b, 0, 1); // Topics(1) = [(k,a),(k,b)]
        s.allow_key(t, 4, k, b, 0, 2); // other topic, scheme b only
        let ca = s.good_claim_as(4, 8, 1, k, a, b"sa", rng);
        let cb = s.good_claim_as(4, 8, 1, k, b, b"sb", rng);
        let ca2 = s.good_claim_as(4, 8, 2, k, a, b"sa2", rng);
        let cb2 = s.good_claim_as(4, 8, 2, k, b, b"sb2", rng);
        let cb9 = s.good_claim_as(4, 9, 1, k, b, b"sb9", rng);
        let ca9 = s.good_claim_as(4, 9, 1, k, a, b"sa9", rng);
        s.valid(t, 8, &ca);
        s.valid(t, 8, &cb);
        s.valid(t, 8, &ca2); // scheme a is not allowed for topic 2
        s.valid(t, 8, &cb2);
        // identity 8 relies on scheme a for topic 1, identity 9 on scheme b; both use b for topic 2
        s.add_claim(t, 8, &ca);
        s.add_claim(t, 8, &cb2);
        s.add_claim(t, 9, &cb9);
        let cb29 = s.good_claim_as(4, 9, 2, k, b, b"sb29", rng);
        s.add_claim(t, 9, &cb29);
        s.verify_op(t, 11);
        s.verify_op(t, 12);
        let (gone, kept) = if first_removed { (a, b) } else { (b, a) };
        s.remove_key(t, 4, k, gone, 0, 1);
        s.valid(t, 8, if first_removed { &ca } else { &cb }); // removed (key, scheme): refused
        s.valid(t, 8, if first_removed { &cb } else { &ca }); // kept (key, scheme): confirmed
        s.valid(t, 9, if first_removed { &ca9 } else { &cb9 });
        s.valid(t, 9, if first_removed { &cb9 } else { &ca9 });
        s.valid(t, 8, &cb2); // topic 2 untouched
        s.verify_op(t, 11);
        s.verify_op(t, 12);
        s.remove_key(t, 4, k, gone, 0, 1); // already gone
        s.allow_key(t, 4, k, gone, 0, 1); // back
        s.valid(t, 8, &ca);
        s.valid(t, 8, &cb);
        s.remove_key(t, 4, k, kept, 0, 1);
        s.valid(t, 8, &ca);
        s.valid(t, 8, &cb);
        s.verify_op(t, 11);
        s.verify_op(t, 12);
        s.remove_key(t, 4, k, b, 0, 2);
        s.valid(t, 8, &cb2);
        s.verify_op(t, 11);
    }

    // (3d) an issuer's topic list narrowed by dropping SEVERAL topics in one update: two adjacent ones,
    // the first ones, the last ones, all but one, non-adjacent ones, reordered. Identity 8 holds claims
    // of issuers 4 AND 5 for every topic. After narrowing issuer 4, each topic is probed without touching
    // issuer 4's entries: issuer 5 gives up that one topic, so the topic hangs on issuer 4 alone.
    for (shape, new_list) in [
        ("drop-first-two", vec![3u32, 7]),
        ("drop-middle-two", vec![1, 7]),
        ("drop-last-two", vec![1, 2]),
        ("drop-first-three", vec![7]),
        ("drop-last-three", vec![1]),
        ("keep-second", vec![2]),
        ("drop-nonadjacent", vec![2, 7]),
        ("reordered-subset", vec![7, 1]),
    ] {
        t.seq(&format!("directed narrowing several topics {}", shape));
        let mut s = Sim::new();
        setup_basic(&mut s, t);
        for tp in TOPICS {
            s.add_topic(t, 0, tp);
        }
        s.add_issuer(t, 0, 4, &TOPICS);
        s.add_issuer(t, 0, 5, &TOPICS);
        for tp in TOPICS {
            s.allow_key(t, 4, 1, ED25519, 0, tp);
            let c = s.good_claim(4, 8, tp, 1, TS0 + 5000, b"n4", rng);
            s.add_claim(t, 8, &c);
            s.allow_key(t, 5, 3, SECP256R1, 0, tp);
            let c = s.good_claim(5, 8, tp, 3, TS0 + 5000, b"n5", rng);
            s.add_claim(t, 8, &c);
        }
        s.verify_op(t, 11);
        s.update_issuer(t, 0, 4, &new_list);
        s.verify_op(t, 11); // issuer 5 still settles everything
        for tp in TOPICS {
            let without: Vec<u32> = TOPICS.iter().copied().filter(|x| *x != tp).collect();
            s.update_issuer(t, 0, 5, &without);
            s.verify_op(t, 11); // ok iff issuer 4 kept `tp`
            s.update_issuer(t, 0, 5, &TOPICS);
        }
        // and all at once: issuer 5 de-listed, only what issuer 4 kept counts
        s.remove_issuer(t, 0, 5);
        s.verify_op(t, 11);
        s.update_issuer(t, 0, 4, &TOPICS);
        s.verify_op(t, 11);
    }
    // disjoint replacement and back
    t.seq("directed narrowing disjoint replacement");
    let mut s = Sim::new();
    setup_basic(&mut s, t);
    for tp in TOPICS {
        s.add_topic(t, 0, tp);
    }
    s.remove_topic(t, 0, 7);
    s.add_issuer(t, 0, 4, &[1, 2]);
    s.add_issuer(t, 0, 5, &[1, 2, 3]);
    for tp in [1u32, 2] {
        s.allow_key(t, 4, 3, SECP256R1, 0, tp);
        let c = s.good_claim(4, 8, tp, 3, TS0 + 5000, b"d", rng);
        s.add_claim(t, 8, &c);
    }
    s.allow_key(t, 5, 5, SECP256K1, 0, 3);
    let c3 = s.good_claim(5, 8, 3, 5, TS0 + 5000, b"d3", rng);
    s.add_claim(t, 8, &c3);
    s.verify_op(t, 11); // ok
    s.update_issuer(t, 0, 4, &[3]); // [1,2] -> [3]
    s.verify_op(t, 11); // must fail: nobody counted for 1 and 2
    s.update_issuer(t, 0, 4, &[2, 1]);
    s.verify_op(t, 11); // ok again
    s.update_issuer(t, 0, 5, &[1]); // [1,2,3] -> [1]: topic 3 loses its only issuer with a claim
    s.verify_op(t, 11);
    s.update_issuer(t, 0, 5, &[3]);
    s.verify_op(t, 11);

    // (3e) time passes (ledgers AND timestamp) without anybody touching an entry: what was revoked,
    // bumped, removed, de-listed or expired stays so; what was valid (long-lived claim) stays valid
    for k in [1u32, 3, 5] {
        t.seq(&format!("directed time passes key={}", k));
        let mut s = Sim::new();
        setup_basic(&mut s, t);
        s.add_topic(t, 0, 1);
        s.add_issuer(t, 0, 4, &[1]);
        let sch = s.keys[(k - 1) as usize].scheme();
        s.allow_key(t, 4, k, sch, 0, 1);
        let far = TS0 + 2_000_000_000;
        let c0 = s.good_claim(4, 8, 1, k, far, b"long", rng);
        s.add_claim(t, 8, &c0);
        s.verify_op(t, 11);
        s.advance(t, 31 * DAY);
        s.verify_op(t, 11); // still valid
        let d0 = c0.data.clone();
        s.revoke(t, 4, 8, 1, &d0, true);
        s.verify_op(t, 11);
        s.advance(t, DAY);
        s.valid(t, 8, &c0);
        s.advance(t, 31 * DAY); // longer than CLAIMS_EXTEND_AMOUNT, nobody asked in between
        s.valid(t, 8, &c0); // revoked stays revoked
        s.verify_op(t, 11);
        s.advance(t, 100 * DAY);
        s.valid(t, 8, &c0);
        s.revoke(t, 4, 8, 1, &d0, false);
        s.valid(t, 8, &c0);
        s.verify_op(t, 11);
        // nonce bump, then a long idle period
        s.invalidate(t, 4, 8, 1);
        s.advance(t, 31 * DAY);
        s.valid(t, 8, &c0); // pre-bump signature stays invalid
        s.verify_op(t, 11);
        let c1 = s.good_claim(4, 8, 1, k, far, b"long", rng);
        s.add_claim(t, 8, &c1);
        s.verify_op(t, 11);
        // key removed, idle, still removed
        s.remove_key(t, 4, k, sch, 0, 1);
        s.advance(t, 31 * DAY);
        s.valid(t, 8, &c1);
        s.verify_op(t, 11);
        s.allow_key(t, 4, k, sch, 0, 1);
        s.verify_op(t, 11);
        // issuer de-listed, idle, still de-listed
        s.remove_issuer(t, 0, 4);
        s.advance(t, 31 * DAY);
        s.verify_op(t, 11);
        s.add_issuer(t, 0, 4, &[1]);
        s.verify_op(t, 11);
        // a short-lived claim expires by the clock
        let short = s.good_claim(4, 9, 1, k, s.ts + 5 * DAY as u64, b"short", rng);
        s.add_claim(t, 9, &short);
        s.verify_op(t, 12);
        s.advance(t, DAY - 1);
        s.verify_op(t, 12); // one ledger before valid_until
        s.advance(t, 1);
        s.verify_op(t, 12); // timestamp == valid_until: expired
        s.advance(t, 100 * DAY);
        s.verify_op(t, 12);
        s.verify_op(t, 11);
    }

    // (4) tampering of every field, directly at the issuer
    for k in [1u32, 3, 5] {
        t.seq(&format!("directed tampering key={}", k));
        let mut s = Sim::new();
        setup_basic(&mut s, t);
        s.add_topic(t, 0, 1);
        s.add_topic(t, 0, 2);
        s.add_issuer(t, 0, 4, &[1, 2]);
        s.add_issuer(t, 0, 5, &[1]);
        let sch = s.keys[(k - 1) as usize].scheme();
        s.allow_key(t, 4, k, sch, 0, 1);
        s.allow_key(t, 5, k, sch, 0, 1);
        s.invalidate(t, 4, 8, 1);
        let data = s.data_with(TS0 + 1000, b"x");
        let good = Signed { net: 0, iss: 4, id: 8, topic: 1, nonce: 1, data: data.clone() };
        let g = s.make_claim(4, 1, sch, k, data.clone(), good.clone(), 0, rng);
        s.valid(t, 8, &g);
        for f in 0..6 {
            let mut sm = good.clone();
            match f {
                0 => sm.net = 1,
                1 => sm.iss = 5,
                2 => sm.id = 9,
                3 => sm.topic = 2,
                4 => sm.nonce = 0,
                _ => sm.data = s.data_with(TS0 + 1001, b"x"),
            }
            let c = s.make_claim(4, 1, sch, k, data.clone(), sm, 0, rng);
            s.valid(t, 8, &c);
        }
        for m in 1..=6 {
            let c = s.make_claim(4, 1, sch, k, data.clone(), good.clone(), m, rng);
            s.valid(t, 8, &c);
        }
        // scheme number confusion, unknown scheme, short data, key allowed for another topic only
        for sc in [ED25519, SECP256R1, SECP256K1, 104, 0] {
            let mut c = g.clone();
            c.scheme = sc;
            s.valid(t, 8, &c);
        }
        let short = s.make_claim(4, 1, sch, k, vec![1, 2, 3], Signed { data: vec![1, 2, 3], ..good.clone() }, 0, rng);
        s.valid(t, 8, &short);
        let d15 = data[..15].to_vec();
        let c15 = s.make_claim(4, 1, sch, k, d15.clone(), Signed { data: d15, ..good.clone() }, 0, rng);
        s.valid(t, 8, &c15);
        let d16 = data[..16].to_vec();
        let c16 = s.make_claim(4, 1, sch, k, d16.clone(), Signed { data: d16, ..good.clone() }, 0, rng);
        s.valid(t, 8, &c16);
        let t2 = s.make_claim(4, 2, sch, k, data.clone(), Signed { topic: 2, nonce: 0, ..good.clone() }, 0, rng);
        s.valid(t, 8, &t2);
        // the same signature presented to another issuer that allows the same key
        let mut at5 = g.clone();
        at5.issuer = 5;
        s.valid(t, 8, &at5);
        // wrong-scheme allowance of the key does not help
        s.remove_key(t, 4, k, sch, 0, 1);
        s.allow_key(t, 4, k, if sch == ED25519 { SECP256R1 } else { ED25519 }, 0, 1);
        s.valid(t, 8, &g);
        s.allow_key(t, 4, 0, sch, 0, 1); // empty key
    }
}

// ------------------------------------------------------------------------------------------
// generated sequences
// ------------------------------------------------------------------------------------------

fn subset(rng: &mut Rng, xs: &[u32]) -> Vec<u32> {
    let mut v: Vec<u32> = xs.iter().copied().filter(|_| rng.chance(65)).collect();
    if v.is_empty() && rng.chance(85) {
        v.push(*rng.pick(xs));
    }
    if rng.chance(6) && !v.is_empty() {
        v.push(v[0]); // duplicate
    }
    if rng.chance(30) {
        v.reverse();
    }
    v
}

/// a new topic list that DROPS topics of the stored list `old`: a run of two or more adjacent ones,
/// the first ones, the last ones, all but one, or everything (replaced by topics not in `old`)
fn narrowed(rng: &mut Rng, old: &[u32], registered: &[u32]) -> Vec<u32> {
    let n = old.len();
    let fresh: Vec<u32> = registered.iter().copied().filter(|t| !old.contains(t)).collect();
    let mut v: Vec<u32> = match rng.below(6) {
        0 if n >= 3 => {
            // drop a run of two adjacent topics
            let start = rng.below((n - 1) as u64) as usize;
            old.iter().enumerate().filter(|(j, _)| *j != start && *j != start + 1).map(|(_, t)| *t).collect()
        }
        1 if n >= 2 => old[2.min(n - 1)..].to_vec(), // drop the first two (the first of two)
        2 if n >= 2 => old[..(n.saturating_sub(2)).max(1)].to_vec(), // drop the last two (the last of two)
        3 if n >= 2 => vec![old[rng.below(n as u64) as usize]], // all but one
        4 if !fresh.is_empty() => fresh.clone(), // disjoint replacement
        _ => {
            if n >= 2 {
                vec![old[n - 1]] // keep only the last
            } else {
                old.to_vec()
            }
        }
    };
    if v.is_empty() {
        v = if !fresh.is_empty() { vec![fresh[0]] } else { old.to_vec() };
    }
    if rng.chance(35) {
        for f in fresh.iter() {
            if rng.chance(40) {
                v.push(*f);
            }
        }
    }
    v
}

fn own_keys(s: &Sim, i: usize, topic: u32) -> Vec<(u32, u32)> {
    s.allowed_keys(i, topic).into_iter().filter(|(k, sc)| *k >= 1 && *k <= 6 && s.keys[(*k - 1) as usize].scheme() == alg_of(*sc)).collect()
}

fn gen_claim(s: &mut Sim, rng: &mut Rng, perturb: bool) -> (usize, ClaimSpec) {
    let mut i = if rng.chance(92) { *rng.pick(&ISSUERS) } else { *rng.pick(&ISSUER_CANDS) };
    let d = if rng.chance(94) { *rng.pick(&IDS) } else { *rng.pick(&ID_CANDS) };
    let mut topic = *rng.pick(&TOPICS);
    if rng.chance(85) {
        // state-derived: an (issuer, topic) for which some key is allowed right now
        let mut cands = vec![];
        for &ii in ISSUERS.iter() {
            for &tt in TOPICS.iter() {
                if !own_keys(s, ii, tt).is_empty() {
                    cands.push((ii, tt));
                }
            }
        }
        if !cands.is_empty() {
            let c = *rng.pick(&cands);
            i = c.0;
            topic = c.1;
        }
    }
    let own: Vec<(u32, u32)> = if ISSUERS.contains(&i) { own_keys(s, i, topic) } else { vec![] };
    let (mut k, mut own_scheme) = if !own.is_empty() && rng.chance(92) {
        let p = *rng.pick(&own);
        (p.0, Some(p.1))
    } else {
        (rng.range(1, 6) as u32, None)
    };
    let vu = match rng.below(20) {
        0 => s.ts + 1,
        1 => s.ts + 2,
        2 => u64::MAX,
        3..=8 => s.ts + 2_000_000_000, // outlives every ledger jump
        _ => s.ts + *rng.pick(&[10u64, 100, 1000, 100_000]),
    };
    let live: Vec<Vec<u8>> = s
        .pool
        .iter()
        .filter(|d| d.len() >= 16 && u64::from_be_bytes(d[8..16].try_into().unwrap()) > s.ts)
        .cloned()
        .collect();
    let mut data = if !live.is_empty() && rng.chance(35) { rng.pick(&live).clone() } else { s.data_with(vu, &[rng.below(3) as u8]) };
    let nonce = if ISSUERS.contains(&i) { s.nonce(i, d, topic) } else { 0 };
    let mut sm = Signed { net: 0, iss: i, id: d, topic, nonce, data: data.clone() };
    let mut mangle = 0;
    let mut scheme_override: Option<u32> = None;
    if perturb {
        match rng.below(18) {
            0 => sm.net = 1,
            1 => sm.iss = *rng.pick(&ISSUER_CANDS),
            2 => sm.id = *rng.pick(&ID_CANDS),
            3 => sm.topic = *rng.pick(&TOPICS),
            4 => sm.nonce = if nonce > 0 && rng.chance(60) { nonce - 1 } else { nonce + 1 },
            5 => {
                let p = rng.below(data.len() as u64) as usize;
                sm.data[p] ^= 1 << rng.below(8);
            }
            6 => mangle = 1,
            7 => mangle = 2,
            8 => mangle = 3,
            9 => mangle = 4,
            10 => mangle = 5,
            11 => mangle = 6,
            12 => scheme_override = Some(*rng.pick(&[ED25519, SECP256R1, SECP256K1, 104])),
            13 => {
                k = rng.range(1, 6) as u32;
                own_scheme = None;
            }
            16 => {
                // the same key under the verifier's other scheme number
                let a = s.keys[(k - 1) as usize].scheme();
                scheme_override = Some(if own_scheme == Some(a) { a + 10 } else { a });
            }
            14 => {
                let n = rng.below(16) as usize;
                data.truncate(n);
                sm.data = data.clone();
            }
            _ => {
                let vu = match rng.below(5) {
                    0 => s.ts,
                    1 => s.ts.saturating_sub(1),
                    2 => 0,
                    3 => s.ts.saturating_sub(1000),
                    _ => s.ts,
                };
                data = s.data_with(vu, &[7]);
                sm.data = data.clone();
            }
        }
    }
    let native = s.keys[(k - 1) as usize].scheme();
    let scheme = scheme_override.unwrap_or(match own_scheme {
        Some(sc) if alg_of(sc) == native => sc,
        _ => {
            if rng.chance(80) {
                native
            } else {
                native + 10
            }
        }
    });
    let c = s.make_claim(i, topic, scheme, k, data, sm, mangle, rng);
    (d, c)
}

fn random_seq(t: &mut Trace, rng: &mut Rng, label: &str, len: u64) {
    t.seq(label);
    let mut s = Sim::new();
    // a plausible starting configuration, itself made of ordinary ops
    s.set_irs(t);
    s.set_cti(t, 0);
    for &tp in TOPICS.iter() {
        if rng.chance(75) {
            s.add_topic(t, 0, tp);
        }
    }
    let added: Vec<u32> = s.q::<SVec<u32>>(0, "get_claim_topics", args(&s.e, [])).map(|x| x.iter().collect()).unwrap_or_default();
    for &i in ISSUERS.iter() {
        if rng.chance(80) {
            let ts = if added.is_empty() || rng.chance(10) { subset(rng, &TOPICS) } else { subset(rng, &added) };
            s.add_issuer(t, 0, i, &ts);
        }
    }
    for &i in ISSUERS.iter() {
        for &tp in TOPICS.iter() {
            if rng.chance(45) {
                let k = rng.range(1, 6) as u32;
                let sc = s.keys[(k - 1) as usize].scheme() + if rng.chance(25) { 10 } else { 0 };
                s.allow_key(t, i, k, sc, 0, tp);
                if rng.chance(20) {
                    let sc2 = s.keys[(k - 1) as usize].scheme() + if sc > 110 { 0 } else { 10 };
                    s.allow_key(t, i, k, sc2, 0, tp);
                }
            }
        }
    }
    s.irs_add(t, 11, 8);
    s.irs_add(t, 12, if rng.chance(80) { 9 } else { 8 });
    for _ in 0..len {
        let r = rng.below(100);
        let reg = if rng.chance(85) { 0 } else { 1 };
        let cur_topics: Vec<u32> = s.q::<SVec<u32>>(reg, "get_claim_topics", args(&s.e, [])).map(|x| x.iter().collect()).unwrap_or_default();
        let cur_issuers: Vec<usize> = s
            .q::<SVec<Address>>(reg, "get_trusted_issuers", args(&s.e, []))
            .map(|x| x.iter().filter_map(|a| s.u.index_of(&a)).collect())
            .unwrap_or_default();
        let sub = |rng: &mut Rng| -> Vec<u32> {
            if !cur_topics.is_empty() && rng.chance(80) {
                subset(rng, &cur_topics)
            } else {
                subset(rng, &TOPICS)
            }
        };
        if r < 5 {
            let absent: Vec<u32> = TOPICS.iter().copied().filter(|x| !cur_topics.contains(x)).collect();
            let tp = if !absent.is_empty() && rng.chance(80) { *rng.pick(&absent) } else { *rng.pick(&TOPICS) };
            s.add_topic(t, reg, tp);
        } else if r < 9 {
            let tp = if !cur_topics.is_empty() && rng.chance(80) { *rng.pick(&cur_topics) } else { *rng.pick(&TOPICS) };
            s.remove_topic(t, reg, tp);
        } else if r < 14 {
            let absent: Vec<usize> = ISSUER_CANDS.iter().copied().filter(|x| !cur_issuers.contains(x)).collect();
            let i = if !absent.is_empty() && rng.chance(80) { *rng.pick(&absent) } else { *rng.pick(&ISSUER_CANDS) };
            let ts = sub(rng);
            s.add_issuer(t, reg, i, &ts);
        } else if r < 18 {
            let i = if !cur_issuers.is_empty() && rng.chance(80) { *rng.pick(&cur_issuers) } else { *rng.pick(&ISSUER_CANDS) };
            s.remove_issuer(t, reg, i);
        } else if r < 23 {
            let i = if !cur_issuers.is_empty() && rng.chance(80) { *rng.pick(&cur_issuers) } else { *rng.pick(&ISSUER_CANDS) };
            let old: Vec<u32> = s.q::<SVec<u32>>(reg, "get_trusted_issuer_claim_topics", args(&s.e, [s.a(i)])).map(|x| x.iter().collect()).unwrap_or_default();
            let ts = if old.len() >= 2 && rng.chance(50) { narrowed(rng, &old, &cur_topics) } else { sub(rng) };
            s.update_issuer(t, reg, i, &ts);
        } else if r < 27 {
            let a = *rng.pick(&ACCOUNTS);
            let d = *rng.pick(&ID_CANDS);
            match rng.below(5) {
                0 | 1 => s.irs_add(t, a, d),
                2 => s.irs_modify(t, a, d),
                3 => s.irs_remove(t, a),
                _ => {
                    let b = *rng.pick(&ACCOUNTS);
                    s.irs_recover(t, a, b)
                }
            };
        } else if r < 35 {
            let mut i = *rng.pick(&ISSUERS);
            let mut tp = *rng.pick(&TOPICS);
            if rng.chance(75) {
                let mut cands = vec![];
                for &ii in ISSUERS.iter() {
                    if let Some(ts) = s.q::<SVec<u32>>(reg, "get_trusted_issuer_claim_topics", args(&s.e, [s.a(ii)])) {
                        for tt in ts.iter() {
                            cands.push((ii, tt));
                        }
                    }
                }
                if !cands.is_empty() {
                    let c = *rng.pick(&cands);
                    i = c.0;
                    tp = c.1;
                }
            }
            if rng.chance(25) {
                // the key bytes of an existing signing key under ANOTHER scheme number, same or other topic
                let mut cands = vec![];
                for &ii in ISSUERS.iter() {
                    for &tt in TOPICS.iter() {
                        for (k, sc) in s.allowed_keys(ii, tt) {
                            cands.push((ii, tt, k, sc));
                        }
                    }
                }
                if !cands.is_empty() {
                    let (ii, tt, k, sc) = *rng.pick(&cands);
                    let native = s.keys[(k - 1) as usize].scheme();
                    let other = if rng.chance(75) {
                        if sc == native { native + 10 } else { native }
                    } else {
                        *rng.pick(&SCHEMES)
                    };
                    let tp2 = if rng.chance(70) { tt } else { tp };
                    s.allow_key(t, ii, k, other, reg, tp2);
                    continue;
                }
            }
            let k = if rng.chance(4) { 0 } else { rng.range(1, 6) as u32 };
            let sc = if k == 0 || rng.chance(8) {
                *rng.pick(&SCHEMES)
            } else if rng.chance(35) {
                s.keys[(k - 1) as usize].scheme() + 10
            } else {
                s.keys[(k - 1) as usize].scheme()
            };
            s.allow_key(t, i, k, sc, reg, tp);
        } else if r < 40 {
            // remove a key that is there (state-derived), sometimes a random one
            let mut cands = vec![];
            for &ii in ISSUERS.iter() {
                for &tt in TOPICS.iter() {
                    for (k, sc) in s.allowed_keys(ii, tt) {
                        cands.push((ii, tt, k, sc));
                    }
                }
            }
            if !cands.is_empty() && rng.chance(80) {
                let (i, tp, k, sc) = *rng.pick(&cands);
                s.remove_key(t, i, k, sc, reg, tp);
            } else {
                let i = *rng.pick(&ISSUERS);
                let tp = *rng.pick(&TOPICS);
                let k = rng.range(1, 6) as u32;
                let sc = s.keys[(k - 1) as usize].scheme();
                s.remove_key(t, i, k, sc, reg, tp);
            }
        } else if r < 62 {
            if !s.accepted.is_empty() && rng.chance(22) {
                // a claim accepted earlier, byte for byte (mostly to the same identity): the issuer is asked again
                let (d0, c) = s.accepted[s.accepted.len() - 1 - rng.below(s.accepted.len().min(4) as u64) as usize].clone();
                let d = if rng.chance(85) { d0 } else { *rng.pick(&IDS) };
                s.add_claim(t, d, &c);
                continue;
            }
            let pb = rng.chance(25);
            let (d, c) = gen_claim(&mut s, rng, pb);
            s.add_claim(t, d, &c);
        } else if r < 70 {
            let pb = rng.chance(60);
            let (d, c) = gen_claim(&mut s, rng, pb);
            let d = if IDS.contains(&d) { d } else { *rng.pick(&IDS) };
            // mostly under its own id; sometimes under another issuer's / topic's id
            let (ci_, ct) = if rng.chance(70) { (c.issuer, c.topic) } else { (*rng.pick(&ISSUER_CANDS), *rng.pick(&TOPICS)) };
            let mut c = c;
            if rng.chance(25) {
                // the stored claim lies about its own topic / issuer (signature and id untouched)
                if rng.chance(50) {
                    c.topic = *rng.pick(&TOPICS);
                } else {
                    c.issuer = *rng.pick(&ISSUER_CANDS);
                }
            }
            s.raw_put(t, d, ci_, ct, &c);
        } else if r < 74 {
            let mut d = *rng.pick(&IDS);
            let mut ci_ = *rng.pick(&ISSUER_CANDS);
            let mut ct = *rng.pick(&TOPICS);
            if rng.chance(75) {
                let mut cands = vec![];
                for &dd in IDS.iter() {
                    for &ii in ISSUER_CANDS.iter() {
                        for &tt in TOPICS.iter() {
                            if s.q::<Claim>(dd, "get_claim", args(&s.e, [v(&s.e, s.claim_id(ii, tt))])).is_some() {
                                cands.push((dd, ii, tt));
                            }
                        }
                    }
                }
                if !cands.is_empty() {
                    let c = *rng.pick(&cands);
                    d = c.0;
                    ci_ = c.1;
                    ct = c.2;
                }
            }
            // the library's remove_claim de-indexes under the claim's own topic field; keep the
            // identity contract consistent: use it only when that is the id's topic
            let consistent = s
                .q::<Claim>(d, "get_claim", args(&s.e, [v(&s.e, s.claim_id(ci_, ct))]))
                .map(|c| c.topic == ct)
                .unwrap_or(true);
            if consistent && rng.chance(60) {
                s.remove_claim(t, d, ci_, ct);
            } else {
                s.raw_del(t, d, ci_, ct);
            }
        } else if r < 78 {
            let mut i = *rng.pick(&ISSUERS);
            let mut d = *rng.pick(&ID_CANDS);
            let mut tp = *rng.pick(&TOPICS);
            if rng.chance(70) {
                // of a claim some identity holds
                let mut cands = vec![];
                for &dd in IDS.iter() {
                    for &ii in ISSUERS.iter() {
                        for &tt in TOPICS.iter() {
                            if s.q::<Claim>(dd, "get_claim", args(&s.e, [v(&s.e, s.claim_id(ii, tt))])).is_some() {
                                cands.push((dd, ii, tt));
                            }
                        }
                    }
                }
                if !cands.is_empty() {
                    let c = *rng.pick(&cands);
                    d = c.0;
                    i = c.1;
                    tp = c.2;
                }
            }
            s.invalidate(t, i, d, tp);
        } else if r < 84 {
            let i = *rng.pick(&ISSUERS);
            let d = *rng.pick(&IDS);
            let tp = *rng.pick(&TOPICS);
            let data = if !s.pool.is_empty() && rng.chance(90) { rng.pick(&s.pool).clone() } else { vec![1, 2, 3] };
            let on = rng.chance(70);
            s.revoke(t, i, d, tp, &data, on);
        } else if r < 86 {
            let n = *rng.pick(&[DAY, DAY, 31 * DAY, 31 * DAY, 100 * DAY, 1, 29 * DAY, 30 * DAY]);
            s.advance(t, n);
        } else if r < 89 {
            let ts = match rng.below(6) {
                0 => s.ts + 1,
                1 => s.ts + 2,
                2 => s.ts + 10,
                3 => s.ts + 100,
                4 => s.ts.saturating_sub(1),
                _ => s.ts + 1000,
            };
            s.time(t, ts);
        } else if r < 96 {
            let pb = rng.chance(45);
            let (d, c) = gen_claim(&mut s, rng, pb);
            s.valid(t, d, &c);
        } else if r < 99 {
            let a = *rng.pick(&ACCOUNTS);
            s.verify_op(t, a);
        } else {
            let r = *rng.pick(&[0usize, 1, 7]);
            s.set_cti(t, r);
        }
    }
}

fn main() {
    let mut t = Trace::from_args();
    let seed = seed_from_env();
    let thorough = arg_str("--tier").as_deref() == Some("thorough");
    let nseq = arg_u64("--seqs", if thorough { 150 } else { 12 });
    let len = arg_u64("--len", 60);
    let mut rng = Rng::new(seed);
    directed(&mut t, &mut rng);
    for k in 0..nseq {
        random_seq(&mut t, &mut rng, &format!("rand k={} seed={}", k, seed), len);
    }
    t.finish();
}
