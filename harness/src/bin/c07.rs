//! C07 correspondence: the two-step hand-over of owner / admin.
//!
//! Real code driven: `examples/ownable` (compiled from the working tree with the tree's
//! `#[only_owner]` macro) and the `AccessControl` trait defaults (admin transfer) behind a
//! harness contract, in the native Soroban host with `min_temp_entry_ttl` in {1, 16}, exact
//! authorization subsets and the ledger moved around every `live_until_ledger` ever offered.
//!
//! There is no getter for the pending account; it is observed only through accept behaviour: after
//! every step a `Prober` contract attempts the accept with everybody authorizing, reports who
//! became holder through its error code and thereby rolls the attempt back.
use ozharness::*;
use soroban_sdk::{
    contract, contractimpl, panic_with_error, Address, Env, Error, IntoVal, Symbol, Val, Vec,
};
use stellar_access::access_control::{set_admin, AccessControl};
use stellar_macros::only_admin;

#[path = "/repo/examples/ownable/src/contract.rs"]
#[allow(dead_code)]
mod ownable_example;

/// AccessControl trait defaults + one `#[only_admin]` entry point.
#[contract]
pub struct Acl;

#[contractimpl]
impl Acl {
    pub fn __constructor(e: &Env, admin: Address) {
        set_admin(e, &admin);
    }

    #[only_admin]
    pub fn admin_only(e: &Env) -> u32 {
        7
    }
}

#[contractimpl(contracttrait)]
impl AccessControl for Acl {}

/// Non-committing accept attempt: always fails, the error code says what happened.
///   1 = accept failed, 2 = accepted but the new holder is outside the universe,
///   10 + i = accepted and universe[i] became the holder.
#[contract]
pub struct Prober;

#[contractimpl]
impl Prober {
    pub fn probe(e: &Env, target: Address, accept_fn: Symbol, getter: Symbol, universe: Vec<Address>) {
        let r = e.try_invoke_contract::<Val, Error>(&target, &accept_fn, Vec::new(e));
        let code = match r {
            Ok(Ok(_)) => {
                let h: Option<Address> = e.invoke_contract(&target, &getter, Vec::new(e));
                match h.and_then(|h| universe.iter().position(|a| a == h)) {
                    Some(i) => 10 + i as u32,
                    None => 2,
                }
            }
            _ => 1,
        };
        panic_with_error!(e, Error::from_contract_error(code));
    }
}

type StdVec<T> = std::vec::Vec<T>;

const N: usize = 4;

#[derive(Clone, Copy, PartialEq)]
enum Kind {
    Owner,
    Admin,
}

impl Kind {
    fn name(self) -> &'static str {
        match self {
            Kind::Owner => "owner",
            Kind::Admin => "admin",
        }
    }
    fn f_offer(self) -> &'static str {
        match self {
            Kind::Owner => "transfer_ownership",
            Kind::Admin => "transfer_admin_role",
        }
    }
    fn f_accept(self) -> &'static str {
        match self {
            Kind::Owner => "accept_ownership",
            Kind::Admin => "accept_admin_transfer",
        }
    }
    fn f_renounce(self) -> &'static str {
        match self {
            Kind::Owner => "renounce_ownership",
            Kind::Admin => "renounce_admin",
        }
    }
    fn f_guarded(self) -> &'static str {
        match self {
            Kind::Owner => "increment",
            Kind::Admin => "admin_only",
        }
    }
    fn f_get(self) -> &'static str {
        match self {
            Kind::Owner => "get_owner",
            Kind::Admin => "get_admin",
        }
    }
}

struct Sim {
    e: Env,
    u: Universe,
    c: Address,
    prober: Address,
    kind: Kind,
    now: u32,
    min_temp: u32,
    max_ttl: u32,
    /// every live_until_ledger ever offered (accepted or not) and the end of the minimum
    /// storage lifetime of every offer: ledgers worth visiting
    marks: StdVec<u32>,
    /// harness-side bookkeeping of the last accepted offer (generator guidance only)
    last_offer: Option<(usize, u32)>,
    /// the harness pays "rent" for the contract instance after every ledger move (sequences with a
    /// tiny max_entry_ttl); off in the long-idle family, where nothing may touch any entry
    rent: bool,
    /// the constructor failed under this ledger configuration (only possible on a modified tree,
    /// e.g. a TTL extension larger than this sequence's max_entry_ttl): the sequence is skipped
    dead: bool,
}

const DAY: u32 = 17_280;
/// max_entry_ttl of the long-idle family (about one year): persistent / instance entries of the
/// unmodified code stay live over every idle gap
const LONG_TTL: u32 = 6_312_000;

impl Sim {
    fn new(t: &mut Trace, what: &str, kind: Kind, min_temp: u32, max_ttl: u32, start: u32) -> Sim {
        Self::new_held_by(t, what, kind, min_temp, max_ttl, start, false)
    }
    /// `self_held`: the contract is its own owner / admin (as a self-administered timelock controller
    /// is). Nobody can sign for it here, so every holder-only call must be refused; the holder is
    /// shown as index N.
    fn new_held_by(t: &mut Trace, what: &str, kind: Kind, min_temp: u32, max_ttl: u32, start: u32, self_held: bool) -> Sim {
        let e = new_env(start, min_temp, max_ttl);
        let mut u = Universe::new(&e, N);
        let own = <Address as soroban_sdk::testutils::Address>::generate(&e);
        // the contract's own address is always account N of the universe (an offer may name it; nobody
        // can sign for it here)
        u.push(own.clone());
        let holder0 = if self_held { own.clone() } else { u.a(0).clone() };
        let c = catch(|| match (kind, self_held) {
            (Kind::Owner, false) => e.register_at(&own, ownable_example::ExampleContract, (holder0.clone(),)),
            (Kind::Admin, false) => e.register_at(&own, Acl, (holder0.clone(),)),
            (Kind::Owner, true) => e.register_at(&own, ownable_example::ExampleContract, (holder0.clone(),)),
            (Kind::Admin, true) => e.register_at(&own, Acl, (holder0.clone(),)),
        });
        let prober = e.register(Prober, ());
        let (c, dead) = match c {
            Some(c) => (c, false),
            None => {
                t.count("skipped:constructor-failed");
                (prober.clone(), true)
            }
        };
        if dead {
            return Sim { e, u, c, prober, kind, now: start, min_temp, max_ttl, marks: vec![], last_offer: None, rent: false, dead };
        }
        t.seq(&format!(
            "{} kind={} min_temp={} max_ttl={} start={} holder={}",
            what,
            kind.name(),
            min_temp,
            max_ttl,
            start,
            if self_held { N } else { 0 }
        ));
        Sim { e, u, c, prober, kind, now: start, min_temp, max_ttl, marks: vec![], last_offer: None, rent: max_ttl < LONG_TTL, dead }
    }
    fn holder(&self) -> Option<usize> {
        if self.dead {
            return None;
        }
        let h: Option<Address> = query(&self.e, &self.c, self.kind.f_get(), args(&self.e, [])).unwrap();
        h.map(|a| self.u.index_of(&a).unwrap_or(99))
    }
    /// who would become holder if accept were called now with everybody authorizing
    fn probe(&self) -> Option<usize> {
        let e = &self.e;
        let mut uni: Vec<Address> = Vec::new(e);
        for a in self.u.addrs.iter() {
            uni.push_back(a.clone());
        }
        let argv: Vec<Val> = args(
            e,
            [
                self.c.clone().into_val(e),
                Symbol::new(e, self.kind.f_accept()).into_val(e),
                Symbol::new(e, self.kind.f_get()).into_val(e),
                uni.into_val(e),
            ],
        );
        e.mock_all_auths_allowing_non_root_auth();
        let r = catch(|| e.try_invoke_contract::<Val, Error>(&self.prober, &Symbol::new(e, "probe"), argv));
        let code = match r {
            Some(Err(Ok(err))) if err.is_type(soroban_sdk::xdr::ScErrorType::Contract) => err.get_code(),
            _ => panic!("prober did not answer with a contract error"),
        };
        match code {
            1 => None,
            2 => Some(99),
            c if c >= 10 => Some((c - 10) as usize),
            _ => panic!("prober: unexpected code"),
        }
    }
    fn events(&self) -> String {
        let mut out = vec![];
        for ev in last_events(&self.e) {
            let a = |name: &str| ev_addr(&self.u, ev_field(&ev.data, name));
            let lu = ev_field(&ev.data, "live_until_ledger").and_then(sc_u32).map(|x| x.to_string()).unwrap_or("?".into());
            match ev.name.as_str() {
                "ownership_transfer" => out.push(format!("xfer:{}:{}:{}", a("old_owner"), a("new_owner"), lu)),
                "ownership_transfer_completed" => out.push(format!("done:{}:-", a("new_owner"))),
                "ownership_renounced" => out.push(format!("renounced:{}", a("old_owner"))),
                "admin_transfer_initiated" => {
                    out.push(format!("xfer:{}:{}:{}", ev_addr(&self.u, ev.topics.get(0)), a("new_admin"), lu))
                }
                "admin_transfer_completed" => {
                    out.push(format!("done:{}:{}", ev_addr(&self.u, ev.topics.get(0)), a("previous_admin")))
                }
                "admin_renounced" => out.push(format!("renounced:{}", ev_addr(&self.u, ev.topics.get(0)))),
                other => out.push(format!("other:{}", other)),
            }
        }
        if out.is_empty() {
            "-".into()
        } else {
            out.join(";")
        }
    }
    fn show(o: Option<usize>) -> String {
        o.map(|x| x.to_string()).unwrap_or("-".into())
    }
    fn observe(&self, t: &mut Trace, ok: bool, evs: String) {
        t.obs(&format!(
            "{} holder={} pend={} now={} ev={}",
            if ok { "ok" } else { "err" },
            Self::show(self.holder()),
            Self::show(self.probe()),
            self.now,
            evs
        ));
    }
    fn invoke(&mut self, t: &mut Trace, line: String, func: &str, argv: Vec<Val>, auth: &[usize]) -> bool {
        if self.dead {
            return false;
        }
        t.op(&line);
        let signers: StdVec<&Address> = auth.iter().map(|&i| self.u.a(i)).collect();
        let r = call(&self.e, &self.c, func, argv, &signers);
        let evs = if r.is_some() { self.events() } else { "-".to_string() };
        self.observe(t, r.is_some(), evs);
        r.is_some()
    }
    fn offer(&mut self, t: &mut Trace, new: usize, lu: u32, auth: &[usize]) -> bool {
        let e = self.e.clone();
        let argv = args(&e, [self.u.a(new).into_val(&e), v(&e, lu)]);
        if lu != 0 {
            self.marks.push(lu);
            self.marks.push(self.now.saturating_add(self.min_temp - 1));
        }
        let ok = self.invoke(t, format!("rt offer new={} lu={} auth={}", new, lu, join(auth)), self.kind.f_offer(), argv, auth);
        if ok {
            self.last_offer = if lu == 0 { None } else { Some((new, lu)) };
        }
        ok
    }
    fn accept(&mut self, t: &mut Trace, auth: &[usize]) -> bool {
        let e = self.e.clone();
        let ok = self.invoke(t, format!("rt accept auth={}", join(auth)), self.kind.f_accept(), args(&e, []), auth);
        if ok {
            self.last_offer = None;
        }
        ok
    }
    fn renounce(&mut self, t: &mut Trace, auth: &[usize]) -> bool {
        let e = self.e.clone();
        self.invoke(t, format!("rt renounce auth={}", join(auth)), self.kind.f_renounce(), args(&e, []), auth)
    }
    fn guarded(&mut self, t: &mut Trace, auth: &[usize]) -> bool {
        let e = self.e.clone();
        self.invoke(t, format!("rt guarded auth={}", join(auth)), self.kind.f_guarded(), args(&e, []), auth)
    }
    fn advance(&mut self, t: &mut Trace, n: u32) {
        if self.dead {
            return;
        }
        self.now += n;
        set_ledger(&self.e, self.now, self.min_temp, self.max_ttl);
        if self.rent {
            // rent: keep the contract instance alive however far the ledger moves (instance /
            // persistent archival is outside the property)
            let (c, m) = (self.c.clone(), self.max_ttl);
            self.e.as_contract(&c, || self.e.storage().instance().extend_ttl(m - 1, m - 1));
            let p = self.prober.clone();
            self.e.as_contract(&p, || self.e.storage().instance().extend_ttl(m - 1, m - 1));
        }
        t.op(&format!("rt advance n={}", n));
        self.observe(t, true, "-".into());
    }
    fn goto(&mut self, t: &mut Trace, ledger: u32) {
        assert!(ledger >= self.now);
        self.advance(t, ledger - self.now);
    }
    fn max_live(&self) -> u32 {
        self.now + self.max_ttl - 1
    }
}

// ------------------------------------------------------------------------------------------
// directed scenarios
// ------------------------------------------------------------------------------------------

fn directed(t: &mut Trace) {
    for kind in [Kind::Owner, Kind::Admin] {
        // DESIGN.md section 8, defect 2: a shorter offer replacing a longer one
        let mut s = Sim::new(t, "directed override-by-shorter-offer", kind, 1, 200_000, 100);
        s.offer(t, 1, 1100, &[0]);
        s.offer(t, 2, 110, &[0]);
        s.goto(t, 110);
        s.guarded(t, &[0]);
        s.goto(t, 111);
        s.goto(t, 500);
        s.accept(t, &[1, 2]);
        s.guarded(t, &[0]);
        s.guarded(t, &[2]);

        // the invitee is the contract's own address: nobody can accept for it, whoever else signs
        let mut s = Sim::new(t, "directed offer to the contract itself", kind, 1, 200_000, 100);
        s.offer(t, N, 150, &[0]);
        s.accept(t, &[]);
        s.accept(t, &[1, 2, 3]);
        s.accept(t, &[0]);
        s.guarded(t, &[0]);
        s.goto(t, 150);
        s.accept(t, &[]);
        s.goto(t, 151);
        s.accept(t, &[0, 1, 2, 3]);
        s.guarded(t, &[0]);

        // the same with an equal and with a longer replacement; accept exactly at lu and lu+1
        let mut s = Sim::new(t, "directed replace equal/longer, accept at lu", kind, 1, 200_000, 100);
        s.offer(t, 1, 120, &[0]);
        s.offer(t, 2, 120, &[0]);
        s.offer(t, 3, 130, &[0]);
        s.goto(t, 121);
        s.accept(t, &[1]);
        s.accept(t, &[2]);
        s.goto(t, 130);
        s.accept(t, &[0, 1, 2]);
        s.accept(t, &[3]);
        s.accept(t, &[3]);
        s.guarded(t, &[0]);
        s.guarded(t, &[3]);
        s.offer(t, 0, 131, &[3]);
        s.goto(t, 132);
        s.accept(t, &[0]);
        s.renounce(t, &[3]);
        s.guarded(t, &[3]);
        s.offer(t, 0, 140, &[3]);
        s.accept(t, &[0, 1, 2, 3]);

        // cancel: wrong account, right account, twice, after expiry; renounce while pending
        let mut s = Sim::new(t, "directed cancel / renounce", kind, 1, 1000, 5000);
        s.offer(t, 1, 0, &[0]);
        s.offer(t, 1, 5010, &[1]);
        s.offer(t, 1, 5010, &[]);
        s.offer(t, 1, 5010, &[0]);
        s.renounce(t, &[0]);
        s.offer(t, 2, 0, &[0]);
        s.offer(t, 1, 0, &[1]);
        s.offer(t, 1, 0, &[0]);
        s.offer(t, 1, 0, &[0]);
        s.accept(t, &[1]);
        s.offer(t, 2, 5005, &[0]);
        s.goto(t, 5006);
        s.offer(t, 2, 0, &[0]);
        s.accept(t, &[2]);
        s.offer(t, 2, 5005, &[0]);
        s.offer(t, 2, 5006, &[0]);
        s.offer(t, 2, 5006 + 999, &[0]);
        s.offer(t, 3, 5006 + 1000, &[0]);
        s.offer(t, 3, u32::MAX, &[0]);
        s.goto(t, 6005);
        s.renounce(t, &[0]);
        s.accept(t, &[0, 1, 3]);
        s.goto(t, 6006);
        s.accept(t, &[2]);
        s.renounce(t, &[1, 2, 3]);
        s.renounce(t, &[0]);
        s.guarded(t, &[0, 1, 2, 3]);
        s.offer(t, 1, 6100, &[0, 1, 2, 3]);
        s.accept(t, &[0, 1, 2, 3]);

        // the contract is its own owner / admin: nobody here can sign for it, so no offer, cancel,
        // renounce or holder-only call may ever succeed, whoever signs
        let mut s = Sim::new_held_by(t, "directed self-held", kind, 1, 200_000, 100, true);
        s.offer(t, 1, 150, &[1]);
        s.offer(t, 1, 150, &[]);
        s.offer(t, 1, 150, &[0, 1, 2, 3]);
        s.guarded(t, &[2]);
        s.guarded(t, &[]);
        s.accept(t, &[1]);
        s.renounce(t, &[3]);
        s.renounce(t, &[]);
        s.offer(t, 2, 0, &[2]);
        s.advance(t, 60);
        s.accept(t, &[0, 1, 2, 3]);
        s.guarded(t, &[0, 1, 2, 3]);

        // minimum TTL 16: the entry outlives a short offer (documented), but a replacement
        // by a shorter offer must not inherit the older, longer lifetime
        let mut s = Sim::new(t, "directed minimum ttl caveat", kind, 16, 200_000, 100);
        s.offer(t, 1, 103, &[0]);
        s.goto(t, 104);
        s.renounce(t, &[0]);
        s.goto(t, 115);
        s.goto(t, 116);
        s.offer(t, 1, 5000, &[0]);
        s.goto(t, 120);
        s.offer(t, 2, 140, &[0]);
        s.goto(t, 140);
        s.goto(t, 141);
        s.accept(t, &[2]);
        s.offer(t, 3, 150, &[0]);
        s.goto(t, 150);
        s.offer(t, 1, 150, &[0]);
        s.goto(t, 165);
        s.accept(t, &[3]);
        s.accept(t, &[1]);
        s.guarded(t, &[1]);
    }
}

// ------------------------------------------------------------------------------------------
// long-idle family: the holder entry (and everything else that must persist) survives a day, a
// month and a hundred days without anybody touching it
// ------------------------------------------------------------------------------------------

fn long_idle(t: &mut Trace, rng: &mut Rng, n_random: u64) {
    let gaps = [DAY, 31 * DAY, 100 * DAY];
    for kind in [Kind::Owner, Kind::Admin] {
        for min_temp in [1u32, 16] {
            // the holder set by the constructor
            let mut s = Sim::new(t, "long-idle constructor holder", kind, min_temp, LONG_TTL, 100);
            s.guarded(t, &[0]);
            for g in gaps {
                s.advance(t, g); // one jump, nothing touched in between
                s.guarded(t, &[0]);
                s.guarded(t, &[1, 2, 3]);
            }
            s.offer(t, 1, s.now + 40 * DAY, &[0]); // an offer that outlives a month of silence
            s.advance(t, 31 * DAY);
            s.accept(t, &[2]);
            s.accept(t, &[1]);
            // the holder installed by accept
            for g in gaps {
                s.advance(t, g);
                s.guarded(t, &[1]);
                s.guarded(t, &[0]);
            }
            s.offer(t, 2, s.now + 5, &[1]);
            s.advance(t, 31 * DAY); // the short offer is long gone, the holder is not
            s.accept(t, &[2]);
            s.guarded(t, &[1]);
            s.renounce(t, &[1]);
            // renounced stays renounced
            for g in gaps {
                s.advance(t, g);
                s.guarded(t, &[0, 1, 2, 3]);
                s.offer(t, 1, s.now + 10, &[0, 1, 2, 3]);
                s.accept(t, &[0, 1, 2, 3]);
            }
        }
    }
    for k in 0..n_random {
        let kind = if rng.chance(50) { Kind::Owner } else { Kind::Admin };
        let min_temp = if rng.chance(50) { 1 } else { 16 };
        let mut s = Sim::new(t, &format!("long-idle rand k={}", k), kind, min_temp, LONG_TTL, 100);
        let mut idle_total: u32 = 0;
        for _ in 0..30 {
            let holder = s.holder();
            match rng.below(10) {
                0..=2 if idle_total < 240 * DAY => {
                    let g = *rng.pick(&gaps);
                    idle_total += g;
                    s.advance(t, g);
                }
                0..=4 => {
                    let auth = gen_auth(rng, holder);
                    s.guarded(t, &auth);
                }
                5 | 6 => {
                    let lu = s.now + *rng.pick(&[3u32, DAY, 40 * DAY]);
                    let auth = gen_auth(rng, holder);
                    s.offer(t, rng.below(N as u64) as usize, lu, &auth);
                }
                7 | 8 => {
                    let right = s.last_offer.map(|(a, _)| a);
                    let auth = gen_auth(rng, right.or(Some(1)));
                    s.accept(t, &auth);
                }
                _ => {
                    let auth = gen_auth(rng, holder);
                    if rng.chance(30) {
                        s.renounce(t, &auth);
                    } else {
                        s.guarded(t, &auth);
                    }
                }
            }
        }
    }
}

// ------------------------------------------------------------------------------------------
// generated sequences
// ------------------------------------------------------------------------------------------

fn gen_auth(rng: &mut Rng, right: Option<usize>) -> StdVec<usize> {
    let mut r: StdVec<usize> = vec![];
    // index N is the contract itself (self-held sequences): nobody can sign for it here
    let right = right.filter(|&x| x < N);
    match (right, rng.below(100)) {
        (Some(x), 0..=64) => {
            r.push(x);
            if rng.chance(20) {
                r.push(rng.below(N as u64) as usize);
            }
        }
        (Some(x), 65..=79) => {
            // everybody but the right one
            for i in 0..N {
                if i != x && rng.chance(70) {
                    r.push(i);
                }
            }
        }
        _ => {
            for i in 0..N {
                if rng.chance(40) {
                    r.push(i);
                }
            }
        }
    }
    r.sort();
    r.dedup();
    r
}

fn gen_lu(rng: &mut Rng, s: &Sim) -> u32 {
    let now = s.now;
    let maxl = s.max_live();
    let cur = s.last_offer.map(|(_, lu)| lu);
    match rng.below(20) {
        0 => now.saturating_sub(1),
        1 => now,
        2 => now + 1,
        3 => maxl,
        4 => maxl + 1,
        5 => u32::MAX,
        6 => now + s.min_temp - 1,
        7 => now + s.min_temp,
        8 => (now + s.min_temp).saturating_sub(2).max(now),
        // replace the current offer by a shorter / equal / longer one
        9 | 10 => cur.map(|l| l.saturating_sub(1 + rng.below(20) as u32).max(now)).unwrap_or(now + 3),
        11 => cur.unwrap_or(now + 5).max(now),
        12 => cur.map(|l| l.saturating_add(1 + rng.below(20) as u32)).unwrap_or(now + 7).max(now).min(maxl),
        13 => now + 200 + rng.below(600) as u32,
        _ => now + rng.below(40) as u32,
    }
}

fn random_sequence(t: &mut Trace, rng: &mut Rng, k: u64, seed: u64, len: u64) {
    let kind = if rng.chance(50) { Kind::Owner } else { Kind::Admin };
    let min_temp = if rng.chance(50) { 1 } else { 16 };
    let max_ttl = *rng.pick(&[200_000u32, 1000, 64]);
    let start = *rng.pick(&[2u32, 100, 5000]);
    let self_held = rng.chance(8);
    let mut s = Sim::new_held_by(t, &format!("rand k={} seed={}", k, seed), kind, min_temp, max_ttl, start, self_held);
    for _ in 0..len {
        let holder = s.holder();
        let r = rng.below(100);
        if r < 30 {
            // move the ledger: to just before / at / after a remembered expiry
            let n = if !s.marks.is_empty() && rng.chance(75) {
                let m = if rng.chance(50) { s.marks[s.marks.len() - 1 - rng.below(s.marks.len().min(3) as u64) as usize] } else { *rng.pick(&s.marks) };
                let target = (m as i64 + rng.range(-1, 1)).max(s.now as i64).min(s.now as i64 + 250_000) as u32;
                target - s.now
            } else {
                *rng.pick(&[0u32, 1, 1, 2, 14, 15, 16, 17, 100])
            };
            if (s.now as u64) + (n as u64) < 3_000_000 {
                s.advance(t, n);
            }
        } else if r < 58 {
            // now and then the invitee is the contract's own address (index N)
            let new = if rng.chance(6) { N } else { rng.below(N as u64) as usize };
            let lu = if rng.chance(12) { 0 } else { gen_lu(rng, &s) };
            let new = if lu == 0 && rng.chance(70) { s.last_offer.map(|(a, _)| a).unwrap_or(new) } else { new };
            let auth = gen_auth(rng, holder);
            s.offer(t, new, lu, &auth);
        } else if r < 82 {
            let right = s.last_offer.map(|(a, _)| a);
            let other = rng.below(N as u64) as usize;
            let auth = gen_auth(rng, right.or(Some(other)));
            s.accept(t, &auth);
        } else if r < 90 {
            let auth = gen_auth(rng, holder);
            // renouncing ends the interesting part of a history: mostly keep it for the tail
            if rng.chance(35) || holder.is_none() {
                s.renounce(t, &auth);
            } else {
                s.guarded(t, &auth);
            }
        } else {
            let auth = gen_auth(rng, holder);
            s.guarded(t, &auth);
        }
    }
}

/// Bounded-exhaustive supplement: every sequence of length `depth` over a small alphabet
/// for both flavours and minimum temporary lifetimes 1 and 3 (`part`/`parts` splits the work
/// over the shards of the thorough tier).
fn exhaustive(t: &mut Trace, depth: u32, part: u64, parts: u64) {
    const A: u64 = 9;
    let total = A.pow(depth);
    for code in 0..total {
        if code % parts != part {
            continue;
        }
        for combo in 0..4u32 {
        let kind = if combo % 2 == 0 { Kind::Owner } else { Kind::Admin };
        let min_temp = if combo / 2 == 0 { 1 } else { 3 };
        let mut s = Sim::new(t, &format!("exhaustive depth={} code={}", depth, code), kind, min_temp, 50, 10);
        let mut c = code;
        for _ in 0..depth {
            let h = s.holder().unwrap_or(0);
            match c % A {
                0 => {
                    s.offer(t, 1, s.now + 1, &[h]);
                }
                1 => {
                    s.offer(t, 2, s.now + 3, &[h]);
                }
                2 => {
                    s.offer(t, 2, s.now, &[h]);
                }
                3 => {
                    s.offer(t, 1, 0, &[h]);
                }
                4 => {
                    s.accept(t, &[1]);
                }
                5 => {
                    s.accept(t, &[2]);
                }
                6 => {
                    s.renounce(t, &[0, 1, 2]);
                }
                7 => s.advance(t, 1),
                _ => s.advance(t, 2),
            }
            c /= A;
        }
        }
    }
}

fn main() {
    let mut t = Trace::from_args();
    let seed = seed_from_env();
    let thorough = arg_str("--tier").as_deref() == Some("thorough");
    let nseq = arg_u64("--seqs", if thorough { 1500 } else { 260 });
    let len = arg_u64("--len", 40);
    let mut rng = Rng::new(seed);
    directed(&mut t);
    long_idle(&mut t, &mut rng, if thorough { 40 } else { 6 });
    for k in 0..nseq {
        random_sequence(&mut t, &mut rng, k, seed, len);
    }
    let depth = arg_u64("--exhaustive", if thorough { 5 } else { 3 }) as u32;
    if depth > 0 {
        // each shard (seed) covers one residue class of the enumeration
        let parts = arg_u64("--parts", if thorough { 8 } else { 1 });
        let part = arg_u64("--shard", (seed / 7919) % parts) % parts;
        exhaustive(&mut t, depth, part, parts);
    }
    t.finish();
}
