//! C18 correspondence: the real `webauthn::verify` / `ed25519::verify` (behind pass-through
//! contracts), the two verifier example contracts, and `base64_url_encode`, driven with
//! freshly generated key pairs and GENUINE assertions (p256 / ed25519-dalek) and every kind
//! of corruption of them.
//!
//! The op line carries what the Lean model takes as oracle answers: the result of
//! `serde_json_core::de::from_slice::<ClientDataJson>` on the client data (called here
//! directly, same crate version as the library), and `sv` = the harness' own check of the
//! signature (sha2 + p256 `verify_prehash` with the host's low-S rule; ed25519-dalek
//! `verify_strict`), computed independently of the contract call.
use ozharness::*;
use p256::ecdsa::signature::hazmat::{PrehashSigner, PrehashVerifier};
use sha2::{Digest, Sha256};
use soroban_sdk::{contract, contractimpl, xdr::ToXdr, Address, Bytes, BytesN, Env, TryFromVal};
use stellar_accounts::verifiers::{
    ed25519,
    utils::base64_url_encode,
    webauthn::{self, ClientDataJson, WebAuthnSigData},
};

#[path = "/repo/examples/multisig-smart-account/webauthn-verifier/src/contract.rs"]
mod exwa;
#[path = "/repo/examples/multisig-smart-account/ed25519-verifier/src/contract.rs"]
mod exed;

#[contract]
pub struct LibWa;
#[contractimpl]
impl LibWa {
    pub fn wa_verify(e: &Env, payload: Bytes, key: BytesN<65>, sig: WebAuthnSigData) -> bool {
        webauthn::verify(e, &payload, &key, &sig)
    }
}

#[contract]
pub struct LibEd;
#[contractimpl]
impl LibEd {
    pub fn ed_verify(e: &Env, payload: Bytes, key: BytesN<32>, sig: BytesN<64>) -> bool {
        ed25519::verify(e, &payload, &key, &sig)
    }
}

fn hex(b: &[u8]) -> String {
    if b.is_empty() {
        return "-".into();
    }
    let mut s = String::with_capacity(b.len() * 2);
    for x in b {
        s.push_str(&format!("{:02x}", x));
    }
    s
}

/// independent RFC 4648 base64url (bit accumulator), used to BUILD genuine challenges
fn b64url(src: &[u8], std_alphabet: bool) -> String {
    let mut table: Vec<u8> = (b'A'..=b'Z').chain(b'a'..=b'z').chain(b'0'..=b'9').collect();
    if std_alphabet {
        table.extend([b'+', b'/']);
    } else {
        table.extend([b'-', b'_']);
    }
    let (mut acc, mut nbits, mut out) = (0u32, 0u32, String::new());
    for &b in src {
        acc = (acc << 8) | b as u32;
        nbits += 8;
        while nbits >= 6 {
            nbits -= 6;
            out.push(table[((acc >> nbits) & 63) as usize] as char);
        }
        acc &= (1 << nbits) - 1;
    }
    if nbits > 0 {
        out.push(table[((acc << (6 - nbits)) & 63) as usize] as char);
    }
    out
}

fn sha256(b: &[u8]) -> [u8; 32] {
    Sha256::digest(b).into()
}

/// sha256(authenticator_data ‖ sha256(client_data))
fn wa_digest(ad: &[u8], cd: &[u8]) -> [u8; 32] {
    let mut m = ad.to_vec();
    m.extend_from_slice(&sha256(cd));
    sha256(&m)
}

fn p256_sign_digest(sk: &p256::ecdsa::SigningKey, digest: &[u8; 32]) -> [u8; 64] {
    let sig: p256::ecdsa::Signature = sk.sign_prehash(digest).expect("sign");
    let sig = sig.normalize_s().unwrap_or(sig);
    let mut out = [0u8; 64];
    out.copy_from_slice(&sig.to_bytes());
    out
}

/// the oracle `sv`: what "the P-256 signature over authenticator data and client-data hash
/// verifies under the given key" means on this host (uncompressed SEC1 key, r,s in range,
/// s in low form, ECDSA equation)
fn p256_valid(key: &[u8], ad: &[u8], cd: &[u8], sig: &[u8]) -> bool {
    if key.len() != 65 || key[0] != 4 {
        return false;
    }
    let Ok(vk) = p256::ecdsa::VerifyingKey::from_sec1_bytes(key) else { return false };
    let Ok(s) = p256::ecdsa::Signature::from_slice(sig) else { return false };
    if s.normalize_s().is_some() {
        return false;
    }
    vk.verify_prehash(&wa_digest(ad, cd), &s).is_ok()
}

fn ed_valid(key: &[u8; 32], msg: &[u8], sig: &[u8; 64]) -> bool {
    let Ok(vk) = ed25519_dalek::VerifyingKey::from_bytes(key) else { return false };
    vk.verify_strict(msg, &ed25519_dalek::Signature::from_bytes(sig)).is_ok()
}

struct Sim {
    e: Env,
    lib_wa: Address,
    lib_ed: Address,
    ex_wa: Address,
    ex_ed: Address,
}

impl Sim {
    fn new() -> Sim {
        let e = Env::default();
        let lib_wa = e.register(LibWa, ());
        let lib_ed = e.register(LibEd, ());
        let ex_wa = e.register(exwa::WebauthnVerifierContract, ());
        let ex_ed = e.register(exed::Ed25519VerifierContract, ());
        Sim { e, lib_wa, lib_ed, ex_wa, ex_ed }
    }
}

#[derive(Clone)]
struct Wa {
    payload: Vec<u8>,
    /// 65-byte key for c=lib; key_data (key ‖ credential id) for c=ex
    key: Vec<u8>,
    sig: [u8; 64],
    ad: Vec<u8>,
    cd: Vec<u8>,
}

fn show(e: &Env, r: Option<soroban_sdk::Val>) -> String {
    match r {
        None => "err".into(),
        Some(v) => match bool::try_from_val(e, &v) {
            Ok(true) => "ok true".into(),
            Ok(false) => "ok false".into(),
            Err(_) => "ok ?".into(),
        },
    }
}

/// `xdr_override`: raw sig_data bytes for the example contract instead of the XDR of the struct
fn run_wa(t: &mut Trace, s: &Sim, which: &str, c: &Wa, xdr_override: Option<&[u8]>) {
    let e = &s.e;
    let (parse, ty, ch) = match serde_json_core::de::from_slice::<ClientDataJson>(&c.cd) {
        Ok((j, _)) => ("ok", j.type_field.as_bytes().to_vec(), j.challenge.as_bytes().to_vec()),
        Err(_) => ("fail", vec![], vec![]),
    };
    let key65: &[u8] = if c.key.len() >= 65 { &c.key[..65] } else { &c.key };
    let sv = p256_valid(key65, &c.ad, &c.cd, &c.sig);
    let (xdr_ok, cd_s, ad_s, parse, ty, ch, sv) = match xdr_override {
        Some(_) => (0, "-".to_string(), "-".to_string(), "fail", vec![], vec![], false),
        None => (1, hex(&c.cd), hex(&c.ad), parse, ty, ch, sv),
    };
    t.op(&format!(
        "wa c={} pl={} kl={} xdr={} cd={} parse={} ty={} ch={} ad={} sv={}",
        which,
        hex(&c.payload),
        c.key.len(),
        xdr_ok,
        cd_s,
        parse,
        hex(&ty),
        hex(&ch),
        ad_s,
        sv as u8
    ));
    let sd = WebAuthnSigData {
        signature: BytesN::from_array(e, &c.sig),
        authenticator_data: Bytes::from_slice(e, &c.ad),
        client_data: Bytes::from_slice(e, &c.cd),
    };
    let payload = Bytes::from_slice(e, &c.payload);
    let r = if which == "lib" {
        let mut k = [0u8; 65];
        k.copy_from_slice(&c.key[..65]);
        call(e, &s.lib_wa, "wa_verify", args(e, [v(e, payload), v(e, BytesN::from_array(e, &k)), v(e, sd)]), &[])
    } else {
        let sig_data = match xdr_override {
            Some(raw) => Bytes::from_slice(e, raw),
            None => sd.to_xdr(e),
        };
        call(e, &s.ex_wa, "verify", args(e, [v(e, payload), v(e, Bytes::from_slice(e, &c.key)), v(e, sig_data)]), &[])
    };
    let o = show(e, r);
    t.count(&format!("wa:{}:{}", which, if o == "ok true" { "accept" } else { "reject" }));
    t.obs(&o);
}

/// lib (when the key is exactly 65 bytes) and the example contract
fn run_both(t: &mut Trace, s: &Sim, c: &Wa) {
    if c.key.len() == 65 {
        run_wa(t, s, "lib", c, None);
    }
    run_wa(t, s, "ex", c, None);
}

fn run_ed(t: &mut Trace, s: &Sim, which: &str, payload: &[u8], key: &[u8; 32], sig: &[u8; 64]) {
    let e = &s.e;
    let sv = ed_valid(key, payload, sig);
    t.op(&format!("ed c={} pl={} sv={}", which, hex(payload), sv as u8));
    let a = args(e, [v(e, Bytes::from_slice(e, payload)), v(e, BytesN::from_array(e, key)), v(e, BytesN::from_array(e, sig))]);
    let r = if which == "lib" { call(e, &s.lib_ed, "ed_verify", a, &[]) } else { call(e, &s.ex_ed, "verify", a, &[]) };
    let o = show(e, r);
    t.count(&format!("ed:{}:{}", which, if o == "ok true" { "accept" } else { "reject" }));
    t.obs(&o);
}

fn rand_bytes(rng: &mut Rng, n: usize) -> Vec<u8> {
    (0..n).map(|_| rng.next() as u8).collect()
}

struct P256Key {
    sk: p256::ecdsa::SigningKey,
    pk: Vec<u8>,
}

fn p256_key(rng: &mut Rng) -> P256Key {
    loop {
        let b = rand_bytes(rng, 32);
        if let Ok(sk) = p256::ecdsa::SigningKey::from_slice(&b) {
            let pk = sk.verifying_key().to_encoded_point(false).as_bytes().to_vec();
            return P256Key { sk, pk };
        }
    }
}

/// client data JSON as a browser produces it; `fill` pads the origin so that the whole
/// document has exactly `target` bytes (if given)
fn client_data(ty: &str, challenge: &str, target: Option<usize>) -> Vec<u8> {
    let mk = |pad: usize| {
        format!(
            "{{\"type\":\"{}\",\"challenge\":\"{}\",\"origin\":\"https://{}example.org\",\"crossOrigin\":false}}",
            ty,
            challenge,
            "a".repeat(pad)
        )
    };
    let base = mk(0).len();
    match target {
        Some(n) if n >= base => mk(n - base).into_bytes(),
        _ => mk(0).into_bytes(),
    }
}

fn auth_data(rng: &mut Rng, flags: u8, len: usize) -> Vec<u8> {
    let mut ad = rand_bytes(rng, len.max(33));
    ad[32] = flags;
    ad.truncate(len);
    ad
}

/// a genuine assertion: fresh payload, flags UP|UV(+BE,BS sometimes), signed by `k`
fn genuine(rng: &mut Rng, k: &P256Key) -> Wa {
    let payload = rand_bytes(rng, 32);
    let flags = *rng.pick(&[0x05u8, 0x0D, 0x1D, 0x45, 0x07, 0xDD]);
    let ad = auth_data(rng, flags, 37);
    let cd = client_data("webauthn.get", &b64url(&payload, false), None);
    let sig = p256_sign_digest(&k.sk, &wa_digest(&ad, &cd));
    Wa { payload, key: k.pk.clone(), sig, ad, cd }
}

fn resign(k: &P256Key, c: &mut Wa) {
    c.sig = p256_sign_digest(&k.sk, &wa_digest(&c.ad, &c.cd));
}

fn flip(v: &mut [u8], bit: usize) {
    v[bit / 8] ^= 1 << (bit % 8);
}

/// bits to flip in a field of `nbytes` bytes: all of them (thorough) or one random bit in
/// every `stride`-th byte (quick)
fn bit_selection(rng: &mut Rng, nbytes: usize, all: bool, stride: usize) -> Vec<usize> {
    if all {
        (0..nbytes * 8).collect()
    } else {
        let off = rng.below(stride as u64) as usize;
        (0..nbytes).filter(|i| i % stride == off % stride.max(1)).map(|i| i * 8 + rng.below(8) as usize).collect()
    }
}

fn wa_bit_flips(t: &mut Trace, rng: &mut Rng, k: &P256Key, all: bool) {
    let s = Sim::new();
    let g = genuine(rng, k);
    t.seq("wa-bitflips");
    run_both(t, &s, &g);
    let mut n = 0usize;
    let mut go = |t: &mut Trace, c: &Wa, rng: &mut Rng| {
        n += 1;
        run_wa(t, &s, "lib", c, None);
        if all || rng.below(4) == 0 {
            run_wa(t, &s, "ex", c, None);
        }
    };
    for b in bit_selection(rng, 64, all, 1) {
        let mut c = g.clone();
        flip(&mut c.sig, b);
        go(t, &c, rng);
    }
    for b in bit_selection(rng, 65, all, 1) {
        let mut c = g.clone();
        flip(&mut c.key, b);
        go(t, &c, rng);
    }
    for b in bit_selection(rng, 32, true, 1) {
        let mut c = g.clone();
        flip(&mut c.payload, b);
        go(t, &c, rng);
    }
    for b in bit_selection(rng, g.ad.len(), all, 1) {
        let mut c = g.clone();
        flip(&mut c.ad, b);
        go(t, &c, rng);
    }
    for b in 32 * 8..33 * 8 {
        let mut c = g.clone();
        flip(&mut c.ad, b);
        go(t, &c, rng);
        // the same flag flip with a signature over the flipped data: only the flag rules decide
        resign(k, &mut c);
        go(t, &c, rng);
    }
    for b in bit_selection(rng, g.cd.len(), all, 1) {
        let mut c = g.clone();
        flip(&mut c.cd, b);
        go(t, &c, rng);
        if all || rng.below(3) == 0 {
            // re-signed: the signature is genuine for the corrupted client data
            resign(k, &mut c);
            go(t, &c, rng);
        }
    }
}

fn wa_fields(t: &mut Trace, rng: &mut Rng, k: &P256Key, k2: &P256Key) {
    let s = Sim::new();
    let g = genuine(rng, k);
    let chal = b64url(&g.payload, false);
    t.seq("wa-fields");
    run_both(t, &s, &g);

    // ---- type
    for ty in ["webauthn.create", "webauthn.ge", "webauthn.get ", " webauthn.get", "Webauthn.get", "WEBAUTHN.GET", "", "webauthn.gets", "webauthn_get", "webauthn\\u002eget", "webauthn.get\\u0000", "get"] {
        let mut c = g.clone();
        c.cd = client_data(ty, &chal, None);
        resign(k, &mut c);
        run_both(t, &s, &c);
    }
    // ---- challenge
    let other = rand_bytes(rng, 32);
    let mut near = g.payload.clone();
    near[31] ^= 1;
    let mut chals: Vec<String> = vec![
        b64url(&other, false),
        b64url(&near, false),
        b64url(&g.payload, true),
        format!("{}=", chal),
        chal[..42].to_string(),
        format!("{}A", chal),
        chal.to_lowercase(),
        chal.to_uppercase(),
        String::new(),
        b64url(&g.payload[..31], false),
        hex(&g.payload),
        chal.replace('-', "+").replace('_', "/"),
        chal.chars().rev().collect(),
    ];
    // a payload whose encoding uses '-' and '_' so that the alphabet variants really differ
    chals.push(b64url(&[0xfb; 32], true));
    for ch in chals {
        let mut c = g.clone();
        c.cd = client_data("webauthn.get", &ch, None);
        resign(k, &mut c);
        run_both(t, &s, &c);
    }
    let mut c = g.clone();
    c.payload = vec![0xfb; 32];
    for std in [false, true] {
        c.cd = client_data("webauthn.get", &b64url(&c.payload, std), None);
        resign(k, &mut c);
        run_both(t, &s, &c);
    }
    // ---- JSON shapes (all signed genuinely)
    let shapes: Vec<String> = vec![
        format!("{{\"challenge\":\"{}\",\"type\":\"webauthn.get\"}}", chal),
        format!("{{\"type\":\"webauthn.get\",\"challenge\":\"{}\"}}", chal),
        format!("{{ \"type\" : \"webauthn.get\" ,\n \"challenge\" :\t\"{}\" }}", chal),
        format!("{{\"type\":\"webauthn.get\",\"challenge\":\"{}\",\"origin\":\"x\",\"tokenBinding\":{{\"status\":\"present\",\"id\":\"abc\"}},\"n\":[1,2,3],\"z\":null}}", chal),
        format!("{{\"type\":\"webauthn.get\",\"challenge\":\"{}\"}}trailing garbage", chal),
        format!("{{\"type\":\"webauthn.get\",\"challenge\":\"{}\"}}{{\"type\":\"x\"}}", chal),
        format!("{{\"type\":\"webauthn.get\"}}"),
        format!("{{\"challenge\":\"{}\"}}", chal),
        format!("{{\"type\":\"webauthn.create\",\"type\":\"webauthn.get\",\"challenge\":\"{}\"}}", chal),
        format!("{{\"type\":\"webauthn.get\",\"type\":\"webauthn.create\",\"challenge\":\"{}\"}}", chal),
        format!("{{\"type\":\"webauthn.get\",\"challenge\":\"{}\",\"challenge\":\"{}\"}}", b64url(&other, false), chal),
        format!("{{\"type\":\"webauthn.get\",\"challenge\":\"{}\"", chal),
        format!("[\"webauthn.get\",\"{}\"]", chal),
        format!("{{\"type\":1,\"challenge\":\"{}\"}}", chal),
        format!("{{\"type\":\"webauthn.get\",\"challenge\":null}}"),
        format!("{{\"Type\":\"webauthn.get\",\"Challenge\":\"{}\"}}", chal),
        format!("{{\"type\":\"webauthn.get\",\"challenge\":\"{}\",\"extra\":{{\"type\":\"webauthn.create\"}}}}", chal),
        format!("{{\"extra\":{{\"type\":\"webauthn.get\",\"challenge\":\"{}\"}}}}", chal),
        format!("\u{feff}{{\"type\":\"webauthn.get\",\"challenge\":\"{}\"}}", chal),
        // ignored members carrying JSON escapes, short and long (a browser escapes `/` in origins; extensions add
        // members of any size): they are skipped, whatever their length
        format!("{{\"type\":\"webauthn.get\",\"challenge\":\"{}\",\"origin\":\"https:\\/\\/example.org\"}}", chal),
        format!("{{\"type\":\"webauthn.get\",\"challenge\":\"{}\",\"origin\":\"https:\\/\\/{}.example.org\",\"crossOrigin\":false}}", chal, "a".repeat(80)),
        format!("{{\"type\":\"webauthn.get\",\"challenge\":\"{}\",\"note\":\"{}\"}}", chal, "say \\\"hi\\\" ".repeat(12)),
        format!("{{\"{}\\u0041\":1,\"type\":\"webauthn.get\",\"challenge\":\"{}\"}}", "k".repeat(70), chal),
        format!("{{\"origin\":\"{}\\n\",\"type\":\"webauthn.get\",\"challenge\":\"{}\"}}", "o".repeat(64), chal),
        String::new(),
        "{}".to_string(),
        "null".to_string(),
    ];
    for sh in shapes {
        let mut c = g.clone();
        c.cd = sh.into_bytes();
        resign(k, &mut c);
        run_both(t, &s, &c);
    }
    // ---- client data length around the 1024-byte bound (genuinely signed)
    for n in [1022usize, 1023, 1024, 1025, 1026, 2048, 5000] {
        let mut c = g.clone();
        c.cd = client_data("webauthn.get", &chal, Some(n));
        assert_eq!(c.cd.len(), n);
        resign(k, &mut c);
        run_both(t, &s, &c);
        // same length reached with trailing bytes after the JSON document
        let mut c = g.clone();
        c.cd = client_data("webauthn.get", &chal, None);
        c.cd.resize(n, b' ');
        resign(k, &mut c);
        run_both(t, &s, &c);
    }
    // ---- payload length: the challenge encodes the whole payload / its first 32 bytes
    for n in [0usize, 1, 31, 32, 33, 40, 64, 100] {
        let p = rand_bytes(rng, n);
        let mut c = g.clone();
        c.payload = p.clone();
        c.cd = client_data("webauthn.get", &b64url(&p, false), None);
        resign(k, &mut c);
        run_both(t, &s, &c);
        if n > 32 {
            c.cd = client_data("webauthn.get", &b64url(&p[..32], false), None);
            resign(k, &mut c);
            run_both(t, &s, &c);
        }
        if n != 32 {
            // challenges of plausible 32-byte "normalizations" of a payload of another length: its
            // SHA-256 digest, the payload zero-padded / truncated to 32 bytes. None is the payload.
            use sha2::Digest as _;
            let digest = sha2::Sha256::digest(&p).to_vec();
            let mut padded = p.clone();
            padded.resize(32, 0);
            for alt in [digest, padded] {
                c.cd = client_data("webauthn.get", &b64url(&alt, false), None);
                resign(k, &mut c);
                run_both(t, &s, &c);
            }
        }
    }
    // the genuine assertion with the payload extended / truncated afterwards
    for n in [31usize, 33, 40] {
        let mut c = g.clone();
        c.payload.resize(n, 0);
        run_both(t, &s, &c);
    }
    // ---- authenticator data length
    for n in [0usize, 1, 32, 33, 36, 37, 38, 64, 200] {
        let mut c = g.clone();
        c.ad = auth_data(rng, 0x05, n);
        resign(k, &mut c);
        run_both(t, &s, &c);
    }
    // ---- signatures that are not the genuine one
    {
        let mut c = g.clone();
        c.sig = [0u8; 64];
        run_both(t, &s, &c);
        c.sig = [0xff; 64];
        run_both(t, &s, &c);
        let mut c = g.clone();
        c.sig.rotate_left(32); // r and s exchanged
        run_both(t, &s, &c);
        // high-S twin of the genuine signature: (r, n - s)
        let gs = p256::ecdsa::Signature::from_slice(&g.sig).unwrap();
        let hi = p256::ecdsa::Signature::from_scalars(gs.r().to_bytes(), (-*gs.s()).to_bytes()).unwrap();
        let mut c = g.clone();
        c.sig.copy_from_slice(&hi.to_bytes());
        run_both(t, &s, &c);
        // signed by another key
        let mut c = g.clone();
        resign(k2, &mut c);
        run_both(t, &s, &c);
        // right signer, wrong key presented
        let mut c = g.clone();
        c.key = k2.pk.clone();
        run_both(t, &s, &c);
        // signature over other compositions of the same data
        let mut m = g.ad.clone();
        m.extend_from_slice(&g.cd);
        let mut c = g.clone();
        c.sig = p256_sign_digest(&k.sk, &sha256(&m)); // client data not hashed
        run_both(t, &s, &c);
        let mut m = sha256(&g.cd).to_vec();
        m.extend_from_slice(&g.ad);
        c.sig = p256_sign_digest(&k.sk, &sha256(&m)); // order exchanged
        run_both(t, &s, &c);
        let mut m = g.ad.clone();
        m.extend_from_slice(&sha256(&g.cd));
        let mut d = [0u8; 32];
        d.copy_from_slice(&m[m.len() - 32..]);
        c.sig = p256_sign_digest(&k.sk, &d); // message not hashed
        run_both(t, &s, &c);
        c.sig = p256_sign_digest(&k.sk, &sha256(&g.cd)); // authenticator data left out
        run_both(t, &s, &c);
        // signature of another genuine assertion of the same key
        let g2 = genuine(rng, k);
        let mut c = g.clone();
        c.sig = g2.sig;
        run_both(t, &s, &c);
        // client data / authenticator data of another genuine assertion
        let mut c = g.clone();
        c.cd = g2.cd.clone();
        run_both(t, &s, &c);
        let mut c = g.clone();
        c.ad = g2.ad.clone();
        run_both(t, &s, &c);
    }
    // ---- keys
    for tag in [0u8, 2, 3, 5, 6, 7] {
        let mut c = g.clone();
        c.key[0] = tag;
        run_both(t, &s, &c);
    }
    {
        let mut c = g.clone();
        c.key = vec![0u8; 65];
        c.key[0] = 4;
        run_both(t, &s, &c);
    }
    // ---- the example contract's key_data / sig_data handling
    // credential ids up to the WebAuthn maximum of 1023 bytes (and one beyond: the contract sets no bound of its own)
    for extra in [1usize, 16, 64, 400, 958, 959, 1023, 1024, 4000] {
        let mut c = g.clone();
        c.key.extend(rand_bytes(rng, extra)); // credential id after the key
        run_wa(t, &s, "ex", &c, None);
    }
    for n in [0usize, 1, 33, 64] {
        let mut c = g.clone();
        c.key.truncate(n);
        run_wa(t, &s, "ex", &c, None);
    }
    let xdr = {
        let sd = WebAuthnSigData {
            signature: BytesN::from_array(&s.e, &g.sig),
            authenticator_data: Bytes::from_slice(&s.e, &g.ad),
            client_data: Bytes::from_slice(&s.e, &g.cd),
        };
        let b = sd.to_xdr(&s.e);
        let mut out = vec![0u8; b.len() as usize];
        b.copy_into_slice(&mut out);
        out
    };
    run_wa(t, &s, "ex", &g, Some(&xdr[..xdr.len() - 4]));
    run_wa(t, &s, "ex", &g, Some(&xdr[..8]));
    run_wa(t, &s, "ex", &g, Some(&[]));
    run_wa(t, &s, "ex", &g, Some(&rand_bytes(rng, 100)));
    let not_struct = Bytes::from_slice(&s.e, &g.sig).to_xdr(&s.e);
    let mut raw = vec![0u8; not_struct.len() as usize];
    not_struct.copy_into_slice(&mut raw);
    run_wa(t, &s, "ex", &g, Some(&raw));
}

fn wa_flags(t: &mut Trace, rng: &mut Rng, k: &P256Key, all: bool) {
    let s = Sim::new();
    let g = genuine(rng, k);
    t.seq("wa-flags");
    let list: Vec<u8> = if all {
        (0..=255).collect()
    } else {
        // all 32 combinations of UP, RFU1, UV, BE, BS, and 32 bytes with the upper bits random
        let mut l: Vec<u8> = (0u8..32).collect();
        l.extend((0u8..32).map(|x| x | ((rng.below(8) as u8) << 5)));
        l
    };
    for f in list {
        let mut c = g.clone();
        c.ad[32] = f;
        resign(k, &mut c);
        run_both(t, &s, &c);
    }
}

/// random combinations of valid and invalid components (~70 % of every component valid)
fn wa_random(t: &mut Trace, rng: &mut Rng, keys: &[P256Key], n: usize) {
    let s = Sim::new();
    t.seq("wa-random");
    for _ in 0..n {
        let k = rng.pick(keys);
        let plen = if rng.chance(75) { 32 } else { *rng.pick(&[0usize, 31, 33, 40, 64]) };
        let payload = rand_bytes(rng, plen);
        let chal = match rng.below(12) {
            0 => b64url(&rand_bytes(rng, 32), false),
            1 => b64url(&payload, true),
            2 => format!("{}=", b64url(&payload, false)),
            3 | 4 => b64url(&payload[..plen.min(32)], false),
            _ => b64url(&payload, false),
        };
        let ty = if rng.chance(85) { "webauthn.get" } else { *rng.pick(&["webauthn.create", "", "webauthn.get ", "Webauthn.get"]) };
        let target = if rng.chance(75) { None } else { Some(*rng.pick(&[1023usize, 1024, 1025, 1300])) };
        let mut cd = client_data(ty, &chal, target);
        match rng.below(14) {
            0 => cd = format!("{{\"challenge\":\"{}\",\"type\":\"{}\"}}", chal, ty).into_bytes(),
            1 => cd.extend_from_slice(b" trailing"),
            2 => {
                cd.pop();
            }
            3 => cd = format!("{{\"type\":\"{}\"}}", ty).into_bytes(),
            _ => {}
        }
        let alen = if rng.chance(80) { 37 + rng.below(4) as usize * rng.below(40) as usize } else { *rng.pick(&[0usize, 32, 33, 36]) };
        let flags = if rng.chance(65) { *rng.pick(&[0x05u8, 0x0D, 0x1D, 0x45, 0xDD, 0x07]) } else { rng.next() as u8 };
        let ad = auth_data(rng, flags, alen);
        let mut c = Wa { payload, key: k.pk.clone(), sig: [0; 64], ad, cd };
        resign(k, &mut c);
        match rng.below(16) {
            0 => resign(rng.pick(keys), &mut c),
            1 => c.sig = {
                let mut x = [0u8; 64];
                x.copy_from_slice(&rand_bytes(rng, 64));
                x
            },
            2 => {
                let b = rng.below(512) as usize;
                flip(&mut c.sig, b)
            }
            3 => {
                let b = rng.below(c.cd.len() as u64 * 8) as usize;
                flip(&mut c.cd, b)
            }
            4 => {
                if !c.ad.is_empty() {
                    let b = rng.below(c.ad.len() as u64 * 8) as usize;
                    flip(&mut c.ad, b)
                }
            }
            5 => {
                let b = rng.below(520) as usize;
                flip(&mut c.key, b)
            }
            6 => {
                if !c.payload.is_empty() {
                    let b = rng.below(c.payload.len() as u64 * 8) as usize;
                    flip(&mut c.payload, b)
                }
            }
            _ => {}
        }
        if rng.chance(50) {
            run_wa(t, &s, "lib", &c, None);
        } else {
            if rng.chance(30) {
                let n = *rng.pick(&[0usize, 8, 32]);
                c.key.extend(rand_bytes(rng, n));
            } else if rng.chance(8) {
                c.key.truncate(64);
            }
            run_wa(t, &s, "ex", &c, None);
        }
    }
}

fn ed_cases(t: &mut Trace, rng: &mut Rng, all: bool) {
    use ed25519_dalek::Signer;
    let s = Sim::new();
    t.seq("ed25519");
    let mk = |rng: &mut Rng| {
        let mut seed = [0u8; 32];
        seed.copy_from_slice(&rand_bytes(rng, 32));
        ed25519_dalek::SigningKey::from_bytes(&seed)
    };
    for plen in [32usize, 0, 1, 33, 64, 200] {
        let sk = mk(rng);
        let sk2 = mk(rng);
        let key = sk.verifying_key().to_bytes();
        let payload = rand_bytes(rng, plen);
        let sig = sk.sign(&payload).to_bytes();
        for which in ["lib", "ex"] {
            run_ed(t, &s, which, &payload, &key, &sig);
        }
        let full = all || plen == 32;
        for b in bit_selection(rng, 64, full, 1) {
            let mut x = sig;
            flip(&mut x, b);
            run_ed(t, &s, if b % 2 == 0 { "lib" } else { "ex" }, &payload, &key, &x);
        }
        for b in bit_selection(rng, 32, full, 1) {
            let mut x = key;
            flip(&mut x, b);
            run_ed(t, &s, if b % 2 == 0 { "ex" } else { "lib" }, &payload, &x, &sig);
        }
        for b in bit_selection(rng, plen, full, 1) {
            let mut x = payload.clone();
            flip(&mut x, b);
            run_ed(t, &s, if b % 2 == 0 { "lib" } else { "ex" }, &x, &key, &sig);
        }
        for which in ["lib", "ex"] {
            // other signer, other key, payload extended / truncated / emptied, degenerate signatures
            run_ed(t, &s, which, &payload, &key, &sk2.sign(&payload).to_bytes());
            run_ed(t, &s, which, &payload, &sk2.verifying_key().to_bytes(), &sig);
            let mut p = payload.clone();
            p.push(0);
            run_ed(t, &s, which, &p, &key, &sig);
            if plen > 0 {
                run_ed(t, &s, which, &payload[..plen - 1], &key, &sig);
                run_ed(t, &s, which, &[], &key, &sig);
            }
            run_ed(t, &s, which, &payload, &key, &[0u8; 64]);
            run_ed(t, &s, which, &payload, &key, &[0xff; 64]);
            run_ed(t, &s, which, &payload, &[0u8; 32], &sig);
            let mut id = [0u8; 32];
            id[0] = 1; // the identity point (small order): rejected by verify_strict
            run_ed(t, &s, which, &payload, &id, &sig);
            // S + L: the same signature with a non-canonical scalar
            let l: [u8; 32] = [
                0xed, 0xd3, 0xf5, 0x5c, 0x1a, 0x63, 0x12, 0x58, 0xd6, 0x9c, 0xf7, 0xa2, 0xde, 0xf9, 0xde, 0x14, 0, 0, 0, 0, 0, 0, 0, 0, 0, 0, 0,
                0, 0, 0, 0, 0x10,
            ];
            let mut x = sig;
            let mut carry = 0u16;
            for i in 0..32 {
                let v = x[32 + i] as u16 + l[i] as u16 + carry;
                x[32 + i] = v as u8;
                carry = v >> 8;
            }
            run_ed(t, &s, which, &payload, &key, &x);
        }
    }
}

fn enc_one(t: &mut Trace, src: &[u8], dst_len: usize) {
    t.op(&format!("enc src={} dst={}", hex(src), dst_len));
    let r = catch(|| {
        let mut dst = vec![0xAAu8; dst_len];
        base64_url_encode(&mut dst, src);
        dst
    });
    match r {
        Some(d) => t.obs(&format!("ok {}", hex(&d))),
        None => t.obs("panic"),
    }
}

fn enc_cases(t: &mut Trace, rng: &mut Rng, thorough: bool, parts: u64, seed: u64) {
    t.seq("base64url");
    for n in 0..=200usize {
        let need = (4 * n + 2) / 3;
        let src = rand_bytes(rng, n);
        enc_one(t, &src, need);
        enc_one(t, &src, need + 1 + rng.below(5) as usize);
        if need > 0 {
            enc_one(t, &src, need - 1);
            enc_one(t, &src, rng.below(need as u64) as usize);
        }
        for fill in [0x00u8, 0xff] {
            enc_one(t, &vec![fill; n], need);
        }
    }
    for n in [255usize, 256, 257, 1000, 1023, 1024, 1025, 4096] {
        let src = rand_bytes(rng, n);
        enc_one(t, &src, (4 * n + 2) / 3);
    }
    // all values of one byte in every position of a group, and of the two tails
    for x in 0..=255u8 {
        enc_one(t, &[x], 2);
        enc_one(t, &[x, x.wrapping_mul(7)], 3);
        enc_one(t, &[x.wrapping_mul(13), x], 3);
    }
    // 3-byte groups: (a, b, *) blocks. thorough: the slice a ≡ seed (mod parts) of all 256³
    // groups (the orchestrator's seeds seed+7919k, k < parts = 8, hit every residue once);
    // quick: 96 random blocks.
    t.seq("base64url-groups");
    let blk = |t: &mut Trace, a: u8, b: u8| {
        t.op(&format!("encblk a={} b={}", a, b));
        let mut src = Vec::with_capacity(768);
        for c in 0..=255u8 {
            src.extend_from_slice(&[a, b, c]);
        }
        let r = catch(|| {
            let mut dst = vec![0u8; 1024];
            base64_url_encode(&mut dst, &src);
            dst
        });
        match r {
            Some(d) if d.iter().all(|c| c.is_ascii_graphic()) => t.obs(&format!("ok {}", String::from_utf8(d).unwrap())),
            Some(d) => t.obs(&format!("bad {}", hex(&d))),
            None => t.obs("panic"),
        }
    };
    if thorough {
        for a in 0..=255u64 {
            if a % parts == seed % parts {
                for b in 0..=255u8 {
                    blk(t, a as u8, b);
                }
            }
        }
    } else {
        for _ in 0..96 {
            blk(t, rng.next() as u8, rng.next() as u8);
        }
    }
}

fn main() {
    let mut t = Trace::from_args();
    let seed = seed_from_env();
    let thorough = arg_str("--tier").as_deref() == Some("thorough");
    let parts = arg_u64("--parts", 1).max(1);
    let mut rng = Rng::new(seed);

    let keys: Vec<P256Key> = (0..3).map(|_| p256_key(&mut rng)).collect();

    // directed scenarios first
    wa_fields(&mut t, &mut rng, &keys[0], &keys[1]);
    wa_flags(&mut t, &mut rng, &keys[1], true);
    wa_flags(&mut t, &mut rng, &keys[2], false);
    wa_bit_flips(&mut t, &mut rng, &keys[2], true);
    wa_bit_flips(&mut t, &mut rng, &keys[0], thorough);
    if thorough {
        wa_fields(&mut t, &mut rng, &keys[2], &keys[0]);
        wa_fields(&mut t, &mut rng, &keys[1], &keys[2]);
        wa_bit_flips(&mut t, &mut rng, &keys[1], true);
    }
    ed_cases(&mut t, &mut rng, thorough);
    let n_random = arg_u64("--n", if thorough { 20000 } else { 3000 }) as usize;
    for chunk in 0..(n_random + 499) / 500 {
        let n = (n_random - chunk * 500).min(500);
        wa_random(&mut t, &mut rng, &keys, n);
    }
    enc_cases(&mut t, &mut rng, thorough, parts, seed);
    t.finish();
}
