//! C16 correspondence: pause, allow/block lists, supply cap and the migration flag.
//!
//! Real code driven (all compiled from /repo's working tree, with the tree's macros):
//!   * examples fungible-pausable, pausable, fungible-allowlist, fungible-blocklist,
//!     fungible-capped, upgradeable/v1 (`#[path]`-included sources);
//!   * the library types `AllowList` / `BlockList` (transfer, transfer_from, approve, burn,
//!     burn_from, allow/disallow, block/unblock) behind thin harness contracts;
//!   * a harness contract deriving `UpgradeableMigratable` (tree's derive macro) with
//!     pass-through entry points for the four migration storage functions; `upgrade` is run
//!     against the hash of the prebuilt `examples/upgradeable/testdata/upgradeable_v2_example.wasm`
//!     after which the host dispatches the contract to that wasm (its `migrate`/`upgrade` are
//!     then the prebuilt ones) and the `Migrating` flag is read back from storage;
//!   * a harness contract `stk::Stacked` (machine `stk`, "stacked guards"): Ownable owner, AccessControl
//!     admin and one role "op", the Pausable trait, a counter, and twelve entry points that stack an
//!     authorization guard (`#[only_owner]` / `#[only_admin]` / `#[only_role(caller, "op")]`) and a
//!     pause guard (`#[when_not_paused]` / `#[when_paused]`) of the tree's macros in BOTH orders.
use ozharness::*;
use soroban_sdk::{contract, contractimpl, Address, BytesN, Env, IntoVal, MuxedAddress, String as SString, Val};
use stellar_tokens::fungible::{
    allowlist::AllowList, blocklist::BlockList, burnable::FungibleBurnable, Base, FungibleToken,
};

#[path = "/repo/examples/fungible-pausable/src/contract.rs"]
mod ex_ptok;
#[path = "/repo/examples/pausable/src/contract.rs"]
mod ex_pcnt;
#[path = "/repo/examples/fungible-allowlist/src/contract.rs"]
mod ex_allow;
#[path = "/repo/examples/fungible-blocklist/src/contract.rs"]
mod ex_block;
#[path = "/repo/examples/fungible-capped/src/contract.rs"]
mod ex_cap;
#[path = "/repo/examples/upgradeable/v1/src/contract.rs"]
mod ex_v1;

// ---- library types behind pass-through contracts -----------------------------------------

/// the capped token again, built from the library functions, with `set_cap` as an entry point: the library
/// allows the cap to be set again later, also BELOW the current supply (no further mint until burns bring the
/// supply under it). Otherwise the example: `mint = check_cap; Base::mint`, no burn.
mod cap_lib {
    use super::*;
    use stellar_tokens::fungible::capped::{check_cap, set_cap};
    #[contract]
    pub struct CapLib;

    #[contractimpl]
    impl CapLib {
        pub fn __constructor(e: &Env, cap: i128) {
            set_cap(e, cap);
        }
        pub fn mint(e: &Env, to: Address, amount: i128) {
            check_cap(e, amount);
            Base::mint(e, &to, amount);
        }
        pub fn set_cap(e: &Env, cap: i128) {
            set_cap(e, cap)
        }
    }

    #[contractimpl(contracttrait)]
    impl FungibleToken for CapLib {
        type ContractType = Base;
    }
}

mod alib {
    use super::*;
    #[contract]
    pub struct ATok;

    #[contractimpl]
    impl ATok {
        pub fn mint(e: &Env, to: Address, amount: i128) {
            Base::mint(e, &to, amount);
        }
        pub fn allowed(e: &Env, account: Address) -> bool {
            AllowList::allowed(e, &account)
        }
        pub fn allow(e: &Env, user: Address) {
            AllowList::allow_user(e, &user)
        }
        pub fn disallow(e: &Env, user: Address) {
            AllowList::disallow_user(e, &user)
        }
    }

    #[contractimpl(contracttrait)]
    impl FungibleToken for ATok {
        type ContractType = AllowList;
    }

    #[contractimpl(contracttrait)]
    impl FungibleBurnable for ATok {
        fn burn(e: &Env, from: Address, amount: i128) {
            AllowList::burn(e, &from, amount);
        }
        fn burn_from(e: &Env, spender: Address, from: Address, amount: i128) {
            AllowList::burn_from(e, &spender, &from, amount);
        }
    }
}

mod blib {
    use super::*;
    #[contract]
    pub struct BTok;

    #[contractimpl]
    impl BTok {
        pub fn mint(e: &Env, to: Address, amount: i128) {
            Base::mint(e, &to, amount);
        }
        pub fn blocked(e: &Env, account: Address) -> bool {
            BlockList::blocked(e, &account)
        }
        pub fn block(e: &Env, user: Address) {
            BlockList::block_user(e, &user)
        }
        pub fn unblock(e: &Env, user: Address) {
            BlockList::unblock_user(e, &user)
        }
    }

    #[contractimpl(contracttrait)]
    impl FungibleToken for BTok {
        type ContractType = BlockList;
    }

    #[contractimpl(contracttrait)]
    impl FungibleBurnable for BTok {
        fn burn(e: &Env, from: Address, amount: i128) {
            BlockList::burn(e, &from, amount);
        }
        fn burn_from(e: &Env, spender: Address, from: Address, amount: i128) {
            BlockList::burn_from(e, &spender, &from, amount);
        }
    }
}

mod mig {
    use soroban_sdk::{contract, contracterror, contractimpl, contracttype, panic_with_error, symbol_short, Address, Env, Symbol};
    use stellar_contract_utils::upgradeable::{self as upg, UpgradeableMigratableInternal};
    use stellar_macros::UpgradeableMigratable;

    pub const DATA_KEY: Symbol = symbol_short!("DATA_KEY");
    pub const OWNER: Symbol = symbol_short!("OWNER");

    #[contracterror]
    #[derive(Copy, Clone, Debug, Eq, PartialEq, PartialOrd, Ord)]
    #[repr(u32)]
    pub enum MigError {
        Unauthorized = 1,
    }

    #[contracttype]
    #[derive(Clone)]
    pub struct Data {
        pub num1: u32,
        pub num2: u32,
    }

    #[derive(UpgradeableMigratable)]
    #[contract]
    pub struct Mig;

    // same wiring as examples/upgradeable/v2 (whose prebuilt wasm takes over after `upgrade`)
    impl UpgradeableMigratableInternal for Mig {
        type MigrationData = Data;

        fn _require_auth(e: &Env, operator: &Address) {
            operator.require_auth();
            let owner = e.storage().instance().get::<_, Address>(&OWNER).unwrap();
            if *operator != owner {
                panic_with_error!(e, MigError::Unauthorized)
            }
        }

        fn _migrate(e: &Env, data: &Self::MigrationData) {
            e.storage().instance().set(&DATA_KEY, data);
        }
    }

    #[contractimpl]
    impl Mig {
        pub fn __constructor(e: &Env, admin: Address) {
            e.storage().instance().set(&OWNER, &admin);
        }
        pub fn enable(e: &Env) {
            upg::enable_migration(e)
        }
        pub fn ensure(e: &Env) {
            upg::ensure_can_complete_migration(e)
        }
        pub fn complete(e: &Env) {
            upg::complete_migration(e)
        }
        pub fn migrating(e: &Env) -> bool {
            upg::can_complete_migration(e)
        }
    }
}

/// machine `stk`: every entry point stacks one authorization guard and one pause guard of
/// `stellar_macros`; `_a` / `_c` / `_r` write the authorization guard ABOVE the pause guard, `_b` / `_d` /
/// `_r2` the pause guard above the authorization guard. `inc_*` add 1 to the counter (and return it),
/// `reset_*` set it to 0.
mod stk {
    use soroban_sdk::{contract, contracterror, contractimpl, panic_with_error, symbol_short, Address, Env, Symbol};
    use stellar_access::{access_control, ownable};
    use stellar_contract_utils::pausable::{self as pausable, Pausable};
    use stellar_macros::{only_admin, only_owner, only_role, when_not_paused, when_paused};

    pub const COUNTER: Symbol = symbol_short!("COUNTER");

    #[contracterror]
    #[derive(Copy, Clone, Debug, Eq, PartialEq, PartialOrd, Ord)]
    #[repr(u32)]
    pub enum StackedError {
        Unauthorized = 1,
    }

    #[contract]
    pub struct Stacked;

    fn bump(e: &Env) -> i32 {
        let c: i32 = e.storage().instance().get(&COUNTER).expect("counter should be set");
        let c = c.checked_add(1).expect("counter overflow");
        e.storage().instance().set(&COUNTER, &c);
        c
    }

    fn clear(e: &Env) {
        e.storage().instance().set(&COUNTER, &0i32);
    }

    /// `pause` / `unpause` of examples/pausable, with the owner kept by `ownable`
    fn caller_is_owner(e: &Env, caller: &Address) {
        caller.require_auth();
        let owner: Address = ownable::get_owner(e).expect("owner should be set");
        if owner != *caller {
            panic_with_error!(e, StackedError::Unauthorized);
        }
    }

    #[contractimpl]
    impl Stacked {
        pub fn __constructor(e: &Env, owner: Address, admin: Address, op: Address) {
            ownable::set_owner(e, &owner);
            access_control::set_admin(e, &admin);
            access_control::grant_role_no_auth(e, &op, &Symbol::new(e, "op"), &admin);
            e.storage().instance().set(&COUNTER, &0i32);
        }

        pub fn counter(e: &Env) -> i32 {
            e.storage().instance().get(&COUNTER).expect("counter should be set")
        }

        // ---- owner ----
        #[only_owner]
        #[when_not_paused]
        pub fn inc_a(e: &Env) -> i32 {
            bump(e)
        }

        #[when_not_paused]
        #[only_owner]
        pub fn inc_b(e: &Env) -> i32 {
            bump(e)
        }

        #[only_owner]
        #[when_paused]
        pub fn reset_a(e: &Env) {
            clear(e)
        }

        #[when_paused]
        #[only_owner]
        pub fn reset_b(e: &Env) {
            clear(e)
        }

        // ---- admin ----
        #[only_admin]
        #[when_not_paused]
        pub fn inc_c(e: &Env) -> i32 {
            bump(e)
        }

        #[when_not_paused]
        #[only_admin]
        pub fn inc_d(e: &Env) -> i32 {
            bump(e)
        }

        #[only_admin]
        #[when_paused]
        pub fn reset_c(e: &Env) {
            clear(e)
        }

        #[when_paused]
        #[only_admin]
        pub fn reset_d(e: &Env) {
            clear(e)
        }

        // ---- role "op" ----
        #[only_role(caller, "op")]
        #[when_not_paused]
        pub fn inc_r(e: &Env, caller: Address) -> i32 {
            bump(e)
        }

        #[when_not_paused]
        #[only_role(caller, "op")]
        pub fn inc_r2(e: &Env, caller: Address) -> i32 {
            bump(e)
        }

        #[only_role(caller, "op")]
        #[when_paused]
        pub fn reset_r(e: &Env, caller: Address) {
            clear(e)
        }

        #[when_paused]
        #[only_role(caller, "op")]
        pub fn reset_r2(e: &Env, caller: Address) {
            clear(e)
        }
    }

    #[contractimpl]
    impl Pausable for Stacked {
        fn paused(e: &Env) -> bool {
            pausable::paused(e)
        }

        fn pause(e: &Env, caller: Address) {
            caller_is_owner(e, &caller);
            pausable::pause(e);
        }

        fn unpause(e: &Env, caller: Address) {
            caller_is_owner(e, &caller);
            pausable::unpause(e);
        }
    }
}

/// the guarded entry points of `stk::Stacked`: (name, principal: 'o' owner / 'a' admin / 'r' role, needs paused)
const STK_FNS: [(&str, char, bool); 12] = [
    ("inc_a", 'o', false),
    ("inc_b", 'o', false),
    ("reset_a", 'o', true),
    ("reset_b", 'o', true),
    ("inc_c", 'a', false),
    ("inc_d", 'a', false),
    ("reset_c", 'a', true),
    ("reset_d", 'a', true),
    ("inc_r", 'r', false),
    ("inc_r2", 'r', false),
    ("reset_r", 'r', true),
    ("reset_r2", 'r', true),
];

const N: usize = 5;
const MAX_TTL: u32 = 200_000;
/// long-horizon Env for the idle sequences: max_entry_ttl of about one year
const LONG_TTL: u32 = 6_312_000;
const DAY: u32 = 17_280;
const V2_WASM: &[u8] = include_bytes!("/repo/examples/upgradeable/testdata/upgradeable_v2_example.wasm");

#[derive(Clone, Copy, PartialEq, Debug)]
enum Kind {
    PTok,
    PCnt,
    ALib,
    AEx,
    BLib,
    BEx,
    Cap,
    Mig,
    Stk,
}

impl Kind {
    fn name(self) -> &'static str {
        match self {
            Kind::PTok => "ptok",
            Kind::PCnt => "pcnt",
            Kind::ALib => "alib",
            Kind::AEx => "aex",
            Kind::BLib => "blib",
            Kind::BEx => "bex",
            Kind::Cap => "cap",
            Kind::Mig => "mig",
            Kind::Stk => "stk",
        }
    }
    fn fungible(self) -> bool {
        !matches!(self, Kind::PCnt | Kind::Mig | Kind::Stk)
    }
}

struct Sim {
    e: Env,
    u: Universe,
    c: Address,
    kind: Kind,
    now: u32,
    min_temp: u32,
    /// migration: 0 = native harness contract, 1 = native v1 example, 2 = prebuilt v2 wasm
    ver: u8,
    hash: Option<BytesN<32>>,
    max_ttl: u32,
}

/// constructor parameters; addresses are universe indices
#[derive(Clone, Copy)]
struct Params {
    owner: usize,
    mgr: usize,
    init: i128,
    cap: i128,
    ver: u8,
    max_ttl: u32,
    /// machine `stk` only: the AccessControl admin (the role "op" is held by `mgr`)
    adm: usize,
}

impl Sim {
    fn new(kind: Kind, p: Params, min_temp: u32, start: u32) -> Sim {
        let e = new_env(start, min_temp, p.max_ttl);
        let u = Universe::new(&e, N);
        let name = SString::from_str(&e, "Tok");
        let sym = SString::from_str(&e, "TOK");
        let o = u.a(p.owner).clone();
        let m = u.a(p.mgr).clone();
        let c = match kind {
            Kind::PTok => e.register(ex_ptok::ExampleContract, (name, sym, o, p.init)),
            Kind::PCnt => e.register(ex_pcnt::ExampleContract, (o,)),
            Kind::ALib => e.register(alib::ATok, ()),
            Kind::BLib => e.register(blib::BTok, ()),
            Kind::AEx => e.register(ex_allow::ExampleContract, (name, sym, o, m, p.init)),
            Kind::BEx => e.register(ex_block::ExampleContract, (name, sym, o, m, p.init)),
            Kind::Cap => {
                if p.ver == 1 {
                    e.register(cap_lib::CapLib, (p.cap,))
                } else {
                    e.register(ex_cap::ExampleContract, (p.cap,))
                }
            }
            Kind::Mig => {
                if p.ver == 1 {
                    e.register(ex_v1::ExampleContract, (o,))
                } else {
                    e.register(mig::Mig, (o,))
                }
            }
            Kind::Stk => e.register(stk::Stacked, (o, u.a(p.adm).clone(), m)),
        };
        let hash = if kind == Kind::Mig { Some(e.deployer().upload_contract_wasm(V2_WASM)) } else { None };
        Sim { e, u, c, kind, now: start, min_temp, ver: p.ver, hash, max_ttl: p.max_ttl }
    }
    fn label(kind: Kind, p: Params, min_temp: u32, start: u32, what: &str) -> String {
        let l = format!(
            "{} kind={} owner={} mgr={} init={} cap={} ver={} max_ttl={} min_temp={} start={}",
            what,
            kind.name(),
            p.owner,
            p.mgr,
            p.init,
            p.cap,
            p.ver,
            p.max_ttl,
            min_temp,
            start
        );
        if kind == Kind::Stk {
            format!("{} adm={} m=stk", l, p.adm)
        } else {
            l
        }
    }
    fn addr(&self, i: usize) -> Val {
        self.u.a(i).into_val(&self.e)
    }
    fn bal(&self, i: usize) -> i128 {
        query(&self.e, &self.c, "balance", args(&self.e, [self.addr(i)])).unwrap()
    }
    fn allowance(&self, o: usize, s: usize) -> i128 {
        query(&self.e, &self.c, "allowance", args(&self.e, [self.addr(o), self.addr(s)])).unwrap()
    }
    fn supply(&self) -> i128 {
        query(&self.e, &self.c, "total_supply", args(&self.e, [])).unwrap()
    }
    fn paused(&self) -> bool {
        query(&self.e, &self.c, "paused", args(&self.e, [])).unwrap()
    }
    fn listed(&self, i: usize) -> bool {
        let f = match self.kind {
            Kind::ALib | Kind::AEx => "allowed",
            _ => "blocked",
        };
        query(&self.e, &self.c, f, args(&self.e, [self.addr(i)])).unwrap()
    }
    fn cap(&self) -> Option<i128> {
        // the example has no getter for the cap: read the library's query function in the contract's
        // frame (`None` = the cap entry is gone: query_cap panics with CapNotSet)
        catch(|| self.e.as_contract(&self.c, || stellar_tokens::fungible::capped::query_cap(&self.e)))
    }
    fn counter(&self) -> i32 {
        if self.kind == Kind::Stk {
            return query(&self.e, &self.c, "counter", args(&self.e, [])).unwrap();
        }
        self.e.as_contract(&self.c, || self.e.storage().instance().get(&ex_pcnt::DataKey::Counter).unwrap())
    }
    fn migrating(&self) -> bool {
        // read the flag from storage (after `upgrade` the contract is a wasm without getter)
        self.e.as_contract(&self.c, || stellar_contract_utils::upgradeable::can_complete_migration(&self.e))
    }
    fn mig_data(&self) -> String {
        let d: Option<mig::Data> = self.e.as_contract(&self.c, || self.e.storage().instance().get(&mig::DATA_KEY));
        match d {
            Some(d) => format!("{}:{}", d.num1, d.num2),
            None => "-".into(),
        }
    }
    /// the contract's executable as recorded by the host is the uploaded v2 wasm
    fn wasm_flag(&self) -> bool {
        match (self.c.executable(), &self.hash) {
            (Some(soroban_sdk::Executable::Wasm(h)), Some(v2)) => h == *v2,
            _ => false,
        }
    }
    fn fstate(&self) -> String {
        let bals: Vec<i128> = (0..N).map(|i| self.bal(i)).collect();
        let mut al = vec![];
        for o in 0..N {
            for s in 0..N {
                let a = self.allowance(o, s);
                if a != 0 {
                    al.push(format!("{}:{}:{}", o, s, a));
                }
            }
        }
        format!("sup={} bal={} allow={}", self.supply(), join(&bals), if al.is_empty() { "-".into() } else { al.join(";") })
    }
    fn extra(&self) -> String {
        match self.kind {
            Kind::PTok => format!("paused={}", self.paused() as u8),
            Kind::PCnt | Kind::Stk => format!("counter={} paused={}", self.counter(), self.paused() as u8),
            Kind::ALib | Kind::AEx | Kind::BLib | Kind::BEx => {
                let l: String = (0..N).map(|i| if self.listed(i) { '1' } else { '0' }).collect();
                format!("list={}", l)
            }
            Kind::Cap => format!("cap={}", self.cap().map(|c| c.to_string()).unwrap_or("?".into())),
            Kind::Mig => format!("migrating={} data={} wasm={}", self.migrating() as u8, self.mig_data(), self.wasm_flag() as u8),
        }
    }
    fn events(&self) -> String {
        let evs = last_events(&self.e);
        let mut out = vec![];
        for ev in evs {
            let amt = ev_field(&ev.data, "amount").and_then(sc_i128).map(|x| x.to_string()).unwrap_or("?".into());
            let a0 = ev_addr(&self.u, ev.topics.get(0));
            match ev.name.as_str() {
                "mint" => out.push(format!("mint:{}:{}", a0, amt)),
                "burn" => out.push(format!("burn:{}:{}", a0, amt)),
                "transfer" => out.push(format!("transfer:{}:{}:{}", a0, ev_addr(&self.u, ev.topics.get(1)), amt)),
                "approve" => out.push(format!(
                    "approve:{}:{}:{}:{}",
                    a0,
                    ev_addr(&self.u, ev.topics.get(1)),
                    amt,
                    ev_field(&ev.data, "live_until_ledger").and_then(sc_u32).map(|x| x.to_string()).unwrap_or("?".into())
                )),
                "paused" => out.push("paused".into()),
                "unpaused" => out.push("unpaused".into()),
                "user_allowed" => out.push(format!("allowed:{}", a0)),
                "user_disallowed" => out.push(format!("disallowed:{}", a0)),
                "user_blocked" => out.push(format!("blocked:{}", a0)),
                "user_unblocked" => out.push(format!("unblocked:{}", a0)),
                other => out.push(format!("other:{}", other)),
            }
        }
        if out.is_empty() {
            "-".into()
        } else {
            out.join(";")
        }
    }
    fn observe(&self, t: &mut Trace, r: Option<Val>, ret: bool) {
        let (tag, evs, dem) = match r {
            Some(_) => ("ok", self.events(), join(&demanded(&self.e, &self.u))),
            None => ("err", "-".to_string(), "-".to_string()),
        };
        let retv = match (r, ret) {
            (Some(v), true) => {
                use soroban_sdk::TryFromVal;
                i32::try_from_val(&self.e, &v).map(|x| x.to_string()).unwrap_or("?".into())
            }
            _ => "-".into(),
        };
        let st = if self.kind.fungible() { self.fstate() } else { format!("ret={}", retv) };
        t.obs(&format!("{} {} now={} ev={} dem={} {}", tag, st, self.now, evs, dem, self.extra()));
    }
    /// a fungible entry point
    fn exec(&mut self, t: &mut Trace, kind: &str, a: &[usize], amount: i128, lu: u32, auth: &[usize]) {
        let e = &self.e;
        let ad = |i: usize| -> Val { self.u.a(i).into_val(e) };
        let (func, argv): (&str, soroban_sdk::Vec<Val>) = match kind {
            "mint" => ("mint", args(e, [ad(a[0]), v(e, amount)])),
            "transfer" => {
                let to: MuxedAddress = self.u.a(a[1]).clone().into();
                ("transfer", args(e, [ad(a[0]), v(e, to), v(e, amount)]))
            }
            "transfer_from" => ("transfer_from", args(e, [ad(a[0]), ad(a[1]), ad(a[2]), v(e, amount)])),
            "approve" => ("approve", args(e, [ad(a[0]), ad(a[1]), v(e, amount), v(e, lu)])),
            "burn" => ("burn", args(e, [ad(a[0]), v(e, amount)])),
            "burn_from" => ("burn_from", args(e, [ad(a[0]), ad(a[1]), v(e, amount)])),
            _ => unreachable!(),
        };
        t.op(&format!("fungible {} a={} amt={} lu={} auth={}", kind, join(a), amount, lu, join(auth)));
        let signers: Vec<&Address> = auth.iter().map(|&i| self.u.a(i)).collect();
        let r = call(e, &self.c, func, argv, &signers);
        self.observe(t, r, false);
    }
    /// a gate entry point: pause/unpause a=<caller>; increment/reset; allow/disallow/block/unblock
    /// a=<user>[,<operator>]; enable/ensure/complete; migrate a=<operator> d=<n1>,<n2>; upgrade a=<operator>
    fn gate(&mut self, t: &mut Trace, name: &str, a: &[usize], d: &[u32], auth: &[usize]) {
        let e = &self.e;
        let ad = |i: usize| -> Val { self.u.a(i).into_val(e) };
        let lib = matches!(self.kind, Kind::ALib | Kind::BLib);
        let (func, argv): (&str, soroban_sdk::Vec<Val>) = match name {
            "pause" => ("pause", args(e, [ad(a[0])])),
            "unpause" => ("unpause", args(e, [ad(a[0])])),
            "increment" => ("increment", args(e, [])),
            "reset" => ("emergency_reset", args(e, [])),
            "allow" | "disallow" | "block" | "unblock" => {
                if lib {
                    (name, args(e, [ad(a[0])]))
                } else {
                    let f = match name {
                        "allow" => "allow_user",
                        "disallow" => "disallow_user",
                        "block" => "block_user",
                        _ => "unblock_user",
                    };
                    (f, args(e, [ad(a[0]), ad(a[1])]))
                }
            }
            "enable" => ("enable", args(e, [])),
            "ensure" => ("ensure", args(e, [])),
            "complete" => ("complete", args(e, [])),
            "migrate" => {
                let data = mig::Data { num1: d[0], num2: d[1] };
                ("migrate", args(e, [v(e, data), ad(a[0])]))
            }
            "upgrade" => ("upgrade", args(e, [v(e, self.hash.clone().unwrap()), ad(a[0])])),
            // machine `stk`: the role-guarded entry points take the caller, the others nothing
            f if STK_FNS.iter().any(|x| x.0 == f) => {
                if a.is_empty() {
                    (f, args(e, []))
                } else {
                    (f, args(e, [ad(a[0])]))
                }
            }
            _ => unreachable!(),
        };
        t.op(&format!("gate {} a={} d={} auth={}", name, join(a), join(d), join(auth)));
        let signers: Vec<&Address> = auth.iter().map(|&i| self.u.a(i)).collect();
        let r = call(e, &self.c, func, argv, &signers);
        if name == "upgrade" && r.is_some() {
            self.ver = 2;
        }
        self.observe(t, r, name == "increment" || name.starts_with("inc_"));
    }
    /// `set_cap(c)` on the library flavour of the capped token
    fn setcap(&mut self, t: &mut Trace, c: i128) {
        t.op(&format!("gate setcap a=- d=- c={} auth=-", c));
        let r = call(&self.e, &self.c, "set_cap", args(&self.e, [v(&self.e, c)]), &[]);
        self.observe(t, r, false);
    }
    fn advance(&mut self, t: &mut Trace, n: u32) {
        self.now += n;
        set_ledger(&self.e, self.now, self.min_temp, self.max_ttl);
        t.op(&format!("fungible advance n={}", n));
        let st = if self.kind.fungible() { self.fstate() } else { "ret=-".to_string() };
        t.obs(&format!("ok {} now={} ev=- dem=- {}", st, self.now, self.extra()));
    }
}

fn pick_amount(rng: &mut Rng, sim: &Sim, from: Option<usize>, spender: Option<usize>, cap: i128) -> i128 {
    let bal = from.map(|f| sim.bal(f)).unwrap_or(0);
    let sup = sim.supply();
    let allow = match (from, spender) {
        (Some(f), Some(s)) => sim.allowance(f, s),
        _ => 0,
    };
    if sim.kind == Kind::Cap && from.is_none() {
        // mint on the capped token: around cap - supply and the i128 limit
        let room = cap.saturating_sub(sup);
        return match rng.below(16) {
            0 => room,
            1 => room.saturating_add(1),
            2 => (room - 1).max(0),
            3 => i128::MAX - sup,
            4 => (i128::MAX - sup).saturating_add(1),
            5 => i128::MAX,
            6 => 0,
            7 => -1,
            8 => room / 2,
            9 => rng.i128_any(),
            10 => cap,
            11 => cap.saturating_add(1),
            _ => (rng.range(1, 400) as i128).min(room.max(1)),
        };
    }
    match rng.below(22) {
        0 => 0,
        1 => 1,
        2 => -1,
        3 => bal,
        4 => bal.saturating_add(1),
        5 => (bal - 1).max(0),
        6 => allow,
        7 => allow.saturating_add(1),
        8 => (allow - 1).max(0),
        9 => i128::MAX,
        10 => i128::MAX - sup,
        11 => (i128::MAX - sup).saturating_add(1),
        12 => i128::MIN,
        13 => rng.i128_any(),
        14 | 17 | 18 => bal / 2,
        15 => allow.min(bal),
        16 => rng.i128_nonneg() >> 64,
        _ => rng.range(1, 1000) as i128,
    }
}

fn gen_auth(rng: &mut Rng, right: Vec<usize>, mentioned: &[usize]) -> Vec<usize> {
    let mut r: Vec<usize> = if rng.chance(82) {
        let mut r = right;
        if rng.chance(12) {
            r.push(rng.below(N as u64) as usize);
        }
        r
    } else if rng.chance(50) {
        mentioned.iter().cloned().filter(|x| !right.contains(x)).collect()
    } else {
        (0..N).filter(|_| rng.chance(35)).collect()
    };
    r.sort();
    r.dedup();
    r
}

/// a party that holds tokens (70 %), else anybody
fn holder(rng: &mut Rng, s: &Sim) -> usize {
    let hs: Vec<usize> = (0..N).filter(|&i| s.bal(i) > 0).collect();
    if !hs.is_empty() && rng.chance(70) {
        *rng.pick(&hs)
    } else {
        rng.below(N as u64) as usize
    }
}

/// (spender, owner) with a live allowance (65 %), else anybody
fn spender_owner(rng: &mut Rng, s: &Sim) -> (usize, usize) {
    let mut ps = vec![];
    for o in 0..N {
        for sp in 0..N {
            if s.allowance(o, sp) > 0 && s.bal(o) > 0 {
                ps.push((sp, o));
            }
        }
    }
    if !ps.is_empty() && rng.chance(65) {
        *rng.pick(&ps)
    } else {
        (rng.below(N as u64) as usize, rng.below(N as u64) as usize)
    }
}

/// mostly an amount the call can afford, otherwise a boundary / perturbed one
fn amount_for(rng: &mut Rng, s: &Sim, from: Option<usize>, spender: Option<usize>, cap: i128) -> i128 {
    if s.kind == Kind::Cap && from.is_none() {
        return pick_amount(rng, s, from, spender, cap);
    }
    if rng.chance(55) {
        let mut lim = from.map(|f| s.bal(f)).unwrap_or(2000);
        if let (Some(f), Some(sp)) = (from, spender) {
            lim = lim.min(s.allowance(f, sp));
        }
        if lim > 0 {
            return 1 + (rng.below(1 + (lim.min(4000) as u64) / 3)) as i128;
        }
    }
    pick_amount(rng, s, from, spender, cap)
}

/// one random fungible entry point call, `kinds` = the entry points the contract exposes
fn rand_fungible(rng: &mut Rng, s: &mut Sim, t: &mut Trace, kinds: &[&str], p: Params) {
    let kind = *rng.pick(kinds);
    let pa = |rng: &mut Rng| rng.below(N as u64) as usize;
    let (a, amount, lu): (Vec<usize>, i128, u32) = match kind {
        "mint" => (vec![pa(rng)], amount_for(rng, s, None, None, p.cap), 0),
        "transfer" => {
            let f = holder(rng, s);
            let to = if rng.chance(10) { f } else { pa(rng) };
            (vec![f, to], amount_for(rng, s, Some(f), None, p.cap), 0)
        }
        "transfer_from" => {
            let (sp, f) = spender_owner(rng, s);
            let to = if rng.chance(10) { f } else { pa(rng) };
            (vec![sp, f, to], amount_for(rng, s, Some(f), Some(sp), p.cap), 0)
        }
        "approve" => {
            let (o, sp) = (holder(rng, s), pa(rng));
            let lu = match rng.below(10) {
                0 => s.now.saturating_sub(1),
                1 => s.now,
                2 => s.now + s.max_ttl,
                3 if s.max_ttl == LONG_TTL => s.now + 40 * DAY,
                4 if s.max_ttl == LONG_TTL => s.now + 200 * DAY,
                _ => s.now + 50 + rng.below(300) as u32,
            };
            let amt = if rng.chance(70) { rng.range(1, 2000) as i128 } else { pick_amount(rng, s, Some(o), Some(sp), p.cap) };
            (vec![o, sp], amt, lu)
        }
        "burn" => {
            let f = holder(rng, s);
            (vec![f], amount_for(rng, s, Some(f), None, p.cap), 0)
        }
        _ => {
            let (sp, f) = spender_owner(rng, s);
            (vec![sp, f], amount_for(rng, s, Some(f), Some(sp), p.cap), 0)
        }
    };
    let right = match (kind, s.kind) {
        ("mint", Kind::PTok) => vec![p.owner],
        ("mint", _) => vec![],
        _ => vec![a[0]],
    };
    let auth = gen_auth(rng, right, &a);
    s.exec(t, kind, &a, amount, lu, &auth);
}

const ALL6: [&str; 6] = ["mint", "transfer", "transfer_from", "approve", "burn", "burn_from"];
const NO_MINT: [&str; 5] = ["transfer", "transfer_from", "approve", "burn", "burn_from"];
const BASE3: [&str; 3] = ["transfer", "transfer_from", "approve"];
const CAP4: [&str; 6] = ["mint", "mint", "mint", "transfer", "transfer_from", "approve"];

fn pp(owner: usize, mgr: usize, init: i128, cap: i128, ver: u8) -> Params {
    Params { owner, mgr, init, cap, ver, max_ttl: MAX_TTL, adm: 0 }
}

/// Run one family / sequence; a Rust panic inside it (a constructor that fails in `e.register`, a
/// getter that traps) must not take the whole run down: it is recorded as an operation whose
/// observation no model answer matches (= a correspondence break) and the run goes on.
fn guarded(t: &mut Trace, what: &str, f: impl FnOnce(&mut Trace)) {
    if catch(|| f(&mut *t)).is_none() {
        t.op("gate deploy a=- d=- auth=-");
        t.obs(&format!("err harness-panic in {}", what.replace(' ', "_")));
    }
}

// ---- directed scenarios --------------------------------------------------------------------

fn directed(t: &mut Trace) {
    // fungible-pausable: every entry point before / while / after pause; wrong and right owner auth
    guarded(t, "directed ptok", |t| {
    let p = pp(0, 0, 1000, 0, 0);
    t.seq(&Sim::label(Kind::PTok, p, 1, 100, "directed pausable token"));
    let mut s = Sim::new(Kind::PTok, p, 1, 100);
    s.exec(t, "mint", &[1], 500, 0, &[0]);
    s.exec(t, "mint", &[1], 500, 0, &[1]);
    s.exec(t, "approve", &[1, 2], 300, 5000, &[1]);
    s.exec(t, "transfer", &[1, 3], 10, 0, &[1]);
    s.gate(t, "unpause", &[0], &[], &[0]);
    s.gate(t, "pause", &[1], &[], &[1]);
    s.gate(t, "pause", &[0], &[], &[1]);
    s.gate(t, "pause", &[0], &[], &[]);
    s.gate(t, "pause", &[0], &[], &[0]);
    s.gate(t, "pause", &[0], &[], &[0]);
    s.exec(t, "mint", &[1], 5, 0, &[0]);
    s.exec(t, "transfer", &[1, 3], 10, 0, &[1]);
    s.exec(t, "transfer", &[1, 3], 0, 0, &[1]);
    s.exec(t, "transfer_from", &[2, 1, 3], 10, 0, &[2]);
    s.exec(t, "burn", &[1], 10, 0, &[1]);
    s.exec(t, "burn_from", &[2, 1], 10, 0, &[2]);
    s.exec(t, "approve", &[1, 2], 200, 5000, &[1]); // approve is not pausable in the example
    s.gate(t, "unpause", &[1], &[], &[1]);
    s.gate(t, "unpause", &[0], &[], &[2]);
    s.gate(t, "unpause", &[0], &[], &[0]);
    s.gate(t, "unpause", &[0], &[], &[0]);
    s.exec(t, "mint", &[1], 5, 0, &[0]);
    s.exec(t, "transfer", &[1, 3], 10, 0, &[1]);
    s.exec(t, "transfer_from", &[2, 1, 3], 10, 0, &[2]);
    s.exec(t, "burn", &[1], 10, 0, &[1]);
    s.exec(t, "burn_from", &[2, 1], 10, 0, &[2]);
    });

    // pausable counter
    guarded(t, "directed pcnt", |t| {
    let p = pp(2, 0, 0, 0, 0);
    t.seq(&Sim::label(Kind::PCnt, p, 1, 100, "directed pausable counter"));
    let mut s = Sim::new(Kind::PCnt, p, 1, 100);
    s.gate(t, "increment", &[], &[], &[]);
    s.gate(t, "increment", &[], &[], &[]);
    s.gate(t, "reset", &[], &[], &[]);
    s.gate(t, "unpause", &[2], &[], &[2]);
    s.gate(t, "pause", &[0], &[], &[0]);
    s.gate(t, "pause", &[2], &[], &[0]);
    s.gate(t, "pause", &[2], &[], &[2]);
    s.gate(t, "pause", &[2], &[], &[2]);
    s.gate(t, "increment", &[], &[], &[]);
    s.gate(t, "reset", &[], &[], &[]);
    s.gate(t, "unpause", &[2], &[], &[2]);
    s.gate(t, "increment", &[], &[], &[]);
    s.gate(t, "reset", &[], &[], &[]);
    });

    // allow list, library type and example: entry point x vetted role x status
    for kind in [Kind::ALib, Kind::AEx, Kind::BLib, Kind::BEx] {
        guarded(t, "directed list matrix", |t| {
        let p = pp(0, 1, 100_000, 0, 0);
        let allowl = matches!(kind, Kind::ALib | Kind::AEx);
        let lib = matches!(kind, Kind::ALib | Kind::BLib);
        t.seq(&Sim::label(kind, p, 1, 100, "directed list matrix"));
        let mut s = Sim::new(kind, p, 1, 100);
        let (on, off) = if allowl { ("allow", "disallow") } else { ("block", "unblock") };
        let lst = |s: &mut Sim, t: &mut Trace, name: &str, u: usize| {
            if lib {
                s.gate(t, name, &[u], &[], &[]);
            } else {
                s.gate(t, name, &[u, 1], &[], &[1]);
            }
        };
        // the role gate of the example's list management
        if !lib {
            s.gate(t, on, &[2, 0], &[], &[0]); // admin is not a manager
            s.gate(t, on, &[2, 1], &[], &[]); // manager without authorization
            s.gate(t, on, &[2, 1], &[], &[2]);
            s.gate(t, on, &[2, 2], &[], &[2]);
        }
        if lib {
            s.exec(t, "mint", &[0], 100_000, 0, &[]);
        }
        // everyone transferable: allow-list = all allowed, block-list = nobody blocked
        if allowl {
            for u in 0..N {
                lst(&mut s, t, "allow", u);
            }
            lst(&mut s, t, "allow", 2); // idempotent: no event
        } else {
            lst(&mut s, t, "unblock", 2); // idempotent: no event
        }
        for u in 1..N {
            s.exec(t, "transfer", &[0, u], 1000, 0, &[0]);
        }
        for o in 0..N {
            for sp in 0..N {
                if o != sp {
                    s.exec(t, "approve", &[o, sp], 500, 9000, &[o]);
                }
            }
        }
        let burns = kind != Kind::BEx;
        for x in [2usize, 3, 0] {
            // close the gate for x, try every entry point with x in every position
            lst(&mut s, t, if allowl { "disallow" } else { "block" }, x);
            lst(&mut s, t, if allowl { "disallow" } else { "block" }, x);
            let y = (x + 1) % N;
            let z = (x + 2) % N;
            s.exec(t, "transfer", &[x, y], 5, 0, &[x]);
            s.exec(t, "transfer", &[y, x], 5, 0, &[y]);
            s.exec(t, "transfer", &[x, x], 5, 0, &[x]);
            s.exec(t, "transfer", &[y, z], 5, 0, &[y]);
            s.exec(t, "transfer_from", &[y, x, z], 5, 0, &[y]);
            s.exec(t, "transfer_from", &[y, z, x], 5, 0, &[y]);
            s.exec(t, "transfer_from", &[x, y, z], 5, 0, &[x]); // spender is not vetted
            s.exec(t, "approve", &[x, y], 7, 9000, &[x]);
            s.exec(t, "approve", &[y, x], 7, 9000, &[y]); // spender is not vetted
            if burns {
                s.exec(t, "burn", &[x], 5, 0, &[x]);
                s.exec(t, "burn", &[x], 0, 0, &[x]);
                s.exec(t, "burn_from", &[y, x], 5, 0, &[y]);
                s.exec(t, "burn_from", &[x, y], 5, 0, &[x]); // spender is not vetted
                s.exec(t, "burn", &[y], 5, 0, &[y]);
            }
            // reopen: takes effect immediately
            lst(&mut s, t, if allowl { "allow" } else { "unblock" }, x);
            s.exec(t, "transfer", &[x, y], 5, 0, &[x]);
            if burns {
                s.exec(t, "burn", &[x], 5, 0, &[x]);
                s.exec(t, "burn_from", &[y, x], 5, 0, &[y]);
            }
        }
        let _ = (on, off);
        });
    }

    // regression (DESIGN section 8, defect 5): a holder disallowed after receiving tokens burns
    guarded(t, "directed defect 5", |t| {
    let p = pp(0, 1, 1000, 0, 0);
    t.seq(&Sim::label(Kind::AEx, p, 1, 100, "directed disallowed holder burns"));
    let mut s = Sim::new(Kind::AEx, p, 1, 100);
    s.gate(t, "allow", &[2, 1], &[], &[1]);
    s.exec(t, "transfer", &[0, 2], 100, 0, &[0]);
    s.exec(t, "approve", &[2, 3], 50, 5000, &[2]);
    s.gate(t, "disallow", &[2, 1], &[], &[1]);
    s.exec(t, "burn", &[2], 40, 0, &[2]);
    s.exec(t, "burn_from", &[3, 2], 30, 0, &[3]);
    });

    // capped, the cap set again: raised, lowered to the supply, lowered BELOW the supply (every mint refused,
    // also of 0? no: 0 keeps the supply where it is ... the comparison decides), negative (refused)
    guarded(t, "directed cap lowered", |t| {
        let p = pp(0, 0, 0, 1000, 1);
        t.seq(&Sim::label(Kind::Cap, p, 1, 100, "directed cap set again"));
        let mut s = Sim::new(Kind::Cap, p, 1, 100);
        s.exec(t, "mint", &[1], 600, 0, &[]);
        s.setcap(t, -1);
        s.setcap(t, 2000);
        s.exec(t, "mint", &[2], 900, 0, &[]); // 1500 <= 2000
        s.setcap(t, 1500); // exactly the supply
        s.exec(t, "mint", &[2], 1, 0, &[]);
        s.exec(t, "mint", &[2], 0, 0, &[]);
        s.setcap(t, 700); // below the supply
        s.exec(t, "mint", &[3], 1, 0, &[]);
        s.exec(t, "mint", &[3], 5, 0, &[]);
        s.exec(t, "mint", &[3], 0, 0, &[]);
        s.exec(t, "mint", &[3], i128::MAX - 1500, 0, &[]);
        s.exec(t, "mint", &[3], i128::MAX, 0, &[]);
        s.exec(t, "transfer", &[1, 3], 100, 0, &[1]);
        s.setcap(t, 0);
        s.exec(t, "mint", &[3], 1, 0, &[]);
        s.advance(t, 1000);
        s.exec(t, "mint", &[3], 1, 0, &[]);
        s.setcap(t, i128::MAX);
        s.exec(t, "mint", &[3], 1, 0, &[]);
        s.exec(t, "mint", &[3], i128::MAX - 1501, 0, &[]);
        s.exec(t, "mint", &[3], 1, 0, &[]);
    });

    // capped: cap - supply +/- 1, i128 overflow
    for cap in [1000i128, 0, i128::MAX, i128::MAX - 1] {
        guarded(t, "directed cap", |t| {
        let p = pp(0, 0, 0, cap, 0);
        t.seq(&Sim::label(Kind::Cap, p, 1, 100, "directed cap boundaries"));
        let mut s = Sim::new(Kind::Cap, p, 1, 100);
        s.exec(t, "mint", &[1], cap / 2, 0, &[]);
        s.exec(t, "mint", &[2], cap - cap / 2 + 1, 0, &[]);
        s.exec(t, "mint", &[2], cap - cap / 2 - 1, 0, &[]);
        s.exec(t, "mint", &[2], 2, 0, &[]);
        s.exec(t, "mint", &[2], 1, 0, &[]);
        s.exec(t, "mint", &[3], 1, 0, &[]);
        s.exec(t, "mint", &[3], 0, 0, &[]);
        s.exec(t, "mint", &[3], -1, 0, &[]);
        s.exec(t, "mint", &[3], i128::MAX, 0, &[]);
        s.exec(t, "mint", &[3], i128::MAX - cap, 0, &[]);
        s.exec(t, "mint", &[3], (i128::MAX - cap).saturating_add(1), 0, &[]);
        s.exec(t, "mint", &[3], i128::MIN, 0, &[]);
        s.exec(t, "transfer", &[1, 4], 1, 0, &[1]);
        });
    }

    // migration flag, (A) all-native histories
    guarded(t, "directed mig native", |t| {
    let p = pp(0, 0, 0, 0, 0);
    t.seq(&Sim::label(Kind::Mig, p, 1, 100, "directed migration native"));
    let mut s = Sim::new(Kind::Mig, p, 1, 100);
    s.gate(t, "migrate", &[0], &[1, 2], &[0]); // never enabled
    s.gate(t, "ensure", &[], &[], &[]);
    s.gate(t, "enable", &[], &[], &[]);
    s.gate(t, "ensure", &[], &[], &[]);
    s.gate(t, "migrate", &[1], &[3, 4], &[1]); // not the owner
    s.gate(t, "migrate", &[0], &[3, 4], &[1]); // owner named, somebody else signs
    s.gate(t, "migrate", &[0], &[3, 4], &[]);
    s.gate(t, "migrate", &[0], &[5, 6], &[0]);
    s.gate(t, "migrate", &[0], &[7, 8], &[0]); // second time: refused
    s.gate(t, "ensure", &[], &[], &[]);
    s.gate(t, "enable", &[], &[], &[]);
    s.gate(t, "enable", &[], &[], &[]);
    s.gate(t, "migrate", &[0], &[9, 10], &[0]);
    s.gate(t, "migrate", &[0], &[11, 12], &[0]);
    s.gate(t, "enable", &[], &[], &[]);
    s.gate(t, "complete", &[], &[], &[]);
    s.gate(t, "migrate", &[0], &[13, 14], &[0]);
    });
    // (B) `upgrade` as expanded by the tree's derive macros, then the prebuilt v2 wasm
    for ver in [0u8, 1] {
        guarded(t, "directed mig upgrade", |t| {
        let p = pp(3, 0, 0, 0, ver);
        t.seq(&Sim::label(Kind::Mig, p, 1, 100, "directed migration upgrade"));
        let mut s = Sim::new(Kind::Mig, p, 1, 100);
        s.gate(t, "migrate", &[3], &[1, 2], &[3]);
        s.gate(t, "upgrade", &[1], &[], &[1]);
        s.gate(t, "upgrade", &[3], &[], &[1]);
        s.gate(t, "upgrade", &[3], &[], &[]);
        s.gate(t, "upgrade", &[3], &[], &[3]);
        s.gate(t, "migrate", &[1], &[3, 4], &[1]);
        s.gate(t, "migrate", &[3], &[3, 4], &[3]);
        s.gate(t, "migrate", &[3], &[5, 6], &[3]);
        s.gate(t, "upgrade", &[3], &[], &[3]);
        s.gate(t, "upgrade", &[3], &[], &[3]);
        s.gate(t, "migrate", &[3], &[7, 8], &[3]);
        s.gate(t, "migrate", &[3], &[9, 10], &[3]);
        });
    }
}


// ---- long idle sequences -------------------------------------------------------------------
// Every gate is set up, then the ledger moves by 1, 31 and 100 days WITHOUT any call in between
// (long-horizon Env: max_entry_ttl of about a year, so the entries of the unmodified code stay
// live); after each gap all getters are observed and the gated entry points are retried. A flag or
// list entry that silently expires (e.g. moved to temporary storage) shows up here.

const GAPS: [u32; 3] = [DAY, 31 * DAY, 100 * DAY];

fn lp(owner: usize, mgr: usize, init: i128, cap: i128, ver: u8) -> Params {
    Params { owner, mgr, init, cap, ver, max_ttl: LONG_TTL, adm: 0 }
}

fn idle(t: &mut Trace) {
    let far = 100 + 200 * DAY; // allowances that outlive all gaps (132 days in total)

    // fungible-pausable: paused stays paused
    guarded(t, "idle ptok", |t| {
    let p = lp(0, 0, 1000, 0, 0);
    t.seq(&Sim::label(Kind::PTok, p, 1, 100, "idle pausable token"));
    let mut s = Sim::new(Kind::PTok, p, 1, 100);
    s.exec(t, "mint", &[1], 500, 0, &[0]);
    s.exec(t, "approve", &[1, 2], 300, far, &[1]);
    s.gate(t, "pause", &[0], &[], &[0]);
    for g in GAPS {
        s.advance(t, g);
        s.exec(t, "transfer", &[1, 3], 10, 0, &[1]);
        s.exec(t, "transfer_from", &[2, 1, 3], 10, 0, &[2]);
        s.exec(t, "burn", &[1], 5, 0, &[1]);
        s.exec(t, "burn_from", &[2, 1], 5, 0, &[2]);
        s.exec(t, "mint", &[1], 5, 0, &[0]);
        s.gate(t, "pause", &[0], &[], &[0]);
    }
    s.gate(t, "unpause", &[0], &[], &[0]);
    s.exec(t, "transfer", &[1, 3], 10, 0, &[1]);
    s.exec(t, "transfer_from", &[2, 1, 3], 10, 0, &[2]);
    s.advance(t, 31 * DAY);
    s.exec(t, "transfer", &[1, 3], 10, 0, &[1]);
    s.gate(t, "unpause", &[0], &[], &[0]);
    s.gate(t, "pause", &[0], &[], &[0]);
    s.advance(t, 31 * DAY);
    s.exec(t, "burn", &[1], 5, 0, &[1]);
    });

    // pausable counter
    guarded(t, "idle pcnt", |t| {
    let p = lp(2, 0, 0, 0, 0);
    t.seq(&Sim::label(Kind::PCnt, p, 1, 100, "idle pausable counter"));
    let mut s = Sim::new(Kind::PCnt, p, 1, 100);
    s.gate(t, "increment", &[], &[], &[]);
    s.gate(t, "pause", &[2], &[], &[2]);
    for g in GAPS {
        s.advance(t, g);
        s.gate(t, "increment", &[], &[], &[]);
        s.gate(t, "reset", &[], &[], &[]);
        s.gate(t, "pause", &[2], &[], &[2]);
    }
    s.gate(t, "unpause", &[2], &[], &[2]);
    s.gate(t, "increment", &[], &[], &[]);
    });

    // allow / block lists, library types and examples
    for kind in [Kind::ALib, Kind::AEx, Kind::BLib, Kind::BEx] {
        guarded(t, "idle list", |t| {
        let p = lp(0, 1, 100_000, 0, 0);
        let allowl = matches!(kind, Kind::ALib | Kind::AEx);
        let lib = matches!(kind, Kind::ALib | Kind::BLib);
        let burns = kind != Kind::BEx;
        t.seq(&Sim::label(kind, p, 1, 100, "idle list"));
        let mut s = Sim::new(kind, p, 1, 100);
        let lst = |s: &mut Sim, t: &mut Trace, name: &str, u: usize| {
            if lib {
                s.gate(t, name, &[u], &[], &[]);
            } else {
                s.gate(t, name, &[u, 1], &[], &[1]);
            }
        };
        if lib {
            s.exec(t, "mint", &[0], 100_000, 0, &[]);
        }
        // parties 0, 1, 2, 3 take part; 3 ends up gated (disallowed resp. blocked), 4 never listed
        if allowl {
            for u in 0..4 {
                lst(&mut s, t, "allow", u);
            }
        }
        for u in 1..4 {
            s.exec(t, "transfer", &[0, u], 1000, 0, &[0]);
        }
        s.exec(t, "approve", &[0, 1], 500, far, &[0]);
        s.exec(t, "approve", &[3, 1], 500, far, &[3]);
        s.exec(t, "approve", &[2, 3], 500, far, &[2]);
        lst(&mut s, t, if allowl { "disallow" } else { "block" }, 3);
        for g in GAPS {
            s.advance(t, g);
            // open parties still pass ...
            s.exec(t, "transfer", &[0, 1], 5, 0, &[0]);
            s.exec(t, "transfer_from", &[1, 0, 2], 5, 0, &[1]);
            s.exec(t, "approve", &[2, 0], 7, far, &[2]);
            if burns {
                s.exec(t, "burn", &[2], 5, 0, &[2]);
            }
            // ... the gated party is still refused in every vetted position
            s.exec(t, "transfer", &[3, 0], 5, 0, &[3]);
            s.exec(t, "transfer", &[0, 3], 5, 0, &[0]);
            s.exec(t, "transfer_from", &[1, 3, 0], 5, 0, &[1]);
            s.exec(t, "transfer_from", &[1, 0, 3], 5, 0, &[1]);
            s.exec(t, "approve", &[3, 0], 7, far, &[3]);
            if burns {
                s.exec(t, "burn", &[3], 5, 0, &[3]);
                s.exec(t, "burn_from", &[1, 3], 5, 0, &[1]);
            }
            // spender 3 is not vetted
            s.exec(t, "transfer_from", &[3, 2, 0], 5, 0, &[3]);
        }
        lst(&mut s, t, if allowl { "allow" } else { "unblock" }, 3);
        s.exec(t, "transfer", &[3, 0], 5, 0, &[3]);
        s.advance(t, 31 * DAY);
        s.exec(t, "transfer", &[3, 0], 5, 0, &[3]);
        });
    }

    // capped: the cap survives, mints near it
    guarded(t, "idle cap", |t| {
    let p = lp(0, 0, 0, 1000, 0);
    t.seq(&Sim::label(Kind::Cap, p, 1, 100, "idle cap"));
    let mut s = Sim::new(Kind::Cap, p, 1, 100);
    s.exec(t, "mint", &[1], 990, 0, &[]);
    for (i, g) in GAPS.iter().enumerate() {
        s.advance(t, *g);
        s.exec(t, "mint", &[2], 11 - 4 * i as i128, 0, &[]); // one unit too many
        s.exec(t, "mint", &[2], 4, 0, &[]);
        s.exec(t, "mint", &[2], i128::MAX, 0, &[]);
    }
    s.exec(t, "mint", &[2], 1, 0, &[]);
    s.exec(t, "mint", &[2], 0, 0, &[]);
    });

    // migration flag: armed stays armed, cleared stays cleared
    for (ver, upgrade) in [(0u8, false), (0, true), (1, true)] {
        guarded(t, "idle mig", |t| {
        let p = lp(3, 0, 0, 0, ver);
        t.seq(&Sim::label(Kind::Mig, p, 1, 100, "idle migration"));
        let mut s = Sim::new(Kind::Mig, p, 1, 100);
        if upgrade {
            s.gate(t, "upgrade", &[3], &[], &[3]);
        } else {
            s.gate(t, "enable", &[], &[], &[]);
        }
        for g in GAPS {
            s.advance(t, g);
            if !upgrade {
                s.gate(t, "ensure", &[], &[], &[]);
            }
            s.gate(t, "migrate", &[1], &[1, 2], &[1]); // not the owner: refused, flag stays
        }
        s.gate(t, "migrate", &[3], &[3, 4], &[3]);
        for g in GAPS {
            s.advance(t, g);
            s.gate(t, "migrate", &[3], &[5, 6], &[3]); // already completed: refused
        }
        });
    }
}

// ---- generated sequences ---------------------------------------------------------------------

fn rand_seq(rng: &mut Rng, t: &mut Trace, kind: Kind, k: u64, seed: u64, len: u64) {
    let min_temp = if rng.chance(50) { 1 } else { 16 };
    let start = *rng.pick(&[2u32, 100, 5000]);
    let owner = rng.below(N as u64) as usize;
    let mgr = rng.below(N as u64) as usize;
    let cap = match rng.below(6) {
        0 => 0,
        1 => i128::MAX,
        2 => i128::MAX - rng.below(3) as i128,
        3 => rng.i128_nonneg(),
        _ => rng.range(1, 5000) as i128,
    };
    let init = if rng.chance(15) { 0 } else { rng.range(1, 100_000) as i128 };
    let ver = if (kind == Kind::Mig && rng.chance(30)) || (kind == Kind::Cap && rng.chance(50)) { 1 } else { 0 };
    // a fifth of the sequences live in the long-horizon Env and contain day / month / 100-day gaps
    let long = rng.chance(20);
    let mut p = pp(owner, mgr, init, cap, ver);
    if long {
        p.max_ttl = LONG_TTL;
    }
    t.seq(&Sim::label(kind, p, min_temp, start, &format!("rand k={} seed={}", k, seed)));
    let mut s = Sim::new(kind, p, min_temp, start);
    let pa = |rng: &mut Rng| rng.below(N as u64) as usize;
    // in the (B) flavour of the migration sequences `upgrade` happens somewhere in the middle
    let upgrade_allowed = rng.chance(60) || ver == 1;
    for _ in 0..len {
        let r = rng.below(100);
        if long && rng.chance(7) {
            let n = *rng.pick(&GAPS);
            if (s.now - start) as u64 + (n as u64) < 5_500_000 {
                s.advance(t, n);
            }
            continue;
        }
        if kind.fungible() && r < 3 {
            let n = *rng.pick(&[0u32, 1, 16, 100]);
            s.advance(t, n);
            continue;
        }
        match kind {
            Kind::PTok => {
                if r < 22 {
                    let name = if s.paused() == rng.chance(75) { "unpause" } else { "pause" };
                    let caller = if rng.chance(75) { owner } else { pa(rng) };
                    let auth = gen_auth(rng, vec![caller], &[owner]);
                    s.gate(t, name, &[caller], &[], &auth);
                } else {
                    rand_fungible(rng, &mut s, t, &ALL6, p);
                }
            }
            Kind::PCnt => {
                if r < 35 {
                    let name = if s.paused() == rng.chance(70) { "unpause" } else { "pause" };
                    let caller = if rng.chance(75) { owner } else { pa(rng) };
                    let auth = gen_auth(rng, vec![caller], &[owner]);
                    s.gate(t, name, &[caller], &[], &auth);
                } else if r < 80 {
                    s.gate(t, "increment", &[], &[], &[]);
                } else {
                    s.gate(t, "reset", &[], &[], &[]);
                }
            }
            Kind::ALib | Kind::BLib | Kind::AEx | Kind::BEx => {
                let allowl = matches!(kind, Kind::ALib | Kind::AEx);
                let lib = matches!(kind, Kind::ALib | Kind::BLib);
                if r < 28 {
                    let u = pa(rng);
                    // open the gate more often than close it, so that many calls pass
                    let open = rng.chance(68);
                    let name = match (allowl, open) {
                        (true, true) => "allow",
                        (true, false) => "disallow",
                        (false, true) => "unblock",
                        (false, false) => "block",
                    };
                    if lib {
                        s.gate(t, name, &[u], &[], &[]);
                    } else {
                        let op = if rng.chance(80) { mgr } else { pa(rng) };
                        let auth = gen_auth(rng, vec![op], &[mgr, u]);
                        s.gate(t, name, &[u, op], &[], &auth);
                    }
                } else {
                    let kinds: &[&str] = match kind {
                        Kind::ALib | Kind::BLib => &ALL6,
                        Kind::AEx => &NO_MINT,
                        _ => &BASE3,
                    };
                    rand_fungible(rng, &mut s, t, kinds, p);
                }
            }
            Kind::Cap => {
                if p.ver == 1 && rng.chance(12) {
                    // the cap set again: around the current supply, far above, zero, negative
                    let sup = s.supply();
                    let c = match rng.below(8) {
                        0 => sup,
                        1 => sup.saturating_sub(1),
                        2 => sup.saturating_add(1),
                        3 => sup / 2,
                        4 => sup.saturating_mul(2).saturating_add(10),
                        5 => 0,
                        6 => -(rng.range(1, 5) as i128),
                        _ => i128::MAX,
                    };
                    s.setcap(t, c);
                } else {
                    rand_fungible(rng, &mut s, t, &CAP4, p)
                }
            }
            Kind::Mig => {
                let d = [rng.below(100) as u32, rng.below(100) as u32];
                let operator = if rng.chance(78) { owner } else { pa(rng) };
                let auth = gen_auth(rng, vec![operator], &[owner]);
                if s.ver == 0 && r < 45 {
                    let name = if r < 25 {
                        "enable"
                    } else if r < 35 {
                        "ensure"
                    } else {
                        "complete"
                    };
                    s.gate(t, name, &[], &[], &[]);
                } else if upgrade_allowed && (r >= 88 || (s.ver != 0 && r < 30)) {
                    s.gate(t, "upgrade", &[operator], &[], &auth);
                } else {
                    s.gate(t, "migrate", &[operator], &d, &auth);
                }
            }
            Kind::Stk => unreachable!("machine stk has its own generator (rand_stk)"),
        }
    }
}

// ---- machine `stk`: stacked authorization and pause guards -------------------------------------

fn sp(owner: usize, opr: usize, adm: usize, max_ttl: u32) -> Params {
    Params { owner, mgr: opr, init: 0, cap: 0, ver: 0, max_ttl, adm }
}

/// the principal of a guarded entry point of `stk::Stacked`
fn stk_principal(p: Params, who: char) -> usize {
    match who {
        'o' => p.owner,
        'a' => p.adm,
        _ => p.mgr,
    }
}

/// every guarded entry point once with each of: the right signer, the right signer among others, a wrong
/// signer, nobody; the role-guarded ones also for a caller that does not hold the role
fn stk_matrix(s: &mut Sim, t: &mut Trace, p: Params) {
    for (name, who, _) in STK_FNS {
        let pr = stk_principal(p, who);
        let wrong = (0..N).find(|x| *x != p.owner && *x != p.adm && *x != p.mgr).unwrap_or((pr + 1) % N);
        let other = if who == 'o' { p.adm } else { p.owner };
        if who == 'r' {
            s.gate(t, name, &[pr], &[], &[]);
            s.gate(t, name, &[pr], &[], &[wrong]);
            s.gate(t, name, &[pr], &[], &[other]);
            s.gate(t, name, &[wrong], &[], &[wrong]); // authorizes, but does not hold the role
            s.gate(t, name, &[other], &[], &[other, pr]);
            s.gate(t, name, &[pr], &[], &[pr]);
            let mut both = vec![pr, wrong];
            both.sort();
            both.dedup();
            s.gate(t, name, &[pr], &[], &both);
        } else {
            s.gate(t, name, &[], &[], &[]);
            s.gate(t, name, &[], &[], &[wrong]);
            s.gate(t, name, &[], &[], &[other]);
            s.gate(t, name, &[], &[], &[pr]);
            let mut both = vec![pr, wrong];
            both.sort();
            both.dedup();
            s.gate(t, name, &[], &[], &both);
        }
    }
}

fn stacked(t: &mut Trace) {
    // distinct principals, then principals that coincide (owner = admin = role holder)
    for (owner, opr, adm) in [(0usize, 1usize, 2usize), (3, 3, 3), (4, 0, 4)] {
        guarded(t, "directed stk", |t| {
        let p = sp(owner, opr, adm, MAX_TTL);
        t.seq(&Sim::label(Kind::Stk, p, 1, 100, "directed stacked guards"));
        let mut s = Sim::new(Kind::Stk, p, 1, 100);
        let stranger = (0..N).find(|x| *x != owner).unwrap();
        // not paused: inc_* open to their principal, reset_* closed for everybody
        stk_matrix(&mut s, t, p);
        s.gate(t, "unpause", &[owner], &[], &[owner]);
        s.gate(t, "pause", &[stranger], &[], &[stranger]);
        s.gate(t, "pause", &[owner], &[], &[stranger]);
        s.gate(t, "pause", &[owner], &[], &[]);
        s.gate(t, "pause", &[owner], &[], &[owner]);
        s.gate(t, "pause", &[owner], &[], &[owner]);
        // paused: inc_* closed for everybody whatever the order of the attributes, reset_* open
        stk_matrix(&mut s, t, p);
        s.gate(t, "unpause", &[stranger], &[], &[stranger]);
        s.gate(t, "unpause", &[owner], &[], &[stranger]);
        s.gate(t, "unpause", &[owner], &[], &[owner]);
        s.gate(t, "unpause", &[owner], &[], &[owner]);
        // works again unchanged after unpausing
        stk_matrix(&mut s, t, p);
        s.gate(t, "pause", &[owner], &[], &[owner]);
        for (name, who, _) in STK_FNS {
            let pr = stk_principal(p, who);
            if who == 'r' {
                s.gate(t, name, &[pr], &[], &[pr]);
            } else {
                s.gate(t, name, &[], &[], &[pr]);
            }
        }
        });
    }

    // long idle: paused stays paused, the principals stay the principals
    guarded(t, "idle stk", |t| {
    let p = sp(0, 1, 2, LONG_TTL);
    t.seq(&Sim::label(Kind::Stk, p, 1, 100, "idle stacked guards"));
    let mut s = Sim::new(Kind::Stk, p, 1, 100);
    s.gate(t, "inc_a", &[], &[], &[0]);
    s.gate(t, "inc_r", &[1], &[], &[1]);
    s.gate(t, "pause", &[0], &[], &[0]);
    for g in GAPS {
        s.advance(t, g);
        for (name, who, _) in STK_FNS {
            let pr = stk_principal(p, who);
            if who == 'r' {
                s.gate(t, name, &[pr], &[], &[pr]);
                s.gate(t, name, &[pr], &[], &[]);
            } else {
                s.gate(t, name, &[], &[], &[pr]);
                s.gate(t, name, &[], &[], &[]);
            }
        }
        s.gate(t, "pause", &[0], &[], &[0]);
    }
    s.gate(t, "unpause", &[0], &[], &[0]);
    s.advance(t, 31 * DAY);
    for (name, who, _) in STK_FNS {
        let pr = stk_principal(p, who);
        if who == 'r' {
            s.gate(t, name, &[pr], &[], &[pr]);
        } else {
            s.gate(t, name, &[], &[], &[pr]);
        }
    }
    });
}

fn rand_stk(rng: &mut Rng, t: &mut Trace, k: u64, seed: u64, len: u64) {
    let min_temp = if rng.chance(50) { 1 } else { 16 };
    let start = *rng.pick(&[2u32, 100, 5000]);
    let pa = |rng: &mut Rng| rng.below(N as u64) as usize;
    let owner = pa(rng);
    // a third of the sequences let principals coincide
    let (opr, adm) = if rng.chance(33) { (owner, if rng.chance(50) { owner } else { pa(rng) }) } else { (pa(rng), pa(rng)) };
    let long = rng.chance(20);
    let p = sp(owner, opr, adm, if long { LONG_TTL } else { MAX_TTL });
    t.seq(&Sim::label(Kind::Stk, p, min_temp, start, &format!("rand k={} seed={}", k, seed)));
    let mut s = Sim::new(Kind::Stk, p, min_temp, start);
    for _ in 0..len {
        let r = rng.below(100);
        if long && rng.chance(7) {
            let n = *rng.pick(&GAPS);
            if (s.now - start) as u64 + (n as u64) < 5_500_000 {
                s.advance(t, n);
            }
            continue;
        }
        if r < 3 {
            let n = *rng.pick(&[0u32, 1, 16, 100]);
            s.advance(t, n);
        } else if r < 28 {
            let name = if s.paused() == rng.chance(72) { "unpause" } else { "pause" };
            let caller = if rng.chance(78) { owner } else { pa(rng) };
            let auth = gen_auth(rng, vec![caller], &[owner]);
            s.gate(t, name, &[caller], &[], &auth);
        } else {
            // mostly an entry point whose pause condition holds (so that many calls pass), every
            // entry point and both orders of the attributes equally often
            let paused = s.paused();
            let fits: Vec<(&str, char, bool)> = STK_FNS.iter().cloned().filter(|x| x.2 == paused).collect();
            let (name, who, _) = if rng.chance(65) { *rng.pick(&fits) } else { *rng.pick(&STK_FNS) };
            let pr = stk_principal(p, who);
            if who == 'r' {
                let caller = if rng.chance(78) { pr } else { pa(rng) };
                let auth = gen_auth(rng, vec![caller], &[owner, adm, opr]);
                s.gate(t, name, &[caller], &[], &auth);
            } else {
                let auth = gen_auth(rng, vec![pr], &[owner, adm, opr]);
                s.gate(t, name, &[], &[], &auth);
            }
        }
    }
}

fn main() {
    let mut t = Trace::from_args();
    let seed = seed_from_env();
    let thorough = arg_str("--tier").as_deref() == Some("thorough");
    let only = arg_str("--only");
    let per_kind = arg_u64("--seqs", if thorough { 160 } else { 48 });
    let len = arg_u64("--len", 40);
    let mut rng = Rng::new(seed);
    directed(&mut t);
    idle(&mut t);
    stacked(&mut t);
    let kinds = [Kind::PTok, Kind::PCnt, Kind::ALib, Kind::AEx, Kind::BLib, Kind::BEx, Kind::Cap, Kind::Mig];
    let mut k = 0;
    for _ in 0..per_kind {
        for kind in kinds {
            if let Some(o) = &only {
                if o != kind.name() {
                    continue;
                }
            }
            let l = if kind.fungible() { len } else { len / 2 + 6 };
            guarded(&mut t, "rand", |t| rand_seq(&mut rng, t, kind, k, seed, l));
            k += 1;
        }
    }
    // machine `stk` after all the others (their random streams stay what they were)
    if only.as_deref().map(|o| o == "stk").unwrap_or(true) {
        for _ in 0..per_kind {
            guarded(&mut t, "rand", |t| rand_stk(&mut rng, t, k, seed, len / 2 + 10));
            k += 1;
        }
    }
    t.finish();
}
