//! C03 correspondence: the REAL `examples/multisig-smart-account/account` contract (its
//! `__check_auth` = `do_check_auth`, its rule-management entry points) driven in the native
//! Soroban host together with scriptable MOCK verifier and policy contracts that log every call
//! (incl. the signer list and the rule they receive) into a process-local log that survives the
//! host's rollback, so that the evaluation order is observable on rejected checks too.
//!
//! Line protocol (`sa <kind> k=v ...`), observation = `ok|err id=.. log=.. st=..`; see
//! /verif/lean/OZ/Drv/C03.lean for the other side.
use ozharness::*;
use soroban_sdk::{
    auth::{Context, ContractContext, ContractExecutable, CreateContractHostFnContext, CreateContractWithConstructorHostFnContext},
    contract, contractimpl, contracttype, xdr, Address, Bytes, BytesN, Env, IntoVal, Map, String as SString, Symbol,
    TryFromVal, Val, Vec as SVec,
};
use std::cell::RefCell;
use stellar_accounts::smart_account::{ContextRule, ContextRuleType, Signatures, Signer, SmartAccountError};

#[path = "/repo/examples/multisig-smart-account/account/src/contract.rs"]
#[allow(dead_code)]
mod account;
#[path = "/repo/examples/multisig-smart-account/threshold-policy/src/contract.rs"]
#[allow(dead_code)]
mod threshold;

// ------------------------------------------------------------------------------------------
// process-local call log (plain data: survives rollback of a failed invocation)
// ------------------------------------------------------------------------------------------
#[derive(Clone, Debug, PartialEq)]
enum PSigner {
    D(xdr::ScAddress),
    X(xdr::ScAddress, Vec<u8>),
}
#[derive(Clone, Debug, PartialEq)]
enum PType {
    Default,
    Call(xdr::ScAddress),
    Create([u8; 32]),
}
#[derive(Clone, Debug, PartialEq)]
struct PRule {
    id: u32,
    ty: PType,
    vu: Option<u32>,
    signers: Vec<PSigner>,
    policies: Vec<xdr::ScAddress>,
}
#[derive(Clone, Debug)]
enum PCtx {
    Call(xdr::ScAddress, String),
    Create([u8; 32], bool),
}
#[derive(Clone, Debug)]
enum Ev {
    Verify { v: xdr::ScAddress, key: Vec<u8>, sig: Vec<u8> },
    Can { p: xdr::ScAddress, ctx: PCtx, signers: Vec<PSigner>, rule: PRule, acct: xdr::ScAddress },
    Enforce { p: xdr::ScAddress, ctx: PCtx, signers: Vec<PSigner>, rule: PRule, acct: xdr::ScAddress },
    Install { p: xdr::ScAddress, rule: PRule },
    Uninstall { p: xdr::ScAddress, rule: PRule },
    Hit { t: xdr::ScAddress, f: u32 },
    NoAuth,
}
thread_local! {
    static LOG: RefCell<Vec<Ev>> = RefCell::new(Vec::new());
}
fn log(ev: Ev) {
    LOG.with(|l| l.borrow_mut().push(ev));
}
fn take_log() -> Vec<Ev> {
    LOG.with(|l| std::mem::take(&mut *l.borrow_mut()))
}

fn bytes_vec(b: &Bytes) -> Vec<u8> {
    b.iter().collect()
}
fn psigner(s: &Signer) -> PSigner {
    match s {
        Signer::Delegated(a) => PSigner::D(sc_address(a)),
        Signer::External(v, k) => PSigner::X(sc_address(v), bytes_vec(k)),
    }
}
fn ptype(t: &ContextRuleType) -> PType {
    match t {
        ContextRuleType::Default => PType::Default,
        ContextRuleType::CallContract(a) => PType::Call(sc_address(a)),
        ContextRuleType::CreateContract(h) => PType::Create(h.to_array()),
    }
}
fn prule(r: &ContextRule) -> PRule {
    PRule {
        id: r.id,
        ty: ptype(&r.context_type),
        vu: r.valid_until,
        signers: r.signers.iter().map(|s| psigner(&s)).collect(),
        policies: r.policies.iter().map(|p| sc_address(&p)).collect(),
    }
}
fn pctx(c: &Context) -> PCtx {
    match c {
        Context::Contract(ContractContext { contract, fn_name, .. }) => PCtx::Call(sc_address(contract), sym_string(contract.env(), fn_name)),
        Context::CreateContractHostFn(CreateContractHostFnContext { executable: ContractExecutable::Wasm(w), .. }) => {
            PCtx::Create(w.to_array(), false)
        }
        Context::CreateContractWithCtorHostFn(CreateContractWithConstructorHostFnContext {
            executable: ContractExecutable::Wasm(w),
            ..
        }) => PCtx::Create(w.to_array(), true),
    }
}
fn sym_string(e: &Env, s: &Symbol) -> String {
    match xdr::ScVal::try_from_val(e, &s.to_val()) {
        Ok(xdr::ScVal::Symbol(x)) => x.to_utf8_string_lossy(),
        _ => "?".into(),
    }
}

// ------------------------------------------------------------------------------------------
// mock verifier: answer = per-key mode (setter) or, in mode 0, the first signature byte
// ------------------------------------------------------------------------------------------
#[contract]
pub struct MockVerifier;

#[contracttype]
pub enum VKey {
    Mode(Bytes),
}

#[contractimpl]
impl MockVerifier {
    pub fn verify(e: &Env, _hash: Bytes, key_data: Bytes, sig_data: Bytes) -> bool {
        log(Ev::Verify { v: sc_address(&e.current_contract_address()), key: bytes_vec(&key_data), sig: bytes_vec(&sig_data) });
        let mode: u32 = e.storage().persistent().get(&VKey::Mode(key_data)).unwrap_or(0);
        let by_sig = sig_data.get(0).unwrap_or(0);
        match mode {
            0 => match by_sig {
                1 => true,
                0 => false,
                _ => panic!("mock verifier: scripted trap"),
            },
            1 => true,
            2 => false,
            _ => panic!("mock verifier: scripted trap"),
        }
    }
    pub fn set_mode(e: &Env, key: Bytes, mode: u32) {
        e.storage().persistent().set(&VKey::Mode(key), &mode);
    }
}

// ------------------------------------------------------------------------------------------
// mock policy: can_enforce = (#signers received >= thr(rule.id)) && context not denied;
// enforce refuses when its budget is exhausted; install / uninstall can be told to trap
// ------------------------------------------------------------------------------------------
#[contract]
pub struct MockPolicy;

#[contracttype]
pub enum PKey {
    Thr(u32),
    Dflt,
    DenyFn(Symbol),
    DenyCreate,
    Budget,
    InstallTrap,
    UninstallTrap,
}

#[contractimpl]
impl MockPolicy {
    pub fn can_enforce(e: &Env, context: Context, authenticated_signers: soroban_sdk::Vec<Signer>, context_rule: ContextRule, smart_account: Address) -> bool {
        log(Ev::Can {
            p: sc_address(&e.current_contract_address()),
            ctx: pctx(&context),
            signers: authenticated_signers.iter().map(|s| psigner(&s)).collect(),
            rule: prule(&context_rule),
            acct: sc_address(&smart_account),
        });
        let st = e.storage().persistent();
        let dflt: u32 = st.get(&PKey::Dflt).unwrap_or(0);
        let thr: u32 = st.get(&PKey::Thr(context_rule.id)).unwrap_or(dflt);
        let denied = match &context {
            Context::Contract(c) => st.get::<_, bool>(&PKey::DenyFn(c.fn_name.clone())).unwrap_or(false),
            _ => st.get::<_, bool>(&PKey::DenyCreate).unwrap_or(false),
        };
        authenticated_signers.len() >= thr && !denied
    }
    pub fn enforce(e: &Env, context: Context, authenticated_signers: soroban_sdk::Vec<Signer>, context_rule: ContextRule, smart_account: Address) {
        log(Ev::Enforce {
            p: sc_address(&e.current_contract_address()),
            ctx: pctx(&context),
            signers: authenticated_signers.iter().map(|s| psigner(&s)).collect(),
            rule: prule(&context_rule),
            acct: sc_address(&smart_account),
        });
        let st = e.storage().persistent();
        if let Some(b) = st.get::<_, u32>(&PKey::Budget) {
            if b == 0 {
                panic!("mock policy: budget exhausted");
            }
            st.set(&PKey::Budget, &(b - 1));
        }
    }
    pub fn install(e: &Env, _install_params: Val, context_rule: ContextRule, _smart_account: Address) {
        log(Ev::Install { p: sc_address(&e.current_contract_address()), rule: prule(&context_rule) });
        if e.storage().persistent().get::<_, bool>(&PKey::InstallTrap).unwrap_or(false) {
            panic!("mock policy: install refused");
        }
    }
    pub fn uninstall(e: &Env, context_rule: ContextRule, _smart_account: Address) {
        log(Ev::Uninstall { p: sc_address(&e.current_contract_address()), rule: prule(&context_rule) });
        if e.storage().persistent().get::<_, bool>(&PKey::UninstallTrap).unwrap_or(false) {
            panic!("mock policy: uninstall trap");
        }
    }
    pub fn set_thr(e: &Env, rule: u32, k: u32) {
        e.storage().persistent().set(&PKey::Thr(rule), &k);
    }
    pub fn set_dflt(e: &Env, k: u32) {
        e.storage().persistent().set(&PKey::Dflt, &k);
    }
    pub fn set_denyfn(e: &Env, f: Symbol, on: bool) {
        e.storage().persistent().set(&PKey::DenyFn(f), &on);
    }
    pub fn set_denycreate(e: &Env, on: bool) {
        e.storage().persistent().set(&PKey::DenyCreate, &on);
    }
    pub fn set_budget(e: &Env, b: Option<u32>) {
        match b {
            Some(b) => e.storage().persistent().set(&PKey::Budget, &b),
            None => e.storage().persistent().remove(&PKey::Budget),
        }
    }
    pub fn set_install_trap(e: &Env, on: bool) {
        e.storage().persistent().set(&PKey::InstallTrap, &on);
    }
    pub fn set_uninstall_trap(e: &Env, on: bool) {
        e.storage().persistent().set(&PKey::UninstallTrap, &on);
    }
}

// ------------------------------------------------------------------------------------------
// target of the end-to-end invocations: requires the account's authorization at every level
// ------------------------------------------------------------------------------------------
#[contract]
pub struct Target;

#[contractimpl]
impl Target {
    pub fn f0(e: &Env, who: Address, subs: soroban_sdk::Vec<Address>) {
        who.require_auth();
        log(Ev::Hit { t: sc_address(&e.current_contract_address()), f: 0 });
        for s in subs.iter() {
            e.invoke_contract::<()>(&s, &Symbol::new(e, "f1"), SVec::from_array(e, [who.to_val()]));
        }
    }
    pub fn f1(e: &Env, who: Address) {
        who.require_auth();
        log(Ev::Hit { t: sc_address(&e.current_contract_address()), f: 1 });
    }
}

// ------------------------------------------------------------------------------------------
// universe
// ------------------------------------------------------------------------------------------
const ND: usize = 4; // delegated addresses d0..d3
const NV: usize = 3; // verifiers v0, v1 (mock contracts), v2 (no contract there)
const NK: usize = 6; // keys 0..5 per verifier (4 delegated + 2 x 6 verifying keys = 16 signers that can all be valid at once)
const NP: usize = 7; // mock policies 0..6 in HOST ORDER of their addresses (= Map key order)
const NT: usize = 3; // call targets / wasm hashes
const MAX_TTL: u32 = 3_000_000;
/// long-horizon Env of the "long idle" sequences: max_entry_ttl ~ 1 year, persistent entries of the
/// unmodified code (min_persistent_entry_ttl = max - 1) outlive the 132 idle days
const LONG_TTL: u32 = 6_312_000;
const DAY: u32 = 17_280;

#[derive(Clone, Copy, Debug, PartialEq, Eq, PartialOrd, Ord)]
enum Sg {
    D(usize),
    X(usize, usize),
}
impl std::fmt::Display for Sg {
    fn fmt(&self, f: &mut std::fmt::Formatter<'_>) -> std::fmt::Result {
        match self {
            Sg::D(a) => write!(f, "d{}", a),
            Sg::X(v, k) => write!(f, "x{}.{}", v, k),
        }
    }
}
#[derive(Clone, Copy, Debug, PartialEq, Eq)]
enum Ty {
    D,
    C(usize),
    K(usize),
}
impl std::fmt::Display for Ty {
    fn fmt(&self, f: &mut std::fmt::Formatter<'_>) -> std::fmt::Result {
        match self {
            Ty::D => write!(f, "D"),
            Ty::C(a) => write!(f, "C{}", a),
            Ty::K(h) => write!(f, "K{}", h),
        }
    }
}
/// context: Call(target, fn tag 0..2) / Create(hash, 0 = plain, 1 = with constructor)
#[derive(Clone, Copy, Debug, PartialEq, Eq)]
enum Cx {
    C(usize, usize),
    K(usize, usize),
}
impl std::fmt::Display for Cx {
    fn fmt(&self, f: &mut std::fmt::Formatter<'_>) -> std::fmt::Result {
        match self {
            Cx::C(a, t) => write!(f, "C{}.{}", a, t),
            Cx::K(h, t) => write!(f, "K{}.{}", h, t),
        }
    }
}

fn plus<T: std::fmt::Display>(xs: &[T]) -> String {
    if xs.is_empty() {
        "-".into()
    } else {
        xs.iter().map(|x| x.to_string()).collect::<Vec<_>>().join("+")
    }
}

/// see `sig_map`
static EMPTY_ZERO: std::sync::atomic::AtomicBool = std::sync::atomic::AtomicBool::new(false);

struct Sim {
    e: Env,
    acct: Address,
    dels: Vec<Address>,
    vers: Vec<Address>,
    pols: Vec<Address>,
    tgts: Vec<Address>,
    now: u32,
    adds: u32, // number of accepted add_context_rule calls (= next id)
    nonce: i64,
    max_ttl: u32,
}

fn all_types() -> Vec<Ty> {
    let mut v = vec![Ty::D];
    for i in 0..NT {
        v.push(Ty::C(i));
    }
    for i in 0..NT {
        v.push(Ty::K(i));
    }
    v
}

impl Sim {
    /// The account is constructed with one Default rule (id 0) made of `s0` / `p0`.
    fn new(start: u32, s0: &[Sg], p0: &[usize]) -> Option<Sim> {
        Self::new_with(start, s0, p0, MAX_TTL)
    }
    fn new_with(start: u32, s0: &[Sg], p0: &[usize], max_ttl: u32) -> Option<Sim> {
        let e = new_env(start, 16, max_ttl);
        let dels: Vec<Address> = (0..ND).map(|_| <Address as soroban_sdk::testutils::Address>::generate(&e)).collect();
        let mut vers: Vec<Address> = (0..NV - 1).map(|_| e.register(MockVerifier, ())).collect();
        vers.push(<Address as soroban_sdk::testutils::Address>::generate(&e));
        // policies sorted in host order so that index order = Map<Address, _> key order
        let mut m: Map<Address, u32> = Map::new(&e);
        for _ in 0..NP {
            m.set(e.register(MockPolicy, ()), 0);
        }
        let pols: Vec<Address> = m.keys().iter().collect();
        let tgts: Vec<Address> = (0..NT).map(|_| e.register(Target, ())).collect();
        let mut sim = Sim { e, acct: dels[0].clone(), dels, vers, pols, tgts, now: start, adds: 0, nonce: 1000, max_ttl };
        let signers = sim.signers_vec(s0);
        let policies = sim.policy_map(p0);
        e_mock_all(&sim.e);
        let e2 = sim.e.clone();
        let r = catch(move || e2.register(account::MultisigContract, (signers, policies)));
        take_log();
        match r {
            Some(a) => {
                sim.acct = a;
                sim.adds = 1;
                Some(sim)
            }
            None => None,
        }
    }
    fn signer(&self, s: Sg) -> Signer {
        match s {
            Sg::D(a) => Signer::Delegated(self.dels[a].clone()),
            Sg::X(v, k) => Signer::External(self.vers[v].clone(), Bytes::from_array(&self.e, &[k as u8])),
        }
    }
    fn signers_vec(&self, s: &[Sg]) -> SVec<Signer> {
        let mut v = SVec::new(&self.e);
        for x in s {
            v.push_back(self.signer(*x));
        }
        v
    }
    fn policy_map(&self, p: &[usize]) -> Map<Address, Val> {
        let mut m: Map<Address, Val> = Map::new(&self.e);
        for i in p {
            m.set(self.pols[*i].clone(), 0u32.into_val(&self.e));
        }
        m
    }
    fn ty(&self, t: Ty) -> ContextRuleType {
        match t {
            Ty::D => ContextRuleType::Default,
            Ty::C(a) => ContextRuleType::CallContract(self.tgts[a].clone()),
            Ty::K(h) => ContextRuleType::CreateContract(BytesN::from_array(&self.e, &[h as u8 + 1; 32])),
        }
    }
    fn ctx(&self, c: Cx) -> Context {
        let e = &self.e;
        match c {
            Cx::C(a, t) => Context::Contract(ContractContext {
                contract: self.tgts[a].clone(),
                fn_name: Symbol::new(e, &format!("f{}", t)),
                args: SVec::from_array(e, [(t as u32).into_val(e)]),
            }),
            Cx::K(h, 0) => Context::CreateContractHostFn(CreateContractHostFnContext {
                executable: ContractExecutable::Wasm(BytesN::from_array(e, &[h as u8 + 1; 32])),
                salt: BytesN::from_array(e, &[9u8; 32]),
            }),
            Cx::K(h, _) => Context::CreateContractWithCtorHostFn(CreateContractWithConstructorHostFnContext {
                executable: ContractExecutable::Wasm(BytesN::from_array(e, &[h as u8 + 1; 32])),
                salt: BytesN::from_array(e, &[9u8; 32]),
                constructor_args: SVec::from_array(e, [7u32.into_val(e)]),
            }),
        }
    }
    // ---- plain -> universe names
    fn n_addr(&self, a: &xdr::ScAddress, set: &[Address]) -> Option<usize> {
        set.iter().position(|x| &sc_address(x) == a)
    }
    fn n_signer(&self, s: &PSigner) -> String {
        match s {
            PSigner::D(a) => self.n_addr(a, &self.dels).map(|i| format!("d{}", i)).unwrap_or("d?".into()),
            PSigner::X(v, k) => format!(
                "x{}.{}",
                self.n_addr(v, &self.vers).map(|i| i.to_string()).unwrap_or("?".into()),
                if k.len() == 1 { k[0].to_string() } else { "?".into() }
            ),
        }
    }
    fn n_pol(&self, a: &xdr::ScAddress) -> String {
        self.n_addr(a, &self.pols).map(|i| i.to_string()).unwrap_or("?".into())
    }
    fn n_hash(h: &[u8; 32]) -> String {
        if h.iter().all(|b| *b == h[0]) && h[0] >= 1 {
            (h[0] - 1).to_string()
        } else {
            "?".into()
        }
    }
    fn n_type(&self, t: &PType) -> String {
        match t {
            PType::Default => "D".into(),
            PType::Call(a) => format!("C{}", self.n_addr(a, &self.tgts).map(|i| i.to_string()).unwrap_or("?".into())),
            PType::Create(h) => format!("K{}", Self::n_hash(h)),
        }
    }
    fn n_ctx(&self, c: &PCtx) -> String {
        match c {
            PCtx::Call(a, f) => format!(
                "C{}.{}",
                self.n_addr(a, &self.tgts).map(|i| i.to_string()).unwrap_or("?".into()),
                f.strip_prefix('f').unwrap_or("?")
            ),
            PCtx::Create(h, ctor) => format!("K{}.{}", Self::n_hash(h), if *ctor { 1 } else { 0 }),
        }
    }
    /// `id~vu~signers~policies`
    fn n_rule(&self, r: &PRule) -> String {
        format!(
            "{}~{}~{}~{}",
            r.id,
            r.vu.map(|x| x.to_string()).unwrap_or("-".into()),
            plus(&r.signers.iter().map(|s| self.n_signer(s)).collect::<Vec<_>>()),
            plus(&r.policies.iter().map(|p| self.n_pol(p)).collect::<Vec<_>>())
        )
    }
    // ---- getters
    fn rule_by_id(&self, id: u32) -> Option<PRule> {
        let r: Option<ContextRule> = query(&self.e, &self.acct, "get_context_rule", args(&self.e, [v(&self.e, id)]));
        r.map(|r| prule(&r))
    }
    /// `None` = the getter itself trapped (an id list naming a rule that does not exist)
    fn rules_of(&self, t: Ty) -> Option<Vec<PRule>> {
        let r: Option<SVec<ContextRule>> = query(&self.e, &self.acct, "get_context_rules", args(&self.e, [v(&self.e, self.ty(t))]));
        r.map(|r| r.iter().map(|r| prule(&r)).collect())
    }
    fn state(&self) -> String {
        unlimited(&self.e);
        let cnt: u32 = query(&self.e, &self.acct, "get_context_rules_count", args(&self.e, [])).unwrap_or(u32::MAX);
        let mut parts = vec![];
        for t in all_types() {
            let rs = match self.rules_of(t) {
                Some(rs) => rs,
                None => {
                    parts.push(format!("{}:?", t));
                    continue;
                }
            };
            let body = if rs.is_empty() { "-".to_string() } else { rs.iter().map(|r| self.n_rule(r)).collect::<Vec<_>>().join(",") };
            // a rule listed under a type it does not carry would show here
            let wrong = rs.iter().any(|r| self.n_type(&r.ty) != t.to_string());
            parts.push(format!("{}:{}{}", t, body, if wrong { "!" } else { "" }));
        }
        let mut ids = vec![];
        for id in 0..self.adds + 2 {
            if let Some(r) = self.rule_by_id(id) {
                ids.push(format!("{}{}", id, self.n_type(&r.ty)));
            }
        }
        take_log();
        format!("cnt={} ids={} {}", cnt, join(&ids), parts.join("|"))
    }
    /// render the call log; a rule handed to a policy that differs from the stored one is flagged `!`
    fn render_log(&self, evs: &[Ev]) -> String {
        let mut out = vec![];
        for ev in evs {
            match ev {
                Ev::Verify { v, key, sig } => out.push(format!(
                    "v{}.{}.{}",
                    self.n_addr(v, &self.vers).map(|i| i.to_string()).unwrap_or("?".into()),
                    if key.len() == 1 { key[0].to_string() } else { "?".into() },
                    if sig.len() == 1 { sig[0].to_string() } else if sig.is_empty() { "0".into() } else { "?".into() }
                )),
                Ev::Can { p, ctx, signers, rule, acct } | Ev::Enforce { p, ctx, signers, rule, acct } => {
                    let tag = if matches!(ev, Ev::Can { .. }) { "c" } else { "e" };
                    let stored = self.rule_by_id(rule.id);
                    let bad = stored.as_ref() != Some(rule) || acct != &sc_address(&self.acct);
                    out.push(format!(
                        "{}{}/{}/{}/{}{}",
                        tag,
                        self.n_pol(p),
                        rule.id,
                        self.n_ctx(ctx),
                        plus(&signers.iter().map(|s| self.n_signer(s)).collect::<Vec<_>>()),
                        if bad { "!" } else { "" }
                    ));
                }
                Ev::Install { p, rule } => out.push(format!("i{}/{}", self.n_pol(p), rule.id)),
                Ev::Uninstall { p, rule } => out.push(format!("u{}/{}", self.n_pol(p), rule.id)),
                Ev::NoAuth => out.push("!noauth".into()),
                Ev::Hit { t, f } => out.push(format!("h{}.{}", self.n_addr(t, &self.tgts).map(|i| i.to_string()).unwrap_or("?".into()), f)),
            }
        }
        take_log();
        if out.is_empty() {
            "-".into()
        } else {
            out.join(";")
        }
    }
    fn finish_op(&mut self, t: &mut Trace, ok: bool, id: Option<u32>, evs: Vec<Ev>, show_log_on_err: bool) {
        let lg = if ok || show_log_on_err { self.render_log(&evs) } else { "-".into() };
        let st = self.state();
        t.obs(&format!(
            "{} id={} now={} log={} {}",
            if ok { "ok" } else { "err" },
            id.map(|x| x.to_string()).unwrap_or("-".into()),
            self.now,
            lg,
            st
        ));
    }
    /// management call on the account (its own `require_auth` is satisfied in recording mode)
    fn mgmt(&mut self, t: &mut Trace, line: String, func: &str, argv: SVec<Val>, returns_rule: bool) -> bool {
        t.op(&line);
        take_log();
        unlimited(&self.e);
        let r = call_all_auth(&self.e, &self.acct, func, argv);
        let evs = take_log();
        let ok = r.is_some();
        // the account must have demanded its own authorization
        let self_auth = ok && self.e.auths().iter().any(|(a, _)| a == &self.acct);
        let id = match (&r, returns_rule) {
            (Some(val), true) => ContextRule::try_from_val(&self.e, val).ok().map(|r| r.id),
            _ => None,
        };
        if ok && func == "add_context_rule" {
            self.adds += 1;
        }
        // an accepted management call that never demanded the account's own authorization is flagged
        let mut evs = evs;
        if ok && !self_auth {
            evs.push(Ev::NoAuth);
        }
        self.finish_op(t, ok, id, evs, false);
        ok
    }
    fn add(&mut self, t: &mut Trace, ty: Ty, vu: Option<u32>, s: &[Sg], p: &[usize], name: u32) -> bool {
        let e = self.e.clone();
        let argv = args(
            &e,
            [
                v(&e, self.ty(ty)),
                v(&e, SString::from_str(&e, &format!("n{}", name))),
                v(&e, vu),
                v(&e, self.signers_vec(s)),
                v(&e, self.policy_map(p)),
            ],
        );
        let line = format!("sa add t={} vu={} s={} p={}", ty, vu.map(|x| x.to_string()).unwrap_or("-".into()), plus(s), plus(p));
        self.mgmt(t, line, "add_context_rule", argv, true)
    }
    fn rm(&mut self, t: &mut Trace, id: u32) -> bool {
        let e = self.e.clone();
        self.mgmt(t, format!("sa rm id={}", id), "remove_context_rule", args(&e, [v(&e, id)]), false)
    }
    fn set_vu(&mut self, t: &mut Trace, id: u32, vu: Option<u32>) -> bool {
        let e = self.e.clone();
        self.mgmt(
            t,
            format!("sa vu id={} vu={}", id, vu.map(|x| x.to_string()).unwrap_or("-".into())),
            "update_context_rule_valid_until",
            args(&e, [v(&e, id), v(&e, vu)]),
            true,
        )
    }
    fn set_name(&mut self, t: &mut Trace, id: u32, name: u32) -> bool {
        let e = self.e.clone();
        self.mgmt(
            t,
            format!("sa name id={}", id),
            "update_context_rule_name",
            args(&e, [v(&e, id), v(&e, SString::from_str(&e, &format!("m{}", name)))]),
            true,
        )
    }
    fn add_signer(&mut self, t: &mut Trace, id: u32, s: Sg) -> bool {
        let e = self.e.clone();
        self.mgmt(t, format!("sa adds id={} s={}", id, s), "add_signer", args(&e, [v(&e, id), v(&e, self.signer(s))]), false)
    }
    fn rm_signer(&mut self, t: &mut Trace, id: u32, s: Sg) -> bool {
        let e = self.e.clone();
        self.mgmt(t, format!("sa rms id={} s={}", id, s), "remove_signer", args(&e, [v(&e, id), v(&e, self.signer(s))]), false)
    }
    fn add_policy(&mut self, t: &mut Trace, id: u32, p: usize) -> bool {
        let e = self.e.clone();
        self.mgmt(
            t,
            format!("sa addp id={} p={}", id, p),
            "add_policy",
            args(&e, [v(&e, id), v(&e, self.pols[p].clone()), 0u32.into_val(&e)]),
            false,
        )
    }
    fn rm_policy(&mut self, t: &mut Trace, id: u32, p: usize) -> bool {
        let e = self.e.clone();
        self.mgmt(t, format!("sa rmp id={} p={}", id, p), "remove_policy", args(&e, [v(&e, id), v(&e, self.pols[p].clone())]), false)
    }
    // ---- oracle setters
    fn setter(&mut self, t: &mut Trace, line: String, c: Address, func: &str, argv: SVec<Val>) {
        t.op(&line);
        let r = call_all_auth(&self.e, &c, func, argv);
        assert!(r.is_some(), "setter failed: {}", line);
        take_log();
        self.finish_op(t, true, None, vec![], false);
    }
    fn vset(&mut self, t: &mut Trace, vi: usize, k: usize, mode: u32) {
        let e = self.e.clone();
        let c = self.vers[vi].clone();
        self.setter(t, format!("sa vset v={} k={} mode={}", vi, k, mode), c, "set_mode", args(&e, [v(&e, Bytes::from_array(&e, &[k as u8])), v(&e, mode)]));
    }
    fn pset(&mut self, t: &mut Trace, p: usize, what: &str, a: u32, b: u32) {
        let e = self.e.clone();
        let c = self.pols[p].clone();
        let (line, func, argv): (String, &str, SVec<Val>) = match what {
            "thr" => (format!("sa pset p={} thr={}:{}", p, a, b), "set_thr", args(&e, [v(&e, a), v(&e, b)])),
            "dflt" => (format!("sa pset p={} dflt={}", p, a), "set_dflt", args(&e, [v(&e, a)])),
            "denyfn" => (format!("sa pset p={} denyfn={}:{}", p, a, b), "set_denyfn", args(&e, [v(&e, Symbol::new(&e, &format!("f{}", a))), v(&e, b != 0)])),
            "denycreate" => (format!("sa pset p={} denycreate={}", p, a), "set_denycreate", args(&e, [v(&e, a != 0)])),
            "budget" => (format!("sa pset p={} budget={}", p, a), "set_budget", args(&e, [v(&e, Some(a))])),
            "nobudget" => (format!("sa pset p={} budget=-", p), "set_budget", args(&e, [v(&e, None::<u32>)])),
            "install" => (format!("sa pset p={} install={}", p, a), "set_install_trap", args(&e, [v(&e, a != 0)])),
            "uninst" => (format!("sa pset p={} uninst={}", p, a), "set_uninstall_trap", args(&e, [v(&e, a != 0)])),
            _ => unreachable!(),
        };
        self.setter(t, line, c, func, argv);
    }
    fn ledger(&mut self, t: &mut Trace, seq: u32) {
        self.now = seq;
        set_ledger(&self.e, seq, 16, self.max_ttl);
        t.op(&format!("sa ledger seq={}", seq));
        self.finish_op(t, true, None, vec![], false);
    }
    /// signature map in MAP ORDER (the order `authenticate` iterates in)
    fn sig_map(&self, sigs: &[(Sg, u8)]) -> (Map<Signer, Bytes>, Vec<(Sg, u8)>) {
        let mut m: Map<Signer, Bytes> = Map::new(&self.e);
        for (s, g) in sigs {
            // a refusing signature (byte 0) is presented as EMPTY signature bytes in every other sequence: to the mock
            // verifier (and to the model) the two are the same refusal; an authenticate that does not even call the
            // verifier for an empty signature is not (seed C03-r11-1)
            if *g == 0 && EMPTY_ZERO.load(std::sync::atomic::Ordering::Relaxed) {
                m.set(self.signer(*s), Bytes::new(&self.e));
            } else {
                m.set(self.signer(*s), Bytes::from_array(&self.e, &[*g]));
            }
        }
        let mut ordered = vec![];
        for (k, val) in m.iter() {
            let ps = psigner(&k);
            let sg = self.sg_of(&ps).expect("signer of the universe");
            ordered.push((sg, val.get(0).unwrap_or(0)));
        }
        (m, ordered)
    }
    fn sg_of(&self, s: &PSigner) -> Option<Sg> {
        match s {
            PSigner::D(a) => self.n_addr(a, &self.dels).map(Sg::D),
            PSigner::X(vv, k) => self.n_addr(vv, &self.vers).map(|i| Sg::X(i, k[0] as usize)),
        }
    }
    fn sigs_str(ordered: &[(Sg, u8)]) -> String {
        if ordered.is_empty() {
            "-".into()
        } else {
            ordered.iter().map(|(s, g)| format!("{}:{}", s, g)).collect::<Vec<_>>().join(",")
        }
    }
    /// direct `__check_auth` with a crafted payload; `auth` = delegated addresses whose own
    /// authorization of `__check_auth(payload)` is available
    fn check(&mut self, t: &mut Trace, sigs: &[(Sg, u8)], auth: &[usize], ctxs: &[Cx]) -> bool {
        let e = self.e.clone();
        let (m, ordered) = self.sig_map(sigs);
        let mut cv: SVec<Context> = SVec::new(&e);
        for c in ctxs {
            cv.push_back(self.ctx(*c));
        }
        t.op(&format!("sa check sigs={} auth={} ctx={}", Self::sigs_str(&ordered), join(auth), join(ctxs)));
        let payload = BytesN::from_array(&e, &[0x5a; 32]);
        let inv_args: SVec<Val> = SVec::from_array(&e, [payload.to_val()]);
        let invoke = soroban_sdk::testutils::MockAuthInvoke { contract: &self.acct, fn_name: "__check_auth", args: inv_args, sub_invokes: &[] };
        let mocks: Vec<soroban_sdk::testutils::MockAuth> =
            auth.iter().map(|i| soroban_sdk::testutils::MockAuth { address: &self.dels[*i], invoke: &invoke }).collect();
        e.mock_auths(&mocks);
        take_log();
        unlimited(&e);
        let sig_val: Val = Signatures(m).into_val(&e);
        let r = if std::env::var("C03_NOCATCH").is_ok() {
            Some(e.try_invoke_contract_check_auth::<SmartAccountError>(&self.acct, &payload, sig_val, &cv))
        } else {
            catch(|| e.try_invoke_contract_check_auth::<SmartAccountError>(&self.acct, &payload, sig_val, &cv))
        };
        let ok = matches!(r, Some(Ok(())));
        if std::env::var("C03_DEBUG").is_ok() && !ok {
            eprintln!("check failed: {:?}", r);
        }
        let evs = take_log();
        self.finish_op(t, ok, None, evs, true);
        ok
    }
    /// end-to-end: `targets[root].f0(account, subs)` authorized by a real authorization entry of
    /// the account carrying the signature map; the host itself calls `__check_auth` with the
    /// contexts root, subs...
    fn e2e(&mut self, t: &mut Trace, sigs: &[(Sg, u8)], root: usize, subs: &[usize]) -> bool {
        let e = self.e.clone();
        let (m, ordered) = self.sig_map(sigs);
        let mut ctxs = vec![Cx::C(root, 0)];
        for s in subs {
            ctxs.push(Cx::C(*s, 1));
        }
        t.op(&format!("sa e2e sigs={} auth=- ctx={}", Self::sigs_str(&ordered), join(&ctxs)));
        let mut subs_v: SVec<Address> = SVec::new(&e);
        for s in subs {
            subs_v.push_back(self.tgts[*s].clone());
        }
        let root_args: SVec<Val> = SVec::from_array(&e, [self.acct.to_val(), subs_v.to_val()]);
        let sc_args = |a: &SVec<Val>| -> xdr::VecM<xdr::ScVal> {
            let vv: Vec<xdr::ScVal> = a.iter().map(|x| xdr::ScVal::try_from_val(&e, &x).unwrap()).collect();
            vv.try_into().unwrap()
        };
        let sub_invs: Vec<xdr::SorobanAuthorizedInvocation> = subs
            .iter()
            .map(|s| xdr::SorobanAuthorizedInvocation {
                function: xdr::SorobanAuthorizedFunction::ContractFn(xdr::InvokeContractArgs {
                    contract_address: sc_address(&self.tgts[*s]),
                    function_name: "f1".try_into().unwrap(),
                    args: sc_args(&SVec::from_array(&e, [self.acct.to_val()])),
                }),
                sub_invocations: xdr::VecM::default(),
            })
            .collect();
        self.nonce += 1;
        let sig_val: Val = Signatures(m).into_val(&e);
        let entry = xdr::SorobanAuthorizationEntry {
            credentials: xdr::SorobanCredentials::Address(xdr::SorobanAddressCredentials {
                address: sc_address(&self.acct),
                nonce: self.nonce,
                signature_expiration_ledger: self.now + 50,
                signature: xdr::ScVal::try_from_val(&e, &sig_val).unwrap(),
            }),
            root_invocation: xdr::SorobanAuthorizedInvocation {
                function: xdr::SorobanAuthorizedFunction::ContractFn(xdr::InvokeContractArgs {
                    contract_address: sc_address(&self.tgts[root]),
                    function_name: "f0".try_into().unwrap(),
                    args: sc_args(&root_args),
                }),
                sub_invocations: sub_invs.try_into().unwrap(),
            },
        };
        e.set_auths(&[entry]);
        take_log();
        unlimited(&e);
        let tgt = self.tgts[root].clone();
        let r = catch(|| e.try_invoke_contract::<Val, soroban_sdk::Error>(&tgt, &Symbol::new(&e, "f0"), root_args));
        let ok = matches!(r, Some(Ok(Ok(_))));
        let evs = take_log();
        // the hits of the target are part of the end-to-end observation: on success every level ran
        let hits = evs.iter().filter(|x| matches!(x, Ev::Hit { .. })).count();
        let evs: Vec<Ev> = evs.into_iter().filter(|x| !matches!(x, Ev::Hit { .. })).collect();
        let ok_full = ok && hits == 1 + subs.len();
        if ok != ok_full {
            t.count("e2e_partial");
        }
        self.finish_op(t, ok_full, None, evs, true);
        ok
    }
}

fn unlimited(e: &Env) {
    e.cost_estimate().budget().reset_unlimited();
}

fn e_mock_all(e: &Env) {
    unlimited(e);
    e.mock_all_auths_allowing_non_root_auth();
}

// ------------------------------------------------------------------------------------------
// ghost view used only by the GENERATOR to aim at interesting inputs (never printed)
// ------------------------------------------------------------------------------------------
#[derive(Clone, Debug)]
struct GRule {
    id: u32,
    ty: Ty,
    vu: Option<u32>,
    signers: Vec<Sg>,
    policies: Vec<usize>,
}

struct Gen {
    rules: Vec<GRule>,
}

impl Gen {
    fn refresh(&mut self, s: &Sim) {
        self.rules.clear();
        for t in all_types() {
            for r in s.rules_of(t).unwrap_or_default() {
                self.rules.push(GRule {
                    id: r.id,
                    ty: t,
                    vu: r.vu,
                    signers: r.signers.iter().filter_map(|x| s.sg_of(x)).collect(),
                    policies: r.policies.iter().filter_map(|p| s.n_addr(p, &s.pols)).collect(),
                });
            }
        }
        take_log();
    }
}

fn rand_signer(rng: &mut Rng) -> Sg {
    if rng.chance(35) {
        Sg::D(rng.below(ND as u64) as usize)
    } else {
        // verifier 2 (no contract) is rare
        let v = if rng.chance(8) { 2 } else { rng.below(2) as usize };
        Sg::X(v, rng.below(NK as u64) as usize)
    }
}

fn rand_signers(rng: &mut Rng, n: usize) -> Vec<Sg> {
    let mut v: Vec<Sg> = vec![];
    let mut guard = 0;
    while v.len() < n && guard < 200 {
        guard += 1;
        let s = rand_signer(rng);
        if !v.contains(&s) {
            v.push(s);
        }
    }
    v
}

fn all_signers() -> Vec<Sg> {
    let mut v = vec![];
    for a in 0..ND {
        v.push(Sg::D(a));
    }
    for vi in 0..NV {
        for k in 0..NK {
            v.push(Sg::X(vi, k));
        }
    }
    v
}

fn rand_type(rng: &mut Rng) -> Ty {
    match rng.below(10) {
        0..=2 => Ty::D,
        3..=6 => Ty::C(rng.below(NT as u64) as usize),
        _ => Ty::K(rng.below(NT as u64) as usize),
    }
}

fn rand_ctx(rng: &mut Rng) -> Cx {
    if rng.chance(60) {
        Cx::C(rng.below(NT as u64) as usize, rng.below(3) as usize)
    } else {
        Cx::K(rng.below(NT as u64) as usize, rng.below(2) as usize)
    }
}

fn rand_vu(rng: &mut Rng, now: u32) -> Option<u32> {
    match rng.below(10) {
        0..=3 => None,
        4 => Some(now),
        5 => Some(now + 1),
        6 => Some(now.saturating_sub(1)),
        7 => Some(now + 2),
        _ => Some(now + rng.below(12) as u32),
    }
}

fn gen_check(rng: &mut Rng, s: &mut Sim, g: &Gen, t: &mut Trace, e2e: bool) {
    // contexts: aim at types that have rules
    let nctx = if e2e { 1 + rng.below(3) as usize } else { *rng.pick(&[0usize, 1, 1, 1, 2, 2, 3, 4]) };
    let mut ctxs: Vec<Cx> = vec![];
    for _ in 0..nctx {
        let c = if !g.rules.is_empty() && rng.chance(65) {
            match rng.pick(&g.rules).ty {
                Ty::C(a) => Cx::C(a, rng.below(3) as usize),
                Ty::K(h) if !e2e => Cx::K(h, rng.below(2) as usize),
                _ => rand_ctx(rng),
            }
        } else {
            rand_ctx(rng)
        };
        ctxs.push(c);
    }
    // signers: union of the signers of some rules applicable to the contexts (so that
    // duplicates across rules occur), sometimes with one missing, plus strangers
    let mut chosen: Vec<Sg> = vec![];
    let applicable: Vec<&GRule> = g
        .rules
        .iter()
        .filter(|r| {
            r.ty == Ty::D
                || ctxs.iter().any(|c| match (c, r.ty) {
                    (Cx::C(a, _), Ty::C(b)) => *a == b,
                    (Cx::K(a, _), Ty::K(b)) => *a == b,
                    _ => false,
                })
        })
        .collect();
    let nrules = rng.below(4) as usize;
    for _ in 0..nrules {
        let pool: &[&GRule] = if !applicable.is_empty() && rng.chance(85) { &applicable } else { &[] };
        let r: Option<&GRule> = if !pool.is_empty() {
            Some(*rng.pick(pool))
        } else if !g.rules.is_empty() {
            Some(rng.pick(&g.rules))
        } else {
            None
        };
        if let Some(r) = r {
            let drop_one = rng.chance(25) && !r.signers.is_empty();
            let skip = if drop_one { rng.below(r.signers.len() as u64) as usize } else { usize::MAX };
            for (i, sg) in r.signers.iter().enumerate() {
                if i != skip && !chosen.contains(sg) {
                    chosen.push(*sg);
                }
            }
        }
    }
    if rng.chance(30) {
        let extra = 1 + rng.below(2) as usize;
        for sg in rand_signers(rng, extra) {
            if !chosen.contains(&sg) {
                chosen.push(sg);
            }
        }
    }
    let sigs: Vec<(Sg, u8)> = chosen
        .iter()
        .map(|sg| {
            let good = rng.chance(93);
            (*sg, if good { 1 } else if rng.chance(70) { 0 } else { 2 })
        })
        .collect();
    if e2e {
        let (root, subs) = {
            let idx = |c: &Cx| match c {
                Cx::C(a, _) => *a,
                Cx::K(a, _) => *a,
            };
            let root = idx(&ctxs[0]);
            // a contract cannot re-enter itself: sub-invocations go to the other targets
            (root, ctxs[1..].iter().map(idx).map(|x| if x == root { (x + 1) % NT } else { x }).collect::<Vec<_>>())
        };
        // delegated signers cannot authorize inside a real authorization entry here: mostly leave them out
        let sigs: Vec<(Sg, u8)> = if rng.chance(90) { sigs.into_iter().filter(|(s, _)| matches!(s, Sg::X(v, _) if *v < 2)).collect() } else { sigs };
        s.e2e(t, &sigs, root, &subs);
    } else {
        let mut auth: Vec<usize> = vec![];
        for sg in &chosen {
            if let Sg::D(a) = sg {
                if rng.chance(90) {
                    auth.push(*a);
                }
            }
        }
        if rng.chance(10) {
            auth.push(rng.below(ND as u64) as usize);
        }
        auth.sort();
        auth.dedup();
        s.check(t, &sigs, &auth, &ctxs);
    }
}

fn gen_seq(rng: &mut Rng, t: &mut Trace, k: u64, seed: u64, len: u64) {
    let start = *rng.pick(&[5u32, 100, 4000]);
    let n0 = 1 + rng.below(3) as usize;
    let s0 = rand_signers(rng, n0);
    let p0: Vec<usize> = if rng.chance(30) { vec![rng.below(NP as u64) as usize] } else { vec![] };
    let mut s = match Sim::new(start, &s0, &p0) {
        Some(s) => s,
        None => return,
    };
    EMPTY_ZERO.store(k % 2 == 1, std::sync::atomic::Ordering::Relaxed);
    t.seq(&format!("rand k={} seed={} start={} s0={} p0={}", k, seed, start, plus(&s0), plus(&p0)));
    let mut g = Gen { rules: vec![] };
    g.refresh(&s);
    let fill = rng.chance(12); // aim at the limits in some sequences
    let mut marks: Vec<u32> = vec![];
    for _ in 0..len {
        let r = rng.below(100);
        let ids: Vec<u32> = g.rules.iter().map(|r| r.id).collect();
        let pick_id = |rng: &mut Rng| -> u32 {
            if !ids.is_empty() && rng.chance(88) {
                *rng.pick(&ids)
            } else {
                rng.below(s.adds as u64 + 2) as u32
            }
        };
        if r < 34 {
            gen_check(rng, &mut s, &g, t, false);
            continue;
        } else if r < 38 {
            gen_check(rng, &mut s, &g, t, true);
            continue;
        } else if r < 46 {
            // ledger: to valid_until-1 / = / +1 of some rule, never backwards
            let target = if !marks.is_empty() && rng.chance(75) {
                (*rng.pick(&marks) as i64 + rng.range(-1, 1)).max(s.now as i64) as u32
            } else {
                s.now + rng.below(3) as u32
            };
            if target < 100_000 {
                s.ledger(t, target);
            }
            continue;
        } else if r < 52 {
            let p = rng.below(NP as u64) as usize;
            match rng.below(9) {
                0 | 1 => {
                    let id = pick_id(rng);
                    s.pset(t, p, "thr", id, rng.below(4) as u32)
                }
                2 => s.pset(t, p, "dflt", rng.below(3) as u32, 0),
                3 => s.pset(t, p, "denyfn", rng.below(3) as u32, rng.below(2) as u32),
                4 => s.pset(t, p, "denycreate", rng.below(2) as u32, 0),
                5 => s.pset(t, p, "budget", rng.below(4) as u32, 0),
                6 => s.pset(t, p, "nobudget", 0, 0),
                7 => s.pset(t, p, "install", if rng.chance(30) { 1 } else { 0 }, 0),
                _ => s.pset(t, p, "uninst", rng.below(2) as u32, 0),
            }
            continue;
        } else if r < 55 {
            s.vset(t, rng.below(2) as usize, rng.below(NK as u64) as usize, *rng.pick(&[0u32, 0, 1, 2, 3]));
            continue;
        }
        // rule management
        let ok = if r < 70 || (fill && r < 85) {
            let ty = rand_type(rng);
            let ns = if fill && rng.chance(30) { 13 + rng.below(4) as usize } else { *rng.pick(&[0usize, 1, 1, 2, 2, 3, 4]) };
            let mut sg = if ns >= 13 { all_signers().into_iter().take(ns).collect() } else { rand_signers(rng, ns) };
            if rng.chance(4) && !sg.is_empty() {
                sg.push(sg[0]); // duplicate signer
            }
            let np = if fill && rng.chance(25) { 4 + rng.below(3) as usize } else { *rng.pick(&[0usize, 0, 0, 1, 1, 2, 3]) };
            let mut ps: Vec<usize> = vec![];
            while ps.len() < np {
                let p = rng.below(NP as u64) as usize;
                if !ps.contains(&p) {
                    ps.push(p);
                }
            }
            let vu = rand_vu(rng, s.now);
            if let Some(x) = vu {
                marks.push(x);
            }
            // sometimes an exact duplicate of an existing rule's requirements (fingerprint)
            if !g.rules.is_empty() && rng.chance(6) {
                let r0 = rng.pick(&g.rules).clone();
                s.add(t, r0.ty, vu, &r0.signers, &r0.policies, 1)
            } else {
                s.add(t, ty, vu, &sg, &ps, rng.below(5) as u32)
            }
        } else if r < 76 {
            let id = pick_id(rng);
            s.rm(t, id)
        } else if r < 82 {
            let vu = rand_vu(rng, s.now);
            if let Some(x) = vu {
                marks.push(x);
            }
            let id = pick_id(rng);
            s.set_vu(t, id, vu)
        } else if r < 84 {
            let id = pick_id(rng);
            s.set_name(t, id, rng.below(5) as u32)
        } else if r < 90 {
            let id = pick_id(rng);
            s.add_signer(t, id, rand_signer(rng))
        } else if r < 94 {
            let id = pick_id(rng);
            let sg = match g.rules.iter().find(|x| x.id == id) {
                Some(r0) if !r0.signers.is_empty() && rng.chance(85) => *rng.pick(&r0.signers),
                _ => rand_signer(rng),
            };
            s.rm_signer(t, id, sg)
        } else if r < 97 {
            let id = pick_id(rng);
            s.add_policy(t, id, rng.below(NP as u64) as usize)
        } else {
            let id = pick_id(rng);
            let p = match g.rules.iter().find(|x| x.id == id) {
                Some(r0) if !r0.policies.is_empty() && rng.chance(85) => *rng.pick(&r0.policies),
                _ => rng.below(NP as u64) as usize,
            };
            s.rm_policy(t, id, p)
        };
        if ok {
            g.refresh(&s);
        }
    }
}


// ------------------------------------------------------------------------------------------
// "long idle" sequences: build a rule set, then let 1, 31 and 100 days pass WITHOUT touching the
// account, and look at every getter and at checks whose outcome depends on each stored rule.
// A rule-store entry kept in storage that expires (temporary + ~30 day extension) shows here.
// ------------------------------------------------------------------------------------------
fn probe_rules(rng: &mut Rng, s: &mut Sim, g: &Gen, t: &mut Trace) {
    let rules = g.rules.clone();
    for r in rules.iter() {
        let ctx = match r.ty {
            Ty::C(a) => Cx::C(a, rng.below(3) as usize),
            Ty::K(h) => Cx::K(h, rng.below(2) as usize),
            Ty::D => {
                // a context type without specific rules, if there is one, so that Default decides
                let free: Vec<Cx> = (0..NT)
                    .flat_map(|i| vec![Cx::C(i, 0), Cx::K(i, 0)])
                    .filter(|c| {
                        !rules.iter().any(|x| match (c, x.ty) {
                            (Cx::C(a, _), Ty::C(b)) => *a == b,
                            (Cx::K(a, _), Ty::K(b)) => *a == b,
                            _ => false,
                        })
                    })
                    .collect();
                if free.is_empty() {
                    rand_ctx(rng)
                } else {
                    *rng.pick(&free)
                }
            }
        };
        let sigs: Vec<(Sg, u8)> = r.signers.iter().map(|x| (*x, 1u8)).collect();
        let auth: Vec<usize> = {
            let mut a: Vec<usize> = r.signers.iter().filter_map(|x| if let Sg::D(i) = x { Some(*i) } else { None }).collect();
            a.sort();
            a.dedup();
            a
        };
        s.check(t, &sigs, &auth, &[ctx]);
        if !sigs.is_empty() && rng.chance(50) {
            let skip = rng.below(sigs.len() as u64) as usize;
            let fewer: Vec<(Sg, u8)> = sigs.iter().enumerate().filter(|(i, _)| *i != skip).map(|(_, x)| *x).collect();
            s.check(t, &fewer, &auth, &[ctx]);
        }
        if let (Ty::C(a), true) = (r.ty, rng.chance(30)) {
            let ext: Vec<(Sg, u8)> = sigs.iter().filter(|(x, _)| matches!(x, Sg::X(v, _) if *v < 2)).cloned().collect();
            s.e2e(t, &ext, a, &[(a + 1) % NT]);
        }
    }
}

fn idle_seq(rng: &mut Rng, t: &mut Trace, label: &str) {
    let start = *rng.pick(&[100u32, 4000]);
    let n0 = 1 + rng.below(2) as usize;
    let s0 = rand_signers(rng, n0);
    let mut s = match Sim::new_with(start, &s0, &[], LONG_TTL) {
        Some(s) => s,
        None => return,
    };
    t.seq(&format!("idle {} start={} maxttl={} s0={} p0=-", label, start, LONG_TTL, plus(&s0)));
    let mut g = Gen { rules: vec![] };
    // rule set: restrictive specific rules, plain specific rules, Default with policies; valid_until
    // absent, far in the future, inside the gaps, and exactly at / one before the ledgers visited
    let stops = [start + DAY, start + 32 * DAY, start + 132 * DAY];
    let vus: Vec<Option<u32>> = vec![
        None,
        None,
        Some(start + 200 * DAY),
        Some(start + 10 * DAY),
        Some(start + 50 * DAY),
        Some(stops[0]),
        Some(stops[1]),
        Some(stops[1] - 1),
        Some(stops[2]),
        Some(stops[2] - 1),
    ];
    let types = [Ty::C(0), Ty::C(0), Ty::D, Ty::K(0), Ty::C(1), Ty::D, Ty::K(1), Ty::C(0)];
    let n = 6 + rng.below(3) as usize;
    for i in 0..n {
        let ty = if rng.chance(75) { types[i % types.len()] } else { rand_type(rng) };
        let ns = 1 + rng.below(3) as usize;
        let sg = rand_signers(rng, ns);
        let np = *rng.pick(&[0usize, 0, 1, 1, 2]);
        let mut ps: Vec<usize> = vec![];
        while ps.len() < np {
            let p = rng.below(NP as u64) as usize;
            if !ps.contains(&p) {
                ps.push(p);
            }
        }
        let vu = *rng.pick(&vus);
        if s.add(t, ty, vu, &sg, &ps, 1) && !ps.is_empty() && rng.chance(50) {
            // make it restrictive: the policy wants every signer of the rule
            s.pset(t, ps[0], "thr", s.adds - 1, sg.len() as u32);
        }
    }
    g.refresh(&s);
    for _ in 0..2 {
        if let Some(r) = g.rules.get(rng.below(g.rules.len().max(1) as u64) as usize).cloned() {
            if rng.chance(50) {
                s.add_signer(t, r.id, rand_signer(rng));
            } else {
                s.add_policy(t, r.id, rng.below(NP as u64) as usize);
            }
        }
    }
    g.refresh(&s);
    probe_rules(rng, &mut s, &g, t);
    for stop in stops {
        // nothing touches the account while the ledger jumps
        s.ledger(t, stop);
        g.refresh(&s);
        probe_rules(rng, &mut s, &g, t);
        for _ in 0..3 {
            gen_check(rng, &mut s, &g, t, false);
        }
        // an exact duplicate of a stored rule's requirements must still be refused
        if !g.rules.is_empty() {
            let r0 = rng.pick(&g.rules).clone();
            s.add(t, r0.ty, None, &r0.signers, &r0.policies, 1);
        }
        // ids and the counter go on where they were
        let ns = 1 + rng.below(2) as usize;
        let sg = rand_signers(rng, ns);
        let (ty, vu) = (rand_type(rng), *rng.pick(&vus));
        s.add(t, ty, vu, &sg, &[], 1);
        g.refresh(&s);
        if g.rules.len() > 3 && rng.chance(60) {
            let id = rng.pick(&g.rules).id;
            s.rm(t, id);
        }
        if let Some(r) = g.rules.get(rng.below(g.rules.len().max(1) as u64) as usize).cloned() {
            s.add_signer(t, r.id, rand_signer(rng));
        }
        g.refresh(&s);
    }
}

// ------------------------------------------------------------------------------------------
// directed scenarios
// ------------------------------------------------------------------------------------------
fn directed(t: &mut Trace) {
    use Cx::*;
    use Sg::*;
    // precedence: newest first, specific before default; expiry boundary
    let mut s = Sim::new(100, &[D(0)], &[]).unwrap();
    EMPTY_ZERO.store(true, std::sync::atomic::Ordering::Relaxed);
    t.seq("directed precedence+expiry start=100 s0=d0 p0=-");
    s.check(t, &[(D(0), 1)], &[0], &[C(0, 0)]);
    s.check(t, &[(D(0), 1)], &[], &[C(0, 0)]);
    s.check(t, &[], &[], &[]);
    s.check(t, &[], &[], &[C(0, 0)]);
    s.add(t, Ty::C(0), Some(105), &[X(0, 0), X(0, 1)], &[], 1); // id 1
    s.add(t, Ty::C(0), None, &[X(0, 0)], &[1], 2); // id 2, policy 1
    s.add(t, Ty::D, None, &[X(0, 2)], &[0, 2], 3); // id 3
    s.pset(t, 1, "thr", 2, 1);
    s.check(t, &[(X(0, 0), 1)], &[], &[C(0, 0)]);
    s.check(t, &[(X(0, 0), 1), (X(0, 1), 1)], &[], &[C(0, 0)]);
    s.pset(t, 1, "thr", 2, 2);
    s.check(t, &[(X(0, 0), 1), (X(0, 1), 1)], &[], &[C(0, 0)]);
    s.check(t, &[(X(0, 0), 1), (X(0, 1), 0)], &[], &[C(0, 0)]);
    s.check(t, &[(X(0, 0), 1), (X(0, 1), 2)], &[], &[C(0, 0)]);
    s.check(t, &[(X(0, 0), 1), (X(0, 1), 1), (X(0, 2), 1)], &[], &[C(0, 0), C(1, 1), K(0, 0), K(0, 1)]);
    s.ledger(t, 104);
    s.check(t, &[(X(0, 0), 1), (X(0, 1), 1)], &[], &[C(0, 0)]);
    s.ledger(t, 105);
    s.check(t, &[(X(0, 0), 1), (X(0, 1), 1)], &[], &[C(0, 0)]);
    s.ledger(t, 106);
    s.check(t, &[(X(0, 0), 1), (X(0, 1), 1)], &[], &[C(0, 0)]);
    s.set_vu(t, 1, Some(105));
    s.set_vu(t, 1, Some(106));
    s.check(t, &[(X(0, 0), 1), (X(0, 1), 1)], &[], &[C(0, 0)]);
    // enforce budget: second context refused by the hook although can_enforce said yes
    s.pset(t, 0, "budget", 1, 0);
    s.check(t, &[(X(0, 2), 1)], &[], &[C(1, 0), C(2, 0)]);
    s.check(t, &[(X(0, 2), 1)], &[], &[C(1, 0)]);
    s.check(t, &[(X(0, 2), 1)], &[], &[C(1, 0)]);
    s.pset(t, 0, "nobudget", 0, 0);
    // foreign signers do not count: d1 is in no rule; x0.1 is not in rule 3
    s.pset(t, 0, "thr", 3, 2);
    s.check(t, &[(X(0, 2), 1), (X(0, 1), 1), (D(1), 1)], &[1], &[C(1, 0)]);
    s.pset(t, 0, "thr", 3, 1);
    s.check(t, &[(X(0, 2), 1), (X(0, 1), 1), (D(1), 1)], &[1], &[C(1, 0)]);
    s.pset(t, 2, "denyfn", 1, 1);
    s.check(t, &[(X(0, 2), 1)], &[], &[C(1, 1)]);
    s.check(t, &[(X(0, 2), 1)], &[], &[C(1, 2)]);
    s.pset(t, 2, "denycreate", 1, 0);
    s.check(t, &[(X(0, 2), 1)], &[], &[K(1, 0)]);
    // end to end
    s.e2e(t, &[(X(0, 2), 1)], 1, &[2]);
    s.e2e(t, &[(X(0, 2), 0)], 1, &[]);
    s.e2e(t, &[(X(0, 0), 1), (X(0, 1), 1)], 0, &[]);
    s.e2e(t, &[(X(0, 0), 1), (X(0, 1), 1)], 0, &[0, 1]);
    s.e2e(t, &[(X(0, 0), 1), (X(0, 1), 1), (X(0, 2), 1)], 0, &[0, 1]);
    s.e2e(t, &[(D(0), 1)], 2, &[]);
    s.pset(t, 2, "denyfn", 1, 0);
    s.e2e(t, &[(X(0, 0), 1), (X(0, 1), 1), (X(0, 2), 1)], 0, &[1, 2, 1]);
    s.pset(t, 2, "budget", 2, 0);
    s.e2e(t, &[(X(0, 2), 1)], 1, &[0, 2]);
    s.e2e(t, &[(X(0, 2), 1)], 1, &[0]);
    s.e2e(t, &[(X(0, 2), 1)], 1, &[0]);
    s.pset(t, 2, "nobudget", 0, 0);
    // management edge cases
    s.rm(t, 2);
    s.rm(t, 2);
    s.check(t, &[(X(0, 0), 1)], &[], &[C(0, 0)]);
    s.add_signer(t, 3, X(0, 2));
    s.add_signer(t, 3, X(1, 2));
    s.rm_signer(t, 3, X(0, 2));
    s.rm_signer(t, 3, X(0, 2));
    s.add_policy(t, 3, 0);
    s.add_policy(t, 3, 5);
    s.rm_policy(t, 3, 0);
    s.rm_policy(t, 3, 2);
    s.rm_policy(t, 3, 5);
    s.rm_signer(t, 0, D(0));
    s.add(t, Ty::D, None, &[D(0)], &[], 1);
    s.add(t, Ty::C(1), None, &[D(0)], &[], 1);
    s.add(t, Ty::C(1), None, &[D(0)], &[], 1);
    s.add(t, Ty::C(1), Some(105), &[D(1)], &[], 1);
    s.add(t, Ty::C(1), None, &[D(1), D(1)], &[], 1);
    s.add(t, Ty::C(1), None, &[], &[], 1);
    s.pset(t, 4, "install", 1, 0);
    s.add(t, Ty::C(1), None, &[], &[4], 1);
    s.add_policy(t, 3, 4);
    s.pset(t, 4, "install", 0, 0);
    s.pset(t, 4, "uninst", 1, 0);
    s.add(t, Ty::C(1), None, &[], &[4], 1);
    s.rm(t, 5);
    s.set_name(t, 3, 1);
    s.set_name(t, 9, 1);

    // limits: 15 rules, 15 signers, 5 policies
    let mut s = Sim::new(100, &[D(0)], &[]).unwrap();
    t.seq("directed limits start=100 s0=d0 p0=-");
    let alls = all_signers();
    s.add(t, Ty::C(0), None, &alls[..15], &[0, 1, 2, 3, 4], 1);
    s.add(t, Ty::C(0), None, &alls[..16], &[], 1);
    s.add(t, Ty::C(0), None, &alls[..1], &[0, 1, 2, 3, 4, 5], 1);
    s.add_signer(t, 1, alls[15]);
    s.add_policy(t, 1, 5);
    s.rm_signer(t, 1, alls[0]);
    s.add_signer(t, 1, alls[15]);
    s.rm_policy(t, 1, 0);
    s.add_policy(t, 1, 6);
    for i in 0..14usize {
        s.add(t, if i % 2 == 0 { Ty::C(1) } else { Ty::D }, None, &alls[i..i + 1], &[], 1);
    }
    s.check(t, &[(alls[4], 1)], &[0, 1, 2, 3], &[C(1, 0), C(2, 0)]);
    s.rm(t, 7);
    s.add(t, Ty::K(0), None, &alls[..2], &[], 1);
    s.add(t, Ty::K(0), None, &alls[..3], &[], 1);
    let all15: Vec<(Sg, u8)> = alls[1..16].iter().map(|x| (*x, 1u8)).collect();
    s.check(t, &all15, &[0, 1, 2, 3], &[C(0, 0)]);

    // MAX_SIGNERS is a limit PER RULE: one check over a batch of contexts may carry more signatures than
    // any single rule can list (here 16 = 8 + 8, all of them verifying, two contexts, two rules)
    t.seq("directed batch over two rules with 16 signers start=100 s0=d0 p0=-");
    let mut s = Sim::new(100, &[D(0)], &[]).unwrap();
    let valid: Vec<Sg> = alls.iter().copied().filter(|x| !matches!(x, X(2, _))).collect();
    assert!(valid.len() >= 16);
    s.add(t, Ty::C(1), None, &valid[..8], &[], 1);
    s.add(t, Ty::C(2), None, &valid[8..16], &[], 2);
    let all16: Vec<(Sg, u8)> = valid[..16].iter().map(|x| (*x, 1u8)).collect();
    s.check(t, &all16, &[0, 1, 2, 3], &[C(1, 0), C(2, 0)]);
    s.check(t, &all16[..15], &[0, 1, 2, 3], &[C(1, 0), C(2, 0)]);
    s.check(t, &all16[..8], &[0, 1, 2, 3], &[C(1, 0)]);
    s.check(t, &all16[8..], &[0, 1, 2, 3], &[C(2, 0)]);
}

fn main() {
    let mut t = Trace::from_args();
    let seed = seed_from_env();
    let thorough = arg_str("--tier").as_deref() == Some("thorough");
    let nseq = arg_u64("--seqs", if thorough { 400 } else { 140 });
    let len = arg_u64("--len", 40);
    let mut rng = Rng::new(seed);
    if !std::env::args().any(|a| a == "--no-directed") {
        directed(&mut t);
        let mut fixed = Rng::new(0xC03);
        idle_seq(&mut fixed, &mut t, "fixed");
    }
    let nidle = arg_u64("--idle", if thorough { 10 } else { 3 });
    for k in 0..nidle {
        idle_seq(&mut rng, &mut t, &format!("k={} seed={}", k, seed));
    }
    for k in 0..nseq {
        gen_seq(&mut rng, &mut t, k, seed, len);
    }
    t.finish();
}
